(* C15, store independence: the top-down model reads the data ONLY through pattern
   lookups on the active graph - [g_triples g s p o] in evalBGP (Graph.triples).  Here
   the evaluator is parametrised by that enumeration function, [En], and shown to be
   insensitive (up to the order of the solutions) to WHICH enumeration of the matching
   triples the store hands out, as long as each match comes once. *)
From RV Require Export Sparql.VariantProofs.
From RV Require Store.Model Store.SimpleProofs Store.MemProofs.
From RV Require Auditable.Model Auditable.OverStore Auditable.OverStoreProofs Auditable.OverMemory Auditable.OverMemoryProofs.
Local Open Scope N_scope.

Definition enum := graph -> option term -> option term -> option term -> list triple.

Section En.
Variable En : enum.

(* evalBGP *)
Fixpoint eval_bgp_en (g : graph) (c : sol) (ts : list tpat) : list sol :=
  match ts with
  | [] => [c]                                    (* ctx.solution() *)
  | (s, p, o) :: r =>
      let _s := ctx_get c s in
      let _p := ctx_get c p in
      let _o := ctx_get c o in
      flat_map (fun tr =>
        let '(ss, sp, so) := tr in
        (* c = ctx.push() or ctx: same bindings *)
        match (match _s with None => set_item c s ss | Some _ => Some c end) with
        | None => []
        | Some c1 =>
            match (match _p with None => set_item c1 p sp | Some _ => Some c1 end) with
            | None => []                          (* except AlreadyBound: continue *)
            | Some c2 =>
                match (match _o with None => set_item c2 o so | Some _ => Some c2 end) with
                | None => []
                | Some c3 => eval_bgp_en g c3 r
                end
            end
        end) (En g _s _p _o)
  end.


Fixpoint eval_td_en (ds : dataset) (g : graph) (c : sol) (p : alg) {struct p} : list sol :=
  match p with
  | BGP ts => eval_bgp_en g c (sort_ts c ts)
  | Join lz p1 p2 =>
      if lz then
        (* evalLazyJoin *)
        flat_map (fun a => map (fun b => merge b a) (eval_td_en ds g (thaw c a) p2)) (eval_td_en ds g c p1)
      else
        (* a = evalPart(ctx, p1); b = list(evalPart(ctx, p2)); _join(a, b)
           (a list since the repair 3512ad97; it was set(...), finding F-C04-3) *)
        join_lists (eval_td_en ds g c p1) (eval_td_en ds g c p2)
  | LeftJoin p1vars p1 p2 e =>
      flat_map (fun a =>
        let c' := thaw c a in
        match filter (fun b => ebv (expr_td_en ds g (forget b c None) b e)) (eval_td_en ds g c' p2) with
        | x :: r => map (fun b => merge b a) (x :: r)
        | [] =>
            match p1vars with
            | None => [a]
            | Some vs =>
                if existsb (fun b => ebv (expr_td_en ds g b b e))
                           (eval_td_en ds g (thaw c (remember a vs)) p2)
                then [] else [a]
            end
        end) (eval_td_en ds g c p1)
  | Filter nis fvars e q =>
      filter (fun s => ebv (expr_td_en ds g (if nis then s else forget s c fvars) s e)) (eval_td_en ds g c q)
  | Union p1 p2 => eval_td_en ds g c p1 ++ eval_td_en ds g c p2
  | Minus p1 p2 =>
      let B := dedup (eval_td_en ds g c p2) in
      filter (fun x => forallb (fun y => negb (compatible x y) || disjoint_dom x y) B) (eval_td_en ds g c p1)
  | Extend xvars q v e =>
      map (fun s => match expr_td_en ds g (forget s c xvars) s e with
                    | Some t => bind v t s          (* c.merge({var: e}) *)
                    | None => s
                    end) (eval_td_en ds g c q)
  | Values rows =>
      (* evalValues: push, set every column, AlreadyBound drops the row *)
      flat_map (fun r => if compatible r c then [merge c r] else []) rows
  | Project q vs => map (restrict (fun v => memv v vs)) (eval_td_en ds g c q)
  | Graph gt q =>
      match ctx_get c gt with
      | Some t =>
          (* commit a7157fc3: nothing unless the name is a graph of the dataset *)
          if existsb (fun ng => N.eqb (fst ng) t) (ds_named ds)
          then eval_td_en ds (named_graph (ds_named ds) t) c q else []
      | None =>
          match gt with
          | Vr v => flat_map (fun ng => join_lists (eval_td_en ds (snd ng) c q) [[(v, fst ng)]]) (ds_named ds)
          | Tm _ => []
          end
      end
  | Distinct q => dedup (eval_td_en ds g c q)
  | Slice n q => skipn (N.to_nat n) (eval_td_en ds g c q)     (* evalSlice: itertools.islice(res, start, None) *)
  end
(* Expr.eval: [m] is the solution the expression sees, [full] the bindings of
   the context the solution came from (m.ctx.bindings, approximated by the
   solution before forget) *)
with expr_td_en (ds : dataset) (g : graph) (m full : sol) (e : expr) {struct e} : option term :=
  match e with
  | EVar v => lookup v m
  | ECon t => Some t
  | ECmp op a b => cmp_lift (cmp_impl op) (expr_td_en ds g m full a) (expr_td_en ds g m full b)
  | EAnd a b => and3 (ebv_of (expr_td_en ds g m full a)) (ebv_of (expr_td_en ds g m full b))
  | EOr a b => or3 (ebv_of (expr_td_en ds g m full a)) (ebv_of (expr_td_en ds g m full b))
  | ENot a => not3 (ebv_of (expr_td_en ds g m full a))
  | EBound v => Some (t_bool (match lookup v m with Some _ => true | None => false end))
  | EExists pos p =>
      (* ctx = ctx.ctx.thaw(ctx); any solution of evalPart(ctx, graph) *)
      let found := match eval_td_en ds g (thaw full m) p with [] => false | _ => true end in
      Some (t_bool (Bool.eqb pos found))
  | EIn pos a cs =>
      (* RelationalExpression, op IN / NOT IN: "x == expr" over the list - Python term equality, never an error *)
      match expr_td_en ds g m full a with
      | None => None
      | Some t => Some (t_bool (Bool.eqb pos (existsb (N.eqb t) cs)))
      end
  | ECoalesce a b =>
      (* Builtin_COALESCE: the first argument that is not an error / unbound *)
      match expr_td_en ds g m full a with Some t => Some t | None => expr_td_en ds g m full b end
  | EIf c a b =>
      (* Builtin_IF: expr.arg2 if EBV(expr.arg1) else expr.arg3 - only the chosen branch is evaluated *)
      match ebv_of (expr_td_en ds g m full c) with
      | None => None
      | Some true => expr_td_en ds g m full a
      | Some false => expr_td_en ds g m full b
      end
  end.


End En.

(* where the order of the solutions is observable, the order of the store's enumeration is too:
   Slice (OFFSET) - excluded.  Everywhere else the model treats solutions as a multiset or a
   set (set(...) in evalMinus, evalDistinct; any(...) in EXISTS and OPTIONAL's second test). *)
Fixpoint no_slice (p : alg) : bool :=
  match p with
  | BGP _ | Values _ => true
  | Join _ a b | Union a b | Minus a b => no_slice a && no_slice b
  | LeftJoin _ a b e => no_slice a && no_slice b && no_slice_e e
  | Filter _ _ e q => no_slice_e e && no_slice q
  | Extend _ q _ e => no_slice q && no_slice_e e
  | Project q _ | Graph _ q | Distinct q => no_slice q
  | Slice _ _ => false
  end
with no_slice_e (e : expr) : bool :=
  match e with
  | EVar _ | ECon _ | EBound _ => true
  | ECmp _ a b | EAnd a b | EOr a b | ECoalesce a b => no_slice_e a && no_slice_e b
  | ENot a | EIn _ a _ => no_slice_e a
  | EIf c a b => no_slice_e c && no_slice_e a && no_slice_e b
  | EExists _ p => no_slice p
  end.

Lemma existsb_perm {A} (f : A -> bool) l l' : Permutation l l' -> existsb f l = existsb f l'.
Proof.
  induction 1; cbn; try congruence.
  destruct (f x), (f y); reflexivity.
Qed.

Lemma existsb_ext' {A} (f h : A -> bool) l : (forall x, f x = h x) -> existsb f l = existsb h l.
Proof. intros E. induction l; cbn; [reflexivity|]. now rewrite E, IHl. Qed.

Lemma nonempty_sols_perm (A B : list sol) : Permutation A B ->
  match A with [] => false | _ => true end = match B with [] => false | _ => true end.
Proof.
  intros P. destruct A, B; try reflexivity.
  - apply Permutation_nil in P. discriminate.
  - symmetry in P. apply Permutation_nil in P. discriminate.
Qed.

Lemma named_graph_in (l : list (term * graph)) t :
  existsb (fun ng => N.eqb (fst ng) t) l = true -> exists ng, In ng l /\ snd ng = named_graph l t.
Proof.
  induction l as [|[n g] r IH]; cbn; [discriminate|].
  destruct (N.eqb n t) eqn:E; cbn.
  - intros _. exists (n, g). split; [now left|reflexivity].
  - intros H. destruct (IH H) as [ng [I Eg]]. exists ng. split; [now right|exact Eg].
Qed.

Section Indep.
Variable En : enum.
Variable ds : dataset.
Variable P : graph -> Prop.        (* the graphs the evaluation may run on *)
(* on those graphs the store hands out the matching triples, each once, in some order *)
Hypothesis HEn : forall g, P g -> forall s p o, Permutation (En g s p o) (g_triples g s p o).
Hypothesis HP : forall ng, In ng (ds_named ds) -> P (snd ng).

Lemma bgp_en g (Pg : P g) ts : forall c, Permutation (eval_bgp_en En g c ts) (eval_bgp g c ts).
Proof.
  induction ts as [|[[s p] o] r IH]; intros c; cbn [eval_bgp_en eval_bgp]; [reflexivity|].
  etransitivity; [apply Permutation_flat_map; apply (HEn g Pg)|].
  apply flat_map_perm_pointwise. intros [[ss sp] so] _.
  destruct (match ctx_get c s with None => set_item c s ss | Some _ => Some c end) as [c1|]; [|reflexivity].
  destruct (match ctx_get c p with None => set_item c1 p sp | Some _ => Some c1 end) as [c2|]; [|reflexivity].
  destruct (match ctx_get c o with None => set_item c2 o so | Some _ => Some c2 end) as [c3|]; [|reflexivity].
  apply IH.
Qed.

Definition SI (p : alg) : Prop := no_slice p = true ->
  forall g c, P g -> Permutation (eval_td_en En ds g c p) (eval_td ds g c p).
Definition SIe (e : expr) : Prop := no_slice_e e = true ->
  forall g m full, P g -> expr_td_en En ds g m full e = expr_td ds g m full e.

Theorem en_indep : (forall p, SI p) /\ (forall e, SIe e).
Proof.
  apply alg_expr_mutind; unfold SI, SIe.
  - (* BGP *) intros ts _ g c Pg. cbn [eval_td_en eval_td]. now apply bgp_en.
  - (* Join *)
    intros lz p1 IH1 p2 IH2 N g c Pg. cbn [no_slice] in N. apply andb_true_iff in N as [N1 N2].
    cbn [eval_td_en eval_td]. destruct lz.
    + etransitivity; [apply Permutation_flat_map; apply (IH1 N1 g c Pg)|].
      apply flat_map_perm_pointwise. intros a _. apply Permutation_map. apply (IH2 N2 g _ Pg).
    + apply join_lists_perm; [apply (IH1 N1 g c Pg)|apply (IH2 N2 g c Pg)].
  - (* LeftJoin *)
    intros pv p1 IH1 p2 IH2 e IHe N g c Pg. cbn [no_slice] in N.
    apply andb_true_iff in N as [N Ne]. apply andb_true_iff in N as [N1 N2].
    cbn [eval_td_en eval_td].
    etransitivity; [apply Permutation_flat_map; apply (IH1 N1 g c Pg)|].
    apply flat_map_perm_pointwise. intros a _. cbv zeta.
    assert (PF : Permutation
              (filter (fun b => ebv (expr_td_en En ds g (forget b c None) b e)) (eval_td_en En ds g (thaw c a) p2))
              (filter (fun b => ebv (expr_td ds g (forget b c None) b e)) (eval_td ds g (thaw c a) p2))).
    { rewrite (filter_ext _ (fun b => ebv (expr_td ds g (forget b c None) b e))).
      - apply Permutation_filter'. apply (IH2 N2 g _ Pg).
      - intros b. now rewrite (IHe Ne g _ _ Pg). }
    destruct (filter _ (eval_td_en En ds g (thaw c a) p2)) as [|x r] eqn:E1.
    + apply Permutation_nil in PF. rewrite PF.
      destruct pv as [vs|]; [|reflexivity].
      rewrite (existsb_ext' _ (fun b => ebv (expr_td ds g b b e))) by (intros b; now rewrite (IHe Ne g _ _ Pg)).
      rewrite (existsb_perm _ _ _ (IH2 N2 g (thaw c (remember a vs)) Pg)). reflexivity.
    + destruct (filter _ (eval_td ds g (thaw c a) p2)) as [|x' r'] eqn:E2.
      * symmetry in PF. apply Permutation_nil in PF. discriminate PF.
      * now apply Permutation_map.
  - (* Filter *)
    intros nis fv e IHe q IHq N g c Pg. cbn [no_slice] in N. apply andb_true_iff in N as [Ne Nq].
    cbn [eval_td_en eval_td].
    rewrite (filter_ext _ (fun s => ebv (expr_td ds g (if nis then s else forget s c fv) s e))).
    + apply Permutation_filter'. apply (IHq Nq g c Pg).
    + intros s. now rewrite (IHe Ne g _ _ Pg).
  - (* Union *)
    intros p1 IH1 p2 IH2 N g c Pg. cbn [no_slice] in N. apply andb_true_iff in N as [N1 N2].
    cbn [eval_td_en eval_td]. apply Permutation_app; [apply (IH1 N1 g c Pg)|apply (IH2 N2 g c Pg)].
  - (* Minus *)
    intros p1 IH1 p2 IH2 N g c Pg. cbn [no_slice] in N. apply andb_true_iff in N as [N1 N2].
    cbn [eval_td_en eval_td]. cbv zeta.
    rewrite (filter_ext _ (fun x => forallb (fun y => negb (compatible x y) || disjoint_dom x y) (dedup (eval_td ds g c p2)))).
    + apply Permutation_filter'. apply (IH1 N1 g c Pg).
    + intros x. apply forallb_perm. apply dedup_perm. apply (IH2 N2 g c Pg).
  - (* Extend *)
    intros xv q IHq v e IHe N g c Pg. cbn [no_slice] in N. apply andb_true_iff in N as [Nq Ne].
    cbn [eval_td_en eval_td].
    rewrite (map_ext _ (fun s => match expr_td ds g (forget s c xv) s e with Some t => bind v t s | None => s end)).
    + apply Permutation_map. apply (IHq Nq g c Pg).
    + intros s. now rewrite (IHe Ne g _ _ Pg).
  - (* Values *) intros rows _ g c _. reflexivity.
  - (* Project *) intros q IHq vs N g c Pg. cbn [eval_td_en eval_td]. apply Permutation_map. apply (IHq N g c Pg).
  - (* Graph *)
    intros gt q IHq N g c Pg. cbn [no_slice] in N. cbn [eval_td_en eval_td].
    destruct (ctx_get c gt) as [t|].
    + destruct (existsb (fun ng => N.eqb (fst ng) t) (ds_named ds)) eqn:E; [|reflexivity].
      destruct (named_graph_in _ _ E) as [ng [I Eg]]. apply (IHq N). rewrite <- Eg. now apply HP.
    + destruct gt as [|v]; [reflexivity|].
      apply flat_map_perm_pointwise. intros ng I. apply join_lists_perm_l. apply (IHq N). now apply HP.
  - (* Distinct *) intros q IHq N g c Pg. cbn [eval_td_en eval_td]. apply dedup_perm. apply (IHq N g c Pg).
  - (* Slice *) intros n q _ N. discriminate N.
  - (* EVar *) reflexivity.
  - reflexivity.
  - (* ECmp *) intros op a IHa b IHb N g m full Pg. cbn [no_slice_e] in N. apply andb_true_iff in N as [Na Nb].
    cbn [expr_td_en expr_td]. now rewrite (IHa Na g m full Pg), (IHb Nb g m full Pg).
  - intros a IHa b IHb N g m full Pg. cbn [no_slice_e] in N. apply andb_true_iff in N as [Na Nb].
    cbn [expr_td_en expr_td]. now rewrite (IHa Na g m full Pg), (IHb Nb g m full Pg).
  - intros a IHa b IHb N g m full Pg. cbn [no_slice_e] in N. apply andb_true_iff in N as [Na Nb].
    cbn [expr_td_en expr_td]. now rewrite (IHa Na g m full Pg), (IHb Nb g m full Pg).
  - intros a IHa N g m full Pg. cbn [expr_td_en expr_td]. now rewrite (IHa N g m full Pg).
  - reflexivity.
  - (* EExists *) intros pos p IHp N g m full Pg.
    change (expr_td_en En ds g m full (EExists pos p))
      with (Some (t_bool (Bool.eqb pos (match eval_td_en En ds g (thaw full m) p with [] => false | _ => true end)))).
    change (expr_td ds g m full (EExists pos p))
      with (Some (t_bool (Bool.eqb pos (match eval_td ds g (thaw full m) p with [] => false | _ => true end)))).
    now rewrite (nonempty_sols_perm _ _ (IHp N g (thaw full m) Pg)).
  - intros pos a IHa cs N g m full Pg. cbn [expr_td_en expr_td]. now rewrite (IHa N g m full Pg).
  - intros a IHa b IHb N g m full Pg. cbn [no_slice_e] in N. apply andb_true_iff in N as [Na Nb].
    cbn [expr_td_en expr_td]. now rewrite (IHa Na g m full Pg), (IHb Nb g m full Pg).
  - intros c0 IHc a IHa b IHb N g m full Pg. cbn [no_slice_e] in N.
    apply andb_true_iff in N as [N Nb]. apply andb_true_iff in N as [Nc Na].
    cbn [expr_td_en expr_td]. now rewrite (IHc Nc g m full Pg), (IHa Na g m full Pg), (IHb Nb g m full Pg).
Qed.

End Indep.

(* ---- the observation of a case under an enumeration ---- *)
Definition model_obs_en (En : enum) (c : case) : obs :=
  answer (c_form c) (eval_td_en En (c_ds c) (ds_default (c_ds c)) [] (c_alg c)).
Definition case_graph (c : case) (g : graph) : Prop :=
  g = ds_default (c_ds c) \/ In g (map snd (ds_named (c_ds c))).
(* [En] hands out, for every graph of the case and every pattern, the matching triples each once *)
Definition enum_ok (En : enum) (c : case) : Prop :=
  forall g, case_graph c g -> forall s p o, Permutation (En g s p o) (g_triples g s p o).

Theorem store_model En c : enum_ok En c -> no_slice (c_alg c) = true ->
  obs_eqb (model_obs_en En c) (model_obs c) = true.
Proof.
  intros H N. unfold model_obs_en, model_obs. apply answer_perm.
  apply (proj1 (en_indep En (c_ds c) (case_graph c) H
                  (fun ng I => or_intror (in_map snd _ _ I))) (c_alg c) N).
  now left.
Qed.

Theorem store_independent En1 En2 c : enum_ok En1 c -> enum_ok En2 c -> no_slice (c_alg c) = true ->
  obs_eqb (model_obs_en En1 c) (model_obs_en En2 c) = true.
Proof.
  intros H1 H2 N. eapply obs_eqb_trans; [apply (store_model En1 c H1 N)|].
  apply obs_eqb_sym. apply (store_model En2 c H2 N).
Qed.

(* ---- the enumerations of the stores of C01 satisfy the hypothesis ---- *)
Lemma pos_ok_omatch (s p o : option term) (t : triple) :
  Base.Quads.matches (s, p, o) t = (let '(a, b, d) := t in pos_ok s a && pos_ok p b && pos_ok o d).
Proof. destruct t as [[a b] d]. destruct s, p, o; reflexivity. Qed.

Lemma enum_from_exact (L : list triple) (holds : triple -> bool) (g : graph) s p o :
  NoDup L -> (forall t, In t L <-> Base.Quads.matches (s, p, o) t = true /\ holds t = true) ->
  NoDup g -> (forall t, holds t = true <-> In t g) ->
  Permutation L (g_triples g s p o).
Proof.
  intros NL HL Ng Hg. apply NoDup_Permutation; [exact NL|apply NoDup_filter; exact Ng|].
  intros t. rewrite HL. unfold g_triples. rewrite filter_In, Hg, pos_ok_omatch. tauto.
Qed.

(* Memory: context [k] of a store state that satisfies the invariant and holds exactly the set [g] *)
Lemma enum_memory (m : Store.Model.mem) k (g : graph) :
  Store.MemProofs.MemInv m -> NoDup g -> (forall t, Store.Model.mem_holds m k t = true <-> In t g) ->
  forall s p o, Permutation (Store.Model.mem_triples m k (s, p, o)) (g_triples g s p o).
Proof.
  intros I Ng Hg s p o. destruct (Store.MemProofs.mem_triples_exact m k (s, p, o) I) as [NL HL].
  exact (enum_from_exact _ (Store.Model.mem_holds m k) g s p o NL HL Ng Hg).
Qed.

(* SimpleMemory *)
Lemma enum_simple (m : Store.Model.smem) (g : graph) :
  Store.SimpleProofs.sm_inv m -> NoDup g -> (forall t, Store.SimpleProofs.sm_holds m t = true <-> In t g) ->
  forall s p o, Permutation (Store.Model.sm_triples m (s, p, o)) (g_triples g s p o).
Proof.
  intros I Ng Hg s p o. destruct (Store.SimpleProofs.sm_triples_exact m (s, p, o) I) as [NL HL].
  exact (enum_from_exact _ (Store.SimpleProofs.sm_holds m) g s p o NL HL Ng Hg).
Qed.

(* ReadOnlyGraphAggregate: the members are enumerated one after the other - the BAG union.
   It is the enumeration of the graph [concat gs]; that is a set of triples (the "same data")
   exactly when the members are duplicate-free and pairwise disjoint, NoDup (concat gs). *)
Lemma enum_aggregate (gs : list graph) s p o :
  flat_map (fun g => g_triples g s p o) gs = g_triples (concat gs) s p o.
Proof.
  induction gs as [|g r IH]; cbn [flat_map concat]; [reflexivity|]. rewrite IH. unfold g_triples. now rewrite filter_app.
Qed.

(* ---- (a) the auditable wrapper over the Memory model ----
   Auditable/OverStore.v: the wrapper reads and writes the wrapped store through the store's
   own add / remove / triples; [x_run] lists the wrapped store after every operation of a
   history (adds, removes, commits, rollbacks of both wrappers), [a_run] the quads the
   list-level model of the wrapper prescribes.  Every such state enumerates, context by
   context and pattern by pattern, exactly the triples the prescription holds for that
   context, each once: the hypothesis [enum_ok] of the store-independence theorem. *)
Definition ctx_graph (S : Base.Quads.qset) (k : Base.Quads.cid) : graph :=
  map fst (filter (fun q : Base.Quads.quad => N.eqb (snd q) k) S).

Lemma ctx_graph_in S k t : In t (ctx_graph S k) <-> In (t, k) S.
Proof.
  unfold ctx_graph. rewrite in_map_iff. split.
  - intros [[t' k'] [E I]]. cbn in E. subst t'. apply filter_In in I as [I Ek]. cbn in Ek.
    apply N.eqb_eq in Ek. now subst.
  - intros I. exists (t, k). split; [reflexivity|]. apply filter_In. split; [exact I|apply N.eqb_refl].
Qed.

Lemma ctx_graph_nodup S k : NoDup S -> NoDup (ctx_graph S k).
Proof.
  unfold ctx_graph. induction S as [|[t c] r IH]; intros N; cbn; [constructor|].
  inversion N as [|? ? Hn Nr]; subst. destruct (N.eqb c k) eqn:E; cbn; [|now apply IH].
  constructor; [|now apply IH]. intros I. apply in_map_iff in I as [[t' c'] [Et I]]. cbn in Et. subst t'.
  apply filter_In in I as [I Ec]. cbn in Ec. apply N.eqb_eq in E. apply N.eqb_eq in Ec. subst. contradiction.
Qed.

Lemma sim_run_mem : forall ops x s,
  Auditable.OverStoreProofs.Sim Store.Model.mem Store.Model.mem_holds Store.MemProofs.MemInv x s ->
  Forall2 (fun m' S' => Store.MemProofs.MemInv m'
                        /\ Auditable.OverStoreProofs.Abs Store.Model.mem Store.Model.mem_holds m' S' /\ NoDup S')
          (Auditable.OverStore.x_run Store.Model.mem Store.Model.mem_add Store.Model.mem_remove Store.Model.mem_triples x ops)
          (Auditable.Model.a_run s (map Auditable.OverStore.to_aop ops)).
Proof.
  induction ops as [|o r IH]; intros x s H; cbn; [constructor|].
  pose proof (Auditable.OverStoreProofs.sim_step Store.Model.mem Store.Model.mem_add Store.Model.mem_remove
                Store.Model.mem_triples Store.Model.mem_holds Store.MemProofs.MemInv
                Store.MemProofs.mem_add_ok Store.MemProofs.mem_remove_ok Store.MemProofs.mem_triples_exact x s o H) as H'.
  constructor; [|now apply IH]. destruct H' as [I [A [N _]]]. auto.
Qed.

Theorem enum_auditable ops m S :
  Store.MemProofs.MemInv m -> (forall c t, Store.Model.mem_holds m c t = Base.Quads.q_mem (t, c) S) -> NoDup S ->
  Forall2 (fun m' S' => forall k s p o,
             Permutation (Store.Model.mem_triples m' k (s, p, o)) (g_triples (ctx_graph S' k) s p o))
          (Auditable.OverStore.x_run Store.Model.mem Store.Model.mem_add Store.Model.mem_remove Store.Model.mem_triples
             (Auditable.OverStore.x_init m) ops)
          (Auditable.Model.a_run (Auditable.Model.a_init S) (map Auditable.OverStore.to_aop ops)).
Proof.
  intros I A N.
  assert (H := sim_run_mem ops _ _ (Auditable.OverStoreProofs.Sim_init Store.Model.mem Store.Model.mem_holds
                                      Store.MemProofs.MemInv m S I A N)).
  induction H as [|m' S' l l' [I' [A' N']] _ IH]; constructor; [|exact IH].
  intros k s p o. apply enum_memory; [exact I'|now apply ctx_graph_nodup|].
  intros t. rewrite ctx_graph_in, (A' k t). apply Base.Quads.q_mem_In.
Qed.

(* ---- (b) a dataset held as the contexts of ONE Memory store ----
   [k0] the context of the default graph, [names] the graph names with their contexts; the
   dataset the model evaluates on is what the store enumerates for the open pattern; the
   enumeration function of the whole dataset looks a graph up among those contexts (two
   contexts that hold the same set are interchangeable). *)
Definition store_graph (m : Store.Model.mem) (k : Base.Quads.cid) : graph :=
  Store.Model.mem_triples m k Store.Model.all_pat.
Definition store_dataset (m : Store.Model.mem) (k0 : Base.Quads.cid) (names : list (term * Base.Quads.cid)) : dataset :=
  {| ds_default := store_graph m k0;
     ds_named := map (fun nk => (fst nk, store_graph m (snd nk))) names |}.
Definition ctx_of (m : Store.Model.mem) (ks : list Base.Quads.cid) (g : graph) : Base.Quads.cid :=
  match find (fun k => graph_eqb (store_graph m k) g) ks with Some k => k | None => 0 end.
Definition En_store (m : Store.Model.mem) (k0 : Base.Quads.cid) (names : list (term * Base.Quads.cid)) : enum :=
  fun g s p o => Store.Model.mem_triples m (ctx_of m (k0 :: map snd names) g) (s, p, o).

Lemma graph_eqb_refl g : graph_eqb g g = true.
Proof. unfold graph_eqb. apply leqb_refl. intros x _. now apply triple_eqb_eq. Qed.

Lemma store_graph_enum m k : Store.MemProofs.MemInv m ->
  forall s p o, Permutation (Store.Model.mem_triples m k (s, p, o)) (g_triples (store_graph m k) s p o).
Proof.
  intros I. destruct (Store.MemProofs.mem_triples_exact m k Store.Model.all_pat I) as [N H].
  apply enum_memory; [exact I|exact N|].
  intros t. unfold store_graph. rewrite H. split; [intros E; split; [|exact E]|tauto].
  destruct t as [[a b] d]. reflexivity.
Qed.

Theorem enum_dataset m k0 names c : Store.MemProofs.MemInv m ->
  c_ds c = store_dataset m k0 names -> enum_ok (En_store m k0 names) c.
Proof.
  intros I E g Cg s p o. unfold En_store, ctx_of.
  assert (Ex : exists k, In k (k0 :: map snd names) /\ store_graph m k = g).
  { destruct Cg as [->|Ig]; rewrite E in *; cbn in *.
    - exists k0. split; [now left|reflexivity].
    - rewrite map_map in Ig. apply in_map_iff in Ig as [[n k] [Eg In_]]. cbn in Eg.
      exists k. split; [right; apply in_map_iff; exists (n, k); auto|exact Eg]. }
  destruct Ex as [k [Ik Ek]].
  destruct (find _ (k0 :: map snd names)) as [k'|] eqn:F.
  - apply find_some in F as [_ Eq]. apply graph_eqb_eq in Eq. rewrite <- Eq. now apply store_graph_enum.
  - exfalso. pose proof (find_none _ _ F k Ik) as C. cbn beta in C. rewrite Ek, graph_eqb_refl in C. discriminate.
Qed.

(* the closed statement: any query without OFFSET over the dataset read off ONE Memory store -
   GRAPH patterns included - answered through the store's own per-context enumerations, is
   answered as the model answers it *)
Theorem store_dataset_model m k0 names c : Store.MemProofs.MemInv m ->
  c_ds c = store_dataset m k0 names -> no_slice (c_alg c) = true ->
  obs_eqb (model_obs_en (En_store m k0 names) c) (model_obs c) = true.
Proof. intros I E N. apply store_model; [now apply enum_dataset|exact N]. Qed.
