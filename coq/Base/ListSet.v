(* Lists used as finite sets, with boolean operations and the lemmas that
   reflect them.  Stdlib only. *)
From Coq Require Export List NArith Bool Lia.
Export ListNotations.

Set Implicit Arguments.

Section S.
  Variable A : Type.
  Variable eqb : A -> A -> bool.
  Hypothesis eqb_spec : forall x y, reflect (x = y) (eqb x y).

  Lemma eqb_refl x : eqb x x = true.
  Proof. destruct (eqb_spec x x); congruence. Qed.

  Lemma eqb_eq x y : eqb x y = true <-> x = y.
  Proof. destruct (eqb_spec x y); split; congruence. Qed.

  Lemma eqb_neq x y : eqb x y = false <-> x <> y.
  Proof. destruct (eqb_spec x y); split; congruence. Qed.

  Fixpoint memb (x : A) (l : list A) : bool :=
    match l with [] => false | y :: r => eqb x y || memb x r end.

  Lemma memb_In x l : memb x l = true <-> In x l.
  Proof.
    induction l as [|y r IH]; simpl; [split; [discriminate|tauto]|].
    rewrite orb_true_iff, IH, eqb_eq. split; intros [H|H]; auto.
  Qed.

  Lemma memb_false x l : memb x l = false <-> ~ In x l.
  Proof. rewrite <- memb_In. destruct (memb x l); split; congruence. Qed.

  (* insert keeping first occurrence order, no duplicates *)
  Definition sadd (x : A) (l : list A) : list A :=
    if memb x l then l else l ++ [x].

  Lemma sadd_In x y l : In y (sadd x l) <-> y = x \/ In y l.
  Proof.
    unfold sadd. destruct (memb x l) eqn:E.
    - apply memb_In in E. split; [auto|]. intros [->|H]; auto.
    - rewrite in_app_iff. simpl. split; [intros [H|[H|[]]]; auto|intros [H|H]; auto].
  Qed.

  Lemma NoDup_app_single (l : list A) x : NoDup l -> ~ In x l -> NoDup (l ++ [x]).
  Proof.
    induction l as [|y r IH]; simpl; intros Hn Hx.
    - constructor; [tauto|constructor].
    - inversion Hn; subst. constructor.
      + rewrite in_app_iff. simpl. intros [H|[H|[]]]; [tauto|]. subst. tauto.
      + apply IH; tauto.
  Qed.

  Lemma sadd_NoDup x l : NoDup l -> NoDup (sadd x l).
  Proof.
    unfold sadd. destruct (memb x l) eqn:E; auto.
    intros Hn. apply NoDup_app_single; auto. now apply memb_false.
  Qed.

  Definition srem (x : A) (l : list A) : list A :=
    filter (fun y => negb (eqb x y)) l.

  Lemma srem_In x y l : In y (srem x l) <-> In y l /\ y <> x.
  Proof.
    unfold srem. rewrite filter_In, negb_true_iff, eqb_neq. split; intros [H1 H2]; split; auto.
  Qed.

  Lemma filter_NoDup (f : A -> bool) (l : list A) : NoDup l -> NoDup (filter f l).
  Proof.
    induction l as [|y r IH]; simpl; auto. intros Hn; inversion Hn; subst.
    destruct (f y); auto. constructor; auto. rewrite filter_In. tauto.
  Qed.

  Lemma srem_NoDup x l : NoDup l -> NoDup (srem x l).
  Proof. apply filter_NoDup. Qed.

  Definition subsetb (l1 l2 : list A) : bool := forallb (fun x => memb x l2) l1.

  Lemma subsetb_spec l1 l2 : subsetb l1 l2 = true <-> incl l1 l2.
  Proof.
    unfold subsetb, incl. rewrite forallb_forall. split; intros H x Hx.
    - apply memb_In; auto.
    - apply memb_In; auto.
  Qed.

  Definition seteqb (l1 l2 : list A) : bool := subsetb l1 l2 && subsetb l2 l1.

  Definition seteq (l1 l2 : list A) : Prop := forall x, In x l1 <-> In x l2.

  Lemma seteqb_spec l1 l2 : seteqb l1 l2 = true <-> seteq l1 l2.
  Proof.
    unfold seteqb, seteq. rewrite andb_true_iff, !subsetb_spec. unfold incl.
    split; [intros [H1 H2] x; split; auto|intros H; split; intros x; apply H].
  Qed.

  Fixpoint nodupb (l : list A) : bool :=
    match l with [] => true | x :: r => negb (memb x r) && nodupb r end.

  Lemma nodupb_spec l : nodupb l = true <-> NoDup l.
  Proof.
    induction l as [|x r IH]; simpl; [split; [constructor|auto]|].
    rewrite andb_true_iff, negb_true_iff, memb_false, IH. split.
    - intros [H1 H2]; constructor; auto.
    - intros H; inversion H; auto.
  Qed.

  (* duplicate-free enumeration of exactly the set [s] *)
  Definition enum_of (l s : list A) : Prop := NoDup l /\ seteq l s.
  Definition enum_ofb (l s : list A) : bool := nodupb l && seteqb l s.

  Lemma enum_ofb_spec l s : enum_ofb l s = true <-> enum_of l s.
  Proof. unfold enum_ofb, enum_of. now rewrite andb_true_iff, nodupb_spec, seteqb_spec. Qed.

  Lemma seteq_refl l : seteq l l.
  Proof. intros x; tauto. Qed.

  Lemma seteq_sym l1 l2 : seteq l1 l2 -> seteq l2 l1.
  Proof. intros H x; symmetry; apply H. Qed.

  Lemma seteq_trans l1 l2 l3 : seteq l1 l2 -> seteq l2 l3 -> seteq l1 l3.
  Proof. intros H1 H2 x; rewrite (H1 x); apply H2. Qed.

  (* set difference, union, intersection on lists *)
  Definition sdiff (l1 l2 : list A) : list A := filter (fun x => negb (memb x l2)) l1.
  Definition sinter (l1 l2 : list A) : list A := filter (fun x => memb x l2) l1.
  Definition sunion (l1 l2 : list A) : list A := fold_left (fun acc x => sadd x acc) l2 l1.

  Lemma sdiff_In x l1 l2 : In x (sdiff l1 l2) <-> In x l1 /\ ~ In x l2.
  Proof. unfold sdiff. now rewrite filter_In, negb_true_iff, memb_false. Qed.

  Lemma sinter_In x l1 l2 : In x (sinter l1 l2) <-> In x l1 /\ In x l2.
  Proof. unfold sinter. now rewrite filter_In, memb_In. Qed.

  Lemma sunion_In x l1 l2 : In x (sunion l1 l2) <-> In x l1 \/ In x l2.
  Proof.
    unfold sunion. revert l1. induction l2 as [|y r IH]; simpl; intros l1; [tauto|].
    rewrite IH, sadd_In. split; [intros [[->|H]|H]|intros [H|[->|H]]]; auto.
  Qed.

  Lemma sunion_NoDup l1 l2 : NoDup l1 -> NoDup (sunion l1 l2).
  Proof.
    unfold sunion. revert l1. induction l2 as [|y r IH]; simpl; intros l1 H; auto.
    apply IH. now apply sadd_NoDup.
  Qed.

  Lemma sdiff_NoDup l1 l2 : NoDup l1 -> NoDup (sdiff l1 l2).
  Proof. apply filter_NoDup. Qed.

  Lemma sinter_NoDup l1 l2 : NoDup l1 -> NoDup (sinter l1 l2).
  Proof. apply filter_NoDup. Qed.

  (* remove duplicates keeping first occurrences *)
  Fixpoint dedup_acc (acc l : list A) : list A :=
    match l with
    | [] => acc
    | x :: r => dedup_acc (sadd x acc) r
    end.
  Definition dedup (l : list A) : list A := dedup_acc [] l.

  Lemma dedup_acc_In x acc l : In x (dedup_acc acc l) <-> In x acc \/ In x l.
  Proof.
    revert acc; induction l as [|y r IH]; simpl; intros acc; [tauto|].
    rewrite IH, sadd_In. split; [intros [[->|H]|H]|intros [H|[->|H]]]; auto.
  Qed.

  Lemma dedup_acc_NoDup acc l : NoDup acc -> NoDup (dedup_acc acc l).
  Proof.
    revert acc; induction l as [|y r IH]; simpl; intros acc H; auto.
    apply IH. now apply sadd_NoDup.
  Qed.

  Lemma dedup_In x l : In x (dedup l) <-> In x l.
  Proof. unfold dedup. rewrite dedup_acc_In. simpl. tauto. Qed.

  Lemma dedup_NoDup l : NoDup (dedup l).
  Proof. apply dedup_acc_NoDup. constructor. Qed.

End S.

(* Decidable equality packages for the types that cross the harness boundary *)
Lemma N_eqb_spec : forall x y : N, reflect (x = y) (N.eqb x y).
Proof. exact N.eqb_spec. Qed.

Section Pairs.
  Variables (A B : Type) (ea : A -> A -> bool) (eb : B -> B -> bool).
  Hypothesis ea_spec : forall x y, reflect (x = y) (ea x y).
  Hypothesis eb_spec : forall x y, reflect (x = y) (eb x y).
  Definition pair_eqb (p q : A * B) : bool := ea (fst p) (fst q) && eb (snd p) (snd q).
  Lemma pair_eqb_spec : forall p q, reflect (p = q) (pair_eqb p q).
  Proof.
    intros [a b] [c d]. unfold pair_eqb; simpl.
    destruct (ea_spec a c), (eb_spec b d); simpl; constructor; congruence.
  Qed.
End Pairs.

Section Opt.
  Variables (A : Type) (ea : A -> A -> bool).
  Hypothesis ea_spec : forall x y, reflect (x = y) (ea x y).
  Definition opt_eqb (p q : option A) : bool :=
    match p, q with Some x, Some y => ea x y | None, None => true | _, _ => false end.
  Lemma opt_eqb_spec : forall p q, reflect (p = q) (opt_eqb p q).
  Proof.
    intros [a|] [b|]; simpl; try (constructor; congruence).
    destruct (ea_spec a b); constructor; congruence.
  Qed.
End Opt.

Section Lists.
  Variables (A : Type) (ea : A -> A -> bool).
  Hypothesis ea_spec : forall x y, reflect (x = y) (ea x y).
  Fixpoint list_eqb (l1 l2 : list A) : bool :=
    match l1, l2 with
    | [], [] => true
    | x :: r, y :: s => ea x y && list_eqb r s
    | _, _ => false
    end.
  Lemma list_eqb_spec : forall l1 l2, reflect (l1 = l2) (list_eqb l1 l2).
  Proof.
    induction l1 as [|x r IH]; intros [|y s]; simpl; try (constructor; congruence).
    destruct (ea_spec x y); simpl; [|constructor; congruence].
    destruct (IH s); constructor; congruence.
  Qed.
End Lists.
