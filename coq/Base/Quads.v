(* The specification-level store: a finite set of quads (triple, graph id),
   represented as a duplicate-free list.  Every store-level property is stated
   against this object. Terms and graph names are abstract identifiers (N);
   the harness numbers the concrete rdflib terms structurally. *)
From RV Require Export Base.ListSet.

Definition term := N.
Definition triple := (term * term * term)%type.
Definition cid := N.                       (* graph (context) identifier *)
Definition quad := (triple * cid)%type.
Definition pat := (option term * option term * option term)%type.

Definition triple_eqb (a b : triple) : bool :=
  pair_eqb (pair_eqb N.eqb N.eqb) N.eqb a b.
Lemma triple_eqb_spec : forall a b, reflect (a = b) (triple_eqb a b).
Proof. apply pair_eqb_spec; [apply pair_eqb_spec|]; apply N.eqb_spec. Qed.

Definition quad_eqb (a b : quad) : bool := pair_eqb triple_eqb N.eqb a b.
Lemma quad_eqb_spec : forall a b, reflect (a = b) (quad_eqb a b).
Proof. apply pair_eqb_spec; [apply triple_eqb_spec|apply N.eqb_spec]. Qed.

Definition omatch (o : option term) (x : term) : bool :=
  match o with None => true | Some y => N.eqb y x end.

Definition matches (p : pat) (t : triple) : bool :=
  let '(ps, pp, po) := p in let '(s, pr, o) := t in
  omatch ps s && omatch pp pr && omatch po o.

Definition pat_of (t : triple) : pat := let '(s, p, o) := t in (Some s, Some p, Some o).

Lemma matches_pat_of t u : matches (pat_of t) u = true <-> t = u.
Proof.
  destruct t as [[a b] c], u as [[d e] f]. simpl.
  rewrite !andb_true_iff, !N.eqb_eq. split; [intros [[-> ->] ->]|intros [= -> -> ->]]; auto.
Qed.

Definition qset := list quad.

(* quads selected by a pattern and an optional graph (None = every graph) *)
Definition qsel (p : pat) (c : option cid) (q : quad) : bool :=
  matches p (fst q) && match c with None => true | Some c' => N.eqb c' (snd q) end.

Definition q_add (q : quad) (s : qset) : qset := sadd quad_eqb q s.
Definition q_remove (p : pat) (c : option cid) (s : qset) : qset :=
  filter (fun q => negb (qsel p c q)) s.
Definition q_triples (p : pat) (c : cid) (s : qset) : list triple :=
  map fst (filter (qsel p (Some c)) s).
Definition q_mem (q : quad) (s : qset) : bool := memb quad_eqb q s.

Lemma q_add_In q x s : In x (q_add q s) <-> x = q \/ In x s.
Proof. apply sadd_In, quad_eqb_spec. Qed.
Lemma q_add_NoDup q s : NoDup s -> NoDup (q_add q s).
Proof. apply sadd_NoDup, quad_eqb_spec. Qed.
Lemma q_remove_In p c x s : In x (q_remove p c s) <-> In x s /\ qsel p c x = false.
Proof. unfold q_remove. now rewrite filter_In, negb_true_iff. Qed.
Lemma q_remove_NoDup p c s : NoDup s -> NoDup (q_remove p c s).
Proof. apply filter_NoDup. Qed.
Lemma q_mem_In q s : q_mem q s = true <-> In q s.
Proof. apply memb_In, quad_eqb_spec. Qed.

Definition qseteqb := seteqb quad_eqb.
Definition qseteq : qset -> qset -> Prop := @seteq quad.
Lemma qseteqb_spec a b : qseteqb a b = true <-> qseteq a b.
Proof. apply seteqb_spec, quad_eqb_spec. Qed.
