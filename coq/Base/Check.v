(* Generic comparison loop evaluated by [vm_compute] on the case files that the
   harness generates: for every (case, observation-of-the-implementation) it
   reports a bit mask
     1 = model observation differs from the implementation's
     2 = the verified specification checker rejects the implementation's observation
     4 = a known-finding trigger predicate is true of the case
         (kf c <> 0; the trigger's number is added as 16 * kf c)
     8 = the specification checker rejects the MODEL's observation
         (with bit 4 clear this contradicts the property theorem)
   Only cases with bit 1, 2 or 8 set are listed; the number of trigger hits is
   returned separately. *)
From Coq Require Import List NArith Bool.
Import ListNotations.

Section C.
  Variables (C O : Type).
  Variable model : C -> O.
  Variable oeq : O -> O -> bool.
  Variable spec : C -> O -> bool.
  Variable kf : C -> N.   (* 0 = no known-finding trigger applies; n = trigger number n of the suite *)

  Definition code_of (c : C) (o : O) : N :=
    let m := model c in
    ((if oeq m o then 0 else 1) + (if spec c o then 0 else 2)
     + (if N.eqb (kf c) 0 then 0 else 4) + (if spec c m then 0 else 8) + 16 * kf c)%N.

  Definition interesting (k : N) : bool := negb (N.eqb (N.land k 11) 0).
  Definition no_kf : C -> N := fun _ => 0%N.

  Fixpoint check_from (i : N) (l : list (C * O)) : list (N * N) * N :=
    match l with
    | [] => ([], 0%N)
    | (c, o) :: r =>
        let k := code_of c o in
        let '(rest, n) := check_from (N.succ i) r in
        ((if interesting k then (i, k) :: rest else rest),
         (if N.eqb (N.land k 4) 0 then n else N.succ n))
    end.

  Definition check_all (l : list (C * O)) := check_from 0%N l.
End C.

Arguments check_all {C O} model oeq spec kf l.
Arguments no_kf {C} _.
