(* C01's Memory model REALISES the abstract store of Dataset/Model.v: every
   store-level operation the dataset model performs is simulated by the
   corresponding Memory-model operation under the abstraction relation [AbsM],
   every store-level read of the Memory model enumerates what the abstract
   store's read returns, and so does every history of front-end operations.
   The work is C01's (Store/MemProofs.v, Store/StoreLevelProofs.v: mem_add_ok,
   mem_remove_ok, mem_remove_none_ok, mem_triples_k_exact, TRel_step); this
   file composes it with the dataset model. *)
From Coq Require Import Permutation.
From RV Require Import Dataset.Model Dataset.Proofs Dataset.OverMemory.
From RV Require Store.MemProofs Store.GraphProofs Store.IterProofs Store.StoreLevelProofs.
Local Open Scope N_scope.

Notation MemInv := Store.MemProofs.MemInv.
Notation TRelM := Store.StoreLevelProofs.TRelM.
Notation tspec := Store.StoreLevel.tspec.

(* the specification-level store of C01 that an abstract store IS *)
Definition ts_of (s : store) : tspec := {| Store.StoreLevel.ts_q := quads s; Store.StoreLevel.ts_known := known s |}.

(* the abstraction relation: Memory's invariant (indexes coherent, context
   dictionaries, default-context compression ...), graph by graph the same
   triples, the same registered graphs; the abstract store holds no union-only
   triple (the front end never creates one since the repair of F18) *)
Definition AbsM (m : mem) (s : store) : Prop := TRelM m (ts_of s) /\ orphans s = [].

Lemma AbsM_holds m s : AbsM m s -> forall c t, mem_holds m c t = q_mem (t, c) (quads s).
Proof. intros [(_ & Hh & _) _]. exact Hh. Qed.

Lemma AbsM_known m s : AbsM m s -> forall c, In c (mem_contexts m) <-> In c (known s).
Proof. intros [(_ & _ & _ & _ & Hk) _]. exact Hk. Qed.

Lemma AbsM_empty : AbsM mem_empty st_empty.
Proof.
  split; [|reflexivity].
  exact (proj2 (Store.StoreLevelProofs.TRel_init false)).
Qed.

(* ---- every store-level write is simulated ---- *)
Lemma ts_of_step s o : orphans s = [] ->
  ts_of (st_top s o) = Store.StoreLevel.tspec_step false (ts_of s) o /\ orphans (st_top s o) = [].
Proof.
  intros Ho. destruct o as [c t|[c|] p|c|c]; cbn [st_top]; unfold st_add, st_remove, st_add_graph, st_remove_graph, st_remove, ts_of;
    cbn [quads orphans known Store.StoreLevel.tspec_step Store.StoreLevel.tkey Store.StoreLevel.ts_q Store.StoreLevel.ts_known];
    rewrite ?Ho; split; reflexivity.
Qed.

Theorem AbsM_step m s o : AbsM m s -> AbsM (mem_top m o) (st_top s o).
Proof.
  intros [HT Ho]. destruct (ts_of_step s o Ho) as [E1 E2]. split; auto. rewrite E1.
  pose proof (Store.StoreLevelProofs.TRel_step (Store.Model.SMem m) false (ts_of s) o (conj eq_refl HT)) as H.
  destruct o; exact (proj2 H).
Qed.

Lemma AbsM_steps l : forall m s, AbsM m s -> AbsM (fold_left mem_top l m) (fold_left st_top l s).
Proof. induction l as [|o r IH]; intros m s H; auto. apply IH. now apply AbsM_step. Qed.

(* the four of them, spelled out *)
Corollary AbsM_add m s c t : AbsM m s -> AbsM (Store.Model.mem_add m c t) (st_add s t (Some c)).
Proof. exact (AbsM_step m s (TAdd c t)). Qed.
Corollary AbsM_remove m s k p : AbsM m s -> AbsM (Store.StoreLevel.mem_remove_k m k p) (st_remove s p k).
Proof. exact (AbsM_step m s (TRemove k p)). Qed.
Corollary AbsM_add_graph m s c : AbsM m s -> AbsM (Store.StoreLevel.mem_add_graph m c) (st_add_graph s c).
Proof. exact (AbsM_step m s (TAddGraph c)). Qed.
Corollary AbsM_remove_graph m s c : AbsM m s -> AbsM (Store.StoreLevel.mem_remove_graph m c) (st_remove_graph s c).
Proof. exact (AbsM_step m s (TRemoveGraph c)). Qed.

(* ---- every store-level read of the Memory model enumerates the abstract read ---- *)
Lemma st_match_In s p k t : orphans s = [] ->
  (In t (st_match s p k) <-> matches p t = true /\
     match k with Some c => In (t, c) (quads s) | None => exists c, In (t, c) (quads s) end).
Proof.
  intros Ho. unfold st_match. destruct k as [c|].
  - rewrite in_q_triples. tauto.
  - rewrite Ho, app_nil_r, filter_In, in_all_triples. tauto.
Qed.

Lemma st_match_NoDup s p k : NoDup (quads s) -> orphans s = [] -> NoDup (st_match s p k).
Proof.
  intros Hn Ho. unfold st_match. destruct k as [c|]; [now apply q_triples_NoDup|].
  rewrite Ho, app_nil_r. apply filter_NoDup, all_triples_NoDup.
Qed.

(* Memory.triples(pattern, context) for a graph or None *)
Theorem mem_triples_realises m s k p : AbsM m s ->
  NoDup (mem_triples_k m k p) /\ NoDup (st_match s p k)
  /\ forall t, In t (mem_triples_k m k p) <-> In t (st_match s p k).
Proof.
  intros [HT Ho]. pose proof HT as (Hi & Hh & Hn & _).
  destruct (Store.StoreLevelProofs.mem_triples_k_exact m k p Hi) as [H1 H2].
  split; auto. split; [now apply st_match_NoDup|].
  intros t. rewrite H2, (st_match_In s p k t Ho), (Store.StoreLevelProofs.content_holds m (ts_of s) k t HT).
  destruct k as [c|]; cbn [Store.StoreLevel.ts_content Store.StoreLevel.tkey ts_of Store.StoreLevel.ts_q].
  - rewrite Store.GraphProofs.sp_content_In. tauto.
  - rewrite Store.StoreLevelProofs.sp_union_In. tauto.
Qed.

(* __len__(context) *)
Theorem mem_len_realises m s k : AbsM m s -> mem_len_k m k = st_len s k.
Proof.
  intros H. destruct (mem_triples_realises m s k pall H) as (N1 & N2 & Hin).
  unfold st_len. change (mem_len_k m k) with (N.of_nat (length (mem_triples_k m k pall))). f_equal.
  apply Permutation_length, NoDup_Permutation; auto.
Qed.

(* contexts() and contexts(triple) *)
Theorem mem_contexts_realises m s : AbsM m s ->
  NoDup (mem_contexts m) /\ forall c, In c (mem_contexts m) <-> In c (known s).
Proof. intros [(_ & _ & _ & Hn & Hk) _]. split; auto. Qed.

Theorem mem_contexts_of_realises m s t : AbsM m s ->
  NoDup (mem_contexts_of m t) /\ forall c, In c (mem_contexts_of m t) <-> In c (ctxs_of t (quads s)).
Proof.
  intros [HT Ho].
  pose proof (Store.StoreLevelProofs.t_observe_ok
                {| Store.StoreLevel.tc_simple := false; Store.StoreLevel.tc_keys := []; Store.StoreLevel.tc_ops := [] |}
                (Store.Model.SMem m) (ts_of s) t (conj eq_refl HT)) as H.
  unfold Store.StoreLevel.tobs1_ok, Store.StoreLevel.t_observe in H.
  cbn [Store.StoreLevel.tc_simple Store.StoreLevel.tc_keys map Store.StoreLevel.t_contexts Store.StoreLevel.t_contexts_of] in H.
  apply andb_true_iff in H. destruct H as [_ H]. apply andb_true_iff in H. destruct H as [_ H].
  apply (enum_ofb_spec N.eqb N.eqb_spec) in H. destruct H as [H1 H2]. split; auto.
  intros c. rewrite (H2 c), Store.StoreLevelProofs.graphs_of_In, in_ctxs_of. reflexivity.
Qed.

(* ---- a front-end operation IS its list of store-level writes ---- *)
Lemma iadd_as_ops c ts : forall s, iadd s c ts = fold_left st_top (map (fun t => TAdd c t) ts) s.
Proof. induction ts as [|t r IH]; intros s; auto. cbn [iadd fold_left map st_top]. apply IH. Qed.

Lemma cg_graph_as_ops d a :
  cg_graph d (Some a) true = (set_st d (fold_left st_top (merge_ops a) (st d)), Some (arg_name a)).
Proof.
  destruct a as [c|c|c ts]; cbn [cg_graph merge_ops fold_left arg_name]; rewrite ?set_st_id; auto.
  now rewrite iadd_as_ops.
Qed.

Lemma cg_graph_read_id d oa : cg_graph d oa false = (d, option_map arg_name oa).
Proof. destruct oa as [[c|c|c ts]|]; reflexivity. Qed.

Lemma fold_st_top_app a b s : fold_left st_top (a ++ b) s = fold_left st_top b (fold_left st_top a s).
Proof. apply fold_left_app. Qed.

Lemma cg_addN_as_ops l : forall d,
  cg_addN d l = set_st d (fold_left st_top (flat_map (fun x => merge_ops (snd x) ++ [TAdd (arg_name (snd x)) (fst x)]) l) (st d)).
Proof.
  induction l as [|[t a] r IH]; intros d; [now rewrite set_st_id|].
  unfold cg_addN in *. cbn [fold_left flat_map fst snd]. rewrite cg_graph_as_ops, IH.
  cbn [set_st st]. rewrite !fold_st_top_app. reflexivity.
Qed.

Lemma cg_spoc_read_id d ca : cg_spoc d ca false = (d, eff_graph ca None).
Proof. destruct ca as [|oa]; cbn [cg_spoc]; [reflexivity|]. rewrite cg_graph_read_id. destruct oa; reflexivity. Qed.

Lemma cg_triples_fst d p ca kw du : fst (cg_triples d p ca kw du) = d.
Proof. unfold cg_triples. rewrite cg_spoc_read_id, cg_graph_read_id. reflexivity. Qed.

Lemma cg_contains_fst d p ca du : fst (cg_contains d p ca du) = d.
Proof.
  unfold cg_contains. rewrite cg_spoc_read_id. pose proof (cg_triples_fst d p CTriple (regraph (eff_graph ca None)) du) as H.
  destruct (cg_triples d p CTriple (regraph (eff_graph ca None)) du) as [d2 l]. exact H.
Qed.

Definition mk_ds (s : store) (b : bool) (f : N) : ds := {| st := s; is_ds := b; fresh := f |}.

Theorem do_op_as_ops d o :
  fst (do_op d o) = mk_ds (fold_left st_top (wops (fresh d) o) (st d)) (is_ds d) (fresh_step (fresh d) o).
Proof.
  destruct d as [s b f]. unfold mk_ds.
  destruct o as [t ca|l|p ca|oa|oa|c|p ca kw du|p ca|p ca du|t]; cbn [do_op fst wops fresh_step st is_ds fresh].
  - destruct ca as [|[a|]]; unfold cg_add; cbn [cg_spoc]; try reflexivity.
    rewrite cg_graph_as_ops. cbn [set_st st is_ds fresh]. now rewrite fold_st_top_app.
  - rewrite cg_addN_as_ops. reflexivity.
  - unfold cg_remove. rewrite cg_spoc_read_id. reflexivity.
  - destruct oa as [a|]; cbn [ds_graph]; [|reflexivity].
    rewrite cg_graph_as_ops. cbn [set_st st is_ds fresh]. now rewrite fold_st_top_app.
  - destruct oa as [a|]; cbn [ds_remove_graph set_st st is_ds fresh fold_left st_top]; [|reflexivity].
    destruct (arg_name a =? 0); reflexivity.
  - reflexivity.
  - pose proof (cg_triples_fst {| st := s; is_ds := b; fresh := f |} p ca kw du) as H.
    destruct (cg_triples {| st := s; is_ds := b; fresh := f |} p ca kw du). exact H.
  - unfold cg_quads. rewrite cg_spoc_read_id. reflexivity.
  - pose proof (cg_contains_fst {| st := s; is_ds := b; fresh := f |} p ca du) as H.
    destruct (cg_contains {| st := s; is_ds := b; fresh := f |} p ca du). exact H.
  - unfold cg_contexts_of. cbn [is_ds]. destruct b; reflexivity.
Qed.

(* ---- every history ---- *)
Theorem mem_after_realises : forall ops m d,
  AbsM m (st d) -> AbsM (mem_after m (fresh d) ops) (st (ds_after d ops)).
Proof.
  induction ops as [|o r IH]; intros m d H; [exact H|].
  unfold ds_after in *. cbn [fold_left mem_after]. pose proof (do_op_as_ops d o) as E.
  specialize (IH (fold_left mem_top (wops (fresh d) o) m) (fst (do_op d o))).
  rewrite E in IH |- *. cbn [mk_ds st fresh] in IH |- *. apply IH. now apply AbsM_steps.
Qed.

(* and the specification state of C02 on top: the simulation relation of
   Dataset/Proofs.v holds along every history *)
Lemma ds_after_R : forall ops d sp, R d sp -> R (ds_after d ops) (fold_left sp_step ops sp).
Proof.
  induction ops as [|o r IH]; intros d sp H; [exact H|].
  unfold ds_after in *. cbn [fold_left]. destruct (do_op_spec d sp o H) as (d1 & rs & E & R1 & _).
  rewrite E. cbn [fst]. now apply IH.
Qed.

(* Memory, started empty, after ANY history of front-end operations: graph by
   graph it holds exactly the triples the C02 mapping prescribes, its registered
   graphs are the known names (the default graph apart, which the front end
   lists without registering), and its reads enumerate the mapping *)
Theorem memory_history ops :
  let m := mem_after mem_empty 0 ops in
  let sp := fold_left sp_step ops sp_init in
  MemInv m
  /\ (forall c t, mem_holds m c t = q_mem (t, c) (sq sp))
  /\ (forall c, In c (sk sp) <-> c = 0 \/ In c (mem_contexts m))
  /\ (forall c p, NoDup (mem_triples_k m (Some c) p) /\ forall t, In t (mem_triples_k m (Some c) p) <-> In t (sp_graph sp c p))
  /\ (forall p, NoDup (mem_triples_k m None p) /\ forall t, In t (mem_triples_k m None p) <-> In t (sp_union sp p))
  /\ (forall t, NoDup (mem_contexts_of m t) /\ forall c, In c (mem_contexts_of m t) <-> In (t, c) (sq sp))
  /\ (forall c, mem_len_k m (Some c) = N.of_nat (length (sp_graph sp c pall)))
  /\ mem_len_k m None = N.of_nat (length (all_triples (sq sp))).
Proof.
  cbv zeta.
  pose proof (mem_after_realises ops mem_empty (ds_init true) AbsM_empty) as HA.
  pose proof (ds_after_R ops (ds_init true) sp_init (R_init true)) as HR.
  cbn [ds_init fresh] in HA. set (m := mem_after mem_empty 0 ops) in *.
  set (d := ds_after (ds_init true) ops) in *. set (sp := fold_left sp_step ops sp_init) in *.
  pose proof HR as (Eq & Eo & _ & Hn & _ & _ & Hiff & _).
  split; [exact (proj1 (proj1 HA))|]. split; [|split; [|split; [|split; [|split; [|split]]]]].
  - intros c t. rewrite (AbsM_holds m _ HA), Eq. reflexivity.
  - intros c. rewrite Hiff. pose proof (AbsM_known m _ HA c) as Hk. tauto.
  - intros c p. destruct (mem_triples_realises m _ (Some c) p HA) as (N1 & _ & Hin). split; auto.
    intros t. rewrite Hin. unfold st_match, sp_graph. now rewrite Eq.
  - intros p. destruct (mem_triples_realises m _ None p HA) as (N1 & _ & Hin). split; auto.
    intros t. rewrite Hin. unfold st_match, sp_union. now rewrite Eq, Eo, app_nil_r.
  - intros t. destruct (mem_contexts_of_realises m _ t HA) as (N1 & Hin). split; auto.
    intros c. rewrite Hin, in_ctxs_of, Eq. reflexivity.
  - intros c. rewrite (mem_len_realises m _ (Some c) HA). unfold st_len, st_match, sp_graph. now rewrite Eq.
  - rewrite (mem_len_realises m _ None HA). unfold st_len, st_match. rewrite Eq, Eo, app_nil_r.
    f_equal. f_equal. apply filter_true_id. intros x _. apply matches_pall.
Qed.
