(* ConjunctiveGraph / Dataset over the MEMORY STORE MODEL of C01 (coq/Store/Model.v,
   Store/StoreLevel.v: Memory.add / remove with a graph or None / triples /
   contexts / add_graph / remove_graph with their indexes, context dictionaries
   and default-context compression) instead of over the abstract store of
   Dataset/Model.v.  Definitions only; Dataset/OverMemoryProofs.v proves that the
   Memory model REALISES the abstract store, operation by operation and over
   every history.  Store/Model.v has its own [store], [case], [spec_ok],
   [sp_union] ...: its names are used qualified. *)
From RV Require Export Dataset.Model.
From RV Require Store.StoreLevel.

Notation mem := Store.Model.mem.
Notation mem_empty := Store.Model.mem_empty.
Notation mem_holds := Store.Model.mem_holds.
Notation top := Store.StoreLevel.top.
Notation TAdd := Store.StoreLevel.TAdd.
Notation TRemove := Store.StoreLevel.TRemove.
Notation TAddGraph := Store.StoreLevel.TAddGraph.
Notation TRemoveGraph := Store.StoreLevel.TRemoveGraph.
Notation mem_triples_k := Store.StoreLevel.mem_triples_k.
Notation mem_len_k := Store.StoreLevel.mem_len_k.
Notation mem_contexts := Store.StoreLevel.mem_contexts.
Notation mem_contexts_of := Store.StoreLevel.mem_contexts_of.

(* one store-level write on the Memory model (C01's [t_step] on a Memory store) *)
Definition mem_top (m : mem) (o : top) : mem :=
  match o with
  | TAdd c t => Store.Model.mem_add m c t
  | TRemove k p => Store.StoreLevel.mem_remove_k m k p
  | TAddGraph c => Store.StoreLevel.mem_add_graph m c
  | TRemoveGraph c => Store.StoreLevel.mem_remove_graph m c
  end.

(* the same write on the abstract store of Dataset/Model.v *)
Definition st_top (s : store) (o : top) : store :=
  match o with
  | TAdd c t => st_add s t (Some c)
  | TRemove k p => st_remove s p k
  | TAddGraph c => st_add_graph s c
  | TRemoveGraph c => st_remove_graph s c
  end.

(* the store-level writes a front-end operation issues, in order (reads issue
   none).  [fr] is the front end's counter of minted graph names. *)
Definition merge_ops (a : garg) : list top :=
  match a with GForeign c ts => map (fun t => TAdd c t) ts | _ => [] end.

Definition wops (fr : N) (o : op) : list top :=
  match o with
  | OAdd t CTriple | OAdd t (CQuad None) => [TAdd 0%N t]
  | OAdd t (CQuad (Some a)) => merge_ops a ++ [TAdd (arg_name a) t]
  | OAddN l => flat_map (fun x => merge_ops (snd x) ++ [TAdd (arg_name (snd x)) (fst x)]) l
  | ORemove p ca => [TRemove (eff_graph ca None) p]
  | OGraph None => [TAddGraph (FRESH_BASE + fr)%N]
  | OGraph (Some a) => merge_ops a ++ [TAddGraph (arg_name a)]
  | ORemoveGraph None => []
  | ORemoveGraph (Some a) =>
      TRemoveGraph (arg_name a) :: (if N.eqb (arg_name a) 0 then [TAddGraph 0%N] else [])
  | ORemoveContext c => [TRemove (Some c) pall]
  | OTriples _ _ _ _ | OQuads _ _ | OContains _ _ _ | OContexts _ => []
  end.

Definition fresh_step (fr : N) (o : op) : N :=
  match o with OGraph None => N.succ fr | _ => fr end.

(* the front end over the Memory model: the Memory state and the name counter *)
Fixpoint mem_after (m : mem) (fr : N) (ops : list op) : mem :=
  match ops with
  | [] => m
  | o :: r => mem_after (fold_left mem_top (wops fr o) m) (fresh_step fr o) r
  end.

(* the dataset model after the same history *)
Definition ds_after (d : ds) (ops : list op) : ds := fold_left (fun d o => fst (do_op d o)) ops d.
