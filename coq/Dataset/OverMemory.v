(* ConjunctiveGraph / Dataset over the MEMORY STORE MODEL of C01 (coq/Store/Model.v,
   Store/StoreLevel.v: Memory.add / remove with a graph or None / triples /
   contexts / add_graph / remove_graph with their indexes, context dictionaries
   and default-context compression) instead of over the abstract store of
   Dataset/Model.v.  Definitions only; Dataset/OverMemoryProofs.v proves that the
   Memory model REALISES the abstract store, operation by operation and over
   every history.  Store/Model.v has its own [store], [case], [spec_ok],
   [sp_union] ...: its names are used qualified. *)
From RV Require Export Dataset.Model.
From RV Require Store.StoreLevel.

Notation mem := Store.Model.mem.
Notation mem_empty := Store.Model.mem_empty.
Notation mem_holds := Store.Model.mem_holds.
Notation top := Store.StoreLevel.top.
Notation TAdd := Store.StoreLevel.TAdd.
Notation TRemove := Store.StoreLevel.TRemove.
Notation TAddGraph := Store.StoreLevel.TAddGraph.
Notation TRemoveGraph := Store.StoreLevel.TRemoveGraph.
Notation mem_triples_k := Store.StoreLevel.mem_triples_k.
Notation mem_len_k := Store.StoreLevel.mem_len_k.
Notation mem_contexts := Store.StoreLevel.mem_contexts.
Notation mem_contexts_of := Store.StoreLevel.mem_contexts_of.

(* one store-level write on the Memory model (C01's [t_step] on a Memory store) *)
Definition mem_top (m : mem) (o : top) : mem :=
  match o with
  | TAdd c t => Store.Model.mem_add m c t
  | TRemove k p => Store.StoreLevel.mem_remove_k m k p
  | TAddGraph c => Store.StoreLevel.mem_add_graph m c
  | TRemoveGraph c => Store.StoreLevel.mem_remove_graph m c
  end.

(* the same write on the abstract store of Dataset/Model.v *)
Definition st_top (s : store) (o : top) : store :=
  match o with
  | TAdd c t => st_add s t (Some c)
  | TRemove k p => st_remove s p k
  | TAddGraph c => st_add_graph s c
  | TRemoveGraph c => st_remove_graph s c
  end.

(* the store-level writes a front-end operation issues, in order (reads issue
   none).  [fr] is the front end's counter of minted graph names. *)
Definition merge_ops (a : garg) : list top :=
  match a with GForeign c ts => map (fun t => TAdd c t) ts | _ => [] end.

Definition wops (fr : N) (o : op) : list top :=
  match o with
  | OAdd t CTriple | OAdd t (CQuad None) => [TAdd 0%N t]
  | OAdd t (CQuad (Some a)) => merge_ops a ++ [TAdd (arg_name a) t]
  | OAddN l => flat_map (fun x => merge_ops (snd x) ++ [TAdd (arg_name (snd x)) (fst x)]) l
  | ORemove p ca => [TRemove (eff_graph ca None) p]
  | OGraph None => [TAddGraph (FRESH_BASE + fr)%N]
  | OGraph (Some a) => merge_ops a ++ [TAddGraph (arg_name a)]
  | ORemoveGraph None => []
  | ORemoveGraph (Some a) =>
      TRemoveGraph (arg_name a) :: (if N.eqb (arg_name a) 0 then [TAddGraph 0%N] else [])
  | ORemoveContext c => [TRemove (Some c) pall]
  | OTriples _ _ _ _ | OQuads _ _ | OContains _ _ _ | OContexts _ => []
  end.

Definition fresh_step (fr : N) (o : op) : N :=
  match o with OGraph None => N.succ fr | _ => fr end.

(* the front end over the Memory model: the Memory state and the name counter *)
Fixpoint mem_after (m : mem) (fr : N) (ops : list op) : mem :=
  match ops with
  | [] => m
  | o :: r => mem_after (fold_left mem_top (wops fr o) m) (fresh_step fr o) r
  end.

(* the dataset model after the same history *)
Definition ds_after (d : ds) (ops : list op) : ds := fold_left (fun d o => fst (do_op d o)) ops d.

(* ------------------------------------------------------------------ *)
(* The front end's READS computed from the Memory model's store reads, call by
   call as graph.py makes them (none of them writes: _spoc and _graph(copy=False)
   resolve the graph argument to a name, see C02_front_end_is_store_calls). *)

(* ConjunctiveGraph.triples: the default_union dispatch (with the alias of finding
   F20, as the code has it), then store.triples(pattern, context) *)
Definition m_triples (m : mem) (p : pat) (ca : ctxarg) (kw : option garg) (du : bool) : list triple :=
  mem_triples_k m (du_dispatch du (eff_graph ca kw)) p.

(* __contains__ *)
Definition m_contains (m : mem) (p : pat) (ca : ctxarg) (du : bool) : bool :=
  negb (is_nil (m_triples m p ca None du)).

(* quads: for every triple store.triples yields, one quad per context of the
   generator that comes with it - all the triple's graphs (the leak of F17) *)
Definition m_quads (m : mem) (p : pat) (ca : ctxarg) : list quad :=
  flat_map (fun t => map (fun g => (t, g)) (mem_contexts_of m t)) (mem_triples_k m (eff_graph ca None) p).

Definition m_len (m : mem) : N := mem_len_k m None.
Definition m_view_triples (m : mem) (c : cid) (p : pat) : list triple := mem_triples_k m (Some c) p.
Definition m_view_len (m : mem) (c : cid) : N := mem_len_k m (Some c).

(* Dataset.graphs() / ConjunctiveGraph.contexts(), and with a triple *)
Definition list_default (dataset : bool) (l : list cid) : list cid :=
  if dataset then (if memb N.eqb 0%N l then l else l ++ [0%N]) else l.
Definition m_graphs (dataset : bool) (m : mem) : list cid := list_default dataset (mem_contexts m).
Definition m_contexts_of (dataset : bool) (m : mem) (t : triple) : list cid :=
  list_default dataset (mem_contexts_of m t).

(* the answer of a read operation over Memory *)
Definition m_read (dataset : bool) (m : mem) (o : op) : res :=
  match o with
  | OTriples p ca kw du => RTriples (m_triples m p ca kw du)
  | OQuads p ca => RQuads (m_quads m p ca)
  | OContains p ca du => RBool (m_contains m p ca du)
  | OContexts t => RNames (m_contexts_of dataset m t)
  | _ => RNone
  end.

(* ------------------------------------------------------------------ *)
(* a whole history over Memory, observed as Dataset/Model.v observes it: the
   operation's own answer and the snapshot after it *)
Definition m_snapshot (c : case) (m : mem) : snap :=
  {| o_quads := m_quads m pall CTriple;
     o_graphs := m_graphs (c_ds c) m;
     o_views := map (fun g => (g, m_view_triples m g pall)) (c_names c);
     o_vlens := map (m_view_len m) (c_names c);
     o_len := m_len m;
     o_union := m_triples m pall CTriple None true;
     o_dflt := m_triples m pall CTriple None false;
     o_mem := flat_map (fun g => map (fun t => m_contains m (pat_of t) (CQuad (Some (GId g))) false) (c_vocab c)) (c_names c) |}.

(* what a write hands back (it depends on the name counter only) *)
Definition m_res (dataset : bool) (m : mem) (fr : N) (o : op) : res :=
  match o with
  | OAdd _ _ | OAddN _ | ORemove _ _ | ORemoveGraph _ => RSelf
  | OGraph oa => RNames [match oa with None => (FRESH_BASE + fr)%N | Some a => arg_name a end]
  | ORemoveContext _ => RNone
  | _ => m_read dataset m o
  end.

Fixpoint m_run (c : case) (m : mem) (fr : N) (ops : list op) : obs :=
  match ops with
  | [] => []
  | o :: r =>
      let m' := fold_left mem_top (wops fr o) m in
      (m_res (c_ds c) m fr o, m_snapshot c m') :: m_run c m' (fresh_step fr o) r
  end.

Definition m_model_obs (c : case) : obs := m_run c mem_empty 0%N (c_ops c).
