(* Proofs about the Dataset / ConjunctiveGraph model: the simulation between
   the front end over the abstract store and the specification-level mapping,
   correctness of every read, and the isolation theorems. *)
From RV Require Import Dataset.Model.
Local Open Scope N_scope.

(* ------------------------------------------------------------------ *)
(* generic list facts *)
Lemma filter_true_id {A} (f : A -> bool) l : (forall x, In x l -> f x = true) -> filter f l = l.
Proof.
  induction l as [|x r IH]; simpl; intros H; auto.
  rewrite (H x) by auto. f_equal. apply IH. auto.
Qed.

Lemma matches_pall t : matches pall t = true.
Proof. destruct t as [[a b] c]. reflexivity. Qed.

Lemma NoDup_map_inj {A B} (f : A -> B) l :
  (forall x y, In x l -> In y l -> f x = f y -> x = y) -> NoDup l -> NoDup (map f l).
Proof.
  induction l as [|x r IH]; simpl; intros Hi Hn; [constructor|].
  inversion Hn as [|? ? Hx Hr]; subst. constructor.
  - rewrite in_map_iff. intros (y & Hy1 & Hy2). apply Hx.
    rewrite (Hi x y); auto.
  - apply IH; auto.
Qed.

Lemma NoDup_app_disj {A} (l1 l2 : list A) :
  NoDup l1 -> NoDup l2 -> (forall x, In x l1 -> ~ In x l2) -> NoDup (l1 ++ l2).
Proof.
  induction l1 as [|x r IH]; simpl; intros H1 H2 Hd; auto.
  inversion H1 as [|? ? Hx Hr]; subst. constructor.
  - rewrite in_app_iff. intros [H|H]; [tauto|]. apply (Hd x); auto.
  - apply IH; auto.
Qed.

Lemma NoDup_flat_map {A B} (f : A -> list B) l :
  NoDup l -> (forall x, In x l -> NoDup (f x)) ->
  (forall x y b, In x l -> In y l -> In b (f x) -> In b (f y) -> x = y) ->
  NoDup (flat_map f l).
Proof.
  induction l as [|x r IH]; simpl; intros Hn Hf Hd; [constructor|].
  inversion Hn as [|? ? Hx Hr]; subst.
  apply NoDup_app_disj.
  - apply Hf. auto.
  - apply IH; auto. intros a b c Ha Hb. apply Hd; auto.
  - intros b Hb Hin. apply in_flat_map in Hin. destruct Hin as (y & Hy1 & Hy2).
    assert (x = y) by (apply (Hd x y b); auto). subst. tauto.
Qed.

Lemma tenum_refl l : NoDup l -> tenum l l = true.
Proof.
  intros H. unfold tenum. apply (enum_ofb_spec _ triple_eqb_spec). split; auto. apply seteq_refl.
Qed.

Lemma in_all_triples t q : In t (all_triples q) <-> exists c, In (t, c) q.
Proof.
  unfold all_triples. rewrite (dedup_In _ triple_eqb_spec), in_map_iff. split.
  - intros ([t' c] & H1 & H2). simpl in H1. subst. eauto.
  - intros (c & H). exists (t, c). auto.
Qed.

Lemma all_triples_NoDup q : NoDup (all_triples q).
Proof. apply (dedup_NoDup _ triple_eqb_spec). Qed.

Lemma in_q_triples t p c q : In t (q_triples p c q) <-> In (t, c) q /\ matches p t = true.
Proof.
  unfold q_triples. rewrite in_map_iff. split.
  - intros ([t' c'] & H1 & H2). simpl in H1. subst. apply filter_In in H2. destruct H2 as [H2 H3].
    unfold qsel in H3. simpl in H3. apply andb_true_iff in H3. destruct H3 as [H3 H4].
    apply N.eqb_eq in H4. subst. auto.
  - intros [H1 H2]. exists (t, c). split; auto. apply filter_In. split; auto.
    unfold qsel. simpl. now rewrite H2, N.eqb_refl.
Qed.

Lemma q_triples_NoDup p c q : NoDup q -> NoDup (q_triples p c q).
Proof.
  intros Hn. unfold q_triples. apply NoDup_map_inj; [|now apply filter_NoDup].
  intros [t1 c1] [t2 c2] H1 H2. simpl. intros ->. apply filter_In in H1, H2.
  destruct H1 as [_ H1], H2 as [_ H2]. unfold qsel in *. simpl in *.
  apply andb_true_iff in H1, H2. destruct H1 as [_ H1], H2 as [_ H2].
  apply N.eqb_eq in H1, H2. congruence.
Qed.

Lemma in_ctxs_of t g q : In g (ctxs_of t q) <-> In (t, g) q.
Proof.
  unfold ctxs_of. rewrite in_map_iff. split.
  - intros ([t' c] & H1 & H2). simpl in H1. subst. apply filter_In in H2. destruct H2 as [H2 H3].
    simpl in H3. destruct (triple_eqb_spec t t'); [subst; auto|discriminate].
  - intros H. exists (t, g). split; auto. apply filter_In. split; auto. simpl.
    destruct (triple_eqb_spec t t); congruence.
Qed.

Lemma ctxs_of_NoDup t q : NoDup q -> NoDup (ctxs_of t q).
Proof.
  intros Hn. unfold ctxs_of. apply NoDup_map_inj; [|now apply filter_NoDup].
  intros [t1 c1] [t2 c2] H1 H2. simpl. intros ->. apply filter_In in H1, H2.
  destruct H1 as [_ H1], H2 as [_ H2]. simpl in *.
  destruct (triple_eqb_spec t t1); [|discriminate]. destruct (triple_eqb_spec t t2); [|discriminate]. congruence.
Qed.

Lemma is_nil_q_triples t g q : is_nil (q_triples (pat_of t) g q) = negb (q_mem (t, g) q).
Proof.
  destruct (q_mem (t, g) q) eqn:E; simpl.
  - apply q_mem_In in E. destruct (q_triples (pat_of t) g q) eqn:E2; auto.
    assert (H : In t (q_triples (pat_of t) g q)).
    { apply in_q_triples. split; auto. now apply matches_pat_of. }
    rewrite E2 in H. destruct H.
  - destruct (q_triples (pat_of t) g q) as [|x r] eqn:E2; auto. exfalso.
    assert (H : In x (q_triples (pat_of t) g q)) by (rewrite E2; simpl; auto).
    apply in_q_triples in H. destruct H as [H1 H2]. apply matches_pat_of in H2. subst.
    apply q_mem_In in H1. congruence.
Qed.

Lemma fold_q_add_In c ts : forall q x,
  In x (fold_left (fun q t => q_add (t, c) q) ts q) <-> In x q \/ (exists t, In t ts /\ x = (t, c)).
Proof.
  induction ts as [|t r IH]; simpl; intros q x.
  - split; [auto|intros [H|(t & [] & _)]; auto].
  - rewrite IH, q_add_In. split.
    + intros [[->|H]|(t' & H1 & H2)]; [right; exists t; auto|auto|right; exists t'; auto].
    + intros [H|(t' & [<-|H1] & H2)]; [auto|auto|right; eauto].
Qed.

Lemma fold_q_add_NoDup c ts : forall q, NoDup q -> NoDup (fold_left (fun q t => q_add (t, c) q) ts q).
Proof. induction ts as [|t r IH]; simpl; intros q H; auto. apply IH, q_add_NoDup, H. Qed.

Lemma fold_q_add_noop c ts : forall q,
  (forall t, In t ts -> In (t, c) q) -> fold_left (fun q t => q_add (t, c) q) ts q = q.
Proof.
  induction ts as [|t r IH]; simpl; intros q H; auto.
  assert (Hq : q_add (t, c) q = q).
  { unfold q_add, sadd. assert (Hm : memb quad_eqb (t, c) q = true) by (apply q_mem_In; auto). now rewrite Hm. }
  rewrite Hq. apply IH. auto.
Qed.

(* ------------------------------------------------------------------ *)
(* the simulation relation *)
Definition R (d : ds) (sp : dspec) : Prop :=
  quads (st d) = sq sp /\ orphans (st d) = [] /\ fresh d = sf sp /\
  NoDup (sq sp) /\ NoDup (known (st d)) /\ NoDup (sk sp) /\
  (forall x, In x (sk sp) <-> x = 0 \/ In x (known (st d))) /\
  (forall t c, In (t, c) (sq sp) -> In c (known (st d))).

Lemma R_init b : R (ds_init b) sp_init.
Proof.
  unfold R; simpl. split; [reflexivity|]. split; [reflexivity|]. split; [reflexivity|].
  split; [constructor|]. split; [constructor|]. split; [repeat constructor; simpl; tauto|].
  split; [intros x; simpl; intuition|intros t c []].
Qed.

Lemma R_spec_equiv d sp sp' :
  R d sp -> sq sp' = sq sp -> sf sp' = sf sp -> NoDup (sk sp') ->
  (forall x, In x (sk sp') <-> In x (sk sp)) -> R d sp'.
Proof.
  intros (H1 & H2 & H3 & H4 & H5 & H6 & H7 & H8) Eq Ef Hn Hk.
  unfold R. rewrite Eq, Ef. repeat split; auto.
  - intros H. apply H7, Hk, H.
  - intros H. apply Hk, H7, H.
Qed.

Definition sp_know (sp : dspec) (c : cid) : dspec :=
  {| sq := sq sp; sk := sadd N.eqb c (sk sp); sf := sf sp |}.

Lemma N_sadd_In c x l : In x (sadd N.eqb c l) <-> x = c \/ In x l.
Proof. apply (sadd_In _ N.eqb_spec). Qed.
Lemma N_sadd_NoDup c l : NoDup l -> NoDup (sadd N.eqb c l).
Proof. apply (sadd_NoDup _ N.eqb_spec). Qed.
Lemma N_srem_In c x l : In x (srem N.eqb c l) <-> In x l /\ x <> c.
Proof. apply (srem_In _ N.eqb_spec). Qed.

Lemma R_add d sp t c : R d sp -> R (set_st d (st_add (st d) t (Some c))) (sp_add sp t c).
Proof.
  intros (H1 & H2 & H3 & H4 & H5 & H6 & H7 & H8).
  unfold R, set_st, st_add, sp_add; simpl. rewrite H1, H2. simpl.
  repeat split; auto.
  - now apply q_add_NoDup.
  - now apply N_sadd_NoDup.
  - now apply N_sadd_NoDup.
  - rewrite !N_sadd_In, H7. tauto.
  - rewrite !N_sadd_In, H7. tauto.
  - intros t' c'. rewrite q_add_In, N_sadd_In. intros [[= -> ->]|H]; eauto.
Qed.

Lemma R_know d sp c : R d sp -> R (set_st d (st_add_graph (st d) c)) (sp_know sp c).
Proof.
  intros (H1 & H2 & H3 & H4 & H5 & H6 & H7 & H8).
  unfold R, set_st, st_add_graph, sp_know; simpl.
  repeat split; auto.
  - now apply N_sadd_NoDup.
  - now apply N_sadd_NoDup.
  - rewrite !N_sadd_In, H7. tauto.
  - rewrite !N_sadd_In, H7. tauto.
  - intros t' c' H. rewrite N_sadd_In. eauto.
Qed.

Lemma R_know0 d sp : R d sp -> R (set_st d (st_add_graph (st d) 0)) sp.
Proof.
  intros H. pose proof H as (_ & _ & _ & _ & _ & H6 & H7 & _).
  apply R_spec_equiv with (sp := sp_know sp 0); auto.
  - now apply R_know.
  - simpl. intros x. rewrite N_sadd_In. split; auto. intros [->|Hx]; auto. apply H7. auto.
Qed.

Lemma R_touch d sp : R d sp -> R (touch_default d) sp.
Proof.
  intros H. unfold touch_default. destruct (is_ds d); auto.
  destruct (memb N.eqb 0 (known (st d))); auto. now apply R_know0.
Qed.

Lemma set_st_st d s : st (set_st d s) = s.
Proof. reflexivity. Qed.
Lemma set_st_set_st d s s' : set_st (set_st d s) s' = set_st d s'.
Proof. reflexivity. Qed.
Lemma set_st_id d : set_st d (st d) = d.
Proof. destruct d; reflexivity. Qed.

Definition sp_addl (sp : dspec) (c : cid) (ts : list triple) : dspec :=
  fold_left (fun sp t => sp_add sp t c) ts sp.

Lemma R_iadd c ts : forall d sp, R d sp -> R (set_st d (iadd (st d) c ts)) (sp_addl sp c ts).
Proof.
  induction ts as [|t r IH]; intros d sp H; simpl.
  - now rewrite set_st_id.
  - specialize (IH _ _ (R_add d sp t c H)). rewrite set_st_st, set_st_set_st in IH. exact IH.
Qed.

Lemma sp_addl_sq c ts : forall sp, sq (sp_addl sp c ts) = fold_left (fun q t => q_add (t, c) q) ts (sq sp).
Proof. induction ts as [|t r IH]; simpl; intros sp; auto. unfold sp_addl in *. simpl. now rewrite IH. Qed.
Lemma sp_addl_sf c ts : forall sp, sf (sp_addl sp c ts) = sf sp.
Proof. induction ts as [|t r IH]; simpl; intros sp; auto. unfold sp_addl in *. simpl. now rewrite IH. Qed.
Lemma sp_addl_sk c ts : forall sp x,
  In x (sk (sp_addl sp c ts)) <-> In x (sk sp) \/ (x = c /\ ts <> []).
Proof.
  induction ts as [|t r IH]; simpl; intros sp x.
  - split; auto. intros [H|[_ H]]; congruence.
  - unfold sp_addl in *. simpl. rewrite IH. simpl. rewrite N_sadd_In.
    split; [intros [[H|H]|[H _]]|intros [H|[H _]]]; auto; right; split; auto; discriminate.
Qed.

Lemma sp_merge_NoDup sp a : NoDup (sk sp) -> NoDup (sk (sp_merge sp a)).
Proof.
  intros H. unfold sp_merge. destruct (arg_content a); simpl; auto. now apply N_sadd_NoDup.
Qed.

(* ConjunctiveGraph._graph: the name it resolves to, and its write (only with
   [copy], only for a Graph object of another store) *)
Lemma cg_graph_spec d sp oa copy :
  R d sp ->
  exists d1, cg_graph d oa copy = (d1, option_map arg_name oa)
             /\ R d1 (if copy then match oa with Some a => sp_merge sp a | None => sp end else sp).
Proof.
  intros H. assert (Hsame : (if copy then sp else sp) = sp) by (destruct copy; reflexivity).
  destruct oa as [[c|c|c ts]|]; cbn [cg_graph option_map arg_name].
  - eexists; split; [reflexivity|]. unfold sp_merge. cbn [arg_content]. now rewrite Hsame.
  - eexists; split; [reflexivity|]. unfold sp_merge. cbn [arg_content]. now rewrite Hsame.
  - eexists; split; [reflexivity|].
    pose proof H as Ht. destruct copy; [|exact Ht].
    pose proof (R_iadd c ts _ _ Ht) as Hi.
    pose proof Ht as (Eq & _ & _ & Hn & _ & Hk & Hiff & Hkn).
    unfold sp_merge; simpl. destruct ts as [|t r]; [simpl in *; now rewrite set_st_id in Hi|].
    eapply R_spec_equiv; [exact Hi| | | |].
    + rewrite sp_addl_sq. reflexivity.
    + rewrite sp_addl_sf. reflexivity.
    + simpl. now apply N_sadd_NoDup.
    + intros x. rewrite sp_addl_sk. simpl. rewrite N_sadd_In. split.
      * intros [Hx|Hx]; auto. right. split; auto. discriminate.
      * intros [Hx|[Hx _]]; auto.
  - eexists; split; [reflexivity|]. now rewrite Hsame.
Qed.

Definition spoc_ctx (ca : ctxarg) (dflt : bool) : option cid :=
  match ca with
  | CTriple => if dflt then Some 0 else None
  | CQuad oa => match option_map arg_name oa with
                | None => if dflt then Some 0 else None
                | Some c => Some c
                end
  end.

(* _spoc: with default=True (add) a Graph object is merged, otherwise nothing is written *)
Lemma cg_spoc_spec d sp ca dflt :
  R d sp ->
  exists d1, cg_spoc d ca dflt = (d1, spoc_ctx ca dflt)
             /\ R d1 (if dflt then fst (sp_target sp ca) else sp).
Proof.
  intros H. destruct ca as [|oa]; cbn [cg_spoc spoc_ctx sp_target].
  - eexists; split; [reflexivity|]. destruct dflt; auto.
  - destruct (cg_graph_spec d sp oa dflt H) as (d1 & E & HR). rewrite E. exists d1. split.
    + destruct oa; reflexivity.
    + destruct dflt; auto. destruct oa; auto.
Qed.

Lemma spoc_ctx_false ca : spoc_ctx ca false = eff_graph ca None.
Proof. destruct ca as [|[a|]]; reflexivity. Qed.

(* ------------------------------------------------------------------ *)
(* reads return exactly what the mapping prescribes *)
Lemma st_match_R d sp p oc :
  R d sp ->
  st_match (st d) p oc = match oc with Some c => sp_graph sp c p | None => sp_union sp p end.
Proof.
  intros (H1 & H2 & _). unfold st_match, sp_graph, sp_union. rewrite H1, H2.
  destruct oc; auto. now rewrite app_nil_r.
Qed.

Lemma map_fst_st_triples s p oc : map fst (st_triples s p oc) = st_match s p oc.
Proof. unfold st_triples. rewrite map_map. simpl. apply map_id. Qed.

Lemma sp_graph_NoDup sp c p : NoDup (sq sp) -> NoDup (sp_graph sp c p).
Proof. apply q_triples_NoDup. Qed.
Lemma sp_union_NoDup sp p : NoDup (sp_union sp p).
Proof. apply filter_NoDup, all_triples_NoDup. Qed.

Lemma sp_triples_NoDup sp p g du : NoDup (sq sp) -> NoDup (sp_triples_code sp p g du).
Proof.
  intros H. unfold sp_triples_code. destruct g as [c|]; [destruct (du && (c =? 0))|destruct du];
    auto using sp_graph_NoDup, sp_union_NoDup.
Qed.

Lemma dispatch_spec sp p g du :
  match du_dispatch du g with Some c => sp_graph sp c p | None => sp_union sp p end = sp_triples_code sp p g du.
Proof.
  unfold du_dispatch, sp_triples_code. destruct du, g as [c|]; simpl; auto. destruct (c =? 0); auto.
Qed.

Lemma cg_graph_read d sp oa :
  R d sp -> exists d1, cg_graph d oa false = (d1, option_map arg_name oa) /\ R d1 sp.
Proof. intros H. exact (cg_graph_spec d sp oa false H). Qed.

Lemma cg_spoc_read d sp ca :
  R d sp -> exists d1, cg_spoc d ca false = (d1, eff_graph ca None) /\ R d1 sp.
Proof.
  intros H. destruct (cg_spoc_spec d sp ca false H) as (d1 & E & HR). exists d1.
  now rewrite <- spoc_ctx_false.
Qed.

Lemma cg_triples_spec d sp p ca kw du :
  R d sp ->
  exists d1, cg_triples d p ca kw du = (d1, sp_triples_code sp p (eff_graph ca kw) du) /\ R d1 sp.
Proof.
  intros H. unfold cg_triples.
  destruct (cg_spoc_read d sp ca H) as (d1 & E1 & R1). rewrite E1.
  set (arg := match kw with Some a => Some a | None => regraph (eff_graph ca None) end).
  destruct (cg_graph_read d1 sp arg R1) as (d2 & E2 & R2). rewrite E2.
  exists d2. split; auto. f_equal.
  rewrite map_fst_st_triples, (st_match_R _ sp _ _ R2).
  assert (Hg : option_map arg_name arg = eff_graph ca kw).
  { unfold arg, eff_graph. destruct kw; auto. destruct ca as [|[a|]]; reflexivity. }
  rewrite Hg. apply dispatch_spec.
Qed.

Lemma cg_contains_spec d sp p ca du :
  R d sp ->
  exists d1, cg_contains d p ca du = (d1, negb (is_nil (sp_triples_code sp p (eff_graph ca None) du))) /\ R d1 sp.
Proof.
  intros H. unfold cg_contains.
  destruct (cg_spoc_read d sp ca H) as (d1 & E1 & R1). rewrite E1.
  destruct (cg_triples_spec d1 sp p CTriple (regraph (eff_graph ca None)) du R1) as (d2 & E2 & R2).
  rewrite E2. exists d2. split; auto. do 3 f_equal.
  unfold eff_graph, regraph. destruct ca as [|[a|]]; reflexivity.
Qed.

(* quads: one quad per (named) context of every triple found *)
Definition quads_of (s : store) (p : pat) (c : option cid) : list quad :=
  flat_map (fun x => map (fun g => (fst x, g)) (snd x)) (st_triples s p c).

Lemma quads_of_In s p c t g :
  In (t, g) (quads_of s p c) <-> In t (st_match s p c) /\ In (t, g) (quads s).
Proof.
  unfold quads_of, st_triples. rewrite in_flat_map. split.
  - intros ([t' l] & H1 & H2). apply in_map_iff in H1. destruct H1 as (t'' & [= <- <-] & H1).
    simpl in H2. apply in_map_iff in H2. destruct H2 as (g' & [= <- <-] & H2).
    split; auto. now apply in_ctxs_of.
  - intros [H1 H2]. exists (t, ctxs_of t (quads s)). split.
    + apply in_map_iff. eauto.
    + simpl. apply in_map_iff. exists g. split; auto. now apply in_ctxs_of.
Qed.

Lemma quads_of_NoDup s p c : NoDup (quads s) -> NoDup (st_match s p c) -> NoDup (quads_of s p c).
Proof.
  intros Hq Hm. unfold quads_of, st_triples. apply NoDup_flat_map.
  - apply NoDup_map_inj; auto. intros x y _ _ [= ->]. reflexivity.
  - intros [t l] H. apply in_map_iff in H. destruct H as (t' & [= <- <-] & _). simpl.
    apply NoDup_map_inj; [|now apply ctxs_of_NoDup]. intros x y _ _ [= ->]. reflexivity.
  - intros [t1 l1] [t2 l2] b H1 H2 H3 H4.
    apply in_map_iff in H1, H2. destruct H1 as (u1 & [= <- <-] & _), H2 as (u2 & [= <- <-] & _).
    simpl in *. apply in_map_iff in H3, H4. destruct H3 as (g1 & <- & _), H4 as (g2 & [= -> _] & _).
    reflexivity.
Qed.

Lemma cg_quads_spec d sp p ca :
  R d sp -> leaks sp (OQuads p ca) = false ->
  exists d1 l, cg_quads d p ca = (d1, l) /\ R d1 sp /\ qenum l (sp_quads sp p ca) = true.
Proof.
  intros H Hleak. unfold cg_quads.
  destruct (cg_spoc_read d sp ca H) as (d1 & E1 & R1). rewrite E1.
  exists d1. eexists. split; [reflexivity|]. split; auto.
  fold (quads_of (st d1) p (eff_graph ca None)).
  pose proof R1 as (Eq & Eo & _ & Hn & _).
  apply (enum_ofb_spec _ quad_eqb_spec). split.
  - apply quads_of_NoDup; [now rewrite Eq|]. rewrite (st_match_R _ sp _ _ R1).
    destruct (eff_graph ca None); auto using sp_graph_NoDup, sp_union_NoDup.
  - intros [t g]. rewrite quads_of_In, (st_match_R _ sp _ _ R1), Eq. unfold sp_quads.
    rewrite filter_In. unfold qsel. cbn [fst snd]. rewrite andb_true_iff.
    destruct (eff_graph ca None) as [c|] eqn:Ec.
    + unfold sp_graph. rewrite in_q_triples. rewrite N.eqb_eq. split.
      * intros [[H1 H2] H3]. split; auto. split; auto.
        (* no other graph holds a matching triple of c *)
        destruct (N.eqb_spec c g) as [|Hne]; auto. exfalso.
        destruct ca as [|[a|]]; simpl in Ec; try discriminate. injection Ec as <-.
        simpl in Hleak.
        assert (Hex : existsb (fun t0 => existsb (fun q => triple_eqb t0 (fst q) && negb (snd q =? arg_name a)) (sq sp))
                       (sp_graph sp (arg_name a) p) = true).
        { apply existsb_exists. exists t. split; [apply in_q_triples; auto|].
          apply existsb_exists. exists (t, g). split; auto. simpl.
          destruct (triple_eqb_spec t t); [|congruence]. simpl. apply negb_true_iff, N.eqb_neq. congruence. }
        congruence.
      * intros [H1 [H2 ->]]. auto.
    + unfold sp_union. rewrite filter_In, in_all_triples. split.
      * intros [[_ H2] H3]. auto.
      * intros [H1 [H2 _]]. split; auto. split; eauto.
Qed.

(* ------------------------------------------------------------------ *)
(* every operation keeps the simulation; every read answers from the mapping *)
Lemma R_remove d sp p oc :
  R d sp -> R (set_st d (st_remove (st d) p oc)) {| sq := q_remove p oc (sq sp); sk := sk sp; sf := sf sp |}.
Proof.
  intros (H1 & H2 & H3 & H4 & H5 & H6 & H7 & H8).
  unfold R, set_st, st_remove. destruct oc; simpl; rewrite H1, ?H2; simpl;
    repeat split; auto using q_remove_NoDup; try (apply H7); try (intros Hx; apply H7; exact Hx);
    intros t c' Hin; apply q_remove_In in Hin; apply (H8 t); tauto.
Qed.

Lemma R_addN l : forall d sp, R d sp ->
  R (cg_addN d l) (fold_left (fun sp x => sp_add (sp_merge sp (snd x)) (fst x) (arg_name (snd x))) l sp).
Proof.
  induction l as [|[t a] r IH]; intros d sp H; [exact H|].
  unfold cg_addN in *. cbn [fold_left fst snd].
  destruct (cg_graph_spec d sp (Some a) true H) as (d1 & E & HR). rewrite E. cbn [option_map].
  apply IH. now apply R_add.
Qed.

Lemma R_remove_graph d sp c :
  R d sp ->
  R (set_st d (if c =? 0 then st_add_graph (st_remove_graph (st d) c) 0 else st_remove_graph (st d) c))
    {| sq := q_remove pall (Some c) (sq sp); sk := if c =? 0 then sk sp else srem N.eqb c (sk sp); sf := sf sp |}.
Proof.
  intros (H1 & H2 & H3 & H4 & H5 & H6 & H7 & H8).
  assert (Hq : forall t c', In (t, c') (q_remove pall (Some c) (sq sp)) -> In (t, c') (sq sp) /\ c' <> c).
  { intros t c' Hin. apply q_remove_In in Hin. destruct Hin as [Hin Hs]. split; auto.
    intros ->. unfold qsel in Hs. cbn [fst snd] in Hs. rewrite matches_pall, N.eqb_refl in Hs. discriminate. }
  unfold R, set_st, st_remove_graph, st_remove, st_add_graph.
  destruct (N.eqb_spec c 0) as [->|Hne]; simpl; rewrite H1, ?H2; simpl.
  - repeat split; auto using q_remove_NoDup.
    + apply N_sadd_NoDup. now apply (srem_NoDup N.eqb).
    + intros Hx. rewrite N_sadd_In, N_srem_In. apply H7 in Hx.
      destruct (N.eqb_spec x 0); auto. right. right. tauto.
    + rewrite N_sadd_In, N_srem_In. intros [Hx|[Hx|[Hx _]]]; apply H7; auto.
    + intros t c' Hin. apply Hq in Hin. rewrite N_sadd_In, N_srem_In. right. split; [apply (H8 t)|]; tauto.
  - repeat split; auto using q_remove_NoDup.
    + now apply (srem_NoDup N.eqb).
    + now apply (srem_NoDup N.eqb).
    + rewrite !N_srem_In, H7. intros [[->|Hx] Hn]; auto.
    + rewrite !N_srem_In, H7. intros [->|[Hx Hn]]; auto.
    + intros t c' Hin. apply Hq in Hin. rewrite N_srem_In. split; [apply (H8 t)|]; tauto.
Qed.

Lemma cg_contexts_of_spec d sp t :
  R d sp ->
  exists l, cg_contexts_of d t = (d, l) /\ cenum l (sp_contexts_of (is_ds d) sp t) = true.
Proof.
  intros H. pose proof H as (Eq & _ & _ & Hn & _). unfold cg_contexts_of, sp_contexts_of. rewrite Eq.
  assert (Hc : NoDup (ctxs_of t (sq sp))) by now apply ctxs_of_NoDup.
  destruct (is_ds d).
  - eexists; split; [reflexivity|]. destruct (memb N.eqb 0 (ctxs_of t (sq sp))) eqn:Em.
    + apply (enum_ofb_spec _ N.eqb_spec). split; auto. intros x. rewrite N_sadd_In.
      apply (memb_In _ N.eqb_spec) in Em. split; auto. intros [->|Hx]; auto.
    + apply (enum_ofb_spec _ N.eqb_spec). split.
      * apply NoDup_app_single; auto. now apply (memb_false _ N.eqb_spec).
      * intros x. rewrite N_sadd_In, in_app_iff. simpl. intuition.
  - eexists; split; [reflexivity|].
    apply (enum_ofb_spec _ N.eqb_spec). split; auto. intros x; tauto.
Qed.

Lemma tseteqb_tenum l s : NoDup l -> tseteqb l s = true -> tenum l s = true.
Proof.
  intros Hn H. apply (enum_ofb_spec _ triple_eqb_spec). split; auto. now apply (seteqb_spec _ triple_eqb_spec).
Qed.

(* every operation keeps the simulation; its own answer is the specified one
   unless the step is one of the two known-finding steps *)
Lemma do_op_spec d sp o :
  R d sp ->
  exists d1 r, do_op d o = (d1, r) /\ R d1 (sp_step sp o)
               /\ (waived sp o = false -> res_ok (is_ds d) sp o r = true).
Proof.
  intros H.
  destruct o as [t ca|l|p ca|oa|oa|c|p ca kw du|p ca|p ca du|t]; cbn [do_op sp_step].
  - (* add *)
    unfold cg_add. destruct (cg_spoc_spec d sp ca true H) as (d1 & E & HR). rewrite E.
    eexists; eexists; split; [reflexivity|]. split; [|reflexivity].
    destruct ca as [|[a|]]; cbn [sp_target spoc_ctx option_map fst] in *; now apply R_add.
  - eexists; eexists; split; [reflexivity|]. split; [now apply R_addN|reflexivity].
  - (* remove: nothing is merged *)
    unfold cg_remove. destruct (cg_spoc_spec d sp ca false H) as (d1 & E & HR). rewrite E.
    eexists; eexists; split; [reflexivity|]. split; [|reflexivity].
    rewrite spoc_ctx_false. now apply R_remove.
  - (* graph: the state, and the graph handed back *)
    eexists; eexists; split; [reflexivity|]. split.
    + destruct oa as [a|]; cbn [ds_graph].
      * destruct (cg_graph_spec d sp (Some a) true H) as (d1 & E & HR). rewrite E. cbn [option_map].
        apply (R_know d1 _ (arg_name a) HR).
      * pose proof H as (_ & _ & Hf & _). rewrite Hf.
        pose proof (R_know d sp (FRESH_BASE + sf sp) H) as (K1 & K2 & K3 & K4 & K5 & K6 & K7 & K8).
        unfold R. cbn [st sq sk sf fresh] in *. repeat split; auto; try apply K7.
    + intros _. pose proof H as (_ & _ & Hf & _). unfold res_ok, ds_graph_name. destruct oa as [a|]; cbn [list_eqb]; rewrite ?Hf, N.eqb_refl; reflexivity.
  - (* remove_graph *)
    eexists; eexists; split; [reflexivity|]. split; [|reflexivity].
    destruct oa as [a|]; cbn [ds_remove_graph]; auto. now apply R_remove_graph.
  - eexists; eexists; split; [reflexivity|]. split; [|reflexivity]. unfold cg_remove_context.
    apply (R_remove d sp pall (Some c) H).
  - (* triples: the code's reading; the specified one unless the default_union alias bites *)
    destruct (cg_triples_spec d sp p ca kw du H) as (d1 & E & HR).
    rewrite E. eexists; eexists; split; [reflexivity|]. split; auto.
    unfold waived. cbn [leaks aliases orb res_ok]. intros Hw. apply negb_false_iff in Hw.
    apply tseteqb_tenum; auto. apply sp_triples_NoDup. apply H.
  - (* quads: the state never changes; the answer is the specified one unless it leaks *)
    unfold cg_quads. destruct (cg_spoc_read d sp ca H) as (d1 & E1 & R1).
    eexists; eexists; split; [rewrite E1; reflexivity|]. split; auto.
    unfold waived. cbn [aliases]. rewrite orb_false_r. intros Hleak.
    destruct (cg_quads_spec d sp p ca H Hleak) as (d1' & l & E & HR & Hq).
    unfold cg_quads in E. rewrite E1 in E. injection E as <- <-. exact Hq.
  - destruct (cg_contains_spec d sp p ca du H) as (d1 & E & HR).
    rewrite E. eexists; eexists; split; [reflexivity|]. split; auto.
    unfold waived. cbn [leaks aliases orb res_ok]. intros Hw. apply negb_false_iff in Hw.
    apply Bool.eqb_prop in Hw. rewrite Hw. apply Bool.eqb_reflx.
  - destruct (cg_contexts_of_spec d sp t H) as (l & E & Hc).
    rewrite E. eexists; eexists; split; [reflexivity|]. split; auto.
Qed.

Lemma list_eqb_refl {A} (e : A -> A -> bool) l : (forall x, e x x = true) -> list_eqb e l l = true.
Proof. intros H. induction l as [|x r IH]; simpl; auto. now rewrite H, IH. Qed.

Lemma mem_probe_spec d sp names vocab :
  R d sp ->
  mem_probe d names vocab = flat_map (fun g => map (fun t => q_mem (t, g) (sq sp)) vocab) names.
Proof.
  intros H. unfold mem_probe. induction names as [|g r IH]; cbn [flat_map]; auto. f_equal; auto.
  apply map_ext. intros t.
  destruct (cg_contains_spec d sp (pat_of t) (CQuad (Some (GId g))) false H) as (d1 & E & _).
  rewrite E. cbn [snd eff_graph arg_name sp_triples_code andb]. unfold sp_graph. now rewrite is_nil_q_triples, negb_involutive.
Qed.

(* the kind of front end never changes *)
Lemma is_ds_touch d : is_ds (touch_default d) = is_ds d.
Proof. unfold touch_default. destruct (is_ds d) eqn:E; auto. destruct (memb N.eqb 0 (known (st d))); auto. Qed.

Lemma is_ds_cg_graph d oa copy : is_ds (fst (cg_graph d oa copy)) = is_ds d.
Proof. destruct oa as [[c|c|c ts]|], copy; cbn [cg_graph fst set_st is_ds]; auto using is_ds_touch. Qed.

Lemma is_ds_cg_spoc d ca b : is_ds (fst (cg_spoc d ca b)) = is_ds d.
Proof.
  destruct ca as [|oa]; cbn [cg_spoc fst]; auto.
  pose proof (is_ds_cg_graph d oa b) as H. destruct (cg_graph d oa b) as [d1 c]. exact H.
Qed.

Lemma is_ds_cg_triples d p ca kw du : is_ds (fst (cg_triples d p ca kw du)) = is_ds d.
Proof.
  unfold cg_triples. pose proof (is_ds_cg_spoc d ca false) as H1.
  destruct (cg_spoc d ca false) as [d1 c]. cbn [fst] in H1.
  match goal with |- context [cg_graph d1 ?a false] => pose proof (is_ds_cg_graph d1 a false) as H2; destruct (cg_graph d1 a false) as [d2 x] end.
  cbn [fst] in *. congruence.
Qed.

Lemma is_ds_cg_contains d p ca du : is_ds (fst (cg_contains d p ca du)) = is_ds d.
Proof.
  unfold cg_contains. pose proof (is_ds_cg_spoc d ca false) as H1.
  destruct (cg_spoc d ca false) as [d1 c]. cbn [fst] in H1.
  pose proof (is_ds_cg_triples d1 p CTriple (regraph c) du) as H2.
  destruct (cg_triples d1 p CTriple (regraph c) du) as [d2 l]. cbn [fst] in *. congruence.
Qed.

Lemma is_ds_cg_quads d p ca : is_ds (fst (cg_quads d p ca)) = is_ds d.
Proof.
  unfold cg_quads. pose proof (is_ds_cg_spoc d ca false) as H1.
  destruct (cg_spoc d ca false) as [d1 c]. exact H1.
Qed.

Lemma is_ds_ds_graphs d : is_ds (fst (ds_graphs d)) = is_ds d.
Proof. unfold ds_graphs. destruct (is_ds d) eqn:E; auto. Qed.

Lemma is_ds_cg_addN l : forall d, is_ds (cg_addN d l) = is_ds d.
Proof.
  induction l as [|x r IH]; intros d; auto. unfold cg_addN in *. cbn [fold_left]. rewrite IH.
  pose proof (is_ds_cg_graph d (Some (snd x)) true) as H. destruct (cg_graph d (Some (snd x)) true) as [d1 c]. exact H.
Qed.

Lemma is_ds_do_op d o : is_ds (fst (do_op d o)) = is_ds d.
Proof.
  destruct o as [t ca|l|p ca|oa|oa|c|p ca kw du|p ca|p ca du|t]; cbn [do_op].
  - unfold cg_add. pose proof (is_ds_cg_spoc d ca true) as H. destruct (cg_spoc d ca true) as [d1 c]. exact H.
  - apply is_ds_cg_addN.
  - unfold cg_remove. pose proof (is_ds_cg_spoc d ca false) as H. destruct (cg_spoc d ca false) as [d1 c]. exact H.
  - destruct oa as [a|]; cbn [ds_graph fst is_ds]; auto.
    pose proof (is_ds_cg_graph d (Some a) true) as H. destruct (cg_graph d (Some a) true) as [d1 [c|]]; exact H.
  - destruct oa as [a|]; reflexivity.
  - reflexivity.
  - pose proof (is_ds_cg_triples d p ca kw du) as H. destruct (cg_triples d p ca kw du). exact H.
  - pose proof (is_ds_cg_quads d p ca) as H. destruct (cg_quads d p ca). exact H.
  - pose proof (is_ds_cg_contains d p ca du) as H. destruct (cg_contains d p ca du). exact H.
  - unfold cg_contexts_of. destruct (is_ds d) eqn:E; auto.
Qed.

Lemma snapshot_spec c d sp :
  R d sp -> is_ds d = c_ds c ->
  exists d1 s, snapshot c d = (d1, s) /\ R d1 sp /\ is_ds d1 = c_ds c /\ snap_ok c sp s = true.
Proof.
  intros H Hkind. unfold snapshot.
  pose proof (is_ds_cg_quads d pall CTriple) as K1.
  destruct (cg_quads_spec d sp pall CTriple H eq_refl) as (d1 & q & E1 & R1 & Q1). rewrite E1.
  rewrite E1 in K1. cbn [fst] in K1. pose proof (is_ds_ds_graphs d1) as K2.
  assert (Hg : exists d2 gs, ds_graphs d1 = (d2, gs) /\ R d2 sp /\
            (if is_ds d1 then cenum gs (sk sp) else nodupb N.eqb gs && cseteqb (sadd N.eqb 0 gs) (sk sp)) = true).
  { pose proof R1 as (_ & _ & _ & _ & Hn & Hk & Hiff & _).
    unfold ds_graphs. destruct (is_ds d1) eqn:Eds.
    - eexists; eexists; split; [reflexivity|]. split; auto.
      destruct (memb N.eqb 0 (known (st d1))) eqn:Em.
      + apply (enum_ofb_spec _ N.eqb_spec). split; auto. intros x. rewrite Hiff.
        apply (memb_In _ N.eqb_spec) in Em. split; auto. intros [->|Hx]; auto.
      + apply (enum_ofb_spec _ N.eqb_spec). split.
        * apply (NoDup_app_single _ Hn). now apply (memb_false _ N.eqb_spec).
        * intros x. rewrite Hiff, in_app_iff. simpl. intuition.
    - eexists; eexists; split; [reflexivity|]. split; auto.
      apply andb_true_iff. split; [now apply (nodupb_spec _ N.eqb_spec)|].
      apply (seteqb_spec _ N.eqb_spec). intros x. rewrite N_sadd_In, Hiff. tauto. }
  destruct Hg as (d2 & gs & E2 & R2 & G2). rewrite E2.
  rewrite E2 in K2. cbn [fst] in K2.
  pose proof (is_ds_cg_triples d2 pall CTriple None true) as K3.
  destruct (cg_triples_spec d2 sp pall CTriple None true R2) as (d3 & E3 & R3). rewrite E3.
  rewrite E3 in K3. cbn [fst] in K3. pose proof (is_ds_cg_triples d3 pall CTriple None false) as K4.
  destruct (cg_triples_spec d3 sp pall CTriple None false R3) as (d4 & E4 & R4). rewrite E4.
  rewrite E4 in K4. cbn [fst] in K4.
  eexists; eexists; split; [reflexivity|]. split; auto. split; [congruence|].
  pose proof R4 as (Eq & Eo & _ & Hn & _).
  assert (Hds : is_ds d1 = c_ds c) by congruence. rewrite Hds in G2.
  unfold snap_ok; simpl.
  assert (Hun : sp_union sp pall = all_triples (sq sp)).
  { unfold sp_union. apply filter_true_id. intros x _. apply matches_pall. }
  rewrite Hun. unfold sp_quads in Q1. simpl in Q1.
  assert (Hall : filter (qsel pall None) (sq sp) = sq sp).
  { apply filter_true_id. intros x _. unfold qsel. now rewrite matches_pall. }
  rewrite Hall in Q1. rewrite Q1. simpl.
  rewrite (tenum_refl _ (all_triples_NoDup _)), (tenum_refl _ (sp_graph_NoDup sp 0 pall Hn)).
  rewrite (mem_probe_spec _ sp _ _ R4), (list_eqb_refl _ _ Bool.eqb_reflx).
  unfold cg_len, st_len. rewrite (st_match_R _ sp pall None R4), Hun, N.eqb_refl.
  rewrite !andb_true_r.
  apply andb_true_iff. split.
  - exact G2.
  - unfold views_ok. rewrite map_map. simpl. rewrite map_id, (list_eqb_refl _ _ N.eqb_refl). simpl.
    apply andb_true_iff. split.
    + apply forallb_forall. intros [g l] Hin. apply in_map_iff in Hin. destruct Hin as (g' & [= <- <-] & _).
      simpl. unfold view_triples. rewrite (st_match_R _ sp pall (Some g') R4). apply tenum_refl, sp_graph_NoDup, Hn.
    + assert (Hl : map (view_len d4) (c_names c) = map (fun g => N.of_nat (length (sp_graph sp g pall))) (c_names c)).
      { apply map_ext. intros g. unfold view_len, st_len. now rewrite (st_match_R _ sp pall (Some g) R4). }
      rewrite Hl. apply list_eqb_refl, N.eqb_refl.
Qed.

(* ------------------------------------------------------------------ *)
(* the model satisfies the checker with ONLY the answers of the two kinds of
   known-finding steps exempt - on EVERY history, no trigger hypothesis *)
Theorem spec_run_w_model c : forall ops d sp,
  R d sp -> is_ds d = c_ds c -> spec_run_w c sp ops (run c d ops) = true.
Proof.
  induction ops as [|o r IH]; intros d sp H Hk; [reflexivity|].
  destruct (do_op_spec d sp o H) as (d1 & rs & E & R1 & Ok1). rewrite Hk in Ok1.
  pose proof (is_ds_do_op d o) as K1. rewrite E in K1. cbn [fst] in K1.
  destruct (snapshot_spec c d1 _ R1 (eq_trans K1 Hk)) as (d2 & sn & E2 & R2 & K2 & Ok2).
  cbn [run]. rewrite E, E2. cbn [spec_run_w]. rewrite Ok2.
  destruct (waived sp o) eqn:Ew; cbn [orb andb]; [|rewrite (Ok1 eq_refl); cbn [andb]]; apply IH; auto.
Qed.

Theorem spec_ok_w_model c : spec_ok_w c (model_obs c) = true.
Proof. unfold spec_ok_w, model_obs. apply spec_run_w_model; auto using R_init. Qed.

(* without waived steps the waiving checker IS the strict one *)
Lemma spec_run_w_strict c : forall ops sp o,
  trig_run waived sp ops = false -> spec_run_w c sp ops o = spec_run c sp ops o.
Proof.
  induction ops as [|x r IH]; intros sp o Ht; destruct o as [|[rs sn] o']; auto.
  cbn [trig_run] in Ht. apply orb_false_iff in Ht. destruct Ht as [T1 T2].
  cbn [spec_run_w spec_run]. rewrite T1, (IH _ _ T2). reflexivity.
Qed.

Lemma trig_run_or f g : forall ops sp,
  trig_run (fun sp o => f sp o || g sp o) sp ops = trig_run f sp ops || trig_run g sp ops.
Proof.
  induction ops as [|o r IH]; intros sp; auto. cbn [trig_run]. rewrite IH.
  destruct (f sp o), (g sp o), (trig_run f (sp_step sp o) r), (trig_run g (sp_step sp o) r); reflexivity.
Qed.

Lemma kf_zero c : kf c = 0 <-> trig_run waived sp_init (c_ops c) = false.
Proof.
  unfold kf, waived, leak_run. rewrite trig_run_or.
  destruct (trig_run aliases sp_init (c_ops c)), (trig_run leaks sp_init (c_ops c)); split; auto; discriminate.
Qed.

Theorem spec_ok_model c : kf c = 0 -> spec_ok c (model_obs c) = true.
Proof.
  intros Hkf. apply kf_zero in Hkf. unfold spec_ok. rewrite <- (spec_run_w_strict c _ _ _ Hkf). apply spec_ok_w_model.
Qed.

Theorem spec_run_model c : forall ops d sp,
  R d sp -> is_ds d = c_ds c -> trig_run waived sp ops = false ->
  spec_run c sp ops (run c d ops) = true.
Proof.
  intros ops d sp H Hk Ht. rewrite <- (spec_run_w_strict c _ _ _ Ht). now apply spec_run_w_model.
Qed.

(* ------------------------------------------------------------------ *)
(* Isolation, directly on the model (no hypothesis on the state) *)
Definition holds (d : ds) (g : cid) (t : triple) : Prop := In (t, g) (quads (st d)).

Lemma quads_touch d : quads (st (touch_default d)) = quads (st d).
Proof. unfold touch_default. destruct (is_ds d); auto. destruct (memb N.eqb 0 (known (st d))); auto. Qed.

Lemma iadd_quads c ts : forall s, quads (iadd s c ts) = fold_left (fun q t => q_add (t, c) q) ts (quads s).
Proof. induction ts as [|t r IH]; intros s; auto. unfold iadd in *. cbn [fold_left]. now rewrite IH. Qed.

Lemma holds_cg_graph d oa copy g t :
  holds (fst (cg_graph d oa copy)) g t <->
  holds d g t \/ (copy = true /\ exists a, oa = Some a /\ g = arg_name a /\ In t (arg_content a)).
Proof.
  unfold holds. destruct oa as [[c|c|c ts]|]; cbn [cg_graph fst set_st st].
  - split; auto. intros [H|(_ & a & [= <-] & _ & [])]; auto.
  - split; auto. intros [H|(_ & a & [= <-] & _ & [])]; auto.
  - destruct copy; cbn [fst set_st st].
    + rewrite iadd_quads, fold_q_add_In. split.
      * intros [H|(t' & H1 & [= -> ->])]; auto. right. split; auto. exists (GForeign c ts). auto.
      * intros [H|(_ & a & [= <-] & -> & H)]; auto. right. exists t. auto.
    + split; auto. intros [H|(Hc & _)]; auto. discriminate.
  - split; auto. intros [H|(_ & a & [=] & _)]; auto.
Qed.

Lemma add_isolated d t a g t' :
  holds (cg_add d t (CQuad (Some a))) g t' <->
  holds d g t' \/ (g = arg_name a /\ (t' = t \/ In t' (arg_content a))).
Proof.
  unfold cg_add. cbn [cg_spoc]. pose proof (holds_cg_graph d (Some a) true g t') as Hg.
  assert (Hc : snd (cg_graph d (Some a) true) = Some (arg_name a)) by (destruct a; reflexivity).
  destruct (cg_graph d (Some a) true) as [d1 c]. cbn [fst snd] in *. subst c.
  unfold holds in *. cbn [set_st st st_add quads]. rewrite q_add_In, Hg. split.
  - intros [[= -> ->]|[H|(_ & a' & [= <-] & H1 & H2)]]; auto.
  - intros [H|[-> [->|H]]]; auto. right. right. eauto.
Qed.

Lemma add_triple_default d t ca g t' :
  ca = CTriple \/ ca = CQuad None ->
  (holds (cg_add d t ca) g t' <-> holds d g t' \/ (g = 0 /\ t' = t)).
Proof.
  intros [-> | ->]; unfold cg_add, holds; cbn [cg_spoc cg_graph set_st st st_add quads]; rewrite q_add_In;
    (split; [intros [[= -> ->]|H]|intros [H|[-> ->]]]; auto).
Qed.

Lemma remove_quad_isolated d p c g t :
  holds (cg_remove d p (CQuad (Some (GId c)))) g t <-> holds d g t /\ ~ (g = c /\ matches p t = true).
Proof.
  unfold cg_remove, holds. cbn [cg_spoc cg_graph set_st st st_remove quads]. rewrite q_remove_In.
  unfold qsel. cbn [fst snd]. rewrite andb_false_iff, N.eqb_neq. split; intros [H1 H2]; split; auto.
  - intros [-> Hm]. destruct H2; congruence.
  - destruct (matches p t) eqn:E; auto.
Qed.

Lemma remove_triple_all_graphs d p g t :
  holds (cg_remove d p CTriple) g t <-> holds d g t /\ matches p t = false.
Proof.
  unfold cg_remove, holds. cbn [cg_spoc set_st st st_remove quads]. rewrite q_remove_In.
  unfold qsel. cbn [fst]. now rewrite andb_true_r.
Qed.

Lemma remove_graph_holds d a g t :
  holds (ds_remove_graph d (Some a)) g t <-> holds d g t /\ g <> arg_name a.
Proof.
  unfold ds_remove_graph, holds.
  assert (Hq : quads (st (set_st d (if arg_name a =? 0 then st_add_graph (st_remove_graph (st d) (arg_name a)) 0
                                    else st_remove_graph (st d) (arg_name a))))
               = q_remove pall (Some (arg_name a)) (quads (st d))).
  { destruct (arg_name a =? 0); reflexivity. }
  rewrite Hq, q_remove_In. unfold qsel. cbn [fst snd]. rewrite matches_pall. cbn [andb].
  rewrite N.eqb_neq. split; intros [H1 H2]; split; auto.
Qed.

Definition listed (d : ds) (g : cid) : Prop := In g (snd (ds_graphs d)).

Lemma listed_dataset d g : is_ds d = true -> (listed d g <-> g = 0 \/ In g (known (st d))).
Proof.
  intros E. unfold listed, ds_graphs. rewrite E.
  destruct (memb N.eqb 0 (known (st d))) eqn:Em; cbn [snd].
  - apply (memb_In _ N.eqb_spec) in Em. split; auto. intros [->|H]; auto.
  - rewrite in_app_iff. simpl. intuition.
Qed.

Lemma remove_graph_listed d a g :
  is_ds d = true ->
  (listed (ds_remove_graph d (Some a)) g <-> g = 0 \/ (listed d g /\ g <> arg_name a)).
Proof.
  intros E. rewrite !listed_dataset; auto.
  unfold ds_remove_graph, st_remove_graph, st_add_graph.
  destruct (N.eqb_spec (arg_name a) 0) as [E0|Hne]; cbn [set_st st known st_remove].
  - rewrite E0, N_sadd_In, N_srem_In. destruct (N.eqb_spec g 0); intuition.
  - rewrite N_srem_In. destruct (N.eqb_spec g 0); intuition.
Qed.

(* a read restricted to a graph answers from that graph only *)
Lemma quads_cg_graph_read d oa : quads (st (fst (cg_graph d oa false))) = quads (st d).
Proof. destruct oa as [[c|c|c ts]|]; cbn [cg_graph fst]; auto using quads_touch. Qed.

Lemma snd_cg_graph d oa copy : snd (cg_graph d oa copy) = option_map arg_name oa.
Proof. destruct oa as [[c|c|c ts]|]; reflexivity. Qed.

Lemma quads_cg_spoc_read d ca : quads (st (fst (cg_spoc d ca false))) = quads (st d).
Proof.
  destruct ca as [|oa]; cbn [cg_spoc fst]; auto. pose proof (quads_cg_graph_read d oa) as Hq.
  destruct (cg_graph d oa false) as [d1 c]. exact Hq.
Qed.

Lemma snd_cg_spoc_read d ca : snd (cg_spoc d ca false) = eff_graph ca None.
Proof.
  destruct ca as [|oa]; cbn [cg_spoc snd]; auto. pose proof (snd_cg_graph d oa false) as Hs.
  destruct (cg_graph d oa false) as [d1 c]. cbn [snd] in *. subst c. destruct oa; reflexivity.
Qed.

Lemma no_fallback d p ca kw du g :
  eff_graph ca kw = Some g -> (du = false \/ g <> 0) ->
  forall t, In t (snd (cg_triples d p ca kw du)) <-> holds d g t /\ matches p t = true.
Proof.
  intros Hg Hdu t. unfold cg_triples.
  pose proof (quads_cg_spoc_read d ca) as H1. pose proof (snd_cg_spoc_read d ca) as H1'.
  destruct (cg_spoc d ca false) as [d1 c]. cbn [fst snd] in *. subst c.
  set (arg := match kw with Some a => Some a | None => regraph (eff_graph ca None) end).
  pose proof (quads_cg_graph_read d1 arg) as H2. pose proof (snd_cg_graph d1 arg false) as H2'.
  destruct (cg_graph d1 arg false) as [d2 ctx]. cbn [fst snd] in *. subst ctx.
  assert (Ha : option_map arg_name arg = Some g).
  { rewrite <- Hg. unfold arg, eff_graph. destruct kw; auto. destruct ca as [|[a|]]; reflexivity. }
  rewrite Ha, map_fst_st_triples.
  assert (Hd : du_dispatch du (Some g) = Some g).
  { unfold du_dispatch. destruct du; auto. destruct Hdu as [|Hne]; [discriminate|].
    destruct (N.eqb_spec g 0); congruence. }
  rewrite Hd. unfold st_match, holds. rewrite H2, H1. apply in_q_triples.
Qed.

Lemma no_fallback_empty d p ca kw du g :
  eff_graph ca kw = Some g -> (du = false \/ g <> 0) ->
  (forall t, ~ holds d g t) -> snd (cg_triples d p ca kw du) = [].
Proof.
  intros Hg Hdu He.
  destruct (snd (cg_triples d p ca kw du)) as [|t r] eqn:E; auto. exfalso.
  apply (He t). apply (no_fallback d p ca kw du g Hg Hdu t). rewrite E. simpl. auto.
Qed.

Lemma contains_exact d t a du :
  (du = false \/ arg_name a <> 0) ->
  (snd (cg_contains d (pat_of t) (CQuad (Some a)) du) = true <-> holds d (arg_name a) t).
Proof.
  intros Hdu. unfold cg_contains.
  pose proof (quads_cg_spoc_read d (CQuad (Some a))) as H1. pose proof (snd_cg_spoc_read d (CQuad (Some a))) as H1'.
  destruct (cg_spoc d (CQuad (Some a)) false) as [d1 c]. cbn [fst snd eff_graph] in *. subst c.
  cbn [regraph option_map].
  pose proof (no_fallback d1 (pat_of t) CTriple (Some (GView (arg_name a))) du (arg_name a) eq_refl Hdu) as Hn.
  destruct (cg_triples d1 (pat_of t) CTriple (Some (GView (arg_name a))) du) as [d2 l]. cbn [snd] in *.
  unfold holds in *. rewrite H1 in Hn. split.
  - destruct l as [|x r]; [discriminate|]. intros _. destruct (Hn x) as [Hx _].
    destruct (Hx (or_introl eq_refl)) as [Hin Hm]. apply matches_pat_of in Hm. now subst.
  - intros Hin. destruct l as [|x r]; auto. exfalso. apply (Hn t). split; auto. now apply matches_pat_of.
Qed.

(* reads never write quads, whatever they are handed (F19 repaired) *)
Lemma triples_no_write d p ca kw du : quads (st (fst (cg_triples d p ca kw du))) = quads (st d).
Proof.
  unfold cg_triples. pose proof (quads_cg_spoc_read d ca) as H1.
  destruct (cg_spoc d ca false) as [d1 c]. cbn [fst] in H1.
  match goal with |- context [cg_graph d1 ?a false] => pose proof (quads_cg_graph_read d1 a) as H2; destruct (cg_graph d1 a false) as [d2 x] end.
  cbn [fst] in *. congruence.
Qed.

(* the historical _graph (finding F19, repaired) copied a foreign Graph on every path *)
Lemma hist_graph_copies_refuted :
  exists d c ts, quads (st (fst (cg_graph_hist d (Some (GForeign c ts))))) <> quads (st d)
                 /\ quads (st (fst (cg_graph d (Some (GForeign c ts)) false))) = quads (st d).
Proof. exists (ds_init true), 1, [(12, 4, 12)]. split; [vm_compute; discriminate|reflexivity]. Qed.

(* the historical expression [context or c] does fall back (finding F1, repaired) *)
Lemma hist_context_or_c_refuted :
  exists d g, (forall t, ~ holds d g t) /\ snd (cg_triples_hist d pall CTriple (Some (GView g)) false) <> [].
Proof.
  exists (ds_graph (cg_add (ds_init true) (1, 2, 3) CTriple) (Some (GId 1))), 1. split.
  - intros t H. unfold holds in H. vm_compute in H. destruct H as [H|[]]. discriminate.
  - vm_compute. discriminate.
Qed.

(* the two open findings, as failures of the checker on the model *)
Definition w_f17 : case :=
  {| c_ds := true; c_names := [0; 1; 2]; c_vocab := [(1, 3, 2)];
     c_ops := [OAdd (1, 3, 2) (CQuad (Some (GId 1))); OAdd (1, 3, 2) (CQuad (Some (GId 2)));
               OQuads pall (CQuad (Some (GId 1)))] |}.
Lemma quads_restricted_refuted : exists c, kf c = 1 /\ spec_ok c (model_obs c) = false.
Proof. exists w_f17. repeat split; vm_compute; reflexivity. Qed.

(* the historical _spoc (finding F18, repaired) filed a quad whose graph is None
   under no graph: the merged view shows the triple, no graph holds it *)
Lemma hist_spoc_none_refuted :
  exists t, let d := cg_add_hist (ds_init true) t (CQuad None) in
    In t (snd (cg_triples d pall CTriple None true)) /\ forall g, ~ holds d g t.
Proof.
  exists (2, 3, 2). cbv zeta. split; [vm_compute; auto|].
  intros g H. unfold holds in H. vm_compute in H. exact H.
Qed.

(* ------------------------------------------------------------------ *)
(* what the boolean checker says, in words *)
Lemma tenum_reading l s : tenum l s = true <-> NoDup l /\ (forall t, In t l <-> In t s).
Proof. unfold tenum. rewrite (enum_ofb_spec _ triple_eqb_spec). reflexivity. Qed.
Lemma qenum_reading l s : qenum l s = true <-> NoDup l /\ (forall q, In q l <-> In q s).
Proof. unfold qenum. rewrite (enum_ofb_spec _ quad_eqb_spec). reflexivity. Qed.
Lemma cenum_reading l s : cenum l s = true <-> NoDup l /\ (forall g, In g l <-> In g s).
Proof. unfold cenum. rewrite (enum_ofb_spec _ N.eqb_spec). reflexivity. Qed.

Lemma snap_ok_reading c sp s :
  snap_ok c sp s = true ->
  (NoDup (o_quads s) /\ forall q, In q (o_quads s) <-> In q (sq sp))
  /\ (c_ds c = true -> NoDup (o_graphs s) /\ forall g, In g (o_graphs s) <-> In g (sk sp))
  /\ (forall g l, In (g, l) (o_views s) -> NoDup l /\ forall t, In t l <-> In (t, g) (sq sp))
  /\ (NoDup (o_union s) /\ forall t, In t (o_union s) <-> exists g, In (t, g) (sq sp))
  /\ (NoDup (o_dflt s) /\ forall t, In t (o_dflt s) <-> In (t, 0) (sq sp))
  /\ o_len s = N.of_nat (length (all_triples (sq sp))).
Proof.
  unfold snap_ok. rewrite !andb_true_iff. intros ((((((H1 & H2) & H3) & H4) & H5) & H6) & H7).
  split; [now apply qenum_reading|]. split; [|split; [|split; [|split]]].
  - intros E. rewrite E in H2. now apply cenum_reading.
  - intros g l Hin. unfold views_ok in H3. rewrite !andb_true_iff in H3. destruct H3 as [[_ H3] _].
    rewrite forallb_forall in H3. specialize (H3 _ Hin). cbn [fst snd] in H3.
    apply tenum_reading in H3. destruct H3 as [Hn Hi]. split; auto. intros t. rewrite Hi.
    unfold sp_graph. rewrite in_q_triples, matches_pall. tauto.
  - apply tenum_reading in H5. destruct H5 as [Hn Hi]. split; auto. intros t. rewrite Hi. apply in_all_triples.
  - apply tenum_reading in H6. destruct H6 as [Hn Hi]. split; auto. intros t. rewrite Hi.
    unfold sp_graph. rewrite in_q_triples, matches_pall. tauto.
  - now apply N.eqb_eq.
Qed.

(* reading of the specification machine's write steps: only the named graph moves *)
Lemma sp_step_add_reading sp t c g t' :
  In (t', g) (sq (sp_step sp (OAdd t (CQuad (Some (GId c)))))) <-> In (t', g) (sq sp) \/ (g = c /\ t' = t).
Proof.
  cbn [sp_step sp_target sp_merge arg_content arg_name sp_add sq]. rewrite q_add_In.
  split; [intros [[= -> ->]|H]|intros [H|[-> ->]]]; auto.
Qed.

Lemma sp_step_remove_graph_reading sp a g t :
  In (t, g) (sq (sp_step sp (ORemoveGraph (Some a)))) <-> In (t, g) (sq sp) /\ g <> arg_name a.
Proof.
  cbn [sp_step sq]. rewrite q_remove_In. unfold qsel. cbn [fst snd]. rewrite matches_pall. cbn [andb].
  rewrite N.eqb_neq. split; intros [H1 H2]; split; auto.
Qed.

Lemma sp_default_always_known : forall ops sp, In 0 (sk sp) -> In 0 (sk (fold_left sp_step ops sp)).
Proof.
  assert (Hm : forall sp a, In 0 (sk sp) -> In 0 (sk (sp_merge sp a))).
  { intros sp a H. unfold sp_merge. destruct (arg_content a); auto. cbn [sk]. apply N_sadd_In. auto. }
  induction ops as [|o r IH]; intros sp H; auto. cbn [fold_left]. apply IH.
  destruct o as [t ca|l|p ca|oa|oa|c|p ca kw du|p ca|p ca du|t]; cbn [sp_step]; auto.
  - destruct ca as [|[a|]]; cbn [sp_target sp_add sk]; apply N_sadd_In; auto.
  - revert sp H. induction l as [|x l IHl]; intros sp H; auto. cbn [fold_left]. apply IHl.
    cbn [sp_add sk]. apply N_sadd_In; auto.
  - destruct oa as [a|]; cbn [sk]; apply N_sadd_In; auto.
  - destruct oa as [a|]; cbn [sk]; auto. destruct (N.eqb_spec (arg_name a) 0); auto.
    apply N_srem_In. split; auto.
Qed.

(* ------------------------------------------------------------------ *)
(* round 3: reads that were only run so far *)

(* triples() given a bare triple: the merged view under default_union (every
   graph's triples, plus union-only ones if a store held any), the default
   graph otherwise *)
Lemma triples_plain d p du t :
  In t (snd (cg_triples d p CTriple None du)) <->
  matches p t = true /\
  (if du then (exists g, holds d g t) \/ In t (orphans (st d)) else holds d 0 t).
Proof.
  unfold cg_triples. cbn [cg_spoc regraph option_map cg_graph snd]. rewrite map_fst_st_triples.
  destruct du; cbn [du_dispatch st_match]; unfold holds.
  - rewrite filter_In, in_app_iff, in_all_triples. tauto.
  - rewrite in_q_triples. tauto.
Qed.

(* quads() given no graph does not look at default_union at all (it has no
   such parameter in the model because the code never reads the flag there):
   it enumerates exactly the quads, each once *)
Lemma quads_all d p t g :
  In (t, g) (snd (cg_quads d p CTriple)) <-> holds d g t /\ matches p t = true.
Proof.
  change (snd (cg_quads d p CTriple)) with (quads_of (st d) p None). rewrite quads_of_In. unfold holds.
  cbn [st_match]. rewrite filter_In, in_app_iff, in_all_triples. split.
  - intros [[_ Hm] Hq]. auto.
  - intros [Hq Hm]. split; auto. split; auto. left. eauto.
Qed.

Lemma quads_all_NoDup d p : NoDup (quads (st d)) -> NoDup (orphans (st d)) ->
  (forall t, In t (orphans (st d)) -> forall g, ~ holds d g t) -> NoDup (snd (cg_quads d p CTriple)).
Proof.
  intros Hq Ho Hd. change (snd (cg_quads d p CTriple)) with (quads_of (st d) p None).
  apply quads_of_NoDup; auto. cbn [st_match]. apply filter_NoDup. apply NoDup_app_disj; auto using all_triples_NoDup.
  intros x Hx Hy. apply in_all_triples in Hx. destruct Hx as (g & Hg). exact (Hd x Hy g Hg).
Qed.

(* graphs(triple) / contexts(triple): the graphs holding the triple - and, for
   a Dataset, the default graph in any case (yielded, not registered, when it
   is not among them) *)
Lemma contexts_of_triple d t g :
  In g (snd (cg_contexts_of d t)) <-> holds d g t \/ (is_ds d = true /\ g = 0).
Proof.
  unfold cg_contexts_of, holds. destruct (is_ds d).
  - destruct (memb N.eqb 0 (ctxs_of t (quads (st d)))) eqn:Em; cbn [snd].
    + apply (memb_In _ N.eqb_spec) in Em. rewrite in_ctxs_of. split; auto.
      intros [H|[_ ->]]; auto. now apply in_ctxs_of.
    + rewrite in_app_iff, in_ctxs_of. simpl. intuition.
  - cbn [snd]. rewrite in_ctxs_of. intuition discriminate.
Qed.

Lemma contexts_of_no_quad_write d t : quads (st (fst (cg_contexts_of d t))) = quads (st d).
Proof.
  unfold cg_contexts_of. destruct (is_ds d); auto.
Qed.

(* a listing never changes the state at all (since 6844ed54) *)
Lemma contexts_of_state d t : fst (cg_contexts_of d t) = d.
Proof. unfold cg_contexts_of. destruct (is_ds d); reflexivity. Qed.
Lemma ds_graphs_state d : fst (ds_graphs d) = d.
Proof. unfold ds_graphs. destruct (is_ds d); reflexivity. Qed.
Lemma ds_graphs_hist_refuted : exists d, known (st (fst (ds_graphs_hist d))) <> known (st d).
Proof. exists (ds_init true). vm_compute. discriminate. Qed.

(* graph()/add_graph(): the name handed back is listed afterwards, and the
   graph of that name holds exactly what it held plus what a foreign Graph
   argument brought *)
Lemma graph_returns_listed d oa :
  In (ds_graph_name d oa) (known (st (ds_graph d oa))).
Proof.
  unfold ds_graph, ds_graph_name. destruct oa as [a|].
  - pose proof (snd_cg_graph d (Some a) true) as Hs. destruct (cg_graph d (Some a) true) as [d1 c].
    cbn [snd option_map] in Hs. subst c. cbn [set_st st st_add_graph known]. apply N_sadd_In. auto.
  - cbn [st st_add_graph known]. apply N_sadd_In. auto.
Qed.

Lemma graph_holds d a g t :
  holds (ds_graph d (Some a)) g t <-> holds d g t \/ (g = arg_name a /\ In t (arg_content a)).
Proof.
  unfold ds_graph. pose proof (holds_cg_graph d (Some a) true g t) as Hg.
  pose proof (snd_cg_graph d (Some a) true) as Hs. destruct (cg_graph d (Some a) true) as [d1 c].
  cbn [fst snd option_map] in *. subst c. unfold holds in *. cbn [set_st st st_add_graph quads]. rewrite Hg. split.
  - intros [H|(_ & a' & [= <-] & H1 & H2)]; auto.
  - intros [H|[H1 H2]]; auto. right. split; auto. eauto.
Qed.

(* ------------------------------------------------------------------ *)
(* round 4: finding F20 - under default_union a read that NAMES the default
   graph is answered from the merged view *)
Lemma default_union_alias_refuted :
  exists d t, (forall t', ~ holds d 0 t')
    /\ snd (cg_contains d (pat_of t) (CQuad (Some (GId 0))) true) = true
    /\ snd (cg_triples d pall CTriple (Some (GView 0)) true) = [t]
    /\ snd (cg_quads d pall (CQuad (Some (GId 0)))) = [] /\ view_len d 0 = 0.
Proof.
  exists (cg_add (ds_init true) (1, 2, 3) (CQuad (Some (GId 1)))), (1, 2, 3).
  split; [|repeat split; vm_compute; reflexivity].
  intros t' H. unfold holds in H. vm_compute in H. destruct H as [H|[]]. discriminate.
Qed.

Definition w_f20 : case :=
  {| c_ds := true; c_names := [0; 1]; c_vocab := [(1, 2, 3)];
     c_ops := [OAdd (1, 2, 3) (CQuad (Some (GId 1))); OContains (pat_of (1, 2, 3)) (CQuad (Some (GId 0))) true] |}.

Lemma alias_case_refuted : exists c, kf c = 2 /\ spec_ok c (model_obs c) = false /\ spec_ok_w c (model_obs c) = true.
Proof. exists w_f20. repeat split; vm_compute; reflexivity. Qed.

(* what the boolean result checker says, case by case *)
Lemma res_ok_reading b sp :
  (forall p ca kw du l, res_ok b sp (OTriples p ca kw du) (RTriples l) = true <->
     NoDup l /\ forall t, In t l <-> In t (sp_triples sp p (eff_graph ca kw) du))
  /\ (forall p ca l, res_ok b sp (OQuads p ca) (RQuads l) = true <->
     NoDup l /\ forall q, In q l <-> In q (sq sp) /\ qsel p (eff_graph ca None) q = true)
  /\ (forall p ca du x, res_ok b sp (OContains p ca du) (RBool x) = true <->
     (x = true <-> sp_triples sp p (eff_graph ca None) du <> []))
  /\ (forall t l, res_ok b sp (OContexts t) (RNames l) = true <->
     NoDup l /\ forall g, In g l <-> (In (t, g) (sq sp) \/ (b = true /\ g = 0))).
Proof.
  split; [|split; [|split]].
  - intros. cbn [res_ok]. unfold tenum. rewrite (enum_ofb_spec _ triple_eqb_spec). reflexivity.
  - intros. cbn [res_ok]. unfold qenum, sp_quads. rewrite (enum_ofb_spec _ quad_eqb_spec). unfold enum_of, seteq.
    split; intros [H1 H2]; split; auto; intros q; rewrite H2, filter_In; tauto.
  - intros. cbn [res_ok]. destruct (sp_triples sp p (eff_graph ca None) du) as [|y r]; destruct x; cbn.
    + split; [discriminate|]. intros [H _]. exfalso. apply (H eq_refl). reflexivity.
    + split; auto. intros _. split; [discriminate|]. intros H. exfalso. apply H. reflexivity.
    + split; auto. intros _. split; auto. intros _. discriminate.
    + split; [discriminate|]. intros [_ H]. apply H. discriminate.
  - intros. cbn [res_ok]. unfold cenum, sp_contexts_of. rewrite (enum_ofb_spec _ N.eqb_spec). unfold enum_of, seteq.
    destruct b.
    + split; intros [H1 H2]; split; auto; intros g; rewrite H2, N_sadd_In, in_ctxs_of; intuition.
    + split; intros [H1 H2]; split; auto; intros g; rewrite H2, in_ctxs_of; intuition discriminate.
Qed.
