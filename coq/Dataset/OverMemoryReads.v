(* The front end's reads computed over C01's Memory model (Dataset/OverMemory.v:
   m_triples, m_quads, m_contains, m_len, m_graphs, m_contexts_of, views) are,
   under [AbsM], duplicate-free enumerations of the answers of the list-level
   dataset model - default_union dispatch with the F20 alias and the F17 leak of
   quads included, since both sides are the code's behaviour. *)
From RV Require Import Dataset.Model Dataset.Proofs Dataset.OverMemory Dataset.OverMemoryProofs.
Local Open Scope N_scope.

(* the list-level model's reads, as functions of the store *)
Lemma cg_triples_snd d p ca kw du :
  snd (cg_triples d p ca kw du) = st_match (st d) p (du_dispatch du (eff_graph ca kw)).
Proof.
  unfold cg_triples. rewrite cg_spoc_read_id, cg_graph_read_id. cbn [snd]. rewrite map_fst_st_triples.
  do 2 f_equal. unfold eff_graph. destruct kw; auto. destruct ca as [|[a|]]; reflexivity.
Qed.

Lemma cg_quads_snd d p ca : snd (cg_quads d p ca) = quads_of (st d) p (eff_graph ca None).
Proof. unfold cg_quads. rewrite cg_spoc_read_id. reflexivity. Qed.

Lemma cg_contains_snd d p ca du :
  snd (cg_contains d p ca du) = negb (is_nil (st_match (st d) p (du_dispatch du (eff_graph ca None)))).
Proof.
  unfold cg_contains. rewrite cg_spoc_read_id.
  pose proof (cg_triples_snd d p CTriple (regraph (eff_graph ca None)) du) as H.
  destruct (cg_triples d p CTriple (regraph (eff_graph ca None)) du) as [d2 l]. cbn [snd] in *. rewrite H.
  do 3 f_equal. unfold eff_graph, regraph. destruct ca as [|[a|]]; reflexivity.
Qed.

Lemma is_nil_seteq {A} (l l' : list A) : (forall x, In x l <-> In x l') -> is_nil l = is_nil l'.
Proof.
  intros H. destruct l as [|x r], l' as [|y r']; auto.
  - exfalso. apply (H y). simpl. auto.
  - exfalso. apply (H x). simpl. auto.
Qed.

Section Reads.
  Variables (m : mem) (d : ds).
  Hypothesis HA : AbsM m (st d).

  Theorem m_triples_realises p ca kw du :
    NoDup (m_triples m p ca kw du)
    /\ forall t, In t (m_triples m p ca kw du) <-> In t (snd (cg_triples d p ca kw du)).
  Proof.
    rewrite cg_triples_snd. unfold m_triples.
    destruct (mem_triples_realises m (st d) (du_dispatch du (eff_graph ca kw)) p HA) as (H1 & _ & H3). auto.
  Qed.

  Theorem m_contains_realises p ca du : m_contains m p ca du = snd (cg_contains d p ca du).
  Proof.
    rewrite cg_contains_snd. unfold m_contains, m_triples. f_equal. apply is_nil_seteq.
    destruct (mem_triples_realises m (st d) (du_dispatch du (eff_graph ca None)) p HA) as (_ & _ & H3). exact H3.
  Qed.

  Theorem m_quads_realises p ca :
    NoDup (m_quads m p ca) /\ forall q, In q (m_quads m p ca) <-> In q (snd (cg_quads d p ca)).
  Proof.
    rewrite cg_quads_snd. unfold m_quads.
    destruct (mem_triples_realises m (st d) (eff_graph ca None) p HA) as (N1 & _ & H3). split.
    - apply NoDup_flat_map; auto.
      + intros t _. apply NoDup_map_inj; [intros x y _ _ [= ->]; reflexivity|].
        now destruct (mem_contexts_of_realises m (st d) t HA).
      + intros x y b _ _ Hx Hy. apply in_map_iff in Hx, Hy.
        destruct Hx as (g1 & <- & _), Hy as (g2 & [= -> _] & _). reflexivity.
    - intros [t g]. rewrite quads_of_In, in_flat_map. split.
      + intros (t' & Ht & Hg). apply in_map_iff in Hg. destruct Hg as (g' & [= -> ->] & Hg).
        split; [now apply H3|]. apply in_ctxs_of. now apply (proj2 (mem_contexts_of_realises m (st d) t HA)).
      + intros [Ht Hq]. exists t. split; [now apply H3|]. apply in_map_iff. exists g. split; auto.
        apply (proj2 (mem_contexts_of_realises m (st d) t HA)). now apply in_ctxs_of.
  Qed.

  Theorem m_len_realises : m_len m = cg_len d /\ forall c, m_view_len m c = view_len d c.
  Proof. split; [|intros c]; now apply mem_len_realises. Qed.

  Theorem m_view_realises c p :
    NoDup (m_view_triples m c p) /\ forall t, In t (m_view_triples m c p) <-> In t (view_triples d c p).
  Proof. destruct (mem_triples_realises m (st d) (Some c) p HA) as (H1 & _ & H3). auto. Qed.

  Lemma list_default_enum b l l' :
    NoDup l -> (forall c, In c l <-> In c l') ->
    NoDup (list_default b l) /\ forall c, In c (list_default b l) <-> In c (list_default b l').
  Proof.
    intros Hn He. unfold list_default. destruct b; auto.
    destruct (memb N.eqb 0 l) eqn:E, (memb N.eqb 0 l') eqn:E'.
    - auto.
    - apply (memb_In _ N.eqb_spec) in E. apply He in E. apply (memb_In _ N.eqb_spec) in E. congruence.
    - apply (memb_In _ N.eqb_spec) in E'. apply He in E'. apply (memb_In _ N.eqb_spec) in E'. congruence.
    - split.
      + apply NoDup_app_single; auto. now apply (memb_false _ N.eqb_spec).
      + intros c. rewrite !in_app_iff, He. tauto.
  Qed.

  Theorem m_graphs_realises :
    NoDup (m_graphs (is_ds d) m) /\ forall c, In c (m_graphs (is_ds d) m) <-> In c (snd (ds_graphs d)).
  Proof.
    destruct (mem_contexts_realises m (st d) HA) as [H1 H2].
    assert (E : snd (ds_graphs d) = list_default (is_ds d) (known (st d))).
    { unfold ds_graphs, list_default. destruct (is_ds d); reflexivity. }
    rewrite E. now apply list_default_enum.
  Qed.

  Theorem m_contexts_of_realises t :
    NoDup (m_contexts_of (is_ds d) m t)
    /\ forall c, In c (m_contexts_of (is_ds d) m t) <-> In c (snd (cg_contexts_of d t)).
  Proof.
    destruct (mem_contexts_of_realises m (st d) t HA) as [H1 H2].
    assert (E : snd (cg_contexts_of d t) = list_default (is_ds d) (ctxs_of t (quads (st d)))).
    { unfold cg_contexts_of, list_default. destruct (is_ds d); reflexivity. }
    rewrite E. now apply list_default_enum.
  Qed.

  (* the answer of every read operation: equal as a result (collections as sets) *)
  Theorem m_read_realises o : is_read o = true -> res_eqb (m_read (is_ds d) m o) (snd (do_op d o)) = true.
  Proof.
    destruct o as [t ca|l|p ca|oa|oa|c|p ca kw du|p ca|p ca du|t]; try discriminate; intros _; cbn [m_read do_op].
    - pose proof (m_triples_realises p ca kw du) as [_ H]. destruct (cg_triples d p ca kw du) as [d1 l]. cbn [snd res_eqb] in *.
      now apply (seteqb_spec _ triple_eqb_spec).
    - pose proof (m_quads_realises p ca) as [_ H]. destruct (cg_quads d p ca) as [d1 l]. cbn [snd res_eqb] in *.
      now apply qseteqb_spec.
    - pose proof (m_contains_realises p ca du) as H. destruct (cg_contains d p ca du) as [d1 x]. cbn [snd res_eqb] in *.
      rewrite H. apply Bool.eqb_reflx.
    - pose proof (m_contexts_of_realises t) as [_ H]. destruct (cg_contexts_of d t) as [d1 l]. cbn [snd res_eqb] in *.
      now apply (seteqb_spec _ N.eqb_spec).
  Qed.
End Reads.

(* a read operation issues no store call that writes: over Memory the state is untouched *)
Lemma read_wops fr o : is_read o = true -> wops fr o = [] /\ fresh_step fr o = fr.
Proof. destruct o as [t ca|l|p ca|oa|oa|c|p ca kw du|p ca|p ca du|t]; try discriminate; auto. Qed.

Theorem mem_after_read m fr o : is_read o = true -> mem_after m fr [o] = m.
Proof. intros H. destruct (read_wops fr o H) as [E1 E2]. cbn [mem_after]. now rewrite E1. Qed.
