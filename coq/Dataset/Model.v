(* Model of the layer ABOVE the store: rdflib/graph.py ConjunctiveGraph and
   Dataset (_spoc, _graph, add, addN, remove, triples, quads, __contains__,
   __len__, contexts, get_context, graph/add_graph, remove_graph, graphs,
   remove_context, default_union) over an ABSTRACT Memory store: what
   memory.py exposes to this layer (triples(pattern, context), contexts(),
   add, remove, add_graph, remove_graph, __len__(context)).  The store's
   internals (indexes, default-context compression) are property C01's.
   Reads are functions [ds -> ds * out]: several of them write (see C13).
   No proofs in this file. *)
From RV Require Export Base.Quads.
Local Open Scope N_scope.

(* ------------------------------------------------------------------ *)
(* The abstract Memory store.
   [quads]   the asserted (triple, graph-name) pairs; a graph name (cid) stands
             for the store's context key "{Class}:{identifier}", which is
             injective on (class, string), as is the harness numbering;
   [orphans] triples present in the store's union index only (context dict
             {None: False}): what Memory.add(t, context=None) creates when the
             triple has no named context (no longer reachable from the front
             end since the repair of F18; kept for the historical lemma);
   [known]   Memory.__all_contexts (a Python set of Graph objects; Graph
             equality and hash are those of the identifier). *)
Record store := { quads : qset; orphans : list triple; known : list cid }.

Definition st_empty : store := {| quads := []; orphans := []; known := [] |}.

Definition pall : pat := (None, None, None).

Definition has_named (t : triple) (q : qset) : bool :=
  existsb (fun x => triple_eqb t (fst x)) q.
Definition ctxs_of (t : triple) (q : qset) : list cid :=
  map snd (filter (fun x => triple_eqb t (fst x)) q).
Definition all_triples (q : qset) : list triple := dedup triple_eqb (map fst q).

(* Memory.add(triple, context, quoted=False) *)
Definition st_add (s : store) (t : triple) (oc : option cid) : store :=
  match oc with
  | Some c => {| quads := q_add (t, c) (quads s);
                 orphans := srem triple_eqb t (orphans s);
                 known := sadd N.eqb c (known s) |}
  | None => if has_named t (quads s) then s
            else {| quads := quads s; orphans := sadd triple_eqb t (orphans s); known := known s |}
  end.

(* Memory.remove(pattern, context): with a context only that context's entry
   goes (and the union entry when nothing else is left); with None all go *)
Definition st_remove (s : store) (p : pat) (oc : option cid) : store :=
  match oc with
  | Some _ => {| quads := q_remove p oc (quads s); orphans := orphans s; known := known s |}
  | None => {| quads := q_remove p None (quads s);
               orphans := filter (fun t => negb (matches p t)) (orphans s); known := known s |}
  end.

(* Memory.triples(pattern, context): the matching triples ... *)
Definition st_match (s : store) (p : pat) (oc : option cid) : list triple :=
  match oc with
  | Some c => q_triples p c (quads s)
  | None => filter (matches p) (all_triples (quads s) ++ orphans s)
  end.
(* ... each with the generator of its (named) contexts *)
Definition st_triples (s : store) (p : pat) (oc : option cid) : list (triple * list cid) :=
  map (fun t => (t, ctxs_of t (quads s))) (st_match s p oc).

Definition st_len (s : store) (oc : option cid) : N := N.of_nat (length (st_match s pall oc)).

Definition st_add_graph (s : store) (c : cid) : store :=
  {| quads := quads s; orphans := orphans s; known := sadd N.eqb c (known s) |}.

Definition st_remove_graph (s : store) (c : cid) : store :=
  let s1 := st_remove s pall (Some c) in
  {| quads := quads s1; orphans := orphans s1; known := srem N.eqb c (known s1) |}.

(* ------------------------------------------------------------------ *)
(* The front end.  Graph name 0 is the default graph of the front end in use
   (DATASET_DEFAULT_GRAPH_ID for a Dataset, the identifier given to the
   constructor for a ConjunctiveGraph). *)
Record ds := { st : store; is_ds : bool; fresh : N }.

Definition set_st (d : ds) (s : store) : ds := {| st := s; is_ds := is_ds d; fresh := fresh d |}.
Definition ds_init (b : bool) : ds := {| st := st_empty; is_ds := b; fresh := 0 |}.

(* what can be passed where a graph is expected *)
Inductive garg :=
| GId (c : cid)                          (* an identifier (URIRef / BNode) *)
| GView (c : cid)                        (* a Graph object on the SAME store *)
| GForeign (c : cid) (ts : list triple). (* a Graph object backed by another store, with its content *)

Definition arg_name (a : garg) : cid :=
  match a with GId c | GView c | GForeign c _ => c end.

(* a triple, or a quad whose 4th component may be None *)
Inductive ctxarg := CTriple | CQuad (oa : option garg).

Definition graph_triples (s : store) (c : cid) : list triple := q_triples pall c (quads s).

(* HISTORICAL (before the "fix:" commit 6844ed54): a full pass of Dataset.contexts()
   re-created the default graph when the store did not list it
   (self.graph(DATASET_DEFAULT_GRAPH_ID) -> store.add_graph).  Now the default graph
   object is handed out without registering it; kept for the historical lemmas. *)
Definition touch_default (d : ds) : ds :=
  if is_ds d then (if memb N.eqb 0%N (known (st d)) then d else set_st d (st_add_graph (st d) 0%N)) else d.

Definition iadd (s : store) (c : cid) (ts : list triple) : store :=
  fold_left (fun s t => st_add s t (Some c)) ts s.

(* ConjunctiveGraph._graph(c, copy), as repaired by the "fix:" commit for F19:
   a Graph object is resolved to the same-store graph of its name (get_graph
   walks self.contexts(), which since 6844ed54 writes nothing);
   its triples are copied in only [if copy and c.store is not self.store] *)
Definition cg_graph (d : ds) (oa : option garg) (copy : bool) : ds * option cid :=
  match oa with
  | None => (d, None)
  | Some (GId c) => (d, Some c)                       (* get_context: no write *)
  | Some (GView c) => (d, Some c)                     (* get_graph walks self.contexts(): a read *)
  | Some (GForeign c ts) =>
      (if copy then set_st d (iadd (st d) c ts) else d, Some c)
  end.

(* the historical _graph (finding F19, repaired): every Graph object was
   __iadd__-ed into the same-store graph, on read paths too *)
Definition cg_graph_hist (d : ds) (oa : option garg) : ds * option cid :=
  match oa with
  | None => (d, None)
  | Some (GId c) => (d, Some c)
  | Some (GView c) =>
      let d1 := touch_default d in
      (set_st d1 (iadd (st d1) c (graph_triples (st d1) c)), Some c)
  | Some (GForeign c ts) =>
      let d1 := touch_default d in
      (set_st d1 (iadd (st d1) c ts), Some c)
  end.

(* ConjunctiveGraph._spoc, as repaired by the "fix:" commit for F18: a quad
   that names no graph gets the default graph when [default] is set (add) *)
Definition cg_spoc (d : ds) (ca : ctxarg) (dflt : bool) : ds * option cid :=
  match ca with
  | CTriple => (d, if dflt then Some 0%N else None)
  | CQuad oa => let (d1, c) := cg_graph d oa dflt in    (* _graph(c, copy=default): only add copies *)
                (d1, match c with None => if dflt then Some 0%N else None | Some _ => c end)
  end.

(* the historical _spoc (finding F18, repaired): the None of a 4-tuple was
   handed to Memory.add as context=None, which files the triple under the
   store's union only *)
Definition cg_spoc_hist (d : ds) (ca : ctxarg) (dflt : bool) : ds * option cid :=
  match ca with
  | CTriple => (d, if dflt then Some 0%N else None)
  | CQuad oa => cg_graph d oa dflt
  end.

Definition cg_add (d : ds) (t : triple) (ca : ctxarg) : ds :=
  let (d1, c) := cg_spoc d ca true in set_st d1 (st_add (st d1) t c).
Definition cg_add_hist (d : ds) (t : triple) (ca : ctxarg) : ds :=
  let (d1, c) := cg_spoc_hist d ca true in set_st d1 (st_add (st d1) t c).

(* addN: Store.addN adds quad by quad while the generator calls _graph *)
Definition cg_addN (d : ds) (l : list (triple * garg)) : ds :=
  fold_left (fun d x => let (d1, c) := cg_graph d (Some (snd x)) true in set_st d1 (st_add (st d1) (fst x) c)) l d.

Definition cg_remove (d : ds) (p : pat) (ca : ctxarg) : ds :=
  let (d1, c) := cg_spoc d ca false in set_st d1 (st_remove (st d1) p c).

Definition FRESH_BASE : N := 1000.

(* Dataset.graph / add_graph *)
Definition ds_graph (d : ds) (oa : option garg) : ds :=
  match oa with
  | None => (* mints a skolem IRI (bind "genid" touches prefixes only) *)
      {| st := st_add_graph (st d) (FRESH_BASE + fresh d); is_ds := is_ds d; fresh := N.succ (fresh d) |}
  | Some a => let (d1, c) := cg_graph d (Some a) true in
              match c with Some c' => set_st d1 (st_add_graph (st d1) c') | None => d1 end
  end.

(* Dataset.remove_graph: no _graph call; remove_graph(None) builds a fresh
   blank-node-named graph, removes that (nothing) and is done *)
Definition ds_remove_graph (d : ds) (oa : option garg) : ds :=
  match oa with
  | None => d
  | Some a => let c := arg_name a in
              let s1 := st_remove_graph (st d) c in
              set_st d (if N.eqb c 0 then st_add_graph s1 0%N else s1)
  end.

(* ConjunctiveGraph.remove_context(graph object) *)
Definition cg_remove_context (d : ds) (c : cid) : ds := set_st d (st_remove (st d) pall (Some c)).

(* the graph object that _spoc returned is handed to _graph once more *)
Definition regraph (c : option cid) : option garg := option_map GView c.

(* default_union dispatch of ConjunctiveGraph.triples *)
Definition du_dispatch (du : bool) (ctx : option cid) : option cid :=
  if du then match ctx with Some c => if N.eqb c 0 then None else ctx | None => None end
  else match ctx with None => Some 0%N | _ => ctx end.

(* ConjunctiveGraph.triples(triple_or_quad, context=kw), as repaired by the
   "fix:" commit for F1: context if context is not None else c *)
Definition cg_triples (d : ds) (p : pat) (ca : ctxarg) (kw : option garg) (du : bool) : ds * list triple :=
  let (d1, c) := cg_spoc d ca false in
  let (d2, ctx) := cg_graph d1 (match kw with Some a => Some a | None => regraph c end) false in
  (d2, map fst (st_triples (st d2) p (du_dispatch du ctx))).

Definition is_nil {A} (l : list A) : bool := match l with [] => true | _ => false end.

(* ConjunctiveGraph.__contains__ *)
Definition cg_contains (d : ds) (p : pat) (ca : ctxarg) (du : bool) : ds * bool :=
  let (d1, c) := cg_spoc d ca false in
  let (d2, l) := cg_triples d1 p CTriple (regraph c) du in
  (d2, negb (is_nil l)).

(* ConjunctiveGraph.quads / Dataset.quads (the latter compares an identifier
   with a Graph, which is never equal, so the default graph keeps its name) *)
Definition cg_quads (d : ds) (p : pat) (ca : ctxarg) : ds * list quad :=
  let (d1, c) := cg_spoc d ca false in
  (d1, flat_map (fun x => map (fun g => (fst x, g)) (snd x)) (st_triples (st d1) p c)).

Definition cg_len (d : ds) : N := st_len (st d) None.

(* Dataset.graphs() / ConjunctiveGraph.contexts() *)
Definition ds_graphs (d : ds) : ds * list cid :=
  if is_ds d then
    let k := known (st d) in
    (d, if memb N.eqb 0%N k then k else k ++ [0%N])   (* the default graph is listed, not registered *)
  else (d, known (st d)).

(* before 6844ed54 the listing registered the default graph with the store *)
Definition ds_graphs_hist (d : ds) : ds * list cid :=
  if is_ds d then
    let k := known (st d) in
    if memb N.eqb 0%N k then (d, k) else (set_st d (st_add_graph (st d) 0%N), k ++ [0%N])
  else (d, known (st d)).

(* an independently obtained Graph(store, name) *)
Definition view_triples (d : ds) (c : cid) (p : pat) : list triple := st_match (st d) p (Some c).
Definition view_len (d : ds) (c : cid) : N := st_len (st d) (Some c).

(* the historical expression of ConjunctiveGraph.triples (finding F1, repaired):
   [context or c] with Python truthiness of Graph objects (len > 0) and of
   identifiers (non-empty string: every name here) *)
Definition truthy (d : ds) (a : garg) : bool :=
  match a with
  | GId _ => true
  | GView c => N.ltb 0 (view_len d c)
  | GForeign _ ts => negb (is_nil ts)
  end.
Definition cg_triples_hist (d : ds) (p : pat) (ca : ctxarg) (kw : option garg) (du : bool) : ds * list triple :=
  let (d1, c) := cg_spoc d ca false in
  let pick := match kw with Some a => if truthy d1 a then Some a else regraph c | None => regraph c end in
  let (d2, ctx) := cg_graph d1 pick false in
  (d2, map fst (st_triples (st d2) p (du_dispatch du ctx))).

(* ------------------------------------------------------------------ *)
(* Histories *)
Inductive op :=
| OAdd (t : triple) (ca : ctxarg)
| OAddN (l : list (triple * garg))
| ORemove (p : pat) (ca : ctxarg)
| OGraph (oa : option garg)
| ORemoveGraph (oa : option garg)
| ORemoveContext (c : cid)
| OTriples (p : pat) (ca : ctxarg) (kw : option garg) (du : bool)
| OQuads (p : pat) (ca : ctxarg)
| OContains (p : pat) (ca : ctxarg) (du : bool)
| OContexts (t : triple).                (* Dataset.graphs(triple) / ConjunctiveGraph.contexts(triple) *)

Inductive res :=
| RNone                          (* returned None *)
| RSelf                          (* returned the front-end object itself *)
| RNames (l : list cid)          (* graph objects of THIS store, by name *)
| RTriples (l : list triple) | RQuads (l : list quad) | RBool (b : bool) | RExc.

(* the name of the graph Dataset.graph / add_graph returns *)
Definition ds_graph_name (d : ds) (oa : option garg) : cid :=
  match oa with None => FRESH_BASE + fresh d | Some a => arg_name a end.

(* Dataset.graphs(triple): the contexts of the triple, and the default graph
   yielded (not registered) when it is not among them;
   ConjunctiveGraph.contexts(triple) just lists *)
Definition cg_contexts_of (d : ds) (t : triple) : ds * list cid :=
  let l := ctxs_of t (quads (st d)) in
  if is_ds d then (d, if memb N.eqb 0 l then l else l ++ [0]) else (d, l).

Definition do_op (d : ds) (o : op) : ds * res :=
  match o with
  | OAdd t ca => (cg_add d t ca, RSelf)
  | OAddN l => (cg_addN d l, RSelf)
  | ORemove p ca => (cg_remove d p ca, RSelf)
  | OGraph oa => (ds_graph d oa, RNames [ds_graph_name d oa])
  | ORemoveGraph oa => (ds_remove_graph d oa, RSelf)
  | ORemoveContext c => (cg_remove_context d c, RNone)
  | OTriples p ca kw du => let (d1, l) := cg_triples d p ca kw du in (d1, RTriples l)
  | OQuads p ca => let (d1, l) := cg_quads d p ca in (d1, RQuads l)
  | OContains p ca du => let (d1, b) := cg_contains d p ca du in (d1, RBool b)
  | OContexts t => let (d1, l) := cg_contexts_of d t in (d1, RNames l)
  end.

(* what is looked at after every operation *)
Record snap := {
  o_quads : list quad;                    (* ds.quads() *)
  o_graphs : list cid;                    (* names of ds.graphs() / cg.contexts() *)
  o_views : list (cid * list triple);     (* Graph(store, name) for every probed name *)
  o_vlens : list N;                       (* their len() *)
  o_len : N;                              (* len(ds) *)
  o_union : list triple;                  (* ds.triples((None,None,None)) with default_union *)
  o_dflt : list triple;                   (* ... without *)
  o_mem : list bool                       (* (t, g) in ds for every probed name g and triple t *)
}.

Record case := { c_ds : bool; c_names : list cid; c_vocab : list triple; c_ops : list op }.

Definition mem_probe (d : ds) (names : list cid) (vocab : list triple) : list bool :=
  flat_map (fun g => map (fun t => snd (cg_contains d (pat_of t) (CQuad (Some (GId g))) false)) vocab) names.

Definition snapshot (c : case) (d : ds) : ds * snap :=
  let (d1, q) := cg_quads d pall CTriple in
  let (d2, gs) := ds_graphs d1 in
  let (d3, un) := cg_triples d2 pall CTriple None true in
  let (d4, df) := cg_triples d3 pall CTriple None false in
  (d4, {| o_quads := q; o_graphs := gs;
          o_views := map (fun g => (g, view_triples d4 g pall)) (c_names c);
          o_vlens := map (view_len d4) (c_names c);
          o_len := cg_len d4; o_union := un; o_dflt := df;
          o_mem := mem_probe d4 (c_names c) (c_vocab c) |}).

Definition obs := list (res * snap).

Fixpoint run (c : case) (d : ds) (ops : list op) : obs :=
  match ops with
  | [] => []
  | o :: r => let (d1, rs) := do_op d o in
              let (d2, sn) := snapshot c d1 in
              (rs, sn) :: run c d2 r
  end.

Definition model_obs (c : case) : obs := run c (ds_init (c_ds c)) (c_ops c).

(* ------------------------------------------------------------------ *)
(* comparison of observations: collections as sets (duplicates are the
   specification checker's business), counts and booleans exactly *)
Definition tseteqb := seteqb triple_eqb.
Definition cseteqb := seteqb N.eqb.

Definition res_eqb (a b : res) : bool :=
  match a, b with
  | RNone, RNone => true
  | RSelf, RSelf => true
  | RNames x, RNames y => cseteqb x y
  | RTriples x, RTriples y => tseteqb x y
  | RQuads x, RQuads y => qseteqb x y
  | RBool x, RBool y => Bool.eqb x y
  | RExc, RExc => true
  | _, _ => false
  end.

Definition snap_eqb (a b : snap) : bool :=
  qseteqb (o_quads a) (o_quads b) && cseteqb (o_graphs a) (o_graphs b)
  && list_eqb (fun x y => N.eqb (fst x) (fst y) && tseteqb (snd x) (snd y)) (o_views a) (o_views b)
  && list_eqb N.eqb (o_vlens a) (o_vlens b) && N.eqb (o_len a) (o_len b)
  && tseteqb (o_union a) (o_union b) && tseteqb (o_dflt a) (o_dflt b)
  && list_eqb Bool.eqb (o_mem a) (o_mem b).

Definition obs_eqb (a b : obs) : bool :=
  list_eqb (fun x y => res_eqb (fst x) (fst y) && snap_eqb (snd x) (snd y)) a b.

(* ------------------------------------------------------------------ *)
(* Specification: the object the property talks about is a mapping from graph
   name to triple set, kept as a quad set [sq], plus the set [sk] of known
   graph names, in which the default graph (0) always is. *)
Record dspec := { sq : qset; sk : list cid; sf : N }.

Definition sp_init : dspec := {| sq := []; sk := [0%N]; sf := 0 |}.

Definition arg_content (a : garg) : list triple :=
  match a with GForeign _ ts => ts | _ => [] end.

(* a Graph object given to add / addN / graph() is merged into the graph of its name *)
Definition sp_merge (sp : dspec) (a : garg) : dspec :=
  match arg_content a with
  | [] => sp
  | ts => {| sq := fold_left (fun q t => q_add (t, arg_name a) q) ts (sq sp);
             sk := sadd N.eqb (arg_name a) (sk sp); sf := sf sp |}
  end.

Definition sp_target (sp : dspec) (ca : ctxarg) : dspec * option cid :=
  match ca with
  | CTriple | CQuad None => (sp, None)
  | CQuad (Some a) => (sp_merge sp a, Some (arg_name a))
  end.

Definition sp_add (sp : dspec) (t : triple) (c : cid) : dspec :=
  {| sq := q_add (t, c) (sq sp); sk := sadd N.eqb c (sk sp); sf := sf sp |}.

(* the graph a read is restricted to: the keyword wins over the 4th component *)
Definition eff_graph (ca : ctxarg) (kw : option garg) : option cid :=
  match kw with
  | Some a => Some (arg_name a)
  | None => match ca with CQuad (Some a) => Some (arg_name a) | _ => None end
  end.

Definition is_read (o : op) : bool :=
  match o with OTriples _ _ _ _ | OQuads _ _ | OContains _ _ _ | OContexts _ => true | _ => false end.

Definition sp_step (sp : dspec) (o : op) : dspec :=
  match o with
  | OAdd t ca =>
      (* a triple, or a quad without a graph, goes to the default graph *)
      let (sp1, oc) := sp_target sp ca in
      sp_add sp1 t (match oc with Some c => c | None => 0%N end)
  | OAddN l => fold_left (fun sp x => sp_add (sp_merge sp (snd x)) (fst x) (arg_name (snd x))) l sp
  | ORemove p ca =>
      (* no graph given: from every graph; otherwise from that graph only
         (a Graph object merely names the graph here: nothing is merged) *)
      {| sq := q_remove p (eff_graph ca None) (sq sp); sk := sk sp; sf := sf sp |}
  | OGraph None => {| sq := sq sp; sk := sadd N.eqb (FRESH_BASE + sf sp) (sk sp); sf := N.succ (sf sp) |}
  | OGraph (Some a) =>
      let sp1 := sp_merge sp a in
      {| sq := sq sp1; sk := sadd N.eqb (arg_name a) (sk sp1); sf := sf sp1 |}
  | ORemoveGraph None => sp
  | ORemoveGraph (Some a) =>
      (* empties and forgets only that graph; the default graph stays known *)
      let c := arg_name a in
      {| sq := q_remove pall (Some c) (sq sp);
         sk := if N.eqb c 0 then sk sp else srem N.eqb c (sk sp); sf := sf sp |}
  | ORemoveContext c => {| sq := q_remove pall (Some c) (sq sp); sk := sk sp; sf := sf sp |}
  | OTriples _ _ _ _ | OQuads _ _ | OContains _ _ _ | OContexts _ => sp
  end.

Definition sp_graph (sp : dspec) (c : cid) (p : pat) : list triple := q_triples p c (sq sp).
Definition sp_union (sp : dspec) (p : pat) : list triple := filter (matches p) (all_triples (sq sp)).

(* what the property prescribes: a read restricted to a graph answers from that
   graph; one that names no graph answers from the merged view under
   default_union and from the default graph otherwise *)
Definition sp_triples (sp : dspec) (p : pat) (g : option cid) (du : bool) : list triple :=
  match g with
  | None => if du then sp_union sp p else sp_graph sp 0%N p
  | Some c => sp_graph sp c p
  end.

(* what the code does (finding F20): under default_union a read that NAMES the
   default graph is answered from the merged view *)
Definition sp_triples_code (sp : dspec) (p : pat) (g : option cid) (du : bool) : list triple :=
  match g with
  | None => if du then sp_union sp p else sp_graph sp 0%N p
  | Some c => if du && N.eqb c 0 then sp_union sp p else sp_graph sp c p
  end.

Definition sp_quads (sp : dspec) (p : pat) (ca : ctxarg) : list quad :=
  filter (qsel p (eff_graph ca None)) (sq sp).

(* a result is a duplicate-free enumeration of the expected set *)
Definition tenum (l s : list triple) : bool := enum_ofb triple_eqb l s.
Definition qenum (l s : list quad) : bool := enum_ofb quad_eqb l s.
Definition cenum (l s : list cid) : bool := enum_ofb N.eqb l s.

(* the graphs holding a triple; a Dataset lists its default graph in any case *)
Definition sp_contexts_of (dataset : bool) (sp : dspec) (t : triple) : list cid :=
  let l := ctxs_of t (sq sp) in if dataset then sadd N.eqb 0%N l else l.

Definition res_ok (dataset : bool) (sp : dspec) (o : op) (r : res) : bool :=
  match o, r with
  | OTriples p ca kw du, RTriples l => tenum l (sp_triples sp p (eff_graph ca kw) du)
  | OQuads p ca, RQuads l => qenum l (sp_quads sp p ca)
  | OContains p ca du, RBool b => Bool.eqb b (negb (is_nil (sp_triples sp p (eff_graph ca None) du)))
  | OContexts t, RNames l => cenum l (sp_contexts_of dataset sp t)
  (* graph()/add_graph() hand back the graph of that name (a fresh name when none is given) *)
  | OGraph oa, RNames l =>
      list_eqb N.eqb l [match oa with None => FRESH_BASE + sf sp | Some a => arg_name a end]
  (* add, addN, remove, remove_graph return the front end; remove_context returns None *)
  | (OAdd _ _ | OAddN _ | ORemove _ _ | ORemoveGraph _), RSelf => true
  | ORemoveContext _, RNone => true
  | _, _ => false
  end.

Definition views_ok (sp : dspec) (names : list cid) (vs : list (cid * list triple)) (ls : list N) : bool :=
  list_eqb N.eqb (map fst vs) names
  && forallb (fun v => tenum (snd v) (sp_graph sp (fst v) pall)) vs
  && list_eqb N.eqb ls (map (fun g => N.of_nat (length (sp_graph sp g pall))) names).

Definition snap_ok (c : case) (sp : dspec) (s : snap) : bool :=
  qenum (o_quads s) (sq sp)
  && (if c_ds c then cenum (o_graphs s) (sk sp)
      else nodupb N.eqb (o_graphs s) && cseteqb (sadd N.eqb 0%N (o_graphs s)) (sk sp))
  && views_ok sp (c_names c) (o_views s) (o_vlens s)
  && N.eqb (o_len s) (N.of_nat (length (all_triples (sq sp))))
  && tenum (o_union s) (all_triples (sq sp))
  && tenum (o_dflt s) (sp_graph sp 0%N pall)
  && list_eqb Bool.eqb (o_mem s)
       (flat_map (fun g => map (fun t => q_mem (t, g) (sq sp)) (c_vocab c)) (c_names c)).

Fixpoint spec_run (c : case) (sp : dspec) (ops : list op) (o : obs) : bool :=
  match ops, o with
  | [], [] => true
  | x :: r, (rs, sn) :: o' =>
      let sp' := sp_step sp x in
      res_ok (c_ds c) sp x rs && snap_ok c sp' sn && spec_run c sp' r o'
  | _, _ => false
  end.

Definition spec_ok (c : case) (o : obs) : bool := spec_run c sp_init (c_ops c) o.

(* ------------------------------------------------------------------ *)
Definition foreign (a : garg) : bool := match a with GForeign _ _ => true | _ => false end.

(* ------------------------------------------------------------------ *)
(* Known-finding trigger.
   1 (F17): quads() restricted to a graph is asked while a matching triple of
            that graph also lives in another graph: the quads of the other
            graphs are returned as well.
   (F18, a quad whose graph is None being filed under no graph, is repaired.) *)
Definition leaks (sp : dspec) (o : op) : bool :=
  match o with
  | OQuads p (CQuad (Some a)) =>
      existsb (fun t => existsb (fun q => triple_eqb t (fst q) && negb (N.eqb (snd q) (arg_name a))) (sq sp))
              (sp_graph sp (arg_name a) p)
  | _ => false
  end.

(* 2 (F20): under default_union a read restricted to the DEFAULT graph by name
   (triples((..,default)) / triples(context=default) / (s,p,o,default) in ds) is
   asked while the merged view and the default graph differ on the pattern *)
Definition aliases (sp : dspec) (o : op) : bool :=
  match o with
  | OTriples p ca kw du =>
      negb (tseteqb (sp_triples_code sp p (eff_graph ca kw) du) (sp_triples sp p (eff_graph ca kw) du))
  | OContains p ca du =>
      negb (Bool.eqb (is_nil (sp_triples_code sp p (eff_graph ca None) du)) (is_nil (sp_triples sp p (eff_graph ca None) du)))
  | _ => false
  end.

(* the steps whose own answer is exempt from the specification *)
Definition waived (sp : dspec) (o : op) : bool := leaks sp o || aliases sp o.

Fixpoint trig_run (f : dspec -> op -> bool) (sp : dspec) (ops : list op) : bool :=
  match ops with
  | [] => false
  | o :: r => f sp o || trig_run f (sp_step sp o) r
  end.
Definition leak_run := trig_run leaks.

Definition kf (c : case) : N :=
  if trig_run aliases sp_init (c_ops c) then 2%N
  else if leak_run sp_init (c_ops c) then 1%N else 0%N.

(* the same checker with ONLY the answers of the waived steps exempt: every other
   answer and every snapshot of the history stay judged *)
Fixpoint spec_run_w (c : case) (sp : dspec) (ops : list op) (o : obs) : bool :=
  match ops, o with
  | [], [] => true
  | x :: r, (rs, sn) :: o' =>
      let sp' := sp_step sp x in
      (waived sp x || res_ok (c_ds c) sp x rs) && snap_ok c sp' sn && spec_run_w c sp' r o'
  | _, _ => false
  end.
Definition spec_ok_w (c : case) (o : obs) : bool := spec_run_w c sp_init (c_ops c) o.
