(* The history theorem of C02 holds LITERALLY of the front end over C01's Memory
   model: the observations computed over Memory (Dataset/OverMemory.v, m_run)
   satisfy the waiving specification checker on every history. *)
From RV Require Import Dataset.Model Dataset.Proofs Dataset.OverMemory Dataset.OverMemoryProofs Dataset.OverMemoryReads.
Local Open Scope N_scope.

Section Enum.
  Variables (A : Type) (eqb : A -> A -> bool).
  Hypothesis eqb_spec : forall x y, reflect (x = y) (eqb x y).
  Lemma enum_transfer (l l' s : list A) :
    enum_ofb eqb l s = true -> NoDup l' -> (forall x, In x l' <-> In x l) -> enum_ofb eqb l' s = true.
  Proof.
    intros H Hn He. apply (enum_ofb_spec eqb eqb_spec) in H. destruct H as [_ Hs].
    apply (enum_ofb_spec eqb eqb_spec). split; auto. intros x. rewrite He. apply Hs.
  Qed.
End Enum.

(* the list-level snapshot, component by component (its reads are the identity on the state) *)
Lemma snapshot_eq c d :
  snapshot c d = (d, {| o_quads := snd (cg_quads d pall CTriple); o_graphs := snd (ds_graphs d);
                       o_views := map (fun g => (g, view_triples d g pall)) (c_names c);
                       o_vlens := map (view_len d) (c_names c); o_len := cg_len d;
                       o_union := snd (cg_triples d pall CTriple None true);
                       o_dflt := snd (cg_triples d pall CTriple None false);
                       o_mem := mem_probe d (c_names c) (c_vocab c) |}).
Proof.
  unfold snapshot.
  assert (E1 : cg_quads d pall CTriple = (d, snd (cg_quads d pall CTriple))) by reflexivity. rewrite E1.
  assert (E2 : ds_graphs d = (d, snd (ds_graphs d))).
  { pose proof (ds_graphs_state d) as H. destruct (ds_graphs d) as [d2 l]. cbn [fst snd] in *. now subst. }
  rewrite E2.
  assert (E3 : forall du, cg_triples d pall CTriple None du = (d, snd (cg_triples d pall CTriple None du))).
  { intros du. pose proof (cg_triples_fst d pall CTriple None du) as H.
    destruct (cg_triples d pall CTriple None du) as [d3 l]. cbn [fst snd] in *. now subst. }
  rewrite (E3 true), (E3 false). reflexivity.
Qed.

Lemma m_mem_probe m d names vocab : AbsM m (st d) ->
  flat_map (fun g => map (fun t => m_contains m (pat_of t) (CQuad (Some (GId g))) false) vocab) names
  = mem_probe d names vocab.
Proof.
  intros HA. unfold mem_probe. induction names as [|g r IH]; cbn [flat_map]; auto. f_equal; auto.
  apply map_ext. intros t. apply (m_contains_realises m d HA).
Qed.

Lemma m_snapshot_ok c m d sp :
  AbsM m (st d) -> is_ds d = c_ds c -> snap_ok c sp (snd (snapshot c d)) = true -> snap_ok c sp (m_snapshot c m) = true.
Proof.
  intros HA Hk. rewrite snapshot_eq. cbn [snd]. unfold snap_ok, m_snapshot.
  cbn [o_quads o_graphs o_views o_vlens o_len o_union o_dflt o_mem].
  rewrite !andb_true_iff. intros ((((((H1 & H2) & H3) & H4) & H5) & H6) & H7).
  destruct (m_quads_realises m d HA pall CTriple) as [Q1 Q2].
  destruct (m_graphs_realises m d HA) as [G1 G2]. rewrite Hk in G1, G2.
  destruct (m_triples_realises m d HA pall CTriple None true) as [U1 U2].
  destruct (m_triples_realises m d HA pall CTriple None false) as [D1 D2].
  destruct (m_len_realises m d HA) as [L1 L2].
  repeat split.
  - exact (enum_transfer _ _ quad_eqb_spec _ _ _ H1 Q1 Q2).
  - destruct (c_ds c).
    + exact (enum_transfer _ _ N.eqb_spec _ _ _ H2 G1 G2).
    + apply andb_true_iff in H2. destruct H2 as [_ H2]. apply andb_true_iff. split; [now apply (nodupb_spec _ N.eqb_spec)|].
      apply (seteqb_spec _ N.eqb_spec) in H2. apply (seteqb_spec _ N.eqb_spec). intros x.
      rewrite <- (H2 x), !N_sadd_In, G2. tauto.
  - unfold views_ok in *. rewrite !andb_true_iff in *. destruct H3 as [[V1 V2] V3]. rewrite !map_map in *. cbn [fst] in *.
    split; [split; [exact V1|]|].
    + rewrite forallb_forall in *. intros [g l] Hin. apply in_map_iff in Hin. destruct Hin as (g' & [= <- <-] & Hg).
      cbn [fst snd]. destruct (m_view_realises m d HA g' pall) as [W1 W2].
      refine (enum_transfer _ _ triple_eqb_spec _ _ _ _ W1 W2).
      apply (V2 (g', view_triples d g' pall)). apply in_map_iff. eauto.
    + assert (E : map (m_view_len m) (c_names c) = map (view_len d) (c_names c)) by (apply map_ext; exact L2).
      now rewrite E.
  - now rewrite L1.
  - exact (enum_transfer _ _ triple_eqb_spec _ _ _ H5 U1 U2).
  - exact (enum_transfer _ _ triple_eqb_spec _ _ _ H6 D1 D2).
  - now rewrite (m_mem_probe m d (c_names c) (c_vocab c) HA).
Qed.

Lemma res_ok_transfer b sp o r r' :
  res_ok b sp o r = true -> res_eqb r' r = true ->
  match r' with RTriples l => NoDup l | RQuads l => NoDup l | RNames l => NoDup l \/ exists oa, o = OGraph oa | _ => True end ->
  (forall oa, o = OGraph oa -> r' = r) ->
  res_ok b sp o r' = true.
Proof.
  intros Hok He Hn Hg.
  destruct o as [t ca|l|p ca|oa|oa|c|p ca kw du|p ca|p ca du|t]; destruct r, r'; cbn [res_ok res_eqb] in *;
    try discriminate; auto.
  - injection (Hg oa eq_refl) as ->. exact Hok.
  - refine (enum_transfer _ _ triple_eqb_spec _ _ _ Hok Hn _). now apply (seteqb_spec _ triple_eqb_spec).
  - refine (enum_transfer _ _ quad_eqb_spec _ _ _ Hok Hn _). now apply qseteqb_spec.
  - apply Bool.eqb_prop in He. now subst.
  - destruct Hn as [Hn|(oa & [=])]. refine (enum_transfer _ _ N.eqb_spec _ _ _ Hok Hn _). now apply (seteqb_spec _ N.eqb_spec).
Qed.

Lemma m_res_ok c m d sp o :
  AbsM m (st d) -> is_ds d = c_ds c ->
  res_ok (c_ds c) sp o (snd (do_op d o)) = true -> res_ok (c_ds c) sp o (m_res (c_ds c) m (fresh d) o) = true.
Proof.
  intros HA Hk Hok.
  destruct (is_read o) eqn:Er.
  - assert (Em : m_res (c_ds c) m (fresh d) o = m_read (c_ds c) m o) by (destruct o; try discriminate; reflexivity).
    rewrite Em. apply (res_ok_transfer _ _ _ _ _ Hok).
    + rewrite <- Hk. now apply m_read_realises.
    + rewrite <- Hk. destruct o as [t ca|l|p ca|oa|oa|c0|p ca kw du|p ca|p ca du|t]; try discriminate; cbn [m_read]; auto.
      * apply (m_triples_realises m d HA).
      * apply (m_quads_realises m d HA).
      * left. apply (m_contexts_of_realises m d HA).
    + intros oa ->. discriminate.
  - assert (Em : m_res (c_ds c) m (fresh d) o = snd (do_op d o)).
    { destruct o as [t ca|l|p ca|oa|oa|c0|p ca kw du|p ca|p ca du|t]; try discriminate; reflexivity. }
    now rewrite Em.
Qed.

Theorem m_run_spec c : forall ops m d sp,
  AbsM m (st d) -> R d sp -> is_ds d = c_ds c ->
  spec_run_w c sp ops (m_run c m (fresh d) ops) = true.
Proof.
  induction ops as [|o r IH]; intros m d sp HA HR Hk; [reflexivity|].
  cbn [m_run spec_run_w].
  destruct (do_op_spec d sp o HR) as (d1 & rs & E & R1 & Ok1). rewrite Hk in Ok1.
  pose proof (do_op_as_ops d o) as Eo. rewrite E in Eo. cbn [fst] in Eo.
  assert (HA1 : AbsM (fold_left mem_top (wops (fresh d) o) m) (st d1)).
  { rewrite Eo. cbn [mk_ds st]. now apply AbsM_steps. }
  assert (Hk1 : is_ds d1 = c_ds c) by (rewrite Eo; exact Hk).
  assert (Hf1 : fresh d1 = fresh_step (fresh d) o) by (rewrite Eo; reflexivity).
  destruct (snapshot_spec c d1 _ R1 Hk1) as (d2 & sn & E2 & R2 & K2 & Ok2).
  assert (Hs : snap_ok c (sp_step sp o) (m_snapshot c (fold_left mem_top (wops (fresh d) o) m)) = true).
  { apply (m_snapshot_ok c _ d1); auto. rewrite E2. exact Ok2. }
  rewrite Hs. rewrite <- Hf1.
  rewrite (IH _ d1 (sp_step sp o) HA1 R1 Hk1), !andb_true_r.
  destruct (waived sp o) eqn:Ew; auto. cbn [orb].
  apply (m_res_ok c m d sp o HA Hk). replace (snd (do_op d o)) with rs by (now rewrite E). auto.
Qed.

Theorem m_spec_ok_w c : spec_ok_w c (m_model_obs c) = true.
Proof.
  unfold spec_ok_w, m_model_obs.
  exact (m_run_spec c (c_ops c) mem_empty (ds_init (c_ds c)) sp_init AbsM_empty (R_init _) eq_refl).
Qed.
