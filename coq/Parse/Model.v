(* C12 - model of what a parse call does to the quad store behind a Graph /
   Dataset, as far as blank-node labels are concerned.

   A document is an abstract list of statements whose subject / object /
   graph name is a constant or a blank-node LABEL.  A parse call

     (a) for the N-Quads and HexTuples parsers first forgets the graph
         <urn:x-rdflib:default> of the sink's store when it holds NO triple
         (nquads.py NQuadsParser.parse, hext.py HextuplesParser.parse:
         [if len(ds_default) == 0: ds.remove_graph(ds_default)], as repaired by
         the "fix:" commit 57c67bab) - no quad is touched, so this step does
         not appear in the quad-level model; the behaviour before the repair
         (unconditional remove_graph) is kept as [parse_call_prefix],
     (b) adds the statements one by one ([Graph.add]), each label going
         through the parser's label environment:
           Fresh     a dict label -> BNode created empty for the call, a miss
                     allocates [BNode()] (uuid4) / [BNode("n<uuid>b<k>")]
                     (ntriples.py nodeid + W3CNTriplesParser._bnode_ids made in
                     NTParser.parse / per NQuadsParser instance, notation3.py
                     SinkParser.anonymousNode + _anonymousNodes for Turtle and
                     TriG - one dict for all graph blocks -, rdfxml.py
                     RDFXMLHandler.bnode made by reset(), trix.py
                     TriXHandler.get_bnode + TriXHandler.bnode made by reset() - as
                     repaired by the "fix:" commit 3d9dc36a, before it the first
                     sight of a label stored BNode(label));
           Identity  [BNode(label)]: the document's label IS the node id
                     (hext.py _parse_hextuple, jsonld.py Parser._to_rdf_id; the
                     repository's own tests pin this for both parsers).
   The document's default graph goes to the target graph of the call.

   The uuid4 supply is the function [fresh : call index -> label -> node id];
   that it never repeats and never returns an id in use is a hypothesis of
   the theorems (Proofs.v), the executable instance is [std_fresh].

   Numbering shared with harness/c12.py:
     < 100        constants (IRIs, literals), 10 = the tag predicate
     100 + l      BNode(<label l>)
     1000 + 2k    blank nodes made by the supply (k = 16*call + label for std_fresh)
     1001 + 2k    tag IRIs <urn:tag:call:label>, k = 16*call + label
   graph ids: 0 = <urn:x-rdflib:default>, other constants < 100, or a blank node.
   No proofs in this file. *)
From RV Require Export Base.Quads.
Local Open Scope N_scope.

Definition TAGP : N := 10.
Definition LB : N := 16.                                  (* labels are < LB *)
Definition tag (j l : N) : N := 1001 + 2 * (LB * j + l).
Definition std_fresh (j l : N) : N := 1000 + 2 * (LB * j + l).
Definition lab_node (l : N) : N := 100 + l.               (* BNode(label l) *)
Definition DS_DEFAULT : cid := 0.

Inductive dterm := DC (n : N) | DL (l : N).
Inductive dgraph := GD | GC (c : cid) | GL (l : N).
Definition stmt := (dterm * N * dterm * dgraph)%type.

Inductive fmt := NT | NQ | TTL | TRIG | XML | TRIX | JLD | HEXT | N3.
Inductive disc := Fresh | Identity.

(* read off the parsers (see the header); the correspondence check re-establishes it on every run *)
Definition disc_of (f : fmt) : disc :=
  match f with JLD | HEXT => Identity | _ => Fresh end.
(* the parsers that, before commit 57c67bab, emptied <urn:x-rdflib:default> (historical) *)
Definition wipes (f : fmt) : bool :=
  match f with NQ | HEXT => true | _ => false end.

(* One parse call.
   [d_obj = Some k]: the call is made on the long-lived parser object number k (direct use of
     W3CNTriplesParser / NQuadsParser: its [_bnode_ids] dict lives as long as the object);
     [None]: Graph.parse / Dataset.parse, which build a new parser object for the call.
   [d_ctx = Some k]: the caller passes its dict number k as [bnode_context=] (N-Triples and
     N-Quads offer this; the dict then replaces the parser's own for the call).
   [d_keep]: the caller passes [preserve_bnode_ids=True] (RDF/XML and TriX offer this).
   [d_raised]: the document is malformed after the statements listed in [d_stmts]: the call
     raises; the parsers stream into the graph, so those statements have been added. *)
Record doc := { d_fmt : fmt; d_target : cid; d_stmts : list stmt;
                d_obj : option N; d_ctx : option N; d_keep : bool; d_raised : bool }.
Definition mkdoc (f : fmt) (t : cid) (s : list stmt) : doc :=
  {| d_fmt := f; d_target := t; d_stmts := s; d_obj := None; d_ctx := None; d_keep := false; d_raised := false |}.
Record case := { c_init : qset; c_docs : list doc }.

(* which long-lived label dict the call works on (ntriples.py nodeid: "if bnode_context is None:
   bnode_context = self._bnode_ids"); None = a dict that dies with the call *)
Definition env_key (d : doc) : option N :=
  match d_ctx d with
  | Some c => Some (2 * c)
  | None => match d_obj d with Some o => Some (2 * o + 1) | None => None end
  end.

(* the discipline of the call: preserve_bnode_ids=True asks for BNode(label) *)
Definition call_disc (d : doc) : disc := if d_keep d then Identity else disc_of (d_fmt d).

(* ---- the label environment: a Python dict label -> node, insertion ordered *)
Definition env := list (N * N).
Fixpoint env_get (e : env) (l : N) : option N :=
  match e with
  | [] => None
  | (k, v) :: r => if N.eqb k l then Some v else env_get r l
  end.

Definition bnode_for (fresh : N -> N) (d : disc) (e : env) (l : N) : env * N :=
  match d with
  | Identity => (e, lab_node l)
  | Fresh => match env_get e l with
             | Some n => (e, n)
             | None => let n := fresh l in (e ++ [(l, n)], n)
             end
  end.

Definition res_term (fresh : N -> N) (d : disc) (e : env) (t : dterm) : env * N :=
  match t with DC n => (e, n) | DL l => bnode_for fresh d e l end.

Definition res_graph (fresh : N -> N) (d : disc) (tgt : cid) (e : env) (g : dgraph) : env * cid :=
  match g with GD => (e, tgt) | GC c => (e, c) | GL l => bnode_for fresh d e l end.

Definition res_stmt (fresh : N -> N) (d : disc) (tgt : cid) (e : env) (s : stmt) : env * quad :=
  let '(s0, p, o, g) := s in
  let '(e1, s') := res_term fresh d e s0 in
  let '(e2, o') := res_term fresh d e1 o in
  let '(e3, g') := res_graph fresh d tgt e2 g in
  (e3, ((s', p, o'), g')).

Fixpoint add_stmts (fresh : N -> N) (d : disc) (tgt : cid) (e : env) (st : qset) (l : list stmt) : env * qset :=
  match l with
  | [] => (e, st)
  | s :: r => let '(e', q) := res_stmt fresh d tgt e s in
              add_stmts fresh d tgt e' (q_add q st) r
  end.

Definition wipe_default (st : qset) : qset := q_remove (None, None, None) (Some DS_DEFAULT) st.

(* one call, started with the label dict [e0]; returns the dict as the call leaves it *)
Definition parse_call (fresh : N -> N) (e0 : env) (st : qset) (dc : doc) : env * qset :=
  add_stmts fresh (call_disc dc) (d_target dc) e0 st (d_stmts dc).

(* the code as it was before the "fix:" commit for finding F12, kept so that the refutation
   of "parsing only adds" on the historical code stays checkable *)
Definition parse_call_prefix (fresh : N -> N) (e0 : env) (st : qset) (dc : doc) : env * qset :=
  let st0 := if wipes (d_fmt dc) then wipe_default st else st in
  add_stmts fresh (call_disc dc) (d_target dc) e0 st0 (d_stmts dc).

(* the long-lived dicts (parser objects' _bnode_ids, callers' bnode_context dicts) *)
Definition envs := list (N * env).
Fixpoint envs_get (es : envs) (k : N) : env :=
  match es with
  | [] => []
  | (k', e) :: r => if N.eqb k' k then e else envs_get r k
  end.
Definition envs_set (es : envs) (k : N) (e : env) : envs := (k, e) :: es.

Definition start_env (es : envs) (d : doc) : env :=
  match env_key d with Some k => envs_get es k | None => [] end.
Definition keep_env (es : envs) (d : doc) (e : env) : envs :=
  match env_key d with Some k => envs_set es k e | None => es end.

Definition call_step (fresh : N -> N) (es : envs) (st : qset) (d : doc) : envs * qset :=
  let '(e1, st1) := parse_call fresh (start_env es d) st d in (keep_env es d e1, st1).

(* after every parse call: did it raise, and the store content; [j] = index of the call *)
Definition obs_t := list (bool * qset).
Fixpoint run (fresh : N -> N -> N) (j : N) (es : envs) (st : qset) (ds : list doc) : obs_t :=
  match ds with
  | [] => []
  | d :: r => let '(es', st') := call_step (fresh j) es st d in
              (d_raised d, st') :: run fresh (N.succ j) es' st' r
  end.

(* ------------------------------------------------------------------ *)
(* Specification: a checker over OBSERVED store contents.  It knows nothing
   about disciplines, wiping or the supply: it recovers, from the tag triples
   [_:l <tag> <urn:tag:j:l>] every document of the suite carries, which node each
   label of call j became, and demands that the new content is the RDF merge
   of the previous content and the document under that label map. *)

Definition q_s (q : quad) : N := fst (fst (fst q)).
Definition q_p (q : quad) : N := snd (fst (fst q)).
Definition q_o (q : quad) : N := snd (fst q).
Definition q_g (q : quad) : N := snd q.

Definition occurs (n : N) (q : quad) : bool :=
  N.eqb n (q_s q) || N.eqb n (q_p q) || N.eqb n (q_o q) || N.eqb n (q_g q).
Definition occurs_in (n : N) (st : qset) : bool := existsb (occurs n) st.

Definition is_bnode (n : N) : bool :=
  ((100 <=? n) && (n <? 200) || (1000 <=? n) && N.even n)%N.

Definition dterm_labels (t : dterm) : list N := match t with DL l => [l] | DC _ => [] end.
Definition dgraph_labels (g : dgraph) : list N := match g with GL l => [l] | _ => [] end.
Definition stmt_labels (s : stmt) : list N :=
  let '(s0, _, o, g) := s in dterm_labels s0 ++ dterm_labels o ++ dgraph_labels g.
Definition labels_of (l : list stmt) : list N := dedup N.eqb (flat_map stmt_labels l).

Definition sub_term (f : N -> N) (t : dterm) : N := match t with DC n => n | DL l => f l end.
Definition sub_graph (f : N -> N) (tgt : cid) (g : dgraph) : cid :=
  match g with GD => tgt | GC c => c | GL l => f l end.
Definition sub_stmt (f : N -> N) (tgt : cid) (s : stmt) : quad :=
  let '(s0, p, o, g) := s in ((sub_term f s0, p, sub_term f o), sub_graph f tgt g).

(* the nodes that carry the tag of label l of call j *)
Definition tag_nodes (now : qset) (j l : N) : list N :=
  dedup N.eqb (map q_s (filter (fun q => N.eqb (q_p q) TAGP && N.eqb (q_o q) (tag j l)) now)).

Fixpoint recover (now : qset) (j : N) (ls : list N) : option env :=
  match ls with
  | [] => Some []
  | l :: r => match tag_nodes now j l, recover now j r with
              | [n], Some m => Some ((l, n) :: m)
              | _, _ => None
              end
  end.

Definition apply_map (m : env) (l : N) : N := match env_get m l with Some n => n | None => 0 end.

(* [known]: the labels whose node is already fixed when the call starts - the entries of a
   long-lived dict the caller shares between calls (documented: "to define a context in which
   blank node identifiers refer to the same blank node across instances ... pass the same dict"),
   or label |-> BNode(label) for every label when the caller asked for preserve_bnode_ids.
   A known label must denote the known node; every other label a blank node that occurs
   nowhere in the previous content. *)
Definition label_ok (known : env) (prev : qset) (ln : N * N) : bool :=
  match env_get known (fst ln) with
  | Some n' => N.eqb (snd ln) n'
  | None => is_bnode (snd ln) && negb (occurs_in (snd ln) prev)
  end.

Definition merge_ok (known : env) (prev now : qset) (j : N) (d : doc) : bool :=
  subsetb quad_eqb prev now &&
  match recover now j (labels_of (d_stmts d)) with
  | None => false
  | Some m =>
      nodupb N.eqb (map snd m)
      && forallb (label_ok known prev) m
      && qseteqb now (prev ++ map (sub_stmt (apply_map m) (d_target d)) (d_stmts d))
  end.

Definition keep_map (stmts : list stmt) : env := map (fun l => (l, lab_node l)) (labels_of stmts).

Definition known_of (es : envs) (d : doc) : env :=
  if d_keep d then keep_map (d_stmts d) else start_env es d.

(* what the checker remembers of a shared dict: what it knew plus what it saw the call decide *)
Definition learn (es : envs) (d : doc) (now : qset) (j : N) : envs :=
  match env_key d, recover now j (labels_of (d_stmts d)) with
  | Some k, Some m => envs_set es k (envs_get es k ++ m)
  | _, _ => es
  end.

Fixpoint spec_run (es : envs) (prev : qset) (j : N) (ds : list doc) (obs : obs_t) : bool :=
  match ds, obs with
  | [], [] => true
  | d :: r, (raised, now) :: obs' =>
      Bool.eqb raised (d_raised d) && merge_ok (known_of es d) prev now j d
      && spec_run (learn es d now j) now (N.succ j) r obs'
  | _, _ => false
  end.

(* ------------------------------------------------------------------ *)
(* Well-formed cases (what the generator produces) *)

Definition const_ok (n : N) : bool := (n <? 100) || (1000 <=? n) && N.odd n.
Definition dterm_ok (t : dterm) : bool := match t with DC n => const_ok n | DL l => l <? LB end.
Definition dgraph_ok (g : dgraph) : bool := match g with GD => true | GC c => c <? 100 | GL l => l <? LB end.

(* the tag predicate is reserved for [label <tag> tag(j,label)] *)
Definition stmt_ok (j : N) (s : stmt) : bool :=
  let '(s0, p, o, g) := s in
  dterm_ok s0 && dterm_ok o && dgraph_ok g && (p <? 100) &&
  (if N.eqb p TAGP
   then match s0, o with DL l, DC n => N.eqb n (tag j l) | _, _ => false end
   else true).

Definition is_tag_stmt (j l : N) (s : stmt) : bool :=
  let '(s0, p, o, _) := s in
  match s0, o with
  | DL l', DC n => N.eqb l' l && N.eqb p TAGP && N.eqb n (tag j l)
  | _, _ => false
  end.

(* the options exist where the API offers them: bnode_context / long-lived parser objects for
   N-Triples and N-Quads, preserve_bnode_ids for RDF/XML and TriX *)
Definition opts_ok (d : doc) : bool :=
  match env_key d with
  | Some _ => match d_fmt d with NT | NQ => negb (d_keep d) | _ => false end
  | None => if d_keep d then match d_fmt d with XML | TRIX => true | _ => false end else true
  end.

Definition doc_ok (j : N) (d : doc) : bool :=
  (d_target d <? 1000) &&
  forallb (stmt_ok j) (d_stmts d) &&
  forallb (fun l => existsb (is_tag_stmt j l) (d_stmts d)) (labels_of (d_stmts d)) &&
  opts_ok d.

Fixpoint docs_ok (j : N) (ds : list doc) : bool :=
  match ds with [] => true | d :: r => doc_ok j d && docs_ok (N.succ j) r end.

Definition quad_small (q : quad) : bool :=
  (q_s q <? 1000) && (q_p q <? 1000) && (q_o q <? 1000) && (q_g q <? 1000) && negb (N.eqb (q_p q) TAGP).

Definition wfb (c : case) : bool := forallb quad_small (c_init c) && docs_ok 0 (c_docs c).
Definition wf (c : case) : Prop := wfb c = true.

(* ------------------------------------------------------------------ *)
(* Known findings: trigger predicate, evaluated along the model's run.
     1 (F9)   a JSON-LD / HexTuples call (TriX: FIXED by 3d9dc36a) one of whose labels is the id of a
              blank node already in the store
   (trigger 2, F12 - N-Quads / HexTuples emptied <urn:x-rdflib:default> - is FIXED) *)
Definition kf_step (st : qset) (d : doc) : N :=
  match disc_of (d_fmt d) with
  | Identity =>
      if existsb (fun l => occurs_in (lab_node l) st) (labels_of (d_stmts d)) then 1 else 0
  | Fresh => 0
  end.

Fixpoint kf_run (fresh : N -> N -> N) (j : N) (es : envs) (st : qset) (ds : list doc) : N :=
  match ds with
  | [] => 0
  | d :: r => match kf_step st d with
              | 0%N => let '(es', st') := call_step (fresh j) es st d in kf_run fresh (N.succ j) es' st' r
              | n => n
              end
  end.

(* ------------------------------------------------------------------ *)
(* Entry points used by the correspondence check *)
Definition obs_eqb (a b : obs_t) : bool := list_eqb (pair_eqb Bool.eqb qseteqb) a b.
Definition model_obs (c : case) : obs_t := run std_fresh 0 [] (c_init c) (c_docs c).
Definition spec_ok (c : case) (obs : obs_t) : bool := spec_run [] (c_init c) 0 (c_docs c) obs.
Definition kf (c : case) : N := kf_run std_fresh 0 [] (c_init c) (c_docs c).

(* the call that raises after the first k statements of the document have been read *)
Definition cut (k : nat) (d : doc) : doc :=
  {| d_fmt := d_fmt d; d_target := d_target d; d_stmts := firstn k (d_stmts d);
     d_obj := d_obj d; d_ctx := d_ctx d; d_keep := d_keep d; d_raised := true |}.
(* the same document sent to another graph of the dataset *)
Definition retarget (t : cid) (d : doc) : doc :=
  {| d_fmt := d_fmt d; d_target := t; d_stmts := d_stmts d;
     d_obj := d_obj d; d_ctx := d_ctx d; d_keep := d_keep d; d_raised := d_raised d |}.

Definition final (o : obs_t) : qset := snd (last o (false, [])).

(* ---- second entry point: the same document parsed into two empty stores ---- *)
Definition rename_quad (h : N -> N) (q : quad) : quad :=
  ((h (q_s q), q_p q, h (q_o q)), h (q_g q)).

(* ------------------------------------------------------------------ *)
(* Prop-level reading of the checker: the property itself *)

(* [now] is the RDF merge of [prev] and the document: its labels are mapped, one node per
   label for the whole document (all its graphs), injectively; a label the caller fixed
   ([known]: shared bnode_context / preserve_bnode_ids) denotes the node it was fixed to, every
   other label a blank node that occurs nowhere in [prev]; everything else is kept and nothing
   else is added *)
Definition rdf_merge (known : env) (prev : qset) (tgt : cid) (stmts : list stmt) (now : qset) : Prop :=
  exists f : N -> N,
    (forall l l', In l (labels_of stmts) -> In l' (labels_of stmts) -> f l = f l' -> l = l') /\
    (forall l, In l (labels_of stmts) ->
       match env_get known l with
       | Some n => f l = n
       | None => is_bnode (f l) = true /\ forall q, In q prev -> occurs (f l) q = false
       end) /\
    (forall q, In q now <-> In q prev \/ In q (map (sub_stmt f tgt) stmts)).

Fixpoint merges (es : envs) (prev : qset) (j : N) (ds : list doc) (obs : obs_t) : Prop :=
  match ds, obs with
  | [], [] => True
  | d :: r, (raised, now) :: obs' =>
      raised = d_raised d /\ incl prev now /\
      rdf_merge (known_of es d) prev (d_target d) (d_stmts d) now /\
      merges (learn es d now j) now (N.succ j) r obs'
  | _, _ => False
  end.

(* a call that shares nothing with its caller *)
Definition private (d : doc) : bool :=
  match env_key d with Some _ => false | None => negb (d_keep d) end.

(* for private calls: carrying the list [used] of all nodes earlier calls made for their labels,
   no call ever re-uses one of them *)
Fixpoint scoped (used : list N) (prev : qset) (ds : list doc) (obs : obs_t) : Prop :=
  match ds, obs with
  | [], [] => True
  | d :: r, (_, now) :: obs' =>
      exists f : N -> N,
        (forall l l', In l (labels_of (d_stmts d)) -> In l' (labels_of (d_stmts d)) -> f l = f l' -> l = l') /\
        (forall l, In l (labels_of (d_stmts d)) ->
           ~ In (f l) used /\ forall q, In q prev -> occurs (f l) q = false) /\
        (forall q, In q now <-> In q prev \/ In q (map (sub_stmt f (d_target d)) (d_stmts d))) /\
        scoped (used ++ map f (labels_of (d_stmts d))) now r obs'
  | _, _ => False
  end.

(* graph isomorphism: a renaming of blank nodes, injective on the nodes of [a], that maps
   the quad set [a] onto [b] *)
Definition nodes_of (a : qset) (n : N) : Prop := exists q, In q a /\ occurs n q = true.
Definition iso_by (h : N -> N) (a b : qset) : Prop :=
  (forall n n', nodes_of a n -> nodes_of a n' -> h n = h n' -> n = n') /\
  (forall n, nodes_of a n -> is_bnode n = false -> h n = n) /\
  (forall q, In q b <-> In q (map (rename_quad h) a)).

(* ------------------------------------------------------------------ *)
(* The property statements without the conventions of the correspondence suite: no bound on the
   number of labels of a document, no tag triples.  Only what is real well-formedness is asked:
   constants are constants (numbers below 1000 that are not node ids, or odd numbers), and a label
   KEPT by the parser (HexTuples, JSON-LD, preserve_bnode_ids) is numbered below 100 so that
   [lab_node] stays in the range 100..199 this development reserves for BNode(label). *)
Definition stable_b (n : N) : bool := (n <? 1000) || N.odd n.
Definition is_identity (d : doc) : bool := match call_disc d with Identity => true | Fresh => false end.
Definition dterm_wf (kept : bool) (t : dterm) : bool :=
  match t with DC n => const_ok n | DL l => if kept then l <? 100 else true end.
Definition dgraph_wf (kept : bool) (g : dgraph) : bool :=
  match g with GD => true | GC c => const_ok c | GL l => if kept then l <? 100 else true end.
Definition stmt_wf (kept : bool) (s : stmt) : bool :=
  let '(s0, p, o, g) := s in dterm_wf kept s0 && const_ok p && dterm_wf kept o && dgraph_wf kept g.
Definition doc_wf (d : doc) : bool :=
  stable_b (d_target d) && forallb (stmt_wf (is_identity d)) (d_stmts d) && opts_ok d.
Definition init_wf (init : qset) : bool :=
  forallb (fun q => stable_b (q_s q) && stable_b (q_p q) && stable_b (q_o q) && stable_b (q_g q)) init.

(* call by call: only adds, and RDF merge under the dict the call started with *)
Fixpoint merges_run (fresh : N -> N -> N) (j : N) (es : envs) (prev : qset) (ds : list doc) : Prop :=
  match ds with
  | [] => True
  | d :: r =>
      let es' := fst (call_step (fresh j) es prev d) in
      let now := snd (call_step (fresh j) es prev d) in
      incl prev now /\ rdf_merge (known_of es d) prev (d_target d) (d_stmts d) now /\
      merges_run fresh (N.succ j) es' now r
  end.

(* private calls: no call re-uses a node an earlier call made ([used]) *)
Fixpoint scoped_run (fresh : N -> N -> N) (j : N) (used : list N) (prev : qset) (ds : list doc) : Prop :=
  match ds with
  | [] => True
  | d :: r =>
      let now := snd (call_step (fresh j) [] prev d) in
      exists f : N -> N,
        (forall l l', In l (labels_of (d_stmts d)) -> In l' (labels_of (d_stmts d)) -> f l = f l' -> l = l') /\
        (forall l, In l (labels_of (d_stmts d)) ->
           ~ In (f l) used /\ forall q, In q prev -> occurs (f l) q = false) /\
        (forall q, In q now <-> In q prev \/ In q (map (sub_stmt f (d_target d)) (d_stmts d))) /\
        scoped_run fresh (N.succ j) (used ++ map f (labels_of (d_stmts d))) now r
  end.

(* ------------------------------------------------------------------ *)
(* Two runs of the model with two different supplies, related by one correspondence of nodes:
   a constant or kept label corresponds to itself, the node supply 1 made for (call j, label l)
   to the node supply 2 made for (call j, label l). *)
Definition node_rel (f1 f2 : N -> N -> N) (n n' : N) : Prop :=
  (stable_b n = true /\ n' = n) \/ exists j l, n = f1 j l /\ n' = f2 j l.
Definition quad_rel (R : N -> N -> Prop) (q q' : quad) : Prop :=
  R (q_s q) (q_s q') /\ q_p q = q_p q' /\ R (q_o q) (q_o q') /\ R (q_g q) (q_g q').
Definition store_rel (R : N -> N -> Prop) : qset -> qset -> Prop := Forall2 (quad_rel R).
Definition env_rel (R : N -> N -> Prop) : env -> env -> Prop :=
  Forall2 (fun a b => fst a = fst b /\ R (snd a) (snd b)).
Definition envs_rel (R : N -> N -> Prop) : envs -> envs -> Prop :=
  Forall2 (fun a b => fst a = fst b /\ env_rel R (snd a) (snd b)).
Definition obs_rel (R : N -> N -> Prop) : obs_t -> obs_t -> Prop :=
  Forall2 (fun a b => fst a = fst b /\ store_rel R (snd a) (snd b)).

(* the same correspondence restricted to the (call, label) pairs [U] on which the supplies are known
   to be injective (for [std_fresh]: labels below LB) *)
Definition node_rel_on (U : N -> N -> Prop) (f1 f2 : N -> N -> N) (n n' : N) : Prop :=
  (stable_b n = true /\ n' = n) \/ exists j l, U j l /\ n = f1 j l /\ n' = f2 j l.
(* every label of the j-th, (j+1)-th, ... document is in U *)
Fixpoint covers (U : N -> N -> Prop) (j : N) (ds : list doc) : Prop :=
  match ds with
  | [] => True
  | d :: r => (forall l, In l (labels_of (d_stmts d)) -> U j l) /\ covers U (N.succ j) r
  end.
