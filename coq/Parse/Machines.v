(* C12 - the parsers' label -> node tables as state machines with an explicit supply.

   Parse/Model.v abstracts the supply of new blank-node ids as a function of (call, label).
   Here the supply is what the code has: a process-wide sequence of uuid4 draws
   ([m_next] = how many have been drawn), and for the N3 family a per-parse counter.

     AUuid  N-Triples / N-Quads ([W3CNTriplesParser.nodeid]: dict miss -> [bNode()]),
            RDF/XML ([RDFXMLHandler]: [self.bnode] miss -> [BNode()]),
            TriX ([TriXHandler.get_bnode] miss -> [BNode()], commit 3d9dc36a):
            every miss draws one uuid4; the node is "N<uuid>"  = [nid k 0]
     ASink  Turtle / TriG ([RDFSink.__init__]: [self.uuid = uuid4().hex], [self.counter = 0];
            [SinkParser.anonymousNode]: [_anonymousNodes] miss -> [RDFSink.newBlankNode]:
            [counter += 1; BNode("n%sb%s" % (uuid, counter))]; the nodes of [ ... ] come from the
            same counter): one uuid4 per parse call, the node is "n<uuid>b<c>" = [nid sid c], c >= 1
            Notation3 (format="n3") is the same SinkParser with a root Formula: a _:label gets
            "f<uuid of the root formula>b<counter>" ([Formula.newBlankNode], one uuid4 per parse
            call) and a [ ... ] or path node "ub<k>bL<line>C<column>" ([uniqueURI()]: k counts
            the parser objects of the process): again one process-wide draw per call and a
            second component that differs from node to node within the call - it is run as ASink.
     AKeep  HexTuples, JSON-LD, and RDF/XML / TriX under preserve_bnode_ids=True: [BNode(label)],
            no table, no draw.
   [nid : N -> N -> N] is the id as a number; that different (uuid, counter) pairs give
   different ids is a hypothesis of the theorems (Parse/MachineProofs.v).
   The table of a call is the long-lived dict the call works on (Model.start_env) or an empty
   one; what the call leaves in it is kept for the dict's later users (Model.keep_env).
   No proofs in this file. *)
From RV Require Export Parse.Model.
Local Open Scope N_scope.

Inductive alloc := AUuid | ASink | AKeep.

Definition alloc_of (d : doc) : alloc :=
  if d_keep d then AKeep
  else match d_fmt d with
       | NT | NQ | XML | TRIX => AUuid
       | TTL | TRIG | N3 => ASink
       | JLD | HEXT => AKeep
       end.

(* the parser's state during one call *)
Record mst := { m_env : env; m_next : N; m_sid : N; m_cnt : N }.

Section Ids.
  Variable nid : N -> N -> N.

  Definition m_label (a : alloc) (m : mst) (l : N) : mst * N :=
    match a with
    | AKeep => (m, lab_node l)
    | AUuid =>
        match env_get (m_env m) l with
        | Some n => (m, n)
        | None => let n := nid (m_next m) 0 in
                  ({| m_env := m_env m ++ [(l, n)]; m_next := N.succ (m_next m);
                      m_sid := m_sid m; m_cnt := m_cnt m |}, n)
        end
    | ASink =>
        match env_get (m_env m) l with
        | Some n => (m, n)
        | None => let c := N.succ (m_cnt m) in let n := nid (m_sid m) c in
                  ({| m_env := m_env m ++ [(l, n)]; m_next := m_next m;
                      m_sid := m_sid m; m_cnt := c |}, n)
        end
    end.

  Definition m_term (a : alloc) (m : mst) (t : dterm) : mst * N :=
    match t with DC n => (m, n) | DL l => m_label a m l end.

  Definition m_graph (a : alloc) (tgt : cid) (m : mst) (g : dgraph) : mst * cid :=
    match g with GD => (m, tgt) | GC c => (m, c) | GL l => m_label a m l end.

  Definition m_stmt (a : alloc) (tgt : cid) (m : mst) (s : stmt) : mst * quad :=
    let '(s0, p, o, g) := s in
    let '(m1, s') := m_term a m s0 in
    let '(m2, o') := m_term a m1 o in
    let '(m3, g') := m_graph a tgt m2 g in
    (m3, ((s', p, o'), g')).

  Fixpoint m_stmts (a : alloc) (tgt : cid) (m : mst) (st : qset) (l : list stmt) : mst * qset :=
    match l with
    | [] => (m, st)
    | s :: r => let '(m', q) := m_stmt a tgt m s in m_stmts a tgt m' (q_add q st) r
    end.

  (* the parser object's state when the call starts: the N3 sink draws its uuid now *)
  Definition m_open (a : alloc) (e0 : env) (next : N) : mst :=
    match a with
    | ASink => {| m_env := e0; m_next := N.succ next; m_sid := next; m_cnt := 0 |}
    | _ => {| m_env := e0; m_next := next; m_sid := next; m_cnt := 0 |}
    end.

  (* the process: store content, uuid4 draws so far, long-lived dicts *)
  Record gst := { g_store : qset; g_next : N; g_envs : envs }.

  Definition m_call (g : gst) (d : doc) : gst :=
    let a := alloc_of d in
    let m0 := m_open a (start_env (g_envs g) d) (g_next g) in
    let '(m1, st1) := m_stmts a (d_target d) m0 (g_store g) (d_stmts d) in
    {| g_store := st1; g_next := m_next m1; g_envs := keep_env (g_envs g) d (m_env m1) |}.

  Fixpoint m_run (g : gst) (ds : list doc) : list gst :=
    match ds with
    | [] => []
    | d :: r => let g' := m_call g d in g' :: m_run g' r
    end.

  (* the node a label got in a call, read off the table the call leaves behind *)
  Definition m_node (a : alloc) (m : mst) (l : N) : N :=
    match a with
    | AKeep => lab_node l
    | _ => match env_get (m_env m) l with Some n => n | None => 0 end
    end.

  (* ids drawn before the B-th uuid4 *)
  Definition drawn_before (B n : N) : Prop := exists s c, s < B /\ n = nid s c.
End Ids.

(* ------------------------------------------------------------------ *)
(* Entry point of the correspondence suite "machines": the run of the state machines with the
   concrete id function [std_nid], every made node renamed to (smallest tag it carries) - 1,
   which is how harness/c12.py numbers the nodes rdflib made (tag j l = std_fresh j l + 1). *)
Definition std_nid (s c : N) : N := 1000 + 2 * (2 ^ c * (2 * s + 1)).

Definition tags_of (st : qset) (n : N) : list N :=
  map q_o (filter (fun q => N.eqb (q_s q) n && N.eqb (q_p q) TAGP) st).
Definition min_list (l : list N) : option N :=
  match l with [] => None | x :: r => Some (fold_left N.min r x) end.
Definition canon_node (st : qset) (n : N) : N :=
  if (1000 <=? n) && N.even n
  then match min_list (tags_of st n) with Some t => t - 1 | None => 900 end
  else n.
Definition canon (st : qset) : qset := dedup quad_eqb (map (rename_quad (canon_node st)) st).

Fixpoint machine_obs_from (g : gst) (ds : list doc) : obs_t :=
  match ds with
  | [] => []
  | d :: r => let g' := m_call std_nid g d in (d_raised d, canon (g_store g')) :: machine_obs_from g' r
  end.
Definition machine_obs (c : case) : obs_t :=
  machine_obs_from {| g_store := c_init c; g_next := 0; g_envs := [] |} (c_docs c).

(* ------------------------------------------------------------------ *)
(* Refinement statement (proved in Parse/MachineRefine.v): the abstract model of Parse/Model.v,
   run with the supply that the machine's draws define, is the machine. *)
Section Refine.
  Variable nid : N -> N -> N.

  (* the state of the parser's table when the call ends *)
  Definition m_final (g : gst) (d : doc) : mst :=
    fst (m_stmts nid (alloc_of d) (d_target d)
           (m_open (alloc_of d) (start_env (g_envs g) d) (g_next g)) (g_store g) (d_stmts d)).

  (* the abstract supply of the call, as a function of the machine state: the node the table holds
     for the label - [nid k 0] with k the number of the uuid4 draw (AUuid), [nid sid c] with sid the
     sink's draw and c the per-call counter (ASink); labels the call never sees do not matter *)
  Definition m_supply (m : mst) (l : N) : N :=
    match env_get (m_env m) l with Some n => n | None => 0 end.

  (* call after call, the abstract step with that supply yields the machine's dicts and store *)
  Fixpoint refines (g : gst) (ds : list doc) : Prop :=
    match ds with
    | [] => True
    | d :: r =>
        let g' := m_call nid g d in
        call_step (m_supply (m_final g d)) (g_envs g) (g_store g) d = (g_envs g', g_store g') /\
        refines g' r
    end.

  (* the abstract run with one supply per call *)
  Fixpoint run_sups (sups : list (N -> N)) (es : envs) (st : qset) (ds : list doc) : obs_t :=
    match sups, ds with
    | fr :: sr, d :: r => let '(es', st') := call_step fr es st d in (d_raised d, st') :: run_sups sr es' st' r
    | _, _ => []
    end.
  Fixpoint m_supplies (g : gst) (ds : list doc) : list (N -> N) :=
    match ds with
    | [] => []
    | d :: r => m_supply (m_final g d) :: m_supplies (m_call nid g d) r
    end.
  Fixpoint m_obs (g : gst) (ds : list doc) : obs_t :=
    match ds with
    | [] => []
    | d :: r => let g' := m_call nid g d in (d_raised d, g_store g') :: m_obs g' r
    end.
End Refine.
