(* C12 - the state machines of Parse/Machines.v refine the abstract model of Parse/Model.v:
   with the supply read off the machine's table, the abstract call IS the machine's call
   (same store list, same dict), for every machine kind and every kind of call. *)
From Coq Require Import Arith PeanoNat.
From RV Require Import Parse.Machines Parse.Proofs Parse.MachineProofs.
Local Open Scope N_scope.

Definition disc_of_alloc (a : alloc) : disc := match a with AKeep => Identity | _ => Fresh end.

Lemma call_disc_alloc d : call_disc d = disc_of_alloc (alloc_of d).
Proof. unfold call_disc, alloc_of. destruct (d_keep d); [reflexivity|]. destruct (d_fmt d); reflexivity. Qed.

Section R.
  Variable nid : N -> N -> N.

  (* [F] is a supply that agrees with the table [m] *)
  Definition agrees (F : N -> N) (m : mst) : Prop := forall l n, env_get (m_env m) l = Some n -> F l = n.

  Lemma agrees_ext F m m' : ext m m' -> agrees F m' -> agrees F m.
  Proof. intros He Ha l n H. apply Ha, He, H. Qed.

  Lemma m_supply_agrees m : agrees (m_supply m) m.
  Proof. intros l n H. unfold m_supply. now rewrite H. Qed.

  (* simulation step, one lemma per machine kind *)
  Lemma sim_label_uuid m l m1 n F :
    m_label nid AUuid m l = (m1, n) -> agrees F m1 -> bnode_for F Fresh (m_env m) l = (m_env m1, n).
  Proof.
    unfold m_label, bnode_for. destruct (env_get (m_env m) l) as [n0|] eqn:E; intros [= <- <-] Ha; auto.
    simpl in *. rewrite (Ha l (nid (m_next m) 0)); auto.
    simpl. rewrite env_get_app, E, N.eqb_refl. reflexivity.
  Qed.

  Lemma sim_label_sink m l m1 n F :
    m_label nid ASink m l = (m1, n) -> agrees F m1 -> bnode_for F Fresh (m_env m) l = (m_env m1, n).
  Proof.
    unfold m_label, bnode_for. destruct (env_get (m_env m) l) as [n0|] eqn:E; intros [= <- <-] Ha; auto.
    simpl in *. rewrite (Ha l (nid (m_sid m) (N.succ (m_cnt m)))); auto.
    simpl. rewrite env_get_app, E, N.eqb_refl. reflexivity.
  Qed.

  Lemma sim_label_keep m l m1 n F :
    m_label nid AKeep m l = (m1, n) -> bnode_for F Identity (m_env m) l = (m_env m1, n).
  Proof. unfold m_label, bnode_for. intros [= <- <-]. reflexivity. Qed.

  Lemma sim_label a m l m1 n F :
    m_label nid a m l = (m1, n) -> agrees F m1 ->
    bnode_for F (disc_of_alloc a) (m_env m) l = (m_env m1, n).
  Proof.
    destruct a; simpl; intros H Ha.
    - now apply sim_label_uuid.
    - now apply sim_label_sink.
    - now apply (sim_label_keep m l m1 n F).
  Qed.

  Lemma sim_term a m t m1 n F :
    m_term nid a m t = (m1, n) -> agrees F m1 -> res_term F (disc_of_alloc a) (m_env m) t = (m_env m1, n).
  Proof.
    destruct t as [c|l]; simpl; [intros [= <- <-]; reflexivity|apply sim_label].
  Qed.

  Lemma sim_graph a tgt m g m1 n F :
    m_graph nid a tgt m g = (m1, n) -> agrees F m1 ->
    res_graph F (disc_of_alloc a) tgt (m_env m) g = (m_env m1, n).
  Proof.
    destruct g as [|c|l]; simpl; try (intros [= <- <-]; reflexivity). apply sim_label.
  Qed.

  Lemma sim_stmt a tgt m s m1 q F :
    m_stmt nid a tgt m s = (m1, q) -> agrees F m1 ->
    res_stmt F (disc_of_alloc a) tgt (m_env m) s = (m_env m1, q).
  Proof.
    destruct s as [[[s0 p] o] g]. unfold m_stmt, res_stmt.
    destruct (m_term nid a m s0) as [ma s'] eqn:E1.
    destruct (m_term nid a ma o) as [mb o'] eqn:E2.
    destruct (m_graph nid a tgt mb g) as [mc g'] eqn:E3.
    intros [= <- <-] Ha.
    pose proof (proj1 (m_term_ext nid a ma o mb o' E2)) as X2.
    pose proof (proj1 (m_graph_ext nid a tgt mb g mc g' E3)) as X3.
    rewrite (sim_term a m s0 ma s' F E1) by (eapply agrees_ext; [eapply ext_trans; eauto|auto]).
    rewrite (sim_term a ma o mb o' F E2) by (eapply agrees_ext; eauto).
    rewrite (sim_graph a tgt mb g mc g' F E3) by auto.
    reflexivity.
  Qed.

  Lemma sim_stmts a tgt l : forall m st m' st' F,
    m_stmts nid a tgt m st l = (m', st') -> agrees F m' ->
    add_stmts F (disc_of_alloc a) tgt (m_env m) st l = (m_env m', st').
  Proof.
    induction l as [|s r IH]; intros m st m' st' F; simpl.
    - intros [= <- <-] _. reflexivity.
    - destruct (m_stmt nid a tgt m s) as [m1 q1] eqn:E. intros H Ha.
      pose proof (proj1 (m_stmts_In nid a tgt r m1 (q_add q1 st) m' st' H)) as X.
      rewrite (sim_stmt a tgt m s m1 q1 F E) by (eapply agrees_ext; eauto).
      apply IH; auto.
  Qed.

  Lemma m_open_env a e0 B : m_env (m_open a e0 B) = e0.
  Proof. destruct a; reflexivity. Qed.

  (* one call - whatever dict it works on (none, the caller's, a long-lived object's), whether the
     document is complete or cut off by an error *)
  Theorem refine_call g d :
    call_step (m_supply (m_final nid g d)) (g_envs g) (g_store g) d
    = (g_envs (m_call nid g d), g_store (m_call nid g d)).
  Proof.
    unfold call_step, parse_call, m_call, m_final.
    destruct (m_stmts nid (alloc_of d) (d_target d)
                (m_open (alloc_of d) (start_env (g_envs g) d) (g_next g)) (g_store g) (d_stmts d))
      as [m' st'] eqn:E. simpl.
    rewrite call_disc_alloc.
    pose proof (sim_stmts (alloc_of d) (d_target d) (d_stmts d) _ _ _ _ (m_supply m') E (m_supply_agrees m')) as H.
    rewrite m_open_env in H. rewrite H. reflexivity.
  Qed.

  Theorem refine_run : forall ds g, refines nid g ds.
  Proof.
    induction ds as [|d r IH]; intros g; simpl; auto. split; [apply refine_call|apply IH].
  Qed.

  (* the same as one equation between the two runs *)
  Theorem refine_obs : forall ds g,
    run_sups (m_supplies nid g ds) (g_envs g) (g_store g) ds = m_obs nid g ds.
  Proof.
    induction ds as [|d r IH]; intros g; simpl; auto.
    rewrite refine_call. f_equal. apply (IH (m_call nid g d)).
  Qed.
End R.

(* [run_sups] with the supplies [fresh j], [fresh (j+1)], ... is [run] *)
Fixpoint sups_from (fresh : N -> N -> N) (j : N) (n : nat) : list (N -> N) :=
  match n with O => [] | S k => fresh j :: sups_from fresh (N.succ j) k end.

Lemma run_sups_run fresh : forall ds j es st,
  run_sups (sups_from fresh j (length ds)) es st ds = run fresh j es st ds.
Proof.
  induction ds as [|d r IH]; intros j es st; simpl; auto.
  destruct (call_step (fresh j) es st d) as [es' st']. f_equal. apply IH.
Qed.

(* one abstract supply [call number -> label -> node] for the whole sequence *)
Definition fresh_of (sups : list (N -> N)) (j : N) : N -> N := nth (N.to_nat j) sups (fun _ => 0).

Lemma sups_from_ext f g : forall n j,
  (forall i, j <= i -> f i = g i) -> sups_from f j n = sups_from g j n.
Proof.
  induction n as [|n IH]; intros j H; simpl; auto.
  rewrite (H j) by lia. f_equal. apply IH. intros i Hi. apply H. lia.
Qed.

Lemma sups_from_nth : forall (sups : list (N -> N)) j,
  sups_from (fun i => nth (N.to_nat i - N.to_nat j) sups (fun _ => 0)) j (length sups) = sups.
Proof.
  induction sups as [|a r IH]; intros j; simpl; auto.
  rewrite Nat.sub_diag. f_equal.
  rewrite <- (IH (N.succ j)) at 2. apply sups_from_ext. intros i Hi.
  replace (N.to_nat i - N.to_nat j)%nat with (S (N.to_nat i - N.to_nat (N.succ j)))%nat by lia.
  reflexivity.
Qed.

Lemma m_supplies_length nid : forall ds g, length (m_supplies nid g ds) = length ds.
Proof. induction ds as [|d r IH]; intros g; simpl; auto. Qed.

(* the abstract model [run], started at call 0 with the supply the machine's draws define,
   gives exactly the machine's store contents *)
Theorem refine_run_obs nid ds g :
  run (fresh_of (m_supplies nid g ds)) 0 (g_envs g) (g_store g) ds = m_obs nid g ds.
Proof.
  rewrite <- run_sups_run, <- refine_obs. f_equal.
  rewrite <- (m_supplies_length nid ds g).
  rewrite <- (sups_from_nth (m_supplies nid g ds) 0) at 3.
  apply sups_from_ext. intros i _. unfold fresh_of. now rewrite Nat.sub_0_r.
Qed.
