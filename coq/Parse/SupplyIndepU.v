(* C12 - (version relative to a set U of (call, label) pairs) the run of the model does not depend on the supply: two supplies give runs related, call by
   call, by ONE correspondence of made nodes that is the identity on constants and kept labels. *)
From RV Require Import Parse.Model Parse.Proofs Parse.General.
Local Open Scope N_scope.

Module OnU.
Section SI.
  Variable U : N -> N -> Prop.
  Variables fresh1 fresh2 : N -> N -> N.
  Hypothesis inj1 : forall j l j' l', U j l -> U j' l' -> fresh1 j l = fresh1 j' l' -> j = j' /\ l = l'.
  Hypothesis inj2 : forall j l j' l', U j l -> U j' l' -> fresh2 j l = fresh2 j' l' -> j = j' /\ l = l'.
  Hypothesis rng1 : forall j l, U j l -> 1000 <= fresh1 j l /\ N.even (fresh1 j l) = true.
  Hypothesis rng2 : forall j l, U j l -> 1000 <= fresh2 j l /\ N.even (fresh2 j l) = true.

  Notation R := (node_rel_on U fresh1 fresh2).

  Lemma made_not_stable (f : N -> N -> N) j l :
    (1000 <= f j l /\ N.even (f j l) = true) -> stable_b (f j l) = true -> False.
  Proof.
    intros [H1 H2] Hs. apply stable_b_spec in Hs. destruct Hs as [Hs|Hs]; [lia|].
    eapply even_not_odd; eauto.
  Qed.

  (* the correspondence is a bijection between the nodes of run 1 and the nodes of run 2 *)
  Lemma rel_fun n a b : R n a -> R n b -> a = b.
  Proof.
    intros [[Hs Ha]|[j [l [Hu [Hn Ha]]]]] [[Hs' Hb]|[j' [l' [Hu' [Hn' Hb]]]]]; subst.
    - reflexivity.
    - exfalso. eapply made_not_stable; [apply (rng1 _ _ Hu')|eauto].
    - exfalso. eapply made_not_stable; [apply (rng1 _ _ Hu)|eauto].
    - apply inj1 in Hn'; auto. destruct Hn' as [-> ->]. reflexivity.
  Qed.

  Lemma rel_inj a b n : R a n -> R b n -> a = b.
  Proof.
    intros [[Hs Ha]|[j [l [Hu [Ha Hn]]]]] [[Hs' Hb]|[j' [l' [Hu' [Hb Hn']]]]]; subst.
    - reflexivity.
    - exfalso. eapply made_not_stable; [apply (rng2 _ _ Hu')|eauto].
    - exfalso. eapply made_not_stable; [apply (rng2 _ _ Hu)|eauto].
    - apply inj2 in Hn'; auto. destruct Hn' as [-> ->]. reflexivity.
  Qed.

  Lemma rel_eq a a' b b' : R a a' -> R b b' -> (a = b <-> a' = b').
  Proof.
    intros Ha Hb. split; intros ->; [eapply rel_fun|eapply rel_inj]; eauto.
  Qed.

  Lemma rel_stable n : stable n -> R n n.
  Proof. intros H. left. split; auto. now apply stable_b_spec. Qed.

  Lemma rel_made j l : U j l -> R (fresh1 j l) (fresh2 j l).
  Proof. intros H. right. exists j, l. auto. Qed.

  Lemma quad_rel_eq q q' r r' : quad_rel R q q' -> quad_rel R r r' -> (q = r <-> q' = r').
  Proof.
    destruct q as [[[a b] c] g], q' as [[[a' b'] c'] g'], r as [[[x y] z] w], r' as [[[x' y'] z'] w'].
    unfold quad_rel, q_s, q_p, q_o, q_g; simpl. intros (A & B & C & D) (X & Y & Z & W).
    pose proof (rel_eq _ _ _ _ A X). pose proof (rel_eq _ _ _ _ C Z). pose proof (rel_eq _ _ _ _ D W).
    split; intros [= -> -> -> ->]; subst; f_equal; try f_equal; try f_equal; intuition.
  Qed.

  Lemma memb_rel st st' q q' :
    store_rel R st st' -> quad_rel R q q' -> memb quad_eqb q st = memb quad_eqb q' st'.
  Proof.
    intros Hs Hq. induction Hs as [|a a' r r' Ha Hr IH]; simpl; auto.
    rewrite IH. f_equal.
    destruct (quad_eqb_spec q a), (quad_eqb_spec q' a'); auto.
    - exfalso. apply n. now apply (quad_rel_eq q q' a a' Hq Ha).
    - exfalso. apply n. now apply (quad_rel_eq q q' a a' Hq Ha).
  Qed.

  Lemma q_add_rel st st' q q' :
    store_rel R st st' -> quad_rel R q q' -> store_rel R (q_add q st) (q_add q' st').
  Proof.
    intros Hs Hq. unfold q_add, sadd. rewrite (memb_rel st st' q q' Hs Hq).
    destruct (memb quad_eqb q' st'); auto. apply Forall2_app; auto.
  Qed.

  Lemma env_get_rel e e' l :
    env_rel R e e' ->
    match env_get e l, env_get e' l with
    | Some a, Some b => R a b
    | None, None => True
    | _, _ => False
    end.
  Proof.
    intros H. induction H as [|[k v] [k' v'] r r' [Hk Hv] Hr IH]; simpl; auto.
    simpl in Hk, Hv. subst k'. destruct (N.eqb k l); auto.
  Qed.

  Lemma bnode_for_rel j d e e' l :
    env_rel R e e' -> (d = Identity -> l < 100) -> U j l ->
    env_rel R (fst (bnode_for (fresh1 j) d e l)) (fst (bnode_for (fresh2 j) d e' l)) /\
    R (snd (bnode_for (fresh1 j) d e l)) (snd (bnode_for (fresh2 j) d e' l)).
  Proof.
    intros He Hk HU. unfold bnode_for. destruct d; simpl.
    - pose proof (env_get_rel e e' l He) as H.
      destruct (env_get e l), (env_get e' l); simpl; try tauto.
      split; [|now apply rel_made]. apply Forall2_app; auto. constructor; [|constructor].
      simpl. split; auto. now apply rel_made.
    - split; auto. apply rel_stable, lab_stable. auto.
  Qed.

  Lemma res_term_rel j d e e' t :
    env_rel R e e' -> dterm_wf (match d with Identity => true | Fresh => false end) t = true ->
    (forall l, In l (dterm_labels t) -> U j l) ->
    env_rel R (fst (res_term (fresh1 j) d e t)) (fst (res_term (fresh2 j) d e' t)) /\
    R (snd (res_term (fresh1 j) d e t)) (snd (res_term (fresh2 j) d e' t)).
  Proof.
    intros He Hw HU. destruct t as [c|l]; simpl in *.
    - split; auto. apply rel_stable. now apply const_ok_stable.
    - apply bnode_for_rel; [assumption|intros ->; now apply N.ltb_lt|apply HU; auto].
  Qed.

  Lemma res_graph_rel j d tgt e e' g :
    env_rel R e e' -> stable tgt -> dgraph_wf (match d with Identity => true | Fresh => false end) g = true ->
    (forall l, In l (dgraph_labels g) -> U j l) ->
    env_rel R (fst (res_graph (fresh1 j) d tgt e g)) (fst (res_graph (fresh2 j) d tgt e' g)) /\
    R (snd (res_graph (fresh1 j) d tgt e g)) (snd (res_graph (fresh2 j) d tgt e' g)).
  Proof.
    intros He Ht Hw HU. destruct g as [|c|l]; simpl in *.
    - split; auto. now apply rel_stable.
    - split; auto. apply rel_stable. now apply const_ok_stable.
    - apply bnode_for_rel; [assumption|intros ->; now apply N.ltb_lt|apply HU; auto].
  Qed.

  Lemma res_stmt_rel j d tgt e e' s :
    env_rel R e e' -> stable tgt -> stmt_wf (match d with Identity => true | Fresh => false end) s = true ->
    (forall l, In l (stmt_labels s) -> U j l) ->
    env_rel R (fst (res_stmt (fresh1 j) d tgt e s)) (fst (res_stmt (fresh2 j) d tgt e' s)) /\
    quad_rel R (snd (res_stmt (fresh1 j) d tgt e s)) (snd (res_stmt (fresh2 j) d tgt e' s)).
  Proof.
    intros He Ht Hw HU. destruct s as [[[s0 p] o] g]. unfold stmt_wf in Hw.
    rewrite !andb_true_iff in Hw. destruct Hw as [[[A B] C] D]. unfold res_stmt.
    assert (forall l, In l (dterm_labels s0) -> U j l) as U1
      by (intros l H; apply HU; unfold stmt_labels; rewrite !in_app_iff; auto).
    assert (forall l, In l (dterm_labels o) -> U j l) as U2
      by (intros l H; apply HU; unfold stmt_labels; rewrite !in_app_iff; auto).
    assert (forall l, In l (dgraph_labels g) -> U j l) as U3
      by (intros l H; apply HU; unfold stmt_labels; rewrite !in_app_iff; auto).
    destruct (res_term_rel j d e e' s0 He A U1) as [H1 N1].
    destruct (res_term (fresh1 j) d e s0) as [e1 s1], (res_term (fresh2 j) d e' s0) as [e1' s1']. simpl in H1, N1.
    destruct (res_term_rel j d e1 e1' o H1 C U2) as [H2 N2].
    destruct (res_term (fresh1 j) d e1 o) as [e2 o1], (res_term (fresh2 j) d e1' o) as [e2' o1']. simpl in H2, N2.
    destruct (res_graph_rel j d tgt e2 e2' g H2 Ht D U3) as [H3 N3].
    destruct (res_graph (fresh1 j) d tgt e2 g) as [e3 g1], (res_graph (fresh2 j) d tgt e2' g) as [e3' g1']. simpl in *.
    split; auto. unfold quad_rel, q_s, q_p, q_o, q_g; simpl. auto.
  Qed.

  Lemma add_stmts_rel j d tgt l : forall e e' st st',
    env_rel R e e' -> store_rel R st st' -> stable tgt ->
    forallb (stmt_wf (match d with Identity => true | Fresh => false end)) l = true ->
    (forall l0, In l0 (flat_map stmt_labels l) -> U j l0) ->
    env_rel R (fst (add_stmts (fresh1 j) d tgt e st l)) (fst (add_stmts (fresh2 j) d tgt e' st' l)) /\
    store_rel R (snd (add_stmts (fresh1 j) d tgt e st l)) (snd (add_stmts (fresh2 j) d tgt e' st' l)).
  Proof.
    induction l as [|s r IH]; intros e e' st st' He Hs Ht Hw HU; simpl; auto.
    simpl in Hw. apply andb_true_iff in Hw. destruct Hw as [Hw Hr].
    assert (forall l, In l (stmt_labels s) -> U j l) as U1
      by (intros l H; apply HU; simpl; rewrite in_app_iff; auto).
    assert (forall l0, In l0 (flat_map stmt_labels r) -> U j l0) as U2
      by (intros l H; apply HU; simpl; rewrite in_app_iff; auto).
    destruct (res_stmt_rel j d tgt e e' s He Ht Hw U1) as [H1 Q1].
    destruct (res_stmt (fresh1 j) d tgt e s) as [e1 q1], (res_stmt (fresh2 j) d tgt e' s) as [e1' q1']. simpl in *.
    apply IH; auto. now apply q_add_rel.
  Qed.

  Lemma doc_wf_parts d :
    doc_wf d = true -> stable (d_target d) /\
    forallb (stmt_wf (match call_disc d with Identity => true | Fresh => false end)) (d_stmts d) = true.
  Proof.
    unfold doc_wf, is_identity. rewrite !andb_true_iff, stable_b_spec. tauto.
  Qed.

  Lemma envs_get_rel es es' k : envs_rel R es es' -> env_rel R (envs_get es k) (envs_get es' k).
  Proof.
    intros H. induction H as [|[k1 e1] [k2 e2] r r' [Hk He] Hr IH]; simpl; [constructor|].
    simpl in Hk, He. subst k2. destruct (N.eqb k1 k); auto.
  Qed.

  Lemma call_step_rel j es es' st st' d :
    envs_rel R es es' -> store_rel R st st' -> doc_wf d = true ->
    (forall l, In l (labels_of (d_stmts d)) -> U j l) ->
    envs_rel R (fst (call_step (fresh1 j) es st d)) (fst (call_step (fresh2 j) es' st' d)) /\
    store_rel R (snd (call_step (fresh1 j) es st d)) (snd (call_step (fresh2 j) es' st' d)).
  Proof.
    intros He Hs Hd HU. destruct (doc_wf_parts d Hd) as [Ht Hw].
    assert (forall l0, In l0 (flat_map stmt_labels (d_stmts d)) -> U j l0) as HU'.
    { intros l H. apply HU. unfold labels_of. now apply (proj2 (dedup_In N.eqb N.eqb_spec l _)). }
    unfold call_step, parse_call.
    assert (env_rel R (start_env es d) (start_env es' d)) as H0.
    { unfold start_env. destruct (env_key d); [now apply envs_get_rel|constructor]. }
    destruct (add_stmts_rel j (call_disc d) (d_target d) (d_stmts d) _ _ st st' H0 Hs Ht Hw HU') as [H1 H2].
    destruct (add_stmts (fresh1 j) (call_disc d) (d_target d) (start_env es d) st (d_stmts d)) as [e1 s1].
    destruct (add_stmts (fresh2 j) (call_disc d) (d_target d) (start_env es' d) st' (d_stmts d)) as [e1' s1'].
    simpl in *. split; auto.
    unfold keep_env. destruct (env_key d); auto. unfold envs_set. constructor; auto.
  Qed.

  Theorem run_rel : forall ds j es es' st st',
    envs_rel R es es' -> store_rel R st st' -> forallb doc_wf ds = true -> covers U j ds ->
    obs_rel R (run fresh1 j es st ds) (run fresh2 j es' st' ds).
  Proof.
    induction ds as [|d r IH]; intros j es es' st st' He Hs Hd Hc; simpl; [constructor|].
    simpl in Hd. apply andb_true_iff in Hd. destruct Hd as [Hd Hr]. destruct Hc as [Hc Hcr].
    destruct (call_step_rel j es es' st st' d He Hs Hd Hc) as [H1 H2].
    destruct (call_step (fresh1 j) es st d) as [e1 s1], (call_step (fresh2 j) es' st' d) as [e1' s1'].
    simpl in *. constructor; [simpl; auto|]. apply IH; auto.
  Qed.

  Lemma init_rel init : init_wf init = true -> store_rel R init init.
  Proof.
    unfold init_wf. rewrite forallb_forall. intros H.
    induction init as [|q r IH]; [constructor|]. constructor.
    - assert (In q (q :: r)) as Hq by (left; auto). specialize (H q Hq).
      rewrite !andb_true_iff in H. destruct H as [[[A B] C] D].
      unfold quad_rel. repeat split; auto; left; auto.
    - apply IH. intros x Hx. apply H. now right.
  Qed.
End SI.
End OnU.
