(* C12 - lemmas about coq/Parse/Model.v *)
From RV Require Import Parse.Model.
Local Open Scope N_scope.

(* ------------------------------------------------------------------ *)
(* small list facts *)

Lemma NoDup_map_inj_in {A B} (f : A -> B) (l : list A) :
  NoDup l -> (forall x y, In x l -> In y l -> f x = f y -> x = y) -> NoDup (map f l).
Proof.
  induction l as [|a r IH]; simpl; intros Hn Hi; [constructor|].
  inversion Hn as [|? ? Ha Hr]; subst. constructor.
  - rewrite in_map_iff. intros [y [Hy Hin]]. apply Ha.
    rewrite (Hi a y); auto.
  - apply IH; auto.
Qed.

Lemma NoDup_all_eq {A} (x : A) (l : list A) :
  NoDup l -> l <> [] -> (forall y, In y l -> y = x) -> l = [x].
Proof.
  intros Hn Hne Hall. destruct l as [|a r]; [congruence|].
  assert (a = x) by (apply Hall; simpl; auto). subst a.
  destruct r as [|b r']; [reflexivity|].
  assert (b = x) by (apply Hall; simpl; auto). subst b.
  inversion Hn as [|? ? Ha _]; subst. exfalso; apply Ha; simpl; auto.
Qed.

Lemma dedup_all_eq (x : N) (l : list N) :
  l <> [] -> (forall y, In y l -> y = x) -> dedup N.eqb l = [x].
Proof.
  intros Hne Hall. apply NoDup_all_eq.
  - apply (dedup_NoDup N.eqb N.eqb_spec).
  - destruct l as [|a r]; [congruence|]. intros E.
    assert (In a (dedup N.eqb (a :: r))) as Hin
      by (apply (proj2 (dedup_In N.eqb N.eqb_spec a (a :: r))); left; reflexivity).
    rewrite E in Hin. destruct Hin.
  - intros y Hy. apply Hall. exact (proj1 (dedup_In N.eqb N.eqb_spec y l) Hy).
Qed.

(* ------------------------------------------------------------------ *)
(* quads: projections and [occurs] *)

Lemma occurs_true n q :
  occurs n q = true <-> n = q_s q \/ n = q_p q \/ n = q_o q \/ n = q_g q.
Proof. unfold occurs. rewrite !orb_true_iff, !N.eqb_eq. tauto. Qed.

Lemma occurs_in_true n st : occurs_in n st = true <-> exists q, In q st /\ occurs n q = true.
Proof. unfold occurs_in. apply existsb_exists. Qed.

Lemma occurs_in_false n st : occurs_in n st = false <-> forall q, In q st -> occurs n q = false.
Proof.
  split.
  - intros H q Hq. destruct (occurs n q) eqn:E; auto.
    assert (occurs_in n st = true) by (apply occurs_in_true; eauto). congruence.
  - intros H. destruct (occurs_in n st) eqn:E; auto.
    apply occurs_in_true in E. destruct E as [q [Hq Ho]]. rewrite (H q Hq) in Ho. discriminate.
Qed.

(* ------------------------------------------------------------------ *)
(* Part A: what a parse call adds, as a pure substitution *)

(* the node a label denotes in a call started with the label dict [e0] *)
Definition node_fn (fr : N -> N) (d : disc) (e0 : env) (l : N) : N :=
  match d with
  | Identity => lab_node l
  | Fresh => match env_get e0 l with Some n => n | None => fr l end
  end.

(* the dict during the call: it extends [e0] with label |-> fr label *)
Definition env_ok (fr : N -> N) (e0 e : env) : Prop :=
  (forall l n, env_get e l = Some n -> n = node_fn fr Fresh e0 l) /\
  (forall l, env_get e l = None -> env_get e0 l = None).

Lemma env_get_app e l n l' :
  env_get (e ++ [(l, n)]) l' =
  match env_get e l' with Some v => Some v | None => if N.eqb l l' then Some n else None end.
Proof.
  induction e as [|[k v] r IH]; simpl; [reflexivity|].
  destruct (N.eqb k l'); auto.
Qed.

Lemma env_get_app2 (e m : env) l :
  env_get (e ++ m) l = match env_get e l with Some v => Some v | None => env_get m l end.
Proof.
  induction e as [|[k v] r IH]; simpl; [reflexivity|].
  destruct (N.eqb k l); auto.
Qed.

Lemma env_ok_refl fr e0 : env_ok fr e0 e0.
Proof.
  split; auto. intros l n H. unfold node_fn. now rewrite H.
Qed.

Lemma bnode_for_spec fr d e0 e l e' n :
  env_ok fr e0 e -> bnode_for fr d e l = (e', n) -> env_ok fr e0 e' /\ n = node_fn fr d e0 l.
Proof.
  intros [Hok Hmiss]. unfold bnode_for. destruct d; simpl.
  - destruct (env_get e l) eqn:E; intros [= <- <-].
    + split; [split; auto|]. now apply Hok.
    + pose proof (Hmiss l E) as E0.
      split; [|unfold node_fn; now rewrite E0]. split.
      * intros l' n'. rewrite env_get_app.
        destruct (env_get e l') eqn:E'; [intros [= <-]; auto|].
        destruct (N.eqb_spec l l') as [<-|]; [intros [= <-]; unfold node_fn; now rewrite E0|discriminate].
      * intros l'. rewrite env_get_app. destruct (env_get e l') eqn:E'; [discriminate|].
        intros _. auto.
  - intros [= <- <-]. split; [split|]; auto.
Qed.

(* the labels the dict has learnt *)
Lemma bnode_for_dom fr e l e' n l' :
  bnode_for fr Fresh e l = (e', n) ->
  (env_get e' l' <> None <-> env_get e l' <> None \/ l' = l).
Proof.
  unfold bnode_for. destruct (env_get e l) eqn:E; intros [= <- <-].
  - split; auto. intros [H| -> ]; auto. congruence.
  - rewrite env_get_app. destruct (env_get e l') eqn:E'.
    + split; auto. intros _; discriminate.
    + destruct (N.eqb_spec l l') as [<-|Hne].
      * split; auto. intros _; discriminate.
      * split; [tauto|]. intros [H|H]; congruence.
Qed.

Lemma bnode_for_identity fr e l : bnode_for fr Identity e l = (e, lab_node l).
Proof. reflexivity. Qed.

Lemma res_term_spec fr d e0 e t e' n :
  env_ok fr e0 e -> res_term fr d e t = (e', n) -> env_ok fr e0 e' /\ n = sub_term (node_fn fr d e0) t.
Proof.
  intros Hok. destruct t as [c|l]; simpl.
  - intros [= <- <-]; auto.
  - apply bnode_for_spec; auto.
Qed.

Lemma res_graph_spec fr d tgt e0 e g e' n :
  env_ok fr e0 e -> res_graph fr d tgt e g = (e', n) -> env_ok fr e0 e' /\ n = sub_graph (node_fn fr d e0) tgt g.
Proof.
  intros Hok. destruct g as [|c|l]; simpl; try (intros [= <- <-]; auto).
  apply bnode_for_spec; auto.
Qed.

Lemma res_stmt_spec fr d tgt e0 e s e' q :
  env_ok fr e0 e -> res_stmt fr d tgt e s = (e', q) ->
  env_ok fr e0 e' /\ q = sub_stmt (node_fn fr d e0) tgt s.
Proof.
  intros Hok. destruct s as [[[s0 p] o] g]. unfold res_stmt, sub_stmt.
  destruct (res_term fr d e s0) as [e1 s'] eqn:E1.
  destruct (res_term fr d e1 o) as [e2 o'] eqn:E2.
  destruct (res_graph fr d tgt e2 g) as [e3 g'] eqn:E3.
  intros [= <- <-].
  apply res_term_spec with (e0 := e0) in E1; auto. destruct E1 as [H1 ->].
  apply res_term_spec with (e0 := e0) in E2; auto. destruct E2 as [H2 ->].
  apply res_graph_spec with (e0 := e0) in E3; auto. destruct E3 as [H3 ->]. auto.
Qed.

Lemma res_term_dom fr e t e' n l' :
  res_term fr Fresh e t = (e', n) ->
  (env_get e' l' <> None <-> env_get e l' <> None \/ In l' (dterm_labels t)).
Proof.
  destruct t as [c|l]; simpl.
  - intros [= <- <-]. tauto.
  - intros H. rewrite (bnode_for_dom _ _ _ _ _ l' H). intuition.
Qed.

Lemma res_graph_dom fr tgt e g e' n l' :
  res_graph fr Fresh tgt e g = (e', n) ->
  (env_get e' l' <> None <-> env_get e l' <> None \/ In l' (dgraph_labels g)).
Proof.
  destruct g as [|c|l]; simpl; try (intros [= <- <-]; tauto).
  intros H. rewrite (bnode_for_dom _ _ _ _ _ l' H). intuition.
Qed.

Lemma res_stmt_dom fr tgt e s e' q l' :
  res_stmt fr Fresh tgt e s = (e', q) ->
  (env_get e' l' <> None <-> env_get e l' <> None \/ In l' (stmt_labels s)).
Proof.
  destruct s as [[[s0 p] o] g]. unfold res_stmt, stmt_labels.
  destruct (res_term fr Fresh e s0) as [e1 s'] eqn:E1.
  destruct (res_term fr Fresh e1 o) as [e2 o'] eqn:E2.
  destruct (res_graph fr Fresh tgt e2 g) as [e3 g'] eqn:E3.
  intros [= <- <-].
  rewrite (res_graph_dom _ _ _ _ _ _ l' E3), (res_term_dom _ _ _ _ _ l' E2), (res_term_dom _ _ _ _ _ l' E1).
  rewrite !in_app_iff. tauto.
Qed.

Lemma res_stmt_identity fr tgt e s : fst (res_stmt fr Identity tgt e s) = e.
Proof.
  destruct s as [[[s0 p] o] g]. unfold res_stmt.
  destruct s0, o, g; reflexivity.
Qed.

Lemma add_stmts_In fr d tgt e0 l : forall e st q,
  env_ok fr e0 e ->
  (In q (snd (add_stmts fr d tgt e st l)) <-> In q st \/ In q (map (sub_stmt (node_fn fr d e0) tgt) l)).
Proof.
  induction l as [|s r IH]; intros e st q Hok; simpl; [tauto|].
  destruct (res_stmt fr d tgt e s) as [e' q'] eqn:E.
  apply res_stmt_spec with (e0 := e0) in E; auto. destruct E as [Hok' ->].
  rewrite IH by auto. rewrite q_add_In. intuition congruence.
Qed.

Lemma add_stmts_env_ok fr d tgt e0 l : forall e st,
  env_ok fr e0 e -> env_ok fr e0 (fst (add_stmts fr d tgt e st l)).
Proof.
  induction l as [|s r IH]; intros e st Hok; simpl; auto.
  destruct (res_stmt fr d tgt e s) as [e' q'] eqn:E.
  apply res_stmt_spec with (e0 := e0) in E; auto. destruct E as [Hok' _]. auto.
Qed.

Lemma add_stmts_dom fr tgt l : forall e st l',
  env_get (fst (add_stmts fr Fresh tgt e st l)) l' <> None <->
  env_get e l' <> None \/ In l' (flat_map stmt_labels l).
Proof.
  induction l as [|s r IH]; intros e st l'; simpl; [tauto|].
  destruct (res_stmt fr Fresh tgt e s) as [e' q'] eqn:E.
  rewrite IH, (res_stmt_dom _ _ _ _ _ _ l' E), in_app_iff. tauto.
Qed.

Lemma add_stmts_identity fr tgt l : forall e st, fst (add_stmts fr Identity tgt e st l) = e.
Proof.
  induction l as [|s r IH]; intros e st; simpl; auto.
  pose proof (res_stmt_identity fr tgt e s) as H.
  destruct (res_stmt fr Identity tgt e s) as [e' q']. simpl in H. subst. apply IH.
Qed.

(* wiping <urn:x-rdflib:default> (historical, finding F12) *)
Lemma wipe_default_In q st : In q (wipe_default st) <-> In q st /\ q_g q <> DS_DEFAULT.
Proof.
  unfold wipe_default. rewrite q_remove_In. unfold qsel, q_g.
  destruct q as [[[a b] c] g]. cbn [fst snd].
  change (matches (None, None, None) (a, b, c)) with true. cbn [andb].
  destruct (N.eqb_spec DS_DEFAULT g); intuition congruence.
Qed.

Lemma parse_call_In fr e0 st d q :
  In q (snd (parse_call fr e0 st d)) <->
  In q st \/ In q (map (sub_stmt (node_fn fr (call_disc d) e0) (d_target d)) (d_stmts d)).
Proof. unfold parse_call. apply add_stmts_In, env_ok_refl. Qed.

(* the dict a call leaves behind: what it had, plus label |-> new node for the document's labels *)
Lemma parse_call_env fr e0 st d l :
  env_get (fst (parse_call fr e0 st d)) l =
  match call_disc d with
  | Identity => env_get e0 l
  | Fresh => match env_get e0 l with
             | Some n => Some n
             | None => if memb N.eqb l (labels_of (d_stmts d)) then Some (fr l) else None
             end
  end.
Proof.
  unfold parse_call. destruct (call_disc d) eqn:Ed.
  - pose proof (add_stmts_env_ok fr Fresh (d_target d) e0 (d_stmts d) e0 st (env_ok_refl fr e0)) as [H1 H2].
    pose proof (add_stmts_dom fr (d_target d) (d_stmts d) e0 st l) as Hd.
    destruct (env_get (fst (add_stmts fr Fresh (d_target d) e0 st (d_stmts d))) l) as [n|] eqn:E.
    + pose proof (H1 l n E) as Hn. unfold node_fn in Hn.
      destruct (env_get e0 l) eqn:E0; [congruence|].
      assert (In l (flat_map stmt_labels (d_stmts d))) as Hin.
      { destruct Hd as [Hd _]. destruct Hd as [Hd|Hd]; [discriminate|congruence|auto]. }
      assert (memb N.eqb l (labels_of (d_stmts d)) = true) as ->.
      { apply (memb_In N.eqb N.eqb_spec). unfold labels_of.
        now apply (proj2 (dedup_In N.eqb N.eqb_spec l _)). }
      congruence.
    + rewrite (H2 l E).
      destruct (memb N.eqb l (labels_of (d_stmts d))) eqn:Em; auto.
      apply (memb_In N.eqb N.eqb_spec) in Em. unfold labels_of in Em.
      apply (proj1 (dedup_In N.eqb N.eqb_spec l _)) in Em.
      exfalso. destruct Hd as [_ Hd]. apply Hd; auto.
  - now rewrite add_stmts_identity.
Qed.

(* ------------------------------------------------------------------ *)
(* the trigger predicate, read *)

Lemma kf_step_0 st d :
  kf_step st d = 0 ->
  disc_of (d_fmt d) = Identity ->
  forall l, In l (labels_of (d_stmts d)) -> occurs_in (lab_node l) st = false.
Proof.
  unfold kf_step. intros H Hd. rewrite Hd in H.
  destruct (existsb (fun l => occurs_in (lab_node l) st) (labels_of (d_stmts d))) eqn:Ec; [discriminate|].
  intros l Hl. destruct (occurs_in (lab_node l) st) eqn:Eo; auto.
  assert (existsb (fun l => occurs_in (lab_node l) st) (labels_of (d_stmts d)) = true)
    by (apply existsb_exists; eauto).
  congruence.
Qed.

(* parsing only adds: every syntax, every label discipline, every supply, every dict *)
Lemma parse_call_incl fr e0 st d : incl st (snd (parse_call fr e0 st d)).
Proof. intros q Hq. apply parse_call_In; auto. Qed.

(* ------------------------------------------------------------------ *)
(* Part C: reading the well-formedness predicates *)

Lemma stmt_labels_in s stmts l : In s stmts -> In l (stmt_labels s) -> In l (labels_of stmts).
Proof.
  intros Hs Hl. unfold labels_of. apply (proj2 (dedup_In N.eqb N.eqb_spec l _)).
  apply in_flat_map. eauto.
Qed.

Lemma labels_of_in stmts l : In l (labels_of stmts) -> exists s, In s stmts /\ In l (stmt_labels s).
Proof.
  unfold labels_of. intros H. apply (proj1 (dedup_In N.eqb N.eqb_spec l _)) in H.
  now apply in_flat_map in H.
Qed.

Lemma labels_of_NoDup stmts : NoDup (labels_of stmts).
Proof. apply (dedup_NoDup N.eqb N.eqb_spec). Qed.

Lemma sub_term_ext f g t : (forall l, In l (dterm_labels t) -> f l = g l) -> sub_term f t = sub_term g t.
Proof. destruct t; simpl; auto. Qed.

Lemma sub_graph_ext f g tgt t : (forall l, In l (dgraph_labels t) -> f l = g l) -> sub_graph f tgt t = sub_graph g tgt t.
Proof. destruct t; simpl; auto. Qed.

Lemma sub_stmt_ext f g tgt s :
  (forall l, In l (stmt_labels s) -> f l = g l) -> sub_stmt f tgt s = sub_stmt g tgt s.
Proof.
  destruct s as [[[s0 p] o] gr]. unfold sub_stmt, stmt_labels. intros H.
  rewrite (sub_term_ext f g s0), (sub_term_ext f g o), (sub_graph_ext f g tgt gr); auto;
    intros l Hl; apply H; rewrite !in_app_iff; auto.
Qed.

Lemma stmt_ok_spec j s0 p o g :
  stmt_ok j (s0, p, o, g) = true ->
  dterm_ok s0 = true /\ dterm_ok o = true /\ dgraph_ok g = true /\ p < 100 /\
  (p = TAGP -> exists l, s0 = DL l /\ o = DC (tag j l)).
Proof.
  unfold stmt_ok. rewrite !andb_true_iff, N.ltb_lt. intros [[[[H1 H2] H3] H4] H5].
  repeat split; auto. intros ->. rewrite N.eqb_refl in H5.
  destruct s0 as [|l]; [discriminate|]. destruct o as [n|]; [|discriminate].
  apply N.eqb_eq in H5. subst. eauto.
Qed.

Lemma is_tag_stmt_spec j l s : is_tag_stmt j l s = true -> exists g, s = (DL l, TAGP, DC (tag j l), g).
Proof.
  destruct s as [[[s0 p] o] g]. unfold is_tag_stmt.
  destruct s0 as [|l']; [discriminate|]. destruct o as [n|]; [|discriminate].
  rewrite !andb_true_iff, !N.eqb_eq. intros [[-> ->] ->]. eauto.
Qed.

Lemma doc_ok_spec j d :
  doc_ok j d = true ->
  d_target d < 1000 /\
  (forall s, In s (d_stmts d) -> stmt_ok j s = true) /\
  (forall l, In l (labels_of (d_stmts d)) -> exists g, In (DL l, TAGP, DC (tag j l), g) (d_stmts d)).
Proof.
  unfold doc_ok. rewrite !andb_true_iff, N.ltb_lt, !forallb_forall. intros [[[H1 H2] H3] _].
  repeat split; auto. intros l Hl. specialize (H3 l Hl). apply existsb_exists in H3.
  destruct H3 as [s [Hs Ht]]. apply is_tag_stmt_spec in Ht. destruct Ht as [g ->]. eauto.
Qed.

Lemma doc_ok_opts j d : doc_ok j d = true -> opts_ok d = true.
Proof. unfold doc_ok. rewrite !andb_true_iff. tauto. Qed.

(* a call on a long-lived dict is a Fresh N-Triples / N-Quads call *)
Lemma opts_ok_key d k : opts_ok d = true -> env_key d = Some k -> call_disc d = Fresh /\ d_keep d = false.
Proof.
  unfold opts_ok, call_disc. intros H E. rewrite E in H.
  destruct (d_fmt d); try discriminate; destruct (d_keep d); try discriminate; auto.
Qed.

Lemma opts_ok_keep d : opts_ok d = true -> d_keep d = true -> env_key d = None.
Proof.
  unfold opts_ok. intros H E. destruct (env_key d); auto.
  rewrite E in H. destruct (d_fmt d); discriminate.
Qed.

Lemma dterm_label_lt t l : dterm_ok t = true -> In l (dterm_labels t) -> l < LB.
Proof. destruct t; simpl; [tauto|]. intros H [<-|[]]. now apply N.ltb_lt. Qed.

Lemma dgraph_label_lt t l : dgraph_ok t = true -> In l (dgraph_labels t) -> l < LB.
Proof. destruct t; simpl; try tauto. intros H [<-|[]]. now apply N.ltb_lt. Qed.

Lemma label_lt j stmts l :
  (forall s, In s stmts -> stmt_ok j s = true) -> In l (labels_of stmts) -> l < LB.
Proof.
  intros Hok Hl. apply labels_of_in in Hl. destruct Hl as [s [Hs Hl]].
  specialize (Hok s Hs). destruct s as [[[s0 p] o] g].
  apply stmt_ok_spec in Hok. destruct Hok as [H1 [H2 [H3 _]]].
  unfold stmt_labels in Hl. rewrite !in_app_iff in Hl.
  destruct Hl as [H|[H|H]]; eauto using dterm_label_lt, dgraph_label_lt.
Qed.

Lemma tag_inj j l j' l' : l < LB -> l' < LB -> tag j l = tag j' l' -> j = j' /\ l = l'.
Proof. unfold tag, LB. lia. Qed.

(* ------------------------------------------------------------------ *)
(* Part C2: the checker accepts a merge (completeness of [merge_ok] on tagged documents) *)

Section MergeIntro.
  Variables (known : env) (prev now : qset) (j : N) (d : doc) (g : N -> N).
  Let ls := labels_of (d_stmts d).
  Hypothesis Hchar : forall q, In q now <-> In q prev \/ In q (map (sub_stmt g (d_target d)) (d_stmts d)).
  Hypothesis Hdoc : doc_ok j d = true.
  Hypothesis Hhyg : forall q, In q prev -> q_p q = TAGP -> forall l, l < LB -> q_o q <> tag j l.
  Hypothesis Hinj : forall l l', In l ls -> In l' ls -> g l = g l' -> l = l'.
  Hypothesis Hnew : forall l, In l ls ->
    match env_get known l with
    | Some n => g l = n
    | None => is_bnode (g l) = true /\ occurs_in (g l) prev = false
    end.

  Lemma tag_nodes_eq l : In l ls -> tag_nodes now j l = [g l].
  Proof.
    intros Hl. destruct (doc_ok_spec _ _ Hdoc) as [_ [Hst Htag]].
    unfold tag_nodes. apply dedup_all_eq.
    - destruct (Htag l Hl) as [gr Hs].
      assert (In (sub_stmt g (d_target d) (DL l, TAGP, DC (tag j l), gr)) now) as Hin
        by (apply Hchar; right; now apply in_map).
      intros E.
      assert (In (g l) (map q_s (filter (fun q => N.eqb (q_p q) TAGP && N.eqb (q_o q) (tag j l)) now))) as Hm.
      { apply in_map_iff. eexists. split; [|apply filter_In; split; [exact Hin|]].
        - reflexivity.
        - unfold q_p, q_o; simpl. now rewrite !N.eqb_refl. }
      rewrite E in Hm. destruct Hm.
    - intros y Hy. apply in_map_iff in Hy. destruct Hy as [q [<- Hq]].
      apply filter_In in Hq. destruct Hq as [Hq Hc].
      apply andb_true_iff in Hc. destruct Hc as [Hp Ho]. apply N.eqb_eq in Hp, Ho.
      apply Hchar in Hq. destruct Hq as [Hq|Hq].
      + exfalso. apply (Hhyg q Hq Hp l); auto. eapply label_lt; eauto.
      + apply in_map_iff in Hq. destruct Hq as [s [<- Hs]].
        pose proof (Hst s Hs) as Hok. destruct s as [[[s0 p] o] gr].
        apply stmt_ok_spec in Hok. destruct Hok as [_ [_ [_ [_ Ht]]]].
        unfold q_p in Hp; simpl in Hp. destruct (Ht Hp) as [l' [-> ->]].
        unfold q_o in Ho; simpl in Ho. unfold q_s; simpl.
        assert (l' < LB).
        { eapply label_lt; eauto. eapply stmt_labels_in; eauto. simpl; auto. }
        assert (l < LB) by (eapply label_lt; eauto).
        destruct (tag_inj j l' j l) as [_ ->]; auto.
  Qed.

  Lemma recover_eq : forall l0, incl l0 ls -> recover now j l0 = Some (map (fun l => (l, g l)) l0).
  Proof.
    induction l0 as [|l r IH]; intros Hi; simpl; [reflexivity|].
    rewrite tag_nodes_eq by (apply Hi; simpl; auto).
    rewrite IH; [reflexivity|]. intros x Hx; apply Hi; simpl; auto.
  Qed.

  Lemma env_get_graph (l0 : list N) l : In l l0 -> env_get (map (fun l => (l, g l)) l0) l = Some (g l).
  Proof.
    induction l0 as [|a r IH]; simpl; [tauto|]. intros H.
    destruct (N.eqb_spec a l); [subst; auto|]. destruct H; [congruence|auto].
  Qed.

  Lemma merge_ok_intro : merge_ok known prev now j d = true.
  Proof.
    unfold merge_ok. fold ls. rewrite (recover_eq ls) by apply incl_refl.
    assert (map snd (map (fun l => (l, g l)) ls) = map g ls) as Hsnd
      by (rewrite map_map; reflexivity).
    rewrite Hsnd. rewrite !andb_true_iff. repeat split.
    - apply subsetb_spec; [apply quad_eqb_spec|]. intros q Hq. apply Hchar; auto.
    - apply nodupb_spec; [apply N.eqb_spec|]. apply NoDup_map_inj_in; auto. apply labels_of_NoDup.
    - apply forallb_forall. intros ln Hn. apply in_map_iff in Hn. destruct Hn as [l [<- Hl]].
      unfold label_ok; simpl. specialize (Hnew l Hl).
      destruct (env_get known l); [now apply N.eqb_eq|].
      destruct Hnew as [-> ->]. reflexivity.
    - apply qseteqb_spec. intros q. rewrite in_app_iff, Hchar.
      assert (map (sub_stmt (apply_map (map (fun l => (l, g l)) ls)) (d_target d)) (d_stmts d)
              = map (sub_stmt g (d_target d)) (d_stmts d)) as ->; [|tauto].
      apply map_ext_in. intros s Hs. apply sub_stmt_ext. intros l Hl.
      unfold apply_map. rewrite env_get_graph; auto. eapply stmt_labels_in; eauto.
  Qed.
End MergeIntro.

(* ------------------------------------------------------------------ *)
(* Part D: the run of the model satisfies the checker *)

Lemma is_bnode_lab l : l < LB -> is_bnode (lab_node l) = true.
Proof.
  unfold is_bnode, lab_node, LB. intros H.
  assert (100 <=? 100 + l = true) as -> by (apply N.leb_le; lia).
  assert (100 + l <? 200 = true) as -> by (apply N.ltb_lt; lia). reflexivity.
Qed.

Lemma lab_node_inj l l' : lab_node l = lab_node l' -> l = l'.
Proof. unfold lab_node. lia. Qed.

Lemma even_not_odd n : N.even n = true -> N.odd n = true -> False.
Proof. intros He Ho. rewrite <- N.negb_even, He in Ho. discriminate. Qed.

Section Supply.
  Variable fresh : N -> N -> N.
  Hypothesis fresh_inj :
    forall j l j' l', l < LB -> l' < LB -> fresh j l = fresh j' l' -> j = j' /\ l = l'.
  Hypothesis fresh_range : forall j l, 1000 <= fresh j l /\ N.even (fresh j l) = true.

  (* every number in the store is a constant, a label-named node, or a node a previous call made;
     tag triples are those of previous calls *)
  Definition old (j n : N) : Prop :=
    n < 1000 \/ N.odd n = true \/ exists j' l', j' < j /\ l' < LB /\ n = fresh j' l'.

  Definition Inv (j : N) (st : qset) : Prop :=
    forall q, In q st ->
      (forall n, occurs n q = true -> old j n) /\
      (q_p q = TAGP -> exists j' l', j' < j /\ l' < LB /\ q_o q = tag j' l').

  Lemma old_mono j n : old j n -> old (N.succ j) n.
  Proof.
    intros [H|[H|[j' [l' [H1 [H2 H3]]]]]]; [left; auto|right; left; auto|].
    right; right. exists j', l'. repeat split; auto. lia.
  Qed.

  Lemma is_bnode_fresh j l : is_bnode (fresh j l) = true.
  Proof.
    destruct (fresh_range j l) as [H1 H2]. unfold is_bnode. rewrite H2.
    apply N.leb_le in H1. rewrite H1. now rewrite orb_true_r.
  Qed.

  Lemma fresh_not_old j l : l < LB -> ~ old j (fresh j l).
  Proof.
    intros Hl [H|[H|[j' [l' [H1 [H2 H3]]]]]].
    - destruct (fresh_range j l). lia.
    - destruct (fresh_range j l). eapply even_not_odd; eauto.
    - apply fresh_inj in H3; auto. lia.
  Qed.

  Lemma const_old j n : const_ok n = true -> old j n.
  Proof.
    unfold const_ok. rewrite orb_true_iff, andb_true_iff, N.ltb_lt. intros [H|[_ H]].
    - left. lia.
    - right; left; auto.
  Qed.

  (* every entry of a long-lived dict was made for ITS label by an earlier call *)
  Definition EnvInv (j : N) (e : env) : Prop :=
    forall l n, env_get e l = Some n -> l < LB /\ exists j', j' < j /\ n = fresh j' l.
  Definition EnvsInv (j : N) (es : envs) : Prop := forall k, EnvInv j (envs_get es k).

  Lemma EnvInv_nil j : EnvInv j [].
  Proof. intros l n; discriminate. Qed.

  Lemma EnvsInv_set j es k e : EnvsInv j es -> EnvInv j e -> EnvsInv j (envs_set es k e).
  Proof.
    intros H He k'. unfold envs_set; simpl. destruct (N.eqb k k'); auto.
  Qed.

  Lemma start_env_inv j es d : EnvsInv j es -> EnvInv j (start_env es d).
  Proof. intros H. unfold start_env. destruct (env_key d); [apply H|apply EnvInv_nil]. Qed.

  Lemma node_fn_old j dsc e0 l : EnvInv j e0 -> l < LB -> old (N.succ j) (node_fn (fresh j) dsc e0 l).
  Proof.
    intros He Hl. destruct dsc; simpl.
    - destruct (env_get e0 l) as [n|] eqn:E.
      + destruct (He l n E) as [_ [j' [Hj ->]]]. right; right. exists j', l. repeat split; auto. lia.
      + right; right. exists j, l. repeat split; auto. lia.
    - left. unfold lab_node, LB in *. lia.
  Qed.

  Lemma sub_term_old j dsc e0 t :
    EnvInv j e0 -> dterm_ok t = true -> old (N.succ j) (sub_term (node_fn (fresh j) dsc e0) t).
  Proof.
    destruct t as [n|l]; simpl; intros He H.
    - now apply const_old.
    - apply node_fn_old; auto. now apply N.ltb_lt.
  Qed.

  Lemma Inv_step j e0 st d :
    Inv j st -> EnvInv j e0 -> doc_ok j d = true -> Inv (N.succ j) (snd (parse_call (fresh j) e0 st d)).
  Proof.
    intros HI He Hdoc q Hq. destruct (doc_ok_spec _ _ Hdoc) as [Htgt [Hst _]].
    apply parse_call_In in Hq. destruct Hq as [Hq|Hq].
    - destruct (HI q Hq) as [H1 H2]. split.
      + intros n Hn. apply old_mono; auto.
      + intros Hp. destruct (H2 Hp) as [j' [l' [Ha [Hb Hc]]]]. exists j', l'. repeat split; auto. lia.
    - apply in_map_iff in Hq. destruct Hq as [s [<- Hs]].
      pose proof (Hst s Hs) as Hok. destruct s as [[[s0 p] o] gr].
      apply stmt_ok_spec in Hok. destruct Hok as [Hs0 [Ho [Hg [Hp Ht]]]].
      split.
      + intros n Hn. apply occurs_true in Hn. unfold q_s, q_p, q_o, q_g in Hn; simpl in Hn.
        destruct Hn as [ -> | [ -> | [ -> | -> ] ] ].
        * now apply sub_term_old.
        * left. lia.
        * now apply sub_term_old.
        * destruct gr as [|c|l]; simpl.
          -- left; auto.
          -- left. apply N.ltb_lt in Hg. lia.
          -- apply node_fn_old; auto. now apply N.ltb_lt.
      + unfold q_p, q_o; simpl. intros E. destruct (Ht E) as [l [-> ->]]. simpl.
        exists j, l. repeat split; [lia|now apply N.ltb_lt].
  Qed.

  Lemma EnvInv_mono j e : EnvInv j e -> EnvInv (N.succ j) e.
  Proof.
    intros H l n E. destruct (H l n E) as [Hl [j' [Hj ->]]]. split; auto. exists j'. split; auto. lia.
  Qed.

  Lemma EnvInv_step j e0 st d :
    EnvInv j e0 -> doc_ok j d = true -> EnvInv (N.succ j) (fst (parse_call (fresh j) e0 st d)).
  Proof.
    intros He Hdoc l n. rewrite parse_call_env. destruct (doc_ok_spec _ _ Hdoc) as [_ [Hst _]].
    destruct (call_disc d).
    - destruct (env_get e0 l) as [n'|] eqn:E.
      + intros [= <-]. now apply (EnvInv_mono j e0 He l n').
      + destruct (memb N.eqb l (labels_of (d_stmts d))) eqn:Em; [|discriminate].
        intros [= <-]. apply (memb_In N.eqb N.eqb_spec) in Em.
        split; [eapply label_lt; eauto|]. exists j. split; auto. lia.
    - intros E. now apply (EnvInv_mono j e0 He l n).
  Qed.

  (* lookups of the checker's dicts and of the model's dicts agree *)
  Definition envs_eqv (es ses : envs) : Prop :=
    forall k l, env_get (envs_get es k) l = env_get (envs_get ses k) l.

  Lemma start_env_eqv es ses d l :
    envs_eqv es ses -> env_get (start_env es d) l = env_get (start_env ses d) l.
  Proof. intros H. unfold start_env. destruct (env_key d); auto. Qed.

  Lemma env_get_keep_map stmts l :
    env_get (keep_map stmts) l = if memb N.eqb l (labels_of stmts) then Some (lab_node l) else None.
  Proof.
    unfold keep_map. induction (labels_of stmts) as [|a r IH]; simpl; [reflexivity|].
    rewrite (N.eqb_sym l a). destruct (N.eqb a l) eqn:E; simpl; auto.
    apply N.eqb_eq in E. now subst.
  Qed.

  Lemma env_get_graph_none (g : N -> N) (l0 : list N) l :
    ~ In l l0 -> env_get (map (fun l => (l, g l)) l0) l = None.
  Proof.
    induction l0 as [|a r IH]; simpl; auto. intros H.
    destruct (N.eqb_spec a l); [subst; tauto|]. apply IH; tauto.
  Qed.

  Lemma step_ok j es ses st d :
    Inv j st -> EnvsInv j es -> envs_eqv es ses -> doc_ok j d = true -> kf_step st d = 0 ->
    let e0 := start_env es d in
    let st1 := snd (parse_call (fresh j) e0 st d) in
    merge_ok (known_of ses d) st st1 j d = true /\
    envs_eqv (keep_env es d (fst (parse_call (fresh j) e0 st d))) (learn ses d st1 j).
  Proof.
    intros HI HE Heq Hdoc Hkf e0 st1. pose proof (kf_step_0 _ _ Hkf) as Hid.
    destruct (doc_ok_spec _ _ Hdoc) as [_ [Hst _]].
    pose proof (doc_ok_opts _ _ Hdoc) as Hopts.
    pose proof (start_env_inv j es d HE) as He0. fold e0 in He0.
    set (g := node_fn (fresh j) (call_disc d) e0).
    assert (forall q, In q st1 <-> In q st \/ In q (map (sub_stmt g (d_target d)) (d_stmts d))) as Hchar
      by (intros q; apply parse_call_In).
    assert (forall q, In q st -> q_p q = TAGP -> forall l, l < LB -> q_o q <> tag j l) as Hhyg.
    { intros q Hq Hp l Hl E. destruct (HI q Hq) as [_ H2].
      destruct (H2 Hp) as [j' [l' [Ha [Hb Hc]]]]. rewrite Hc in E.
      apply tag_inj in E; auto. lia. }
    assert (forall l, l < LB -> exists j', j' <= j /\ node_fn (fresh j) Fresh e0 l = fresh j' l) as Hfr.
    { intros l Hl. unfold node_fn. destruct (env_get e0 l) as [n|] eqn:E.
      - destruct (He0 l n E) as [_ [j' [Hj ->]]]. exists j'. split; auto. lia.
      - exists j. split; auto. lia. }
    assert (forall l l', In l (labels_of (d_stmts d)) -> In l' (labels_of (d_stmts d)) -> g l = g l' -> l = l') as Hinj.
    { intros l l' Hl Hl' E.
      assert (l < LB) as H1 by (eapply label_lt; eauto).
      assert (l' < LB) as H2 by (eapply label_lt; eauto).
      unfold g in E. destruct (call_disc d).
      - destruct (Hfr l H1) as [j1 [_ E1]]. destruct (Hfr l' H2) as [j2 [_ E2]].
        rewrite E1, E2 in E. apply fresh_inj in E; tauto.
      - now apply lab_node_inj. }
    assert (recover st1 j (labels_of (d_stmts d)) = Some (map (fun l => (l, g l)) (labels_of (d_stmts d)))) as Hrec.
    { apply recover_eq with (prev := st) (d := d); auto. apply incl_refl. }
    split.
    - apply merge_ok_intro with (g := g); auto.
      intros l Hl. assert (l < LB) as Hlt by (eapply label_lt; eauto).
      unfold known_of, g, call_disc. destruct (d_keep d) eqn:Ek.
      + rewrite env_get_keep_map.
        assert (memb N.eqb l (labels_of (d_stmts d)) = true) as -> by (now apply (memb_In N.eqb N.eqb_spec)).
        reflexivity.
      + rewrite <- (start_env_eqv es ses d l Heq). fold e0.
        destruct (disc_of (d_fmt d)) eqn:Ed; simpl.
        * destruct (env_get e0 l) as [n|] eqn:E; [reflexivity|].
          split; [apply is_bnode_fresh|]. apply occurs_in_false. intros q Hq.
          destruct (occurs (fresh j l) q) eqn:Eo; auto. exfalso.
          destruct (HI q Hq) as [H1 _]. apply (fresh_not_old j l Hlt). auto.
        * assert (env_key d = None) as Hk.
          { destruct (env_key d) as [k|] eqn:Ekey; auto.
            destruct (opts_ok_key d k Hopts Ekey) as [Hc _].
            unfold call_disc in Hc. rewrite Ek, Ed in Hc. discriminate. }
          unfold e0, start_env. rewrite Hk. simpl.
          split; [now apply is_bnode_lab|]. auto.
    - unfold keep_env, learn. destruct (env_key d) as [k|] eqn:Ekey; auto.
      fold st1. rewrite Hrec.
      destruct (opts_ok_key d k Hopts Ekey) as [Hc Hkeep].
      intros k' l. unfold envs_set; simpl. destruct (N.eqb k k'); [|apply Heq].
      rewrite parse_call_env, Hc, env_get_app2.
      assert (forall l, env_get e0 l = env_get (envs_get ses k) l) as He.
      { intros l0. unfold e0, start_env. rewrite Ekey. apply Heq. }
      rewrite <- He. destruct (env_get e0 l) eqn:E0; auto.
      destruct (memb N.eqb l (labels_of (d_stmts d))) eqn:Em.
      + apply (memb_In N.eqb N.eqb_spec) in Em. rewrite env_get_graph by auto.
        unfold g. rewrite Hc. unfold node_fn. now rewrite E0.
      + rewrite env_get_graph_none; auto. intros Hin.
        apply (memb_In N.eqb N.eqb_spec) in Hin. congruence.
  Qed.

  Theorem spec_run_model : forall ds j es ses st,
    Inv j st -> EnvsInv j es -> envs_eqv es ses -> docs_ok j ds = true -> kf_run fresh j es st ds = 0 ->
    spec_run ses st j ds (run fresh j es st ds) = true.
  Proof.
    induction ds as [|d r IH]; intros j es ses st HI HE Heq Hd Hk; simpl; [reflexivity|].
    simpl in Hd. apply andb_true_iff in Hd. destruct Hd as [Hd Hr].
    simpl in Hk. destruct (kf_step st d) eqn:Ek; [|discriminate].
    unfold call_step in *.
    destruct (step_ok j es ses st d HI HE Heq Hd Ek) as [Hm Hq].
    pose proof (Inv_step j (start_env es d) st d HI (start_env_inv j es d HE) Hd) as HI'.
    pose proof (EnvInv_step j (start_env es d) st d (start_env_inv j es d HE) Hd) as HE'.
    destruct (parse_call (fresh j) (start_env es d) st d) as [e1 st1] eqn:Ep. simpl in *.
    rewrite Bool.eqb_reflx, Hm. simpl. apply IH; auto.
    unfold keep_env. destruct (env_key d).
    - apply EnvsInv_set; auto. intros k. apply EnvInv_mono, HE.
    - intros k. apply EnvInv_mono, HE.
  Qed.

  Lemma Inv_init init : forallb quad_small init = true -> Inv 0 init.
  Proof.
    intros H q Hq. rewrite forallb_forall in H. specialize (H q Hq).
    unfold quad_small in H. rewrite !andb_true_iff, !N.ltb_lt, negb_true_iff, N.eqb_neq in H.
    destruct H as [[[[H1 H2] H3] H4] H5]. split.
    - intros n Hn. apply occurs_true in Hn. left. destruct Hn as [ -> | [ -> | [ -> | -> ] ] ]; auto.
    - intros E. congruence.
  Qed.

  Lemma EnvsInv_nil j : EnvsInv j [].
  Proof. intros k l n; discriminate. Qed.
End Supply.

Lemma std_fresh_inj j l j' l' : l < LB -> l' < LB -> std_fresh j l = std_fresh j' l' -> j = j' /\ l = l'.
Proof. unfold std_fresh, LB. lia. Qed.

Lemma std_fresh_range j l : 1000 <= std_fresh j l /\ N.even (std_fresh j l) = true.
Proof.
  unfold std_fresh. split; [lia|]. rewrite N.even_add_mul_2. reflexivity.
Qed.

Theorem spec_ok_model : forall c, wf c -> kf c = 0 -> spec_ok c (model_obs c) = true.
Proof.
  intros c Hwf Hkf. unfold wf, wfb in Hwf. apply andb_true_iff in Hwf. destruct Hwf as [Hi Hd].
  unfold spec_ok, model_obs.
  apply (spec_run_model std_fresh std_fresh_inj std_fresh_range); auto.
  - apply Inv_init; auto.
  - apply EnvsInv_nil.
  - intros k l; reflexivity.
Qed.

(* ------------------------------------------------------------------ *)
(* Part E: what the checker means (soundness of [merge_ok] / [spec_run]) *)

Lemma recover_dom now j : forall ls m, recover now j ls = Some m -> map fst m = ls.
Proof.
  induction ls as [|l r IH]; simpl; intros m.
  - intros [= <-]. reflexivity.
  - destruct (tag_nodes now j l) as [|n [|? ?]]; try discriminate.
    destruct (recover now j r) as [m'|]; [|discriminate].
    intros [= <-]. simpl. now rewrite (IH m').
Qed.

Lemma env_get_in (m : env) l : NoDup (map fst m) -> forall n, In (l, n) m -> env_get m l = Some n.
Proof.
  induction m as [|[k v] r IH]; simpl; intros Hnd n; [tauto|].
  inversion Hnd as [|? ? Hk Hr]; subst. intros [[= -> ->]|H].
  - now rewrite N.eqb_refl.
  - destruct (N.eqb_spec k l).
    + subst. exfalso. apply Hk. apply in_map_iff. exists (l, n). auto.
    + auto.
Qed.

Lemma env_get_some (m : env) l : In l (map fst m) -> exists n, env_get m l = Some n /\ In (l, n) m.
Proof.
  induction m as [|[k v] r IH]; simpl; [tauto|]. intros H.
  destruct (N.eqb_spec k l) as [Hkl|Hkl].
  - subst. eauto.
  - destruct H as [H|H]; [congruence|]. destruct (IH H) as [n' [H1 H2]]. eauto.
Qed.

Lemma snd_inj_in (m : env) : NoDup (map snd m) -> forall a b n, In (a, n) m -> In (b, n) m -> a = b.
Proof.
  induction m as [|[k v] r IH]; simpl; intros Hnd a b n; [tauto|].
  inversion Hnd as [|? ? Hk Hr]; subst.
  intros [Ea|Ha] [Eb|Hb].
  - congruence.
  - inversion Ea; subst. exfalso. apply Hk. apply in_map_iff. exists (b, n). auto.
  - inversion Eb; subst. exfalso. apply Hk. apply in_map_iff. exists (a, n). auto.
  - eapply IH; eauto.
Qed.

Theorem merge_ok_sound known prev now j d :
  merge_ok known prev now j d = true ->
  incl prev now /\ rdf_merge known prev (d_target d) (d_stmts d) now.
Proof.
  unfold merge_ok. rewrite andb_true_iff. intros [Hsub H].
  destruct (recover now j (labels_of (d_stmts d))) as [m|] eqn:Er; [|discriminate].
  rewrite !andb_true_iff in H. destruct H as [[Hnd Hall] Heq].
  apply (subsetb_spec quad_eqb quad_eqb_spec) in Hsub. split; [exact Hsub|].
  apply (nodupb_spec N.eqb N.eqb_spec) in Hnd. rewrite forallb_forall in Hall.
  apply qseteqb_spec in Heq.
  pose proof (recover_dom _ _ _ _ Er) as Hdom.
  assert (NoDup (map fst m)) as Hkeys by (rewrite Hdom; apply labels_of_NoDup).
  exists (apply_map m). split; [|split].
  - intros l l' Hl Hl' E. rewrite <- Hdom in Hl, Hl'.
    destruct (env_get_some m l Hl) as [n [H1 H2]].
    destruct (env_get_some m l' Hl') as [n' [H1' H2']].
    unfold apply_map in E. rewrite H1, H1' in E. subst n'.
    eapply snd_inj_in; eauto.
  - intros l Hl. rewrite <- Hdom in Hl. destruct (env_get_some m l Hl) as [n [H1 H2]].
    unfold apply_map. rewrite H1.
    specialize (Hall (l, n) H2). unfold label_ok in Hall; simpl in Hall.
    destruct (env_get known l).
    + now apply N.eqb_eq in Hall.
    + apply andb_true_iff in Hall. destruct Hall as [Hb Ho].
      split; auto. apply negb_true_iff in Ho. now apply occurs_in_false.
  - intros q. rewrite (Heq q), in_app_iff. tauto.
Qed.

Theorem spec_run_sound : forall ds es prev j obs, spec_run es prev j ds obs = true -> merges es prev j ds obs.
Proof.
  induction ds as [|d r IH]; intros es prev j [|[raised now] obs']; simpl; try discriminate; auto.
  rewrite !andb_true_iff. intros [[Hr Hm] Hrest]. apply merge_ok_sound in Hm. destruct Hm as [H1 H2].
  apply Bool.eqb_prop in Hr. repeat split; eauto.
Qed.

(* two calls never share a node *)
Lemma occurs_in_incl n a b : incl a b -> occurs_in n a = true -> occurs_in n b = true.
Proof.
  intros Hi H. apply occurs_in_true in H. destruct H as [q [Hq Ho]].
  apply occurs_in_true. exists q. auto.
Qed.

Lemma private_known es d : private d = true -> known_of es d = [].
Proof.
  unfold private, known_of, start_env. destruct (env_key d); [discriminate|].
  intros H. apply negb_true_iff in H. now rewrite H.
Qed.

Theorem merges_scoped : forall ds j es prev obs used,
  docs_ok j ds = true -> forallb private ds = true -> merges es prev j ds obs ->
  (forall n, In n used -> occurs_in n prev = true) ->
  scoped used prev ds obs.
Proof.
  induction ds as [|d r IH]; intros j es prev [|[raised now] obs'] used Hd Hp Hm Hu; simpl in *; auto.
  apply andb_true_iff in Hd. destruct Hd as [Hd Hr].
  apply andb_true_iff in Hp. destruct Hp as [Hp Hpr].
  destruct Hm as [_ [Hincl [[f [Hinj [Hnew Hchar]]] Hrest]]].
  rewrite (private_known es d Hp) in Hnew. simpl in Hnew.
  exists f. repeat split; auto.
  - intros Hin. specialize (Hu _ Hin). apply occurs_in_true in Hu.
    destruct Hu as [q [Hq Ho]]. destruct (Hnew l H) as [_ Hn]. rewrite (Hn q Hq) in Ho. discriminate.
  - apply (Hnew l H).
  - apply (Hchar q).
  - apply (Hchar q).
  - apply (IH (N.succ j) (learn es d now j)); auto.
    intros n Hn. apply in_app_iff in Hn. destruct Hn as [Hn|Hn].
    + eapply occurs_in_incl; eauto.
    + apply in_map_iff in Hn. destruct Hn as [l [<- Hl]].
      destruct (doc_ok_spec _ _ Hd) as [_ [_ Htag]]. destruct (Htag l Hl) as [g Hs].
      apply occurs_in_true. exists (sub_stmt f (d_target d) (DL l, TAGP, DC (tag j l), g)).
      split.
      * apply Hchar. right. now apply in_map.
      * apply occurs_true. left. reflexivity.
Qed.

(* ------------------------------------------------------------------ *)
(* Part F: the same document parsed into two empty stores gives isomorphic stores *)

Definition stable (n : N) : Prop := n < 1000 \/ N.odd n = true.

Lemma rename_quad_id q : rename_quad (fun n => n) q = q.
Proof. destruct q as [[[a b] c] g]. reflexivity. Qed.

Section Iso.
  Variables (g1 g2 : N -> N) (ls : list N).
  Hypothesis Hinj1 : forall l l', In l ls -> In l' ls -> g1 l = g1 l' -> l = l'.
  Hypothesis Hinj2 : forall l l', In l ls -> In l' ls -> g2 l = g2 l' -> l = l'.
  Hypothesis Hr1 : forall l, ~ stable (g1 l).
  Hypothesis Hr2 : forall l, ~ stable (g2 l).

  Definition renaming (n : N) : N :=
    match find (fun l => N.eqb (g1 l) n) ls with Some l => g2 l | None => n end.

  Lemma renaming_img l : In l ls -> renaming (g1 l) = g2 l.
  Proof.
    intros Hl. unfold renaming. destruct (find (fun l0 => N.eqb (g1 l0) (g1 l)) ls) as [l'|] eqn:E.
    - apply find_some in E. destruct E as [Hl' E]. apply N.eqb_eq in E.
      now rewrite (Hinj1 l' l Hl' Hl E).
    - exfalso. apply (find_none _ _ E l) in Hl. now rewrite N.eqb_refl in Hl.
  Qed.

  Lemma renaming_stable n : stable n -> renaming n = n.
  Proof.
    intros Hs. unfold renaming. destruct (find (fun l => N.eqb (g1 l) n) ls) as [l|] eqn:E; auto.
    apply find_some in E. destruct E as [_ E]. apply N.eqb_eq in E. subst. now destruct (Hr1 l).
  Qed.

  Definition term_stable (t : dterm) : Prop := match t with DC n => stable n | DL l => In l ls end.
  Definition graph_stable (tgt : cid) (g : dgraph) : Prop :=
    match g with GD => stable tgt | GC c => stable c | GL l => In l ls end.
  Definition stmt_stable (tgt : cid) (s : stmt) : Prop :=
    let '(s0, p, o, g) := s in term_stable s0 /\ stable p /\ term_stable o /\ graph_stable tgt g.

  Lemma renaming_term t : term_stable t -> renaming (sub_term g1 t) = sub_term g2 t.
  Proof. destruct t; simpl; [apply renaming_stable|apply renaming_img]. Qed.

  Lemma rename_sub_stmt tgt s :
    stmt_stable tgt s -> rename_quad renaming (sub_stmt g1 tgt s) = sub_stmt g2 tgt s.
  Proof.
    destruct s as [[[s0 p] o] g]. intros [H1 [H2 [H3 H4]]].
    unfold rename_quad, sub_stmt, q_s, q_p, q_o, q_g; simpl.
    rewrite !renaming_term by auto.
    destruct g; simpl in *; [rewrite renaming_stable|rewrite renaming_stable|rewrite renaming_img]; auto.
  Qed.

  (* a node of the first result is stable or the image of a label *)
  Lemma node_cases tgt s n :
    stmt_stable tgt s -> occurs n (sub_stmt g1 tgt s) = true ->
    stable n \/ exists l, In l ls /\ n = g1 l.
  Proof.
    destruct s as [[[s0 p] o] g]. intros [H1 [H2 [H3 H4]]] Ho.
    apply occurs_true in Ho. unfold q_s, q_p, q_o, q_g in Ho; simpl in Ho.
    destruct Ho as [ -> | [ -> | [ -> | -> ] ] ]; auto.
    - destruct s0; simpl in *; eauto.
    - destruct o; simpl in *; eauto.
    - destruct g; simpl in *; eauto.
  Qed.

  Lemma iso_sets (stmts : list stmt) tgt (r1 r2 : qset) :
    (forall s, In s stmts -> stmt_stable tgt s) ->
    (forall q, In q r1 <-> In q (map (sub_stmt g1 tgt) stmts)) ->
    (forall q, In q r2 <-> In q (map (sub_stmt g2 tgt) stmts)) ->
    (forall l, In l ls -> is_bnode (g1 l) = true) ->
    iso_by renaming r1 r2.
  Proof.
    intros Hst Hc1 Hc2 Hb. split; [|split].
    - intros n n' [q [Hq Ho]] [q' [Hq' Ho']] E.
      apply Hc1, in_map_iff in Hq. destruct Hq as [s [<- Hs]].
      apply Hc1, in_map_iff in Hq'. destruct Hq' as [s' [<- Hs']].
      apply node_cases in Ho; auto. apply node_cases in Ho'; auto.
      destruct Ho as [Hn|[l [Hl ->]]], Ho' as [Hn'|[l' [Hl' ->]]].
      + now rewrite !renaming_stable in E.
      + rewrite renaming_img in E by auto. rewrite (renaming_stable n) in E by auto.
        subst. now destruct (Hr2 l').
      + rewrite renaming_img in E by auto. rewrite (renaming_stable n') in E by auto.
        subst. now destruct (Hr2 l).
      + rewrite !renaming_img in E by auto. now rewrite (Hinj2 l l' Hl Hl' E).
    - intros n [q [Hq Ho]] Hnb.
      apply Hc1, in_map_iff in Hq. destruct Hq as [s [<- Hs]].
      apply node_cases in Ho; auto. destruct Ho as [Hn|[l [Hl ->]]].
      + now apply renaming_stable.
      + rewrite Hb in Hnb by auto. discriminate.
    - intros q. rewrite Hc2, !in_map_iff. split.
      + intros [s [<- Hs]]. exists (sub_stmt g1 tgt s). split.
        * apply rename_sub_stmt; auto.
        * apply Hc1. now apply in_map.
      + intros [q1 [<- Hq1]]. apply Hc1, in_map_iff in Hq1. destruct Hq1 as [s [<- Hs]].
        exists s. split; auto. symmetry. apply rename_sub_stmt; auto.
  Qed.
End Iso.

Lemma const_stable n : const_ok n = true -> stable n.
Proof.
  unfold const_ok, stable. rewrite orb_true_iff, andb_true_iff, N.ltb_lt. intros [H|[_ H]]; [left; lia|auto].
Qed.

Lemma stmt_ok_stable j stmts tgt s :
  tgt < 1000 -> (forall s, In s stmts -> stmt_ok j s = true) -> In s stmts ->
  stmt_stable (labels_of stmts) tgt s.
Proof.
  intros Ht Hok Hs. pose proof (Hok s Hs) as H. destruct s as [[[s0 p] o] g].
  apply stmt_ok_spec in H. destruct H as [H1 [H2 [H3 [H4 _]]]].
  assert (forall l, In l (stmt_labels (s0, p, o, g)) -> In l (labels_of stmts)) as Hl
    by (intros l; now apply stmt_labels_in).
  unfold stmt_labels in Hl. repeat split.
  - destruct s0; simpl in *; [now apply const_stable|apply Hl; rewrite !in_app_iff; simpl; auto].
  - left. lia.
  - destruct o; simpl in *; [now apply const_stable|apply Hl; rewrite !in_app_iff; simpl; auto].
  - destruct g; simpl in *; [left; auto|left; apply N.ltb_lt in H3; lia|apply Hl; rewrite !in_app_iff; simpl; auto].
Qed.

Theorem same_doc_iso (fr1 fr2 : N -> N) j d :
  (forall l l', l < LB -> l' < LB -> fr1 l = fr1 l' -> l = l') ->
  (forall l l', l < LB -> l' < LB -> fr2 l = fr2 l' -> l = l') ->
  (forall l, 1000 <= fr1 l /\ N.even (fr1 l) = true) ->
  (forall l, 1000 <= fr2 l /\ N.even (fr2 l) = true) ->
  doc_ok j d = true ->
  exists h, iso_by h (snd (parse_call fr1 [] [] d)) (snd (parse_call fr2 [] [] d)).
Proof.
  intros Hi1 Hi2 Hg1 Hg2 Hdoc. destruct (doc_ok_spec _ _ Hdoc) as [Htgt [Hst _]].
  assert (forall fr q, In q (snd (parse_call fr [] [] d)) <->
            In q (map (sub_stmt (node_fn fr (call_disc d) []) (d_target d)) (d_stmts d))) as Hchar.
  { intros fr q. rewrite parse_call_In. simpl; tauto. }
  destruct (call_disc d) eqn:Ed; simpl in Hchar.
  - assert (forall fr q, In q (snd (parse_call fr [] [] d)) <->
              In q (map (sub_stmt fr (d_target d)) (d_stmts d))) as Hchar'.
    { intros fr q. rewrite Hchar.
      rewrite (map_ext (sub_stmt (node_fn fr Fresh []) (d_target d)) (sub_stmt fr (d_target d))); [tauto|].
      intros s. apply sub_stmt_ext. reflexivity. }
    exists (renaming fr1 fr2 (labels_of (d_stmts d))).
    assert (forall fr : N -> N, (forall l, 1000 <= fr l /\ N.even (fr l) = true) -> forall l, ~ stable (fr l)) as Hns.
    { intros fr Hr l [H|H]; destruct (Hr l) as [H1 H2]; [lia|eapply even_not_odd; eauto]. }
    apply iso_sets with (stmts := d_stmts d) (tgt := d_target d); auto.
    + intros l l' Hl Hl'. apply Hi1; eapply label_lt; eauto.
    + intros l l' Hl Hl'. apply Hi2; eapply label_lt; eauto.
    + intros s Hs. eapply stmt_ok_stable; eauto.
    + intros l _. destruct (Hg1 l) as [H1 H2]. unfold is_bnode. rewrite H2.
      apply N.leb_le in H1. rewrite H1. now rewrite orb_true_r.
  - exists (fun n => n). split; [|split]; auto.
    intros q. rewrite (Hchar fr2 q), <- (Hchar fr1 q).
    rewrite (map_ext _ (fun q => q) rename_quad_id), map_id. tauto.
Qed.

(* ------------------------------------------------------------------ *)
(* Part G: witnesses for the two findings (the model is faithful to them) *)

Definition w_f9 : case :=
  {| c_init := [];
     c_docs := [ (mkdoc HEXT 0 [(DL 0, 3, DC 1, GD); (DL 0, TAGP, DC (tag 0 0), GD)]);
                 (mkdoc JLD 1 [(DL 0, 3, DC 2, GD); (DL 0, TAGP, DC (tag 1 0), GD)]) ] |}.

Lemma f9_witness :
  wf w_f9 /\ kf w_f9 = 1 /\ spec_ok w_f9 (model_obs w_f9) = false /\
  exists n, q_mem ((n, TAGP, tag 0 0), 0) (final (model_obs w_f9)) = true
         /\ q_mem ((n, TAGP, tag 1 0), 1) (final (model_obs w_f9)) = true.
Proof.
  split; [vm_compute; reflexivity|]. split; [vm_compute; reflexivity|].
  split; [vm_compute; reflexivity|]. exists (lab_node 0). split; vm_compute; reflexivity.
Qed.

(* the TriX half of F9 is repaired (commit 3d9dc36a): a TriX label equal to the id of a node
   already in the store, and a label shared by two TriX calls, are in scope and accepted *)
Definition w_f9_trix : case :=
  {| c_init := [((100, 3, 1), 1)];
     c_docs := [ (mkdoc TRIX 0 [(DL 0, 3, DC 2, GC 2); (DL 0, TAGP, DC (tag 0 0), GC 2)]);
                 (mkdoc TRIX 0 [(DL 0, 3, DC 2, GL 0); (DL 0, TAGP, DC (tag 1 0), GC 2)]) ] |}.

Lemma f9_trix_fixed : wf w_f9_trix /\ kf w_f9_trix = 0 /\ spec_ok w_f9_trix (model_obs w_f9_trix) = true.
Proof. repeat split; vm_compute; reflexivity. Qed.

(* the witness of the repaired finding F12: on the code before commit 57c67bab an N-Quads call
   deleted what <urn:x-rdflib:default> held; the repaired model keeps it *)
Definition w_f12 : case :=
  {| c_init := [((1, 3, 2), 0)];
     c_docs := [ (mkdoc NQ 0 [(DC 2, 3, DC 2, GC 1)]) ] |}.

Lemma f12_prefix_witness :
  exists fr st d q, In q st /\ ~ In q (snd (parse_call_prefix fr [] st d)) /\ In q (snd (parse_call fr [] st d)).
Proof.
  exists (std_fresh 0), (c_init w_f12), (mkdoc NQ 0 [(DC 2, 3, DC 2, GC 1)]),
         ((1, 3, 2), 0).
  split; [simpl; auto|]. split.
  - intros H. apply q_mem_In in H. vm_compute in H. discriminate.
  - apply q_mem_In. vm_compute. reflexivity.
Qed.

Lemma f12_fixed : wf w_f12 /\ kf w_f12 = 0 /\ spec_ok w_f12 (model_obs w_f12) = true.
Proof. repeat split; vm_compute; reflexivity. Qed.

(* non-vacuity: a mixed run in scope of the theorem *)
Definition w_ok : case :=
  {| c_init := [((100, 3, 1), 1); ((1, 3, 100), 0)];
     c_docs := [ (mkdoc TRIG 0 [(DL 0, 3, DL 1, GC 1); (DL 0, TAGP, DC (tag 0 0), GD); (DC 1, 4, DL 0, GL 1); (DL 1, TAGP, DC (tag 0 1), GC 1)]);
                 (mkdoc NT 1 [(DL 0, 3, DC 5, GD); (DL 0, TAGP, DC (tag 1 0), GD)]);
                 (mkdoc JLD 2 [(DL 2, 3, DC 5, GD); (DL 2, TAGP, DC (tag 2 2), GL 2)]) ] |}.

(* ------------------------------------------------------------------ *)
(* Part H: the property statements for an arbitrary supply *)

Definition supply_ok (fresh : N -> N -> N) : Prop :=
  (forall j l j' l', l < LB -> l' < LB -> fresh j l = fresh j' l' -> j = j' /\ l = l') /\
  (forall j l, 1000 <= fresh j l /\ N.even (fresh j l) = true).

Lemma std_supply_ok : supply_ok std_fresh.
Proof. split; [exact std_fresh_inj|exact std_fresh_range]. Qed.

Theorem run_merges fresh init ds :
  supply_ok fresh -> forallb quad_small init = true -> docs_ok 0 ds = true ->
  kf_run fresh 0 [] init ds = 0 -> merges [] init 0 ds (run fresh 0 [] init ds).
Proof.
  intros [Hi Hr] Hq Hd Hk. apply spec_run_sound.
  apply spec_run_model; auto.
  - apply Inv_init; auto.
  - apply EnvsInv_nil.
  - intros k l; reflexivity.
Qed.

Theorem run_scoped fresh init ds :
  supply_ok fresh -> forallb quad_small init = true -> docs_ok 0 ds = true ->
  forallb private ds = true ->
  kf_run fresh 0 [] init ds = 0 -> scoped [] init ds (run fresh 0 [] init ds).
Proof.
  intros Hs Hq Hd Hp Hk. apply (merges_scoped ds 0 []); auto.
  apply run_merges; auto.
Qed.

Lemma w_ok_nonvacuous :
  wf w_ok /\ kf w_ok = 0 /\ length (model_obs w_ok) = 3%nat /\
  spec_ok w_ok (model_obs w_ok) = true.
Proof. repeat split; vm_compute; reflexivity. Qed.

Lemma run_incl fresh : forall ds j es st o, In o (run fresh j es st ds) -> incl st (snd o).
Proof.
  induction ds as [|d r IH]; intros j es st o; simpl; [tauto|].
  unfold call_step.
  pose proof (parse_call_incl (fresh j) (start_env es d) st d) as Hi.
  destruct (parse_call (fresh j) (start_env es d) st d) as [e1 st1]. simpl in Hi.
  intros [<-|H]; [exact Hi|].
  eapply incl_tran; [exact Hi|]. eapply IH; eauto.
Qed.

(* ------------------------------------------------------------------ *)
(* Part I: a call that raises half-way; the same document twice *)

Lemma cut_In fr e0 st d k q :
  In q (snd (parse_call fr e0 st (cut k d))) <->
  In q st \/ In q (map (sub_stmt (node_fn fr (call_disc d) e0) (d_target d)) (firstn k (d_stmts d))).
Proof. rewrite parse_call_In. reflexivity. Qed.

Lemma firstn_incl {A} (k : nat) (l : list A) : incl (firstn k l) l.
Proof.
  revert l; induction k as [|k IH]; intros [|a r]; simpl; intros y Hy; try (now destruct Hy).
  destruct Hy as [<-|H]; [left; auto|right; now apply IH].
Qed.

Theorem failure_atomicity fr e0 st d k :
  incl st (snd (parse_call fr e0 st (cut k d))) /\
  incl (snd (parse_call fr e0 st (cut k d))) (snd (parse_call fr e0 st d)).
Proof.
  split.
  - apply parse_call_incl.
  - intros q Hq. apply cut_In in Hq. apply parse_call_In. destruct Hq as [Hq|Hq]; auto.
    right. apply in_map_iff in Hq. destruct Hq as [s [<- Hs]]. apply in_map. now apply firstn_incl in Hs.
Qed.

(* the dict a failed call leaves behind has learnt only labels of the part that was read *)
Lemma cut_env fr e0 st d k l n :
  env_get (fst (parse_call fr e0 st (cut k d))) l = Some n ->
  env_get e0 l = Some n \/ (env_get e0 l = None /\ n = fr l /\ In l (labels_of (firstn k (d_stmts d)))).
Proof.
  rewrite parse_call_env. change (call_disc (cut k d)) with (call_disc d).
  change (d_stmts (cut k d)) with (firstn k (d_stmts d)).
  destruct (call_disc d); auto.
  destruct (env_get e0 l); auto.
  destruct (memb N.eqb l (labels_of (firstn k (d_stmts d)))) eqn:Em; [|discriminate].
  intros [= <-]. right. repeat split; auto. now apply (memb_In N.eqb N.eqb_spec).
Qed.

Theorem same_doc_twice fresh j1 j2 st d t2 :
  supply_ok fresh -> j1 <> j2 -> call_disc d = Fresh ->
  let st1 := snd (parse_call (fresh j1) [] st d) in
  let st2 := snd (parse_call (fresh j2) [] st1 (retarget t2 d)) in
  (forall q, In q st2 <->
     In q st \/ In q (map (sub_stmt (fresh j1) (d_target d)) (d_stmts d))
             \/ In q (map (sub_stmt (fresh j2) t2) (d_stmts d))) /\
  (forall l l', l < LB -> l' < LB -> fresh j1 l <> fresh j2 l').
Proof.
  intros [Hinj _] Hne Hd st1 st2. split.
  - intros q. unfold st2, st1. rewrite !parse_call_In.
    change (call_disc (retarget t2 d)) with (call_disc d). rewrite Hd. simpl.
    assert (forall fr t, map (sub_stmt (node_fn fr Fresh []) t) (d_stmts d) = map (sub_stmt fr t) (d_stmts d)) as E.
    { intros fr t. apply map_ext. intros s. apply sub_stmt_ext. reflexivity. }
    rewrite !E. tauto.
  - intros l l' Hl Hl' E. apply Hinj in E; auto. tauto.
Qed.
