(* C12 - lemmas about the state machines of Parse/Machines.v *)
From RV Require Import Parse.Machines Parse.Proofs.
Local Open Scope N_scope.

Section M.
  Variable nid : N -> N -> N.
  Hypothesis nid_inj : forall s c s' c', nid s c = nid s' c' -> s = s' /\ c = c'.
  Hypothesis nid_range : forall s c, 1000 <= nid s c /\ N.even (nid s c) = true.

  Definition ext (m m' : mst) : Prop :=
    forall l n, env_get (m_env m) l = Some n -> env_get (m_env m') l = Some n.

  Lemma ext_refl m : ext m m.
  Proof. intros l n H; exact H. Qed.
  Lemma ext_trans m1 m2 m3 : ext m1 m2 -> ext m2 m3 -> ext m1 m3.
  Proof. intros H1 H2 l n H. apply H2, H1, H. Qed.

  (* ---------------------------------------------------------------- *)
  (* equal labels give one node: the node is read off the final table *)

  Lemma m_label_ext a m l m' n :
    m_label nid a m l = (m', n) ->
    ext m m' /\ forall m'', ext m' m'' -> n = m_node a m'' l.
  Proof.
    unfold m_label. destruct a.
    - destruct (env_get (m_env m) l) as [n0|] eqn:E; intros [= <- <-].
      + split; [apply ext_refl|]. intros m'' H. unfold m_node. now rewrite (H l n0 E).
      + split.
        * intros l0 n0 H; simpl. rewrite env_get_app, H. reflexivity.
        * intros m'' H. unfold m_node.
          assert (env_get (m_env m ++ [(l, nid (m_next m) 0)]) l = Some (nid (m_next m) 0)) as Hn
            by (rewrite env_get_app, E, N.eqb_refl; reflexivity).
          now rewrite (H l _ Hn).
    - destruct (env_get (m_env m) l) as [n0|] eqn:E; intros [= <- <-].
      + split; [apply ext_refl|]. intros m'' H. unfold m_node. now rewrite (H l n0 E).
      + split.
        * intros l0 n0 H; simpl. rewrite env_get_app, H. reflexivity.
        * intros m'' H. unfold m_node.
          assert (env_get (m_env m ++ [(l, nid (m_sid m) (N.succ (m_cnt m)))]) l
                  = Some (nid (m_sid m) (N.succ (m_cnt m)))) as Hn
            by (rewrite env_get_app, E, N.eqb_refl; reflexivity).
          now rewrite (H l _ Hn).
    - intros [= <- <-]. split; [apply ext_refl|reflexivity].
  Qed.

  Lemma m_term_ext a m t m' n :
    m_term nid a m t = (m', n) ->
    ext m m' /\ forall m'', ext m' m'' -> n = sub_term (m_node a m'') t.
  Proof.
    destruct t as [c|l]; simpl.
    - intros [= <- <-]. split; [apply ext_refl|reflexivity].
    - apply m_label_ext.
  Qed.

  Lemma m_graph_ext a tgt m g m' n :
    m_graph nid a tgt m g = (m', n) ->
    ext m m' /\ forall m'', ext m' m'' -> n = sub_graph (m_node a m'') tgt g.
  Proof.
    destruct g as [|c|l]; simpl; try (intros [= <- <-]; split; [apply ext_refl|reflexivity]).
    apply m_label_ext.
  Qed.

  Lemma m_stmt_ext a tgt m s m' q :
    m_stmt nid a tgt m s = (m', q) ->
    ext m m' /\ forall m'', ext m' m'' -> q = sub_stmt (m_node a m'') tgt s.
  Proof.
    destruct s as [[[s0 p] o] g]. unfold m_stmt, sub_stmt.
    destruct (m_term nid a m s0) as [m1 s'] eqn:E1.
    destruct (m_term nid a m1 o) as [m2 o'] eqn:E2.
    destruct (m_graph nid a tgt m2 g) as [m3 g'] eqn:E3.
    intros [= <- <-].
    apply m_term_ext in E1. destruct E1 as [X1 Y1].
    apply m_term_ext in E2. destruct E2 as [X2 Y2].
    apply m_graph_ext in E3. destruct E3 as [X3 Y3].
    split; [eauto using ext_trans|].
    intros m'' H.
    rewrite (Y1 m''), (Y2 m''), (Y3 m''); eauto using ext_trans.
  Qed.

  Lemma m_stmts_In a tgt l : forall m st m' st',
    m_stmts nid a tgt m st l = (m', st') ->
    ext m m' /\
    forall m'', ext m' m'' -> forall q,
      In q st' <-> In q st \/ In q (map (sub_stmt (m_node a m'') tgt) l).
  Proof.
    induction l as [|s r IH]; intros m st m' st'; simpl.
    - intros [= <- <-]. split; [apply ext_refl|]. intros; tauto.
    - destruct (m_stmt nid a tgt m s) as [m1 q1] eqn:E. intros H.
      apply m_stmt_ext in E. destruct E as [X1 Y1].
      apply IH in H. destruct H as [X2 Y2].
      split; [eauto using ext_trans|].
      intros m'' Hm q. rewrite (Y2 m'' Hm q), q_add_In.
      rewrite (Y1 m'') by eauto using ext_trans. intuition congruence.
  Qed.

  (* ---------------------------------------------------------------- *)
  (* different labels give different nodes, and new nodes are new *)

  Definition newid (a : alloc) (B : N) (m : mst) (n : N) : Prop :=
    match a with
    | AUuid => exists k, B <= k < m_next m /\ n = nid k 0
    | ASink => exists c, 1 <= c <= m_cnt m /\ n = nid B c
    | AKeep => False
    end.

  Definition env_inj (e : env) : Prop :=
    forall l l' n, env_get e l = Some n -> env_get e l' = Some n -> l = l'.

  Definition OldE (B : N) (e0 : env) : Prop :=
    (forall l n, env_get e0 l = Some n -> drawn_before nid B n) /\ env_inj e0.

  Definition EI (a : alloc) (B : N) (e0 : env) (m : mst) : Prop :=
    (forall l n, env_get (m_env m) l = Some n ->
       env_get e0 l = Some n \/ (env_get e0 l = None /\ newid a B m n)) /\
    env_inj (m_env m) /\
    (forall l n, env_get e0 l = Some n -> env_get (m_env m) l = Some n) /\
    (a = ASink -> m_sid m = B /\ B < m_next m) /\
    B <= m_next m.

  Lemma EI_open a B e0 : OldE B e0 -> EI a B e0 (m_open a e0 B).
  Proof.
    intros [_ Hinj]. unfold EI, m_open. destruct a; simpl; repeat split; auto; try lia; try discriminate.
  Qed.

  Lemma newid_not_drawn a B m n : newid a B m n -> ~ drawn_before nid B n.
  Proof.
    intros Hn [s [c [Hs E]]]. destruct a; simpl in Hn.
    - destruct Hn as [k [Hk ->]]. apply nid_inj in E. lia.
    - destruct Hn as [c' [_ ->]]. apply nid_inj in E. lia.
    - exact Hn.
  Qed.

  Lemma EI_label a B e0 m l m' n :
    OldE B e0 -> EI a B e0 m -> m_label nid a m l = (m', n) -> EI a B e0 m'.
  Proof.
    intros [Hold _] (H1 & H2 & H3 & H4 & H5). unfold m_label. destruct a.
    - (* AUuid *)
      destruct (env_get (m_env m) l) as [n0|] eqn:E; intros [= <- <-]; [exact (conj H1 (conj H2 (conj H3 (conj H4 H5))))|].
      assert (env_get e0 l = None) as E0.
      { destruct (env_get e0 l) as [x|] eqn:Ex; auto. rewrite (H3 l x Ex) in E. discriminate. }
      assert (forall l0 x, env_get (m_env m) l0 = Some x -> x <> nid (m_next m) 0) as Hne.
      { intros l0 x Hx Eq. destruct (H1 l0 x Hx) as [Hx0|[_ [k [Hk Ek]]]].
        - destruct (Hold l0 x Hx0) as [s [c [Hs Es]]]. rewrite Es in Eq. apply nid_inj in Eq. lia.
        - rewrite Ek in Eq. apply nid_inj in Eq. lia. }
      repeat split; simpl; auto; try lia; try discriminate.
      + intros l0 x. rewrite env_get_app. destruct (env_get (m_env m) l0) as [y|] eqn:Ey.
        * intros [= <-]. destruct (H1 l0 y Ey) as [Hy|[Hy [k [Hk ->]]]]; auto.
          right. split; auto. exists k. split; auto. lia.
        * destruct (N.eqb_spec l l0) as [<-|]; [|discriminate]. intros [= <-].
          right. split; auto. exists (m_next m). split; auto. lia.
      + intros l1 l2 x. rewrite !env_get_app.
        destruct (env_get (m_env m) l1) as [y1|] eqn:E1, (env_get (m_env m) l2) as [y2|] eqn:E2.
        * intros [= <-] [= <-]. eapply H2; eauto.
        * intros [= <-]. destruct (N.eqb_spec l l2); [|discriminate]. intros [= Eq].
          exfalso. eapply Hne; eauto.
        * destruct (N.eqb_spec l l1); [|discriminate]. intros [= <-] [= Eq].
          exfalso. eapply Hne; eauto.
        * destruct (N.eqb_spec l l1); [|discriminate]. destruct (N.eqb_spec l l2); [|discriminate].
          intros _ _. congruence.
      + intros l0 x Hx. rewrite env_get_app, (H3 l0 x Hx). reflexivity.
    - (* ASink *)
      destruct (H4 eq_refl) as [Hsid Hlt].
      destruct (env_get (m_env m) l) as [n0|] eqn:E; intros [= <- <-]; [exact (conj H1 (conj H2 (conj H3 (conj H4 H5))))|].
      assert (env_get e0 l = None) as E0.
      { destruct (env_get e0 l) as [x|] eqn:Ex; auto. rewrite (H3 l x Ex) in E. discriminate. }
      assert (forall l0 x, env_get (m_env m) l0 = Some x -> x <> nid (m_sid m) (N.succ (m_cnt m))) as Hne.
      { intros l0 x Hx Eq. destruct (H1 l0 x Hx) as [Hx0|[_ [c [Hc Ec]]]].
        - destruct (Hold l0 x Hx0) as [s [c [Hs Es]]]. rewrite Es in Eq. apply nid_inj in Eq. lia.
        - rewrite Ec in Eq. apply nid_inj in Eq. lia. }
      repeat split; simpl; auto; try lia; try discriminate.
      + intros l0 x. rewrite env_get_app. destruct (env_get (m_env m) l0) as [y|] eqn:Ey.
        * intros [= <-]. destruct (H1 l0 y Ey) as [Hy|[Hy [c [Hc ->]]]]; auto.
          right. split; auto. exists c. split; auto. lia.
        * destruct (N.eqb_spec l l0) as [<-|]; [|discriminate]. intros [= <-].
          right. split; auto. exists (N.succ (m_cnt m)). rewrite Hsid. split; auto. lia.
      + intros l1 l2 x. rewrite !env_get_app.
        destruct (env_get (m_env m) l1) as [y1|] eqn:E1, (env_get (m_env m) l2) as [y2|] eqn:E2.
        * intros [= <-] [= <-]. eapply H2; eauto.
        * intros [= <-]. destruct (N.eqb_spec l l2); [|discriminate]. intros [= Eq].
          exfalso. eapply Hne; eauto.
        * destruct (N.eqb_spec l l1); [|discriminate]. intros [= <-] [= Eq].
          exfalso. eapply Hne; eauto.
        * destruct (N.eqb_spec l l1); [|discriminate]. destruct (N.eqb_spec l l2); [|discriminate].
          intros _ _. congruence.
      + intros l0 x Hx. rewrite env_get_app, (H3 l0 x Hx). reflexivity.
    - intros [= <- <-]. exact (conj H1 (conj H2 (conj H3 (conj H4 H5)))).
  Qed.

  Lemma EI_term a B e0 m t m' n :
    OldE B e0 -> EI a B e0 m -> m_term nid a m t = (m', n) -> EI a B e0 m'.
  Proof.
    intros Ho HI. destruct t; simpl; [intros [= <- <-]; auto|]. now apply EI_label.
  Qed.

  Lemma EI_graph a B e0 tgt m g m' n :
    OldE B e0 -> EI a B e0 m -> m_graph nid a tgt m g = (m', n) -> EI a B e0 m'.
  Proof.
    intros Ho HI. destruct g; simpl; try (intros [= <- <-]; auto). now apply EI_label.
  Qed.

  Lemma EI_stmt a B e0 tgt m s m' q :
    OldE B e0 -> EI a B e0 m -> m_stmt nid a tgt m s = (m', q) -> EI a B e0 m'.
  Proof.
    intros Ho HI. destruct s as [[[s0 p] o] g]. unfold m_stmt.
    destruct (m_term nid a m s0) as [m1 s'] eqn:E1.
    destruct (m_term nid a m1 o) as [m2 o'] eqn:E2.
    destruct (m_graph nid a tgt m2 g) as [m3 g'] eqn:E3.
    intros [= <- <-]. eauto using EI_term, EI_graph.
  Qed.

  Lemma EI_stmts a B e0 tgt l : forall m st m' st',
    OldE B e0 -> EI a B e0 m -> m_stmts nid a tgt m st l = (m', st') -> EI a B e0 m'.
  Proof.
    induction l as [|s r IH]; intros m st m' st' Ho HI; simpl.
    - intros [= <- <-]; auto.
    - destruct (m_stmt nid a tgt m s) as [m1 q1] eqn:E. intros H.
      apply (IH m1 (q_add q1 st) m' st' Ho); auto. eapply EI_stmt; eauto.
  Qed.

  (* ---------------------------------------------------------------- *)
  (* one call of any of the machines *)

  Theorem machine_call a B e0 tgt st stmts m' st' :
    OldE B e0 ->
    m_stmts nid a tgt (m_open a e0 B) st stmts = (m', st') ->
    (* equal labels, one node - in all statements and graphs of the document *)
    (forall q, In q st' <-> In q st \/ In q (map (sub_stmt (m_node a m') tgt) stmts)) /\
    (* the table: what it had is kept; different labels have different nodes; a label it did not
       have got an id that was never drawn before this call, and that is drawn now *)
    (forall l n, env_get e0 l = Some n -> env_get (m_env m') l = Some n) /\
    env_inj (m_env m') /\
    (forall l n, env_get (m_env m') l = Some n -> env_get e0 l = None ->
       ~ drawn_before nid B n /\ drawn_before nid (m_next m') n) /\
    B <= m_next m'.
  Proof.
    intros Ho H.
    pose proof (EI_stmts a B e0 tgt stmts _ _ _ _ Ho (EI_open a B e0 Ho) H) as (H1 & H2 & H3 & H4 & H5).
    apply m_stmts_In in H. destruct H as [_ Hc].
    split; [apply (Hc m' (ext_refl m'))|]. split; [exact H3|]. split; [exact H2|]. split; [|exact H5].
    intros l n Hl Hl0. destruct (H1 l n Hl) as [Hx|[_ Hn]]; [congruence|]. split.
    - eapply newid_not_drawn; eauto.
    - destruct a; simpl in Hn.
      + destruct Hn as [k [Hk ->]]. exists k, 0. split; auto. lia.
      + destruct Hn as [c [Hc' ->]]. exists B, c. split; auto. now destruct (H4 eq_refl).
      + destruct Hn.
  Qed.

  (* ---------------------------------------------------------------- *)
  (* any sequence of calls, any mix of parser objects and shared dicts *)

  Definition GInv (g : gst) : Prop :=
    (forall q, In q (g_store g) -> forall n, occurs n q = true -> stable n \/ drawn_before nid (g_next g) n) /\
    (forall k, OldE (g_next g) (envs_get (g_envs g) k)).

  Lemma drawn_mono B B' n : B <= B' -> drawn_before nid B n -> drawn_before nid B' n.
  Proof. intros H [s [c [Hs E]]]. exists s, c. split; auto. lia. Qed.

  Lemma drawn_not_stable B n : drawn_before nid B n -> ~ stable n.
  Proof.
    intros [s [c [_ ->]]] [H|H]; destruct (nid_range s c) as [H1 H2]; [lia|].
    eapply even_not_odd; eauto.
  Qed.

  Lemma OldE_nil B : OldE B [].
  Proof. split; intros l; intros; discriminate. Qed.

  Lemma start_env_old g d : GInv g -> OldE (g_next g) (start_env (g_envs g) d).
  Proof. intros [_ H]. unfold start_env. destruct (env_key d); [apply H|apply OldE_nil]. Qed.

  Theorem machine_step g d j :
    GInv g -> doc_ok j d = true ->
    let a := alloc_of d in
    let e0 := start_env (g_envs g) d in
    let g' := m_call nid g d in
    exists m',
      (forall q, In q (g_store g') <->
         In q (g_store g) \/ In q (map (sub_stmt (m_node a m') (d_target d)) (d_stmts d))) /\
      (* a label the table did not have, in a parser that makes nodes: the node occurs nowhere in
         the store as it was, and in no long-lived dict *)
      (forall l n, env_get (m_env m') l = Some n -> env_get e0 l = None ->
         (forall q, In q (g_store g) -> occurs n q = false) /\
         (forall k l', env_get (envs_get (g_envs g) k) l' <> Some n)) /\
      env_inj (m_env m') /\
      GInv g'.
  Proof.
    intros HG Hdoc a e0 g'. pose proof (start_env_old g d HG) as Ho. fold e0 in Ho.
    unfold g', m_call. fold a. fold e0.
    destruct (m_stmts nid a (d_target d) (m_open a e0 (g_next g)) (g_store g) (d_stmts d)) as [m' st'] eqn:E.
    destruct (machine_call a (g_next g) e0 (d_target d) (g_store g) (d_stmts d) m' st' Ho E)
      as (Hc & Hkeep & Hinj & Hnew & Hle).
    destruct HG as [HS HE]. destruct (doc_ok_spec _ _ Hdoc) as [Htgt [Hst _]].
    exists m'. simpl. split; [exact Hc|]. split; [|split; [exact Hinj|split]].
    - intros l n Hl Hl0. destruct (Hnew l n Hl Hl0) as [Hnd Hd]. split.
      + intros q Hq. destruct (occurs n q) eqn:Eo; auto. exfalso.
        destruct (HS q Hq n Eo) as [Hs|Hs]; [eapply drawn_not_stable; eauto|auto].
      + intros k0 l' Hk. apply Hnd.
        destruct (HE k0) as [Hold _]. eapply Hold; eauto.
    - (* store *)
      intros q Hq n Hn. apply Hc in Hq. destruct Hq as [Hq|Hq].
      + destruct (HS q Hq n Hn) as [Hs|Hs]; auto. right. eapply drawn_mono; eauto.
      + apply in_map_iff in Hq. destruct Hq as [s [<- Hs]].
        pose proof (Hst s Hs) as Hok. destruct s as [[[s0 p] o] gr].
        apply stmt_ok_spec in Hok. destruct Hok as [Hs0 [Ho' [Hg [Hp _]]]].
        assert (forall l, l < LB -> stable (m_node a m' l) \/ drawn_before nid (m_next m') (m_node a m' l)) as Hnode.
        { intros l Hl. unfold m_node.
          assert (stable (lab_node l)) as Hlab by (left; unfold lab_node, LB in *; lia).
          assert (stable 0) as H0 by (left; lia).
          destruct a; auto; destruct (env_get (m_env m') l) as [x|] eqn:Ex; auto;
            (destruct (env_get e0 l) as [y|] eqn:Ey;
             [ right; rewrite (Hkeep l y Ey) in Ex; injection Ex as <-;
               destruct Ho as [Hold _]; eapply drawn_mono; [exact Hle|eapply Hold; eauto]
             | right; now destruct (Hnew l x Ex Ey) ]). }
        assert (forall t, dterm_ok t = true ->
                  stable (sub_term (m_node a m') t) \/ drawn_before nid (m_next m') (sub_term (m_node a m') t)) as Hterm.
        { intros [c|l] Hok; simpl; [left; now apply const_stable|apply Hnode; now apply N.ltb_lt]. }
        apply occurs_true in Hn. unfold q_s, q_p, q_o, q_g in Hn; simpl in Hn.
        destruct Hn as [ -> | [ -> | [ -> | -> ] ] ]; auto.
        * left; left; lia.
        * destruct gr as [|c|l]; simpl; [left; left; auto|left; left; apply N.ltb_lt in Hg; lia|].
          apply Hnode. now apply N.ltb_lt.
    - (* dicts *)
      intros k. unfold keep_env. destruct (env_key d) as [k1|] eqn:Ek.
      + unfold envs_set; simpl. destruct (N.eqb k1 k).
        * split; auto. intros l n Hl.
          destruct (env_get e0 l) as [y|] eqn:Ey.
          -- rewrite (Hkeep l y Ey) in Hl. injection Hl as <-.
             destruct Ho as [Hold _]. eapply drawn_mono; [exact Hle|eapply Hold; eauto].
          -- now destruct (Hnew l n Hl Ey).
        * destruct (HE k) as [Hold Hi]. split; auto. intros l n Hl. eapply drawn_mono; [exact Hle|eauto].
      + destruct (HE k) as [Hold Hi]. split; auto. intros l n Hl. eapply drawn_mono; [exact Hle|eauto].
  Qed.

  Lemma GInv_init init next : forallb quad_small init = true ->
    GInv {| g_store := init; g_next := next; g_envs := [] |}.
  Proof.
    intros H. split; simpl.
    - intros q Hq n Hn. left. rewrite forallb_forall in H. specialize (H q Hq).
      unfold quad_small in H. rewrite !andb_true_iff, !N.ltb_lt in H.
      destruct H as [[[[H1 H2] H3] H4] _]. apply occurs_true in Hn.
      destruct Hn as [ -> | [ -> | [ -> | -> ] ] ]; left; auto.
    - intros k. apply OldE_nil.
  Qed.

  Theorem machine_run : forall ds j g,
    GInv g -> docs_ok j ds = true -> Forall GInv (m_run nid g ds).
  Proof.
    induction ds as [|d r IH]; intros j g HG Hd; simpl; [constructor|].
    simpl in Hd. apply andb_true_iff in Hd. destruct Hd as [Hd Hr].
    destruct (machine_step g d j HG Hd) as [m' [_ [_ [_ HG']]]].
    constructor; auto. apply (IH (N.succ j)); auto.
  Qed.
End M.

(* the hypotheses on [nid] are satisfiable: (uuid number, counter) |-> 1000 + 2 * 2^counter * (2 uuid + 1) *)
Lemma pow2_odd_inj : forall c c' s s', 2 ^ c * (2 * s + 1) = 2 ^ c' * (2 * s' + 1) -> c = c' /\ s = s'.
Proof.
  induction c as [|c IH] using N.peano_ind; intros c' s s' E.
  - destruct c' as [|c'] using N.peano_ind.
    + rewrite !N.pow_0_r in E. lia.
    + rewrite N.pow_0_r, N.pow_succ_r' in E. lia.
  - destruct c' as [|c'] using N.peano_ind.
    + rewrite N.pow_0_r, N.pow_succ_r' in E. lia.
    + rewrite !N.pow_succ_r' in E.
      destruct (IH c' s s') as [-> ->]; [lia|]. auto.
Qed.

Lemma std_nid_ok :
  (forall s c s' c', std_nid s c = std_nid s' c' -> s = s' /\ c = c') /\
  (forall s c, 1000 <= std_nid s c /\ N.even (std_nid s c) = true).
Proof.
  split.
  - unfold std_nid. intros s c s' c' E.
    destruct (pow2_odd_inj c c' s s') as [-> ->]; [lia|auto].
  - intros s c. unfold std_nid. split; [lia|]. rewrite N.even_add_mul_2. reflexivity.
Qed.
