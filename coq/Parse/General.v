(* C12 - the merge / scoping theorems without the suite's conventions: any number of labels per
   document, no tag triples; the supply is an arbitrary injective function into ids not in use. *)
From RV Require Import Parse.Model Parse.Proofs.
Local Open Scope N_scope.

Lemma stable_b_spec n : stable_b n = true <-> stable n.
Proof. unfold stable_b, stable. rewrite orb_true_iff, N.ltb_lt. tauto. Qed.

Lemma const_ok_stable n : const_ok n = true -> stable n.
Proof. apply const_stable. Qed.

Lemma lab_stable l : l < 100 -> stable (lab_node l).
Proof. intros H. left. unfold lab_node. lia. Qed.

Lemma is_bnode_lab100 l : l < 100 -> is_bnode (lab_node l) = true.
Proof.
  unfold is_bnode, lab_node. intros H.
  assert (100 <=? 100 + l = true) as -> by (apply N.leb_le; lia).
  assert (100 + l <? 200 = true) as -> by (apply N.ltb_lt; lia). reflexivity.
Qed.

(* a label of the document occurs in the image of the document *)
Lemma label_image_occurs f tgt stmts l :
  In l (labels_of stmts) -> exists q, In q (map (sub_stmt f tgt) stmts) /\ occurs (f l) q = true.
Proof.
  intros Hl. apply labels_of_in in Hl. destruct Hl as [s [Hs Hl]].
  exists (sub_stmt f tgt s). split; [now apply in_map|].
  destruct s as [[[s0 p] o] g]. unfold stmt_labels in Hl. rewrite !in_app_iff in Hl.
  apply occurs_true. unfold sub_stmt, q_s, q_p, q_o, q_g; simpl.
  destruct Hl as [H|[H|H]].
  - destruct s0; simpl in H; [tauto|]. destruct H as [<-|[]]. auto.
  - destruct o; simpl in H; [tauto|]. destruct H as [<-|[]]. auto.
  - destruct g; simpl in H; try tauto. destruct H as [<-|[]]. auto.
Qed.

Section G.
  Variable fresh : N -> N -> N.
  Hypothesis fresh_inj : forall j l j' l', fresh j l = fresh j' l' -> j = j' /\ l = l'.
  Hypothesis fresh_range : forall j l, 1000 <= fresh j l /\ N.even (fresh j l) = true.

  Definition gold (j n : N) : Prop := stable n \/ exists j' l', j' < j /\ n = fresh j' l'.
  Definition GI (j : N) (st : qset) : Prop := forall q, In q st -> forall n, occurs n q = true -> gold j n.
  Definition GE (j : N) (e : env) : Prop := forall l n, env_get e l = Some n -> exists j', j' < j /\ n = fresh j' l.
  Definition GEs (j : N) (es : envs) : Prop := forall k, GE j (envs_get es k).

  Lemma gold_mono j n : gold j n -> gold (N.succ j) n.
  Proof. intros [H|[j' [l' [H1 H2]]]]; [left; auto|]. right. exists j', l'. split; auto. lia. Qed.

  Lemma fresh_not_gold j l : ~ gold j (fresh j l).
  Proof.
    intros [[H|H]|[j' [l' [H1 H2]]]].
    - destruct (fresh_range j l). lia.
    - destruct (fresh_range j l). eapply even_not_odd; eauto.
    - apply fresh_inj in H2. lia.
  Qed.

  Lemma gis_bnode_fresh j l : is_bnode (fresh j l) = true.
  Proof.
    destruct (fresh_range j l) as [H1 H2]. unfold is_bnode. rewrite H2.
    apply N.leb_le in H1. rewrite H1. now rewrite orb_true_r.
  Qed.

  Lemma GE_start j es d : GEs j es -> GE j (start_env es d).
  Proof. intros H. unfold start_env. destruct (env_key d); [apply H|]. intros l n; discriminate. Qed.

  Lemma GE_mono j e : GE j e -> GE (N.succ j) e.
  Proof. intros H l n E. destruct (H l n E) as [j' [Hj ->]]. exists j'. split; auto. lia. Qed.

  (* the node of a label in call j is stable (kept label) or made by a call <= j FOR THAT LABEL *)
  Lemma node_fn_cases j dsc e0 l :
    GE j e0 -> (dsc = Identity -> l < 100) ->
    (dsc = Identity /\ node_fn (fresh j) dsc e0 l = lab_node l /\ l < 100) \/
    (dsc = Fresh /\ exists j', j' <= j /\ node_fn (fresh j) dsc e0 l = fresh j' l).
  Proof.
    intros He Hk. destruct dsc; simpl.
    - right. split; auto. destruct (env_get e0 l) as [n|] eqn:E.
      + destruct (He l n E) as [j' [Hj ->]]. exists j'. split; auto. lia.
      + exists j. split; auto. lia.
    - left. auto.
  Qed.

  Lemma node_fn_gold j dsc e0 l :
    GE j e0 -> (dsc = Identity -> l < 100) -> gold (N.succ j) (node_fn (fresh j) dsc e0 l).
  Proof.
    intros He Hk. destruct (node_fn_cases j dsc e0 l He Hk) as [[_ [-> Hl]]|[_ [j' [Hj ->]]]].
    - left. now apply lab_stable.
    - right. exists j', l. split; auto. lia.
  Qed.

  Lemma doc_wf_spec d :
    doc_wf d = true ->
    stable (d_target d) /\ opts_ok d = true /\
    forall s0 p o g, In (s0, p, o, g) (d_stmts d) ->
      dterm_wf (is_identity d) s0 = true /\ const_ok p = true /\
      dterm_wf (is_identity d) o = true /\ dgraph_wf (is_identity d) g = true.
  Proof.
    unfold doc_wf. rewrite !andb_true_iff, forallb_forall, stable_b_spec. intros [[H1 H2] H3].
    repeat split; auto; specialize (H2 _ H); unfold stmt_wf in H2; rewrite !andb_true_iff in H2; tauto.
  Qed.

  Lemma kept_label_lt d l :
    doc_wf d = true -> In l (labels_of (d_stmts d)) -> call_disc d = Identity -> l < 100.
  Proof.
    intros Hd Hl Hi. destruct (doc_wf_spec d Hd) as [_ [_ Hs]].
    apply labels_of_in in Hl. destruct Hl as [[[[s0 p] o] g] [Hin Hl]].
    destruct (Hs s0 p o g Hin) as [A [_ [B C]]].
    unfold is_identity in *. rewrite Hi in *.
    unfold stmt_labels in Hl. rewrite !in_app_iff in Hl. destruct Hl as [H|[H|H]].
    - destruct s0; simpl in *; [tauto|]. destruct H as [<-|[]]. now apply N.ltb_lt.
    - destruct o; simpl in *; [tauto|]. destruct H as [<-|[]]. now apply N.ltb_lt.
    - destruct g; simpl in *; try tauto. destruct H as [<-|[]]. now apply N.ltb_lt.
  Qed.

  Lemma GI_step j e0 st d :
    GI j st -> GE j e0 -> doc_wf d = true -> GI (N.succ j) (snd (parse_call (fresh j) e0 st d)).
  Proof.
    intros HI He Hd q Hq n Hn. destruct (doc_wf_spec d Hd) as [Ht [_ Hs]].
    apply parse_call_In in Hq. destruct Hq as [Hq|Hq]; [apply gold_mono; eauto|].
    apply in_map_iff in Hq. destruct Hq as [[[[s0 p] o] g] [<- Hin]].
    destruct (Hs s0 p o g Hin) as [A [B [C D]]].
    assert (forall t, dterm_wf (is_identity d) t = true ->
              gold (N.succ j) (sub_term (node_fn (fresh j) (call_disc d) e0) t)) as Hterm.
    { intros [c|l] Hw; simpl in *; [left; now apply const_ok_stable|].
      apply node_fn_gold; auto. intros Hi. unfold is_identity in Hw. rewrite Hi in Hw. now apply N.ltb_lt. }
    apply occurs_true in Hn. unfold q_s, q_p, q_o, q_g in Hn; simpl in Hn.
    destruct Hn as [ -> | [ -> | [ -> | -> ] ] ]; auto.
    - left. now apply const_ok_stable.
    - destruct g as [|c|l]; simpl in *; [left; auto|left; now apply const_ok_stable|].
      apply node_fn_gold; auto. intros Hi. unfold is_identity in D. rewrite Hi in D. now apply N.ltb_lt.
  Qed.

  Lemma GE_step j e0 st d : GE j e0 -> GE (N.succ j) (fst (parse_call (fresh j) e0 st d)).
  Proof.
    intros He l n. rewrite parse_call_env. destruct (call_disc d).
    - destruct (env_get e0 l) as [n'|] eqn:E.
      + intros [= <-]. now apply (GE_mono j e0 He l n').
      + destruct (memb N.eqb l (labels_of (d_stmts d))); [|discriminate].
        intros [= <-]. exists j. split; auto. lia.
    - intros E. now apply (GE_mono j e0 He l n).
  Qed.

  (* one call: RDF merge under the dict it started with *)
  Lemma step_merge j es st d :
    GI j st -> GEs j es -> doc_wf d = true -> kf_step st d = 0 ->
    rdf_merge (known_of es d) st (d_target d) (d_stmts d) (snd (parse_call (fresh j) (start_env es d) st d)).
  Proof.
    intros HI HE Hd Hkf. pose proof (kf_step_0 _ _ Hkf) as Hid.
    pose proof (GE_start j es d HE) as He0. set (e0 := start_env es d) in *.
    destruct (doc_wf_spec d Hd) as [_ [Hopts _]].
    exists (node_fn (fresh j) (call_disc d) e0). split; [|split].
    - intros l l' Hl Hl' E.
      destruct (node_fn_cases j (call_disc d) e0 l He0 (kept_label_lt d l Hd Hl)) as [[Hi [E1 _]]|[Hi [j1 [_ E1]]]];
      destruct (node_fn_cases j (call_disc d) e0 l' He0 (kept_label_lt d l' Hd Hl')) as [[Hi' [E2 _]]|[Hi' [j2 [_ E2]]]];
      try congruence.
      + rewrite E1, E2 in E. now apply lab_node_inj.
      + rewrite E1, E2 in E. apply fresh_inj in E. tauto.
    - intros l Hl. unfold known_of, call_disc. destruct (d_keep d) eqn:Ek.
      + rewrite env_get_keep_map.
        assert (memb N.eqb l (labels_of (d_stmts d)) = true) as -> by (now apply (memb_In N.eqb N.eqb_spec)).
        reflexivity.
      + fold e0. destruct (disc_of (d_fmt d)) eqn:Ed; simpl.
        * destruct (env_get e0 l) as [n|] eqn:E; [reflexivity|].
          split; [apply gis_bnode_fresh|]. intros q Hq.
          destruct (occurs (fresh j l) q) eqn:Eo; auto. exfalso.
          apply (fresh_not_gold j l). eapply HI; eauto.
        * assert (call_disc d = Identity) as Hc by (unfold call_disc; now rewrite Ek, Ed).
          assert (env_key d = None) as Hk.
          { destruct (env_key d) as [k|] eqn:Ekey; auto.
            destruct (opts_ok_key d k Hopts Ekey) as [Hc' _]. congruence. }
          unfold e0, start_env. rewrite Hk. simpl.
          split; [apply is_bnode_lab100; eapply kept_label_lt; eauto|].
          apply occurs_in_false. now apply Hid.
    - intros q. apply parse_call_In.
  Qed.

  Theorem gen_run_merges : forall ds j es st,
    GI j st -> GEs j es -> forallb doc_wf ds = true -> kf_run fresh j es st ds = 0 ->
    merges_run fresh j es st ds.
  Proof.
    induction ds as [|d r IH]; intros j es st HI HE Hd Hk; simpl; auto.
    simpl in Hd. apply andb_true_iff in Hd. destruct Hd as [Hd Hr].
    simpl in Hk. destruct (kf_step st d) eqn:Ek; [|discriminate].
    pose proof (step_merge j es st d HI HE Hd Ek) as Hm.
    pose proof (GI_step j (start_env es d) st d HI (GE_start j es d HE) Hd) as HI'.
    pose proof (GE_step j (start_env es d) st d (GE_start j es d HE)) as HE'.
    unfold call_step in *.
    destruct (parse_call (fresh j) (start_env es d) st d) as [e1 st1] eqn:Ep. simpl in *.
    split; [|split; auto].
    - intros q Hq. pose proof (parse_call_incl (fresh j) (start_env es d) st d q Hq) as H. now rewrite Ep in H.
    - apply IH; auto. unfold keep_env. destruct (env_key d) as [k|].
      + intros k'. unfold envs_set; simpl. destruct (N.eqb k k'); auto. apply GE_mono, HE.
      + intros k'. apply GE_mono, HE.
  Qed.

  Lemma GI_init init : init_wf init = true -> GI 0 init.
  Proof.
    intros H q Hq n Hn. left. unfold init_wf in H. rewrite forallb_forall in H. specialize (H q Hq).
    rewrite !andb_true_iff, !stable_b_spec in H. destruct H as [[[H1 H2] H3] H4].
    apply occurs_true in Hn. destruct Hn as [ -> | [ -> | [ -> | -> ] ] ]; auto.
  Qed.

  Lemma GEs_nil j : GEs j [].
  Proof. intros k l n; discriminate. Qed.

  (* private calls: the nodes of a call were made by no earlier call *)
  Theorem gen_run_scoped : forall ds j st used,
    GI j st -> forallb doc_wf ds = true -> forallb private ds = true -> kf_run fresh j [] st ds = 0 ->
    (forall n, In n used -> occurs_in n st = true) ->
    scoped_run fresh j used st ds.
  Proof.
    induction ds as [|d r IH]; intros j st used HI Hd Hp Hk Hu; simpl; auto.
    simpl in Hd. apply andb_true_iff in Hd. destruct Hd as [Hd Hr].
    simpl in Hp. apply andb_true_iff in Hp. destruct Hp as [Hp Hpr].
    simpl in Hk. destruct (kf_step st d) eqn:Ek; [|discriminate].
    destruct (step_merge j [] st d HI (GEs_nil j) Hd Ek) as [f [Hinj [Hnew Hchar]]].
    rewrite (private_known [] d Hp) in Hnew. simpl in Hnew.
    assert (env_key d = None) as Hkey.
    { unfold private in Hp. destruct (env_key d); [discriminate|reflexivity]. }
    pose proof (GI_step j (start_env [] d) st d HI (GE_start j [] d (GEs_nil j)) Hd) as HI'.
    unfold call_step, keep_env in *. rewrite Hkey in *.
    destruct (parse_call (fresh j) (start_env [] d) st d) as [e1 st1] eqn:Ep. simpl in *.
    exists f. split; [exact Hinj|]. split; [|split; [exact Hchar|]].
    - intros l Hl. destruct (Hnew l Hl) as [_ Hn]. split; auto.
      intros Hin. specialize (Hu _ Hin). apply occurs_in_true in Hu.
      destruct Hu as [q [Hq Ho]]. rewrite (Hn q Hq) in Ho. discriminate.
    - apply IH; auto.
      intros n Hn. apply in_app_iff in Hn. destruct Hn as [Hn|Hn].
      + apply occurs_in_true. specialize (Hu _ Hn). apply occurs_in_true in Hu.
        destruct Hu as [q [Hq Ho]]. exists q. split; auto. apply Hchar. auto.
      + apply in_map_iff in Hn. destruct Hn as [l [<- Hl]].
        destruct (label_image_occurs f (d_target d) (d_stmts d) l Hl) as [q [Hq Ho]].
        apply occurs_in_true. exists q. split; auto. apply Hchar. auto.
  Qed.
End G.

(* the supply the suite evaluates satisfies the hypotheses FOR LABELS BELOW LB = 16 only (that bound
   belongs to this instance, not to the theorems): an unbounded instance is the pairing below *)
Definition pair_fresh (j l : N) : N := 1000 + 2 * (2 ^ l * (2 * j + 1)).

Lemma pair_fresh_ok :
  (forall j l j' l', pair_fresh j l = pair_fresh j' l' -> j = j' /\ l = l') /\
  (forall j l, 1000 <= pair_fresh j l /\ N.even (pair_fresh j l) = true).
Proof.
  split.
  - unfold pair_fresh. intros j l j' l' E.
    assert (2 ^ l * (2 * j + 1) = 2 ^ l' * (2 * j' + 1)) as E' by lia.
    clear E. revert l' j j' E'. induction l as [|l IH] using N.peano_ind; intros l' j j' E.
    + destruct l' as [|l'] using N.peano_ind.
      * rewrite !N.pow_0_r in E. lia.
      * rewrite N.pow_0_r, N.pow_succ_r' in E. lia.
    + destruct l' as [|l'] using N.peano_ind.
      * rewrite N.pow_0_r, N.pow_succ_r' in E. lia.
      * rewrite !N.pow_succ_r' in E. destruct (IH l' j j') as [-> ->]; [lia|]. auto.
  - intros j l. unfold pair_fresh. split; [lia|]. rewrite N.even_add_mul_2. reflexivity.
Qed.

(* the same document into two empty stores: isomorphic, for any number of labels *)
Lemma stmt_wf_stable kept stmts tgt s0 p o g :
  stable tgt -> In (s0, p, o, g) stmts ->
  dterm_wf kept s0 = true -> const_ok p = true -> dterm_wf kept o = true -> dgraph_wf kept g = true ->
  stmt_stable (labels_of stmts) tgt (s0, p, o, g).
Proof.
  intros Ht Hs A B C D.
  assert (forall l, In l (stmt_labels (s0, p, o, g)) -> In l (labels_of stmts)) as Hl
    by (intros l; now apply stmt_labels_in).
  unfold stmt_labels in Hl. repeat split.
  - destruct s0; simpl in *; [now apply const_stable|apply Hl; rewrite !in_app_iff; simpl; auto].
  - now apply const_stable.
  - destruct o; simpl in *; [now apply const_stable|apply Hl; rewrite !in_app_iff; simpl; auto].
  - destruct g; simpl in *; [auto|now apply const_stable|apply Hl; rewrite !in_app_iff; simpl; auto].
Qed.

Theorem gen_same_doc_iso (fr1 fr2 : N -> N) d :
  (forall l l', fr1 l = fr1 l' -> l = l') ->
  (forall l l', fr2 l = fr2 l' -> l = l') ->
  (forall l, 1000 <= fr1 l /\ N.even (fr1 l) = true) ->
  (forall l, 1000 <= fr2 l /\ N.even (fr2 l) = true) ->
  doc_wf d = true ->
  exists h, iso_by h (snd (parse_call fr1 [] [] d)) (snd (parse_call fr2 [] [] d)).
Proof.
  intros Hi1 Hi2 Hg1 Hg2 Hd.
  assert (stable (d_target d) /\
          forall s0 p o g, In (s0, p, o, g) (d_stmts d) ->
            dterm_wf (is_identity d) s0 = true /\ const_ok p = true /\
            dterm_wf (is_identity d) o = true /\ dgraph_wf (is_identity d) g = true) as [Ht Hs].
  { unfold doc_wf in Hd. rewrite !andb_true_iff, forallb_forall, stable_b_spec in Hd.
    destruct Hd as [[H1 H2] _]. split; auto. intros s0 p o g Hin. specialize (H2 _ Hin).
    unfold stmt_wf in H2. rewrite !andb_true_iff in H2. tauto. }
  assert (forall fr q, In q (snd (parse_call fr [] [] d)) <->
            In q (map (sub_stmt (node_fn fr (call_disc d) []) (d_target d)) (d_stmts d))) as Hchar.
  { intros fr q. rewrite parse_call_In. simpl; tauto. }
  destruct (call_disc d) eqn:Ed; simpl in Hchar.
  - assert (forall fr q, In q (snd (parse_call fr [] [] d)) <->
              In q (map (sub_stmt fr (d_target d)) (d_stmts d))) as Hchar'.
    { intros fr q. rewrite Hchar.
      rewrite (map_ext (sub_stmt (node_fn fr Fresh []) (d_target d)) (sub_stmt fr (d_target d))); [tauto|].
      intros s. apply sub_stmt_ext. reflexivity. }
    exists (renaming fr1 fr2 (labels_of (d_stmts d))).
    assert (forall fr : N -> N, (forall l, 1000 <= fr l /\ N.even (fr l) = true) -> forall l, ~ stable (fr l)) as Hns.
    { intros fr Hr l [H|H]; destruct (Hr l) as [H1 H2]; [lia|eapply even_not_odd; eauto]. }
    apply iso_sets with (stmts := d_stmts d) (tgt := d_target d); auto.
    + intros [[[s0 p] o] g] Hin. destruct (Hs s0 p o g Hin) as [A [B [C D]]].
      eapply stmt_wf_stable; eauto.
    + intros l _. destruct (Hg1 l) as [H1 H2]. unfold is_bnode. rewrite H2.
      apply N.leb_le in H1. rewrite H1. now rewrite orb_true_r.
  - exists (fun n => n). split; [|split]; auto.
    intros q. rewrite (Hchar fr2 q), <- (Hchar fr1 q).
    rewrite (map_ext _ (fun q => q) rename_quad_id), map_id. tauto.
Qed.
