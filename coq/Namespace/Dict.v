(* Lemmas about strings and the association-list dictionaries of Namespace/Model.v *)
From RV Require Import Namespace.Model.

Lemma str_eqb_spec : forall a b : str, reflect (a = b) (str_eqb a b).
Proof. exact (@list_eqb_spec N N.eqb N_eqb_spec). Qed.

Lemma str_eqb_refl a : str_eqb a a = true.
Proof. destruct (str_eqb_spec a a); congruence. Qed.

Ltac seq a b := destruct (str_eqb_spec a b); subst.

Lemma starts_with_app : forall pre s, starts_with s pre = true -> pre ++ skipn (length pre) s = s.
Proof.
  induction pre as [|a pre IH]; intros [|b s]; cbn [starts_with app skipn length]; auto; try discriminate.
  rewrite andb_true_iff. intros [H1 H2]. apply N.eqb_eq in H1. subst. f_equal. auto.
Qed.

Lemma starts_with_self_app : forall pre r, starts_with (pre ++ r) pre = true.
Proof. induction pre as [|a pre IH]; intros r; cbn [starts_with app]; auto. now rewrite N.eqb_refl, IH. Qed.

Lemma starts_with_iff : forall pre s, starts_with s pre = true <-> exists r, s = pre ++ r.
Proof.
  intros pre s. split.
  - intros H. exists (skipn (length pre) s). symmetry. now apply starts_with_app.
  - intros [r ->]. apply starts_with_self_app.
Qed.

Section D.
  Variable V : Type.
  Implicit Types (d : dict V) (k : str).

  Lemma dget_dset d k v k' : dget (dset d k v) k' = if str_eqb k' k then Some v else dget d k'.
  Proof.
    induction d as [|[k0 v0] r IH]; simpl.
    - reflexivity.
    - seq k k0; simpl.
      + seq k' k0; auto.
      + rewrite IH. seq k' k0; auto. seq k0 k; congruence.
  Qed.

  Lemma dget_dremove d k k' : dget (dremove d k) k' = if str_eqb k' k then None else dget d k'.
  Proof.
    induction d as [|[k0 v0] r IH]; simpl.
    - now destruct (str_eqb k' k).
    - seq k k0; simpl.
      + rewrite IH. seq k' k0; auto.
      + rewrite IH. seq k' k0; auto. seq k0 k; congruence.
  Qed.

  Lemma dget_None d k : dget d k = None <-> ~ In k (map fst d).
  Proof.
    induction d as [|[k0 v0] r IH]; simpl; [tauto|].
    seq k k0.
    - split; [discriminate|tauto].
    - rewrite IH. split; [intros H [E|E]; auto|tauto].
  Qed.

  Lemma dget_In d k v : dget d k = Some v -> In (k, v) d.
  Proof.
    induction d as [|[k0 v0] r IH]; simpl; [discriminate|].
    seq k k0; [intros E; inversion E; auto|auto].
  Qed.

  Lemma In_dget d k v : NoDup (map fst d) -> In (k, v) d -> dget d k = Some v.
  Proof.
    induction d as [|[k0 v0] r IH]; simpl; [tauto|].
    intros Hn [E|Hin]; inversion Hn; subst.
    - inversion E; subst. now rewrite str_eqb_refl.
    - seq k k0; auto. exfalso. apply H1. now apply (in_map fst) in Hin.
  Qed.

  Lemma keys_dset d k v :
    map fst (dset d k v) = if dmem d k then map fst d else map fst d ++ [k].
  Proof.
    unfold dmem. induction d as [|[k0 v0] r IH]; simpl; auto.
    seq k k0; simpl; auto. rewrite IH. destruct (dget r k); auto.
  Qed.

  Lemma dset_NoDup d k v : NoDup (map fst d) -> NoDup (map fst (dset d k v)).
  Proof.
    intros H. rewrite keys_dset. unfold dmem. destruct (dget d k) eqn:E; auto.
    apply NoDup_app_single; auto. now apply dget_None.
  Qed.

  Lemma keys_dremove d k : map fst (dremove d k) = filter (fun x => negb (str_eqb k x)) (map fst d).
  Proof.
    induction d as [|[k0 v0] r IH]; simpl; auto.
    destruct (str_eqb k k0); simpl; now rewrite IH.
  Qed.

  Lemma dremove_NoDup d k : NoDup (map fst d) -> NoDup (map fst (dremove d k)).
  Proof. intros H. rewrite keys_dremove. now apply filter_NoDup. Qed.

  Lemma ddel_Some d k x : dget d k = Some x -> ddel d k = Some (dremove d k).
  Proof. unfold ddel, dmem. now intros ->. Qed.
End D.
