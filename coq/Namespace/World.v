(* Several NamespaceManagers over one store: the store dictionaries stay mutually
   inverse under every interleaving; an answer is right about the store unless it
   comes from a cache entry that another manager's bind has made stale. *)
From RV Require Import Namespace.Model Namespace.Dict Namespace.StoreInv Namespace.Proofs Namespace.Final.
From Coq Require Import PeanoNat Arith.

Section W.
  Variables (split split_s : str -> option (str * str)) (ncname : str -> bool).
  Local Notation goodF := (good split split_s false).
  Local Notation cinvF := (cinv split split_s false).

  Definition wbij (w : world) : Prop :=
    NoDup (map fst (w_p2n w)) /\ NoDup (map fst (w_n2p w)) /\ fbij (w_p2n w) (w_n2p w).

  (* with the flag off the cache invariant only speaks about the caches *)
  Lemma cinvF_caches s s' : cache s' = cache s -> cache_s s' = cache_s s -> cinvF s -> cinvF s'.
  Proof.
    intros E1 E2 [C1 C2]. split; intros u q; [rewrite E1|rewrite E2]; intros H.
    - destruct (C1 u q H) as [_ X]. split; [discriminate|exact X].
    - destruct (C2 u q H) as [_ X]. split; [discriminate|exact X].
  Qed.

  Definition winv (w : world) : Prop :=
    wbij w /\ Forall (fun g => cinvF (assemble w g)) (w_mgrs w).

  Lemma winv_init : winv w_init.
  Proof.
    split; [|constructor]. split; [constructor|split; [constructor|]].
    intros p n; simpl; split; discriminate.
  Qed.

  Lemma Forall_set_nth {A} (P : A -> Prop) : forall l i x, Forall P l -> P x -> Forall P (set_nth l i x).
  Proof.
    induction l as [|y r IH]; intros i x H Hx; simpl; [constructor|].
    inversion H; subst. destruct i; constructor; auto.
  Qed.

  Lemma fold_bind_good binds : forall s, goodF s ->
    goodF (fold_left (fun s e => fst (m_bind s (Some (fst e)) (snd e) true false)) binds s).
  Proof.
    induction binds as [|e r IH]; intros s H; cbn [fold_left]; auto.
    apply IH. now apply m_bind_good.
  Qed.

  Definition in_range (w : world) (x : wop) : Prop :=
    match x with WOp i _ => N.to_nat i < length (w_mgrs w) | WNew _ => True end.

  Lemma length_set_nth {A} : forall (l : list A) i x, length (set_nth l i x) = length l.
  Proof. induction l as [|y r IH]; intros [|i] x; simpl; auto. Qed.

  Lemma w_step_inv w x :
    winv w ->
    winv (fst (w_step split split_s ncname w x)) /\
    (in_range w x -> w_hits_ok split ncname w x = true -> op_exact split split_s (wop_op x) ->
     snap_ok (wop_op x) (w_snap (fst (w_step split split_s ncname w x))
                                (snd (w_step split split_s ncname w x))) = true).
  Proof.
    intros [Hb Hm]. destruct x as [i o|binds]; cbn [w_step w_hits_ok wop_op in_range].
    - destruct (nth_error (w_mgrs w) (N.to_nat i)) as [g|] eqn:E.
      + assert (Hg : goodF (assemble w g)).
        { split; [exact Hb|]. rewrite Forall_forall in Hm. apply Hm. eapply nth_error_In; eauto. }
        destruct (m_step_good split split_s ncname false (assemble w g) o Hg) as [G S].
        set (r := m_step split split_s ncname (assemble w g) o) in *. cbn [fst snd].
        split.
        * split; [exact (proj1 G)|]. cbn [w_mgrs].
          apply Forall_set_nth.
          { rewrite Forall_forall in *. intros g' Hin. apply (cinvF_caches (assemble w g')); auto. }
          { apply (cinvF_caches (fst r)); [reflexivity|reflexivity|exact (proj2 G)]. }
        * intros _ Hh Hx. exact (S (or_intror Hh) Hx).
      + cbn [fst snd]. split; [split; assumption|]. intros Hr. apply nth_error_None in E. lia.
    - assert (Hg : goodF (assemble w g_empty)).
      { split; [exact Hb|]. split; intros u q; discriminate. }
      pose proof (fold_bind_good binds _ Hg) as G.
      set (s := fold_left _ binds _) in *. cbn [fst snd]. split.
      + split; [exact (proj1 G)|]. cbn [w_mgrs]. apply Forall_app. split.
        * rewrite Forall_forall in *. intros g' Hin. apply (cinvF_caches (assemble w g')); auto.
        * constructor; [|constructor].
          apply (cinvF_caches s); [reflexivity|reflexivity|exact (proj2 G)].
      + intros _ _ _. unfold snap_ok, w_snap. cbn [s_list s_rev s_api s_res w_p2n w_n2p].
        rewrite (bij_ok_of_bij s (proj1 G)). reflexivity.
  Qed.

  Lemma w_step_exn w x :
    winv w ->
    let y := w_step split split_s ncname w x in
    exn_ok split split_s (w_p2n (fst y)) (w_n2p (fst y)) (wop_op x) (snd y) = true.
  Proof.
    intros [Hb Hm]. destruct x as [i o|binds]; cbn [w_step wop_op]; [|reflexivity].
    destruct (nth_error (w_mgrs w) (N.to_nat i)) as [g|] eqn:E; [|destruct o; reflexivity].
    assert (Hg : goodF (assemble w g)).
    { split; [exact Hb|]. rewrite Forall_forall in Hm. apply Hm. eapply nth_error_In; eauto. }
    exact (m_step_exn split split_s ncname false (assemble w g) o Hg).
  Qed.

  Lemma w_step_length w x :
    length (w_mgrs (fst (w_step split split_s ncname w x))) =
    match x with WOp _ _ => length (w_mgrs w) | WNew _ => S (length (w_mgrs w)) end.
  Proof.
    destruct x as [i o|binds]; cbn [w_step].
    - destruct (nth_error (w_mgrs w) (N.to_nat i)); cbn [fst w_mgrs]; auto. apply length_set_nth.
    - cbn [fst w_mgrs]. rewrite app_length. simpl. lia.
  Qed.

  Lemma w_run_ok ops : forall w, winv w ->
    wf_from (length (w_mgrs w)) ops = true ->
    w_stale split split_s ncname w ops = false ->
    (forall x, In x ops -> op_exact split split_s (wop_op x)) ->
    all_ok split split_s (map wop_op ops) (w_run split split_s ncname w ops) = true.
  Proof.
    induction ops as [|x r IH]; intros w Hw Hf Hs Hx; cbn [w_run w_stale map all_ok] in *; auto.
    apply orb_false_iff in Hs. destruct Hs as [H1 H2]. apply negb_false_iff in H1.
    destruct (w_step_inv w x Hw) as [W S].
    assert (R : in_range w x /\ wf_from (length (w_mgrs (fst (w_step split split_s ncname w x)))) r = true).
    { rewrite w_step_length. destruct x as [i o|binds]; cbn [wf_from in_range] in *.
      - apply andb_true_iff in Hf. destruct Hf as [F1 F2]. apply Nat.ltb_lt in F1. auto.
      - auto. }
    destruct R as [R1 R2].
    unfold snap_ok2. rewrite (S R1 H1 (Hx x (or_introl eq_refl))).
    pose proof (w_step_exn w x Hw) as X. cbn zeta in X. unfold w_snap. cbn [s_list s_rev s_res].
    rewrite X. cbn [andb].
    apply IH; auto. intros y Hy. apply Hx. now right.
  Qed.

  Lemma w_final_inv ops : forall w, winv w -> winv (w_final split split_s ncname w ops).
  Proof.
    induction ops as [|x r IH]; intros w Hw; cbn [w_final]; auto. apply IH. now apply w_step_inv.
  Qed.
End W.

Theorem w_spec_ok_model c : wc_wf c = true -> w_kf c = 0%N -> w_spec_ok c (w_model_obs c) = true.
Proof.
  intros Hwf. unfold w_kf. destruct (w_stale _ _ _ w_init (wc_ops c)) eqn:E; [discriminate|]. intros _.
  unfold w_spec_ok, w_model_obs. apply w_run_ok; [apply winv_init|exact Hwf|exact E|].
  intros x _ u _. split; apply split_uri_exact.
Qed.

(* the store-level bijection holds in every reachable world, stale caches or not *)
Lemma w_bijection split split_s ncname ops :
  let w := w_final split split_s ncname w_init ops in
  NoDup (map fst (w_p2n w)) /\ NoDup (map snd (w_p2n w)) /\ NoDup (map fst (w_n2p w)) /\
  (forall p n, In (p, n) (w_p2n w) <-> dget (w_p2n w) p = Some n) /\
  (forall p n, dget (w_p2n w) p = Some n <-> dget (w_n2p w) n = Some p).
Proof.
  intros w. destruct (w_final_inv split split_s ncname ops w_init (winv_init split split_s)) as [B _].
  apply bij_ok_reading. exact (bij_ok_of_bij (assemble w g_empty) B).
Qed.
