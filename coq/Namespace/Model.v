(* Model of the prefix machinery of rdflib:
     rdflib/plugins/stores/memory.py   Memory.bind / SimpleMemory.bind (identical),
                                       prefix, namespace, namespaces
     rdflib/namespace/__init__.py      NamespaceManager.bind, _store_bind, compute_qname,
                                       compute_qname_strict, qname, curie, normalizeUri,
                                       expand_curie, reset, namespaces; split_uri, is_ncname,
                                       insert_trie, insert_strie, get_longest_namespace
   Strings are lists of code points.  Python dicts are association lists in
   insertion order ([dset] overwrites in place or appends, [ddel] raises on a
   missing key).  Statement order, Python truthiness ([if bound_namespace:],
   [if not prefix:], [if not self.store.namespace(prefix)]) and the state left
   behind by a raised exception are modelled.  No proofs in this file. *)
From RV Require Export Base.ListSet.

Definition str := list N.
Definition str_eqb : str -> str -> bool := list_eqb N.eqb.

(* s.startswith(pre) *)
Fixpoint starts_with (s pre : str) {struct pre} : bool :=
  match pre, s with
  | [], _ => true
  | a :: pre', b :: s' => N.eqb a b && starts_with s' pre'
  | _ :: _, [] => false
  end.

Definition truthy (s : str) : bool := match s with [] => false | _ => true end.

(* ------------------------------------------------------------------ *)
(* Python dict with str keys *)
Section Dict.
  Variable V : Type.
  Definition dict := list (str * V).

  Fixpoint dget (d : dict) (k : str) : option V :=
    match d with
    | [] => None
    | (k', v) :: r => if str_eqb k k' then Some v else dget r k
    end.

  Definition dmem (d : dict) (k : str) : bool :=
    match dget d k with Some _ => true | None => false end.

  (* d[k] = v *)
  Fixpoint dset (d : dict) (k : str) (v : V) : dict :=
    match d with
    | [] => [(k, v)]
    | (k', v') :: r => if str_eqb k k' then (k', v) :: r else (k', v') :: dset r k v
    end.

  Definition dremove (d : dict) (k : str) : dict :=
    filter (fun e => negb (str_eqb k (fst e))) d.

  (* del d[k] : None = KeyError *)
  Definition ddel (d : dict) (k : str) : option dict :=
    if dmem d k then Some (dremove d k) else None.
End Dict.
Arguments dget {V} d k.
Arguments dmem {V} d k.
Arguments dset {V} d k v.
Arguments dremove {V} d k.
Arguments ddel {V} d k.

(* ------------------------------------------------------------------ *)
(* the namespace trie: nested dicts  { namespace : { longer namespace : ... } } *)
Inductive trie := T (kids : list (str * trie)).
Definition kids_of (t : trie) := match t with T k => k end.

Definition N_len (s : str) : N := N.of_nat (length s).

(* trie[value][key] = dict_   (value is a key of [cur]) *)
Fixpoint add_child (cur : list (str * trie)) (v : str) (e : str * trie) : list (str * trie) :=
  match cur with
  | [] => []
  | (k, T ks) :: r => if str_eqb v k then (k, T (dset ks (fst e) (snd e))) :: r
                      else (k, T ks) :: add_child r v e
  end.

Definition ensure (cur : list (str * trie)) (v : str) : list (str * trie) :=
  if dmem cur v then cur else cur ++ [(v, T [])].

(* insert_trie(trie, value); the returned reference is [find_sub] below *)
Fixpoint insert_trie (t : trie) (v : str) {struct t} : trie :=
  match t with
  | T kids =>
      if dmem kids v then t else
      T ((fix loop (snap cur : list (str * trie)) {struct snap} : list (str * trie) :=
            match snap with
            | [] => ensure cur v
            | (k, sub) :: rest =>
                if (N.ltb (N_len k) (N_len v)) && starts_with v k
                then dset cur k (insert_trie sub v)               (* return insert_trie(trie[key], value) *)
                else if starts_with k v
                then loop rest (add_child (dremove (ensure cur v) k) v (k, sub))
                else loop rest cur
            end) kids kids)
  end.

(* the dict object that insert_trie(trie, value) returns when value is present:
   the node labelled [v], reached by the same descent *)
Fixpoint find_sub (t : trie) (v : str) {struct t} : option trie :=
  match t with
  | T kids =>
      match dget kids v with
      | Some sub => Some sub
      | None =>
          (fix loop (l : list (str * trie)) : option trie :=
             match l with
             | [] => None
             | (k, sub) :: r =>
                 if (N.ltb (N_len k) (N_len v)) && starts_with v k then find_sub sub v else loop r
             end) kids
      end
  end.

(* get_longest_namespace(trie, value) *)
Fixpoint gln (t : trie) (v : str) {struct t} : option str :=
  match t with
  | T kids =>
      (fix loop (l : list (str * trie)) : option str :=
         match l with
         | [] => None
         | (k, sub) :: r =>
             if starts_with v k
             then match gln sub v with None => Some k | Some o => Some o end
             else loop r
         end) kids
  end.

(* all keys of a trie, at any depth *)
Fixpoint trie_keys (t : trie) : list str :=
  match t with
  | T kids =>
      (fix loop (l : list (str * trie)) : list str :=
         match l with
         | [] => []
         | (k, sub) :: r => k :: trie_keys sub ++ loop r
         end) kids
  end.

(* ------------------------------------------------------------------ *)
(* characters *)
Definition XMLNS : str :=
  [104;116;116;112;58;47;47;119;119;119;46;119;51;46;111;114;103;47;88;77;76;47;49;57;57;56;47;
   110;97;109;101;115;112;97;99;101]%N.

(* class of a code point, from unicodedata.category:
   1 = Ll Lu Lo Lt Nl (NAME_START_CATEGORIES), 2 = Nd, 3 = Mc Me Mn Lm, 0 = anything else *)
Definition cattab := list (N * N).
Fixpoint cat_of (tb : cattab) (c : N) : N :=
  match tb with
  | [] => 0%N
  | (c', k) :: r => if N.eqb c c' then k else cat_of r c
  end.

Definition in_codes (c : N) (l : list N) : bool := existsb (N.eqb c) l.
Definition allowed_char (c : N) : bool := in_codes c [183; 903; 45; 46; 95; 37; 40; 41]%N.
Definition invalid_uri_char (c : N) : bool := in_codes c [60; 62; 34; 32; 123; 125; 124; 92; 94; 96]%N.
Definition valid_uri (u : str) : bool := negb (existsb invalid_uri_char u).

Section Chars.
  Variable cat : N -> N.
  Definition name_cat (c : N) : bool := negb (N.eqb (cat c) 0).
  (* split_start: SPLIT_START_CATEGORIES (strict = false) or NAME_START_CATEGORIES (strict = true) *)
  Definition start_char (strict : bool) (c : N) : bool :=
    N.eqb c 95 || N.eqb (cat c) 1 || (negb strict && N.eqb (cat c) 2).

  (* i of the first character from the end that is neither a name character nor allowed *)
  Fixpoint first_bad (rev_u : str) (i : nat) : option nat :=
    match rev_u with
    | [] => None
    | c :: r => if name_cat c then first_bad r (S i)
                else if allowed_char c then first_bad r (S i) else Some i
    end.

  (* for j in range(-1 - i, length): negative j index from the end, then 0 .. length-1 *)
  Fixpoint first_start (strict : bool) (u : str) (ps : list nat) : option nat :=
    match ps with
    | [] => None
    | p :: r => if start_char strict (nth p u 0%N) then Some p else first_start strict u r
    end.

  Fixpoint until_sub (s pat : str) : str :=
    match s with
    | [] => []
    | c :: r => if starts_with s pat then [] else c :: until_sub r pat
    end.

  (* uri.split(XMLNS)[1], what split_uri returned as local name before the fix for F6c *)
  Definition xml_local_old (u : str) : str := until_sub (skipn (length XMLNS) u) XMLNS.

  Definition split_uri (strict : bool) (u : str) : option (str * str) :=
    if starts_with u XMLNS then Some (XMLNS, skipn (length XMLNS) u) else
    let n := length u in
    match first_bad (rev u) 0 with
    | None => None
    | Some i =>
        match first_start strict u (seq (n - 1 - i) (S i) ++ seq 0 n) with
        | None => None
        | Some p => match firstn p u with [] => None | ns => Some (ns, skipn p u) end
        end
    end.

  Definition is_ncname (name : str) : bool :=
    match name with
    | [] => false
    | c :: r => (N.eqb c 95 || N.eqb (cat c) 1) && forallb (fun c => name_cat c || allowed_char c) r
    end.
End Chars.

(* "%s" % num: the decimal digits (standard library conversion to Decimal.uint) *)
Fixpoint uint_str (d : Decimal.uint) : str :=
  match d with
  | Decimal.Nil => []
  | Decimal.D0 r => 48%N :: uint_str r | Decimal.D1 r => 49%N :: uint_str r
  | Decimal.D2 r => 50%N :: uint_str r | Decimal.D3 r => 51%N :: uint_str r
  | Decimal.D4 r => 52%N :: uint_str r | Decimal.D5 r => 53%N :: uint_str r
  | Decimal.D6 r => 54%N :: uint_str r | Decimal.D7 r => 55%N :: uint_str r
  | Decimal.D8 r => 56%N :: uint_str r | Decimal.D9 r => 57%N :: uint_str r
  end.
Definition dec (n : N) : str := uint_str (N.to_uint n).

Definition s_ns : str := [110; 115]%N.                               (* "ns" *)
Definition s_default : str := [100; 101; 102; 97; 117; 108; 116]%N.  (* "default" *)
Definition colon : N := 58%N.

(* ------------------------------------------------------------------ *)
(* manager + store state *)
Definition qn := (str * str * str)%type.      (* (prefix, namespace, name) *)

Record mst := {
  p2n : dict str;          (* Memory.__namespace : prefix -> namespace *)
  n2p : dict str;          (* Memory.__prefix    : namespace -> prefix *)
  cache : dict qn;         (* NamespaceManager.__cache *)
  cache_s : dict qn;       (* NamespaceManager.__cache_strict *)
  strie : list str;        (* keys of __strie; its values alias nodes of __trie *)
  trie_ : trie             (* __trie *)
}.

Definition m_init : mst :=
  {| p2n := []; n2p := []; cache := []; cache_s := []; strie := []; trie_ := T [] |}.

Definition set_maps (s : mst) (a b : dict str) : mst :=
  {| p2n := a; n2p := b; cache := cache s; cache_s := cache_s s; strie := strie s; trie_ := trie_ s |}.
Definition set_caches (s : mst) (c cs : dict qn) : mst :=
  {| p2n := p2n s; n2p := n2p s; cache := c; cache_s := cs; strie := strie s; trie_ := trie_ s |}.
Definition set_tries (s : mst) (st : list str) (t : trie) : mst :=
  {| p2n := p2n s; n2p := n2p s; cache := cache s; cache_s := cache_s s; strie := st; trie_ := t |}.

Definition coalesce (a b : option str) : option str := match a with Some _ => a | None => b end.
Definition odefault (a : option str) (d : str) : str := match a with Some x => x | None => d end.

(* Memory.bind / SimpleMemory.bind, as repaired by the "fix:" commit for F6b: without
   override an existing binding of the prefix or of the namespace wins.
   false = KeyError from a [del] *)
Definition store_bind (s : mst) (prefix ns : str) (ov : bool) : mst * bool :=
  let bn := dget (p2n s) prefix in
  let bp := coalesce (dget (n2p s) ns)
                     (match bn with Some b => dget (n2p s) b | None => None end) in
  if ov then
    match (match bp with Some q => ddel (p2n s) q | None => Some (p2n s) end) with
    | None => (s, false)
    | Some p1 =>
        match (match bn with Some b => ddel (n2p s) b | None => Some (n2p s) end) with
        | None => (set_maps s p1 (n2p s), false)
        | Some n1 => (set_maps s (dset p1 prefix ns) (dset n1 ns prefix), true)
        end
    end
  else
    match bn, bp with
    | None, None => (set_maps s (dset (p2n s) prefix ns) (dset (n2p s) ns prefix), true)
    | _, _ => (s, true)
    end.

(* the non-override branch as it was before that fix (finding F6b), kept so that the
   refutation of the bijection on the historical code stays checkable *)
Definition store_bind_old_noov (s : mst) (prefix ns : str) : mst :=
  let bn := dget (p2n s) prefix in
  let bp := coalesce (dget (n2p s) ns)
                     (match bn with Some b => dget (n2p s) b | None => None end) in
  let k := odefault bn ns in
  let v := odefault bp prefix in
  set_maps s (dset (p2n s) v k) (dset (n2p s) k v).

(* NamespaceManager._store_bind (as repaired by the "fix:" commit for F6a) *)
Definition m_store_bind (s : mst) (prefix ns : str) (ov : bool) : mst * bool :=
  store_bind (set_caches s [] []) prefix ns ov.

Definition m_insert_trie (s : mst) (v : str) : mst := set_tries s (strie s) (insert_trie (trie_ s) v).

(* insert_strie(self.__strie, self.__trie, value) guarded by "if value not in self.__strie" *)
Definition m_insert_strie (s : mst) (v : str) : mst :=
  if memb str_eqb v (strie s) then s
  else set_tries s (strie s ++ [v]) (insert_trie (trie_ s) v).

Inductive exn := EKey | EValue | ELoop.   (* ELoop: not an exception - a while loop of the code would not end *)

Inductive numres := NAlready | NFresh (p : str) | NLoop.   (* NLoop: the while loop does not end *)

(* the "while 1" of NamespaceManager.bind; among |p2n|+1 candidates one is unbound *)
Fixpoint find_num (s : mst) (base ns : str) (fuel : nat) (num : N) : numres :=
  let np := base ++ dec num in
  match fuel with
  | O => NLoop
  | S f =>
      match dget (p2n s) np with
      | Some tn => if truthy tn && str_eqb ns tn then NAlready
                   else if negb (truthy tn) then NFresh np
                   else find_num s base ns f (N.succ num)
      | None => NFresh np
      end
  end.

(* the "while 1" of compute_qname: first ns{num} with "not self.store.namespace(prefix)".
   Among |p2n|+1 candidates one is unbound, so the fuel cannot run out; None stands for
   the loop not terminating. *)
Fixpoint find_ns (s : mst) (fuel : nat) (num : N) : option str :=
  let np := s_ns ++ dec num in
  match fuel with
  | O => None
  | S f => match dget (p2n s) np with
           | Some tn => if truthy tn then find_ns s f (N.succ num) else Some np
           | None => Some np
           end
  end.

Definition has_space (p : str) : bool := existsb (N.eqb 32) p.

(* NamespaceManager.bind; None = returned normally *)
Definition m_bind (s : mst) (prefix : option str) (ns : str) (ov rep : bool) : mst * option exn :=
  if match prefix with Some p => has_space p | None => false end then (s, Some EKey) else
  let prefix := odefault prefix [] in
  let finish := fun (r : mst * bool) =>
    if snd r then (m_insert_trie (fst r) ns, None) else (fst r, Some EKey) in
  let other := match dget (p2n s) prefix with
               | Some b => truthy b && negb (str_eqb b ns)
               | None => false
               end in
  if other then
    if rep then finish (m_store_bind s prefix ns ov)
    else
      let base := if truthy prefix then prefix else s_default in
      match find_num s base ns (S (length (p2n s))) 1 with
      | NAlready => (s, None)
      | NFresh np => finish (m_store_bind s np ns ov)
      | NLoop => (s, Some ELoop)
      end
  else
    match dget (n2p s) ns with
    | None => finish (m_store_bind s prefix ns ov)
    | Some bp =>
        if str_eqb bp prefix then finish (s, true)
        else if ov || starts_with bp [95%N] then finish (m_store_bind s prefix ns ov)
        else finish (s, true)
    end.

(* TurtleParser.parse (also N3, TriG): the prefix directives are collected in the dict
   p._bindings (a re-declared prefix keeps its place and takes the last namespace) and after the
   document has been read every entry is bound:  for prefix, namespace in p._bindings.items():
   graph.bind(prefix, namespace)   - override=True, replace=False.  An exception ends the loop. *)
Definition eff_decls (decls : list (str * str)) : list (str * str) :=
  fold_left (fun d e => dset d (fst e) (snd e)) decls [].
Fixpoint m_binds (s : mst) (l : list (str * str)) : mst * option exn :=
  match l with
  | [] => (s, None)
  | (p, n) :: r =>
      let x := m_bind s (Some p) n true false in
      match snd x with
      | Some e => (fst x, Some e)
      | None => m_binds (fst x) r
      end
  end.

Section Manager.
  (* split_uri(uri), split_uri(uri, NAME_START_CATEGORIES), is_ncname *)
  Variables (split split_s : str -> option (str * str)) (ncname : str -> bool).

  Definition set_cache (s : mst) (u : str) (q : qn) : mst := set_caches s (dset (cache s) u q) (cache_s s).
  Definition set_cache_s (s : mst) (u : str) (q : qn) : mst := set_caches s (cache s) (dset (cache_s s) u q).

  (* prefix is None: generate (or KeyError) and bind *)
  Definition m_generate (s : mst) (ns : str) (gen : bool) : mst * (str + exn) :=
    if negb gen then (s, inr EKey) else
    match find_ns s (S (length (p2n s))) 1 with
    | None => (s, inr ELoop)
    | Some p =>
        let r := m_bind s (Some p) ns true false in
        match snd r with Some x => (fst r, inr x) | None => (fst r, inl p) end
    end.

  (* prefix = self.store.prefix(namespace); if prefix is None: ... *)
  Definition m_prefix_for (s : mst) (ns : str) (gen : bool) : mst * (str + exn) :=
    match dget (n2p s) ns with
    | Some p => (s, inl p)
    | None => m_generate s ns gen
    end.

  (* namespace, name = split_uri(uri), or the whole IRI when it cannot be split and has a
     (truthy) prefix *)
  Definition split_or_whole (s : mst) (u : str) : option (str * str) :=
    match split u with
    | Some x => Some x
    | None => match dget (n2p s) u with
              | Some p => if truthy p then Some (u, []) else None
              | None => None
              end
    end.

  (* if self.__strie[namespace]: pl_namespace = get_longest_namespace(...) *)
  Definition pick_ns (s : mst) (ns0 nm0 u : str) : str * str :=
    let sub := match find_sub (trie_ s) ns0 with Some t => t | None => T [] end in
    match kids_of sub with
    | [] => (ns0, nm0)
    | _ => match gln sub u with
           | Some pl => (pl, skipn (length pl) u)
           | None => (ns0, nm0)
           end
    end.

  Definition m_compute (s : mst) (u : str) (gen : bool) : mst * (qn + exn) :=
    match dget (cache s) u with
    | Some q => (s, inl q)
    | None =>
        if negb (valid_uri u) then (s, inr EValue) else
        match split_or_whole s u with
        | None => (s, inr EValue)
        | Some (ns0, nm0) =>
            let s1 := m_insert_strie s ns0 in
            let nn := pick_ns s1 ns0 nm0 u in
            let r := m_prefix_for s1 (fst nn) gen in
            match snd r with
            | inr e => (fst r, inr e)
            | inl p => (set_cache (fst r) u (p, fst nn, snd nn), inl (p, fst nn, snd nn))
            end
        end
    end.

  Definition m_compute_strict (s : mst) (u : str) (gen : bool) : mst * (qn + exn) :=
    let r := m_compute s u gen in
    match snd r with
    | inr e => (fst r, inr e)
    | inl q =>
        if ncname (snd q) then (fst r, inl q) else
        match dget (cache_s (fst r)) u with
        | Some q' => (fst r, inl q')
        | None =>
            match split_s u with
            | None => (fst r, inr EValue)
            | Some (ns', nm') =>
                let s2 := m_insert_strie (fst r) ns' in
                let r' := m_prefix_for s2 ns' gen in
                match snd r' with
                | inr e => (fst r', inr e)
                | inl p' => (set_cache_s (fst r') u (p', ns', nm'), inl (p', ns', nm'))
                end
            end
        end
    end.

  (* ":".join((prefix, name)) *)
  Definition join_colon (p nm : str) : str := p ++ colon :: nm.
  Definition qname_str (q : qn) : str :=
    let '(p, _, nm) := q in match p with [] => nm | _ => join_colon p nm end.
  Definition curie_str (q : qn) : str := let '(p, _, nm) := q in join_colon p nm.

  (* curie.split(":", 1) *)
  Fixpoint split_colon (c : str) : option (str * str) :=
    match c with
    | [] => None
    | x :: r => if N.eqb x colon then Some ([], r)
                else match split_colon r with Some (a, b) => Some (x :: a, b) | None => None end
    end.

  Definition m_expand (s : mst) (c : str) : str + exn :=
    match split_colon c with
    | None => inr EValue
    | Some (pre, rest) => match dget (p2n s) pre with Some ns => inl (ns ++ rest) | None => inr EValue end
    end.

  Definition angle (u : str) : str := 60%N :: u ++ [62%N].

  (* normalizeUri on a URIRef: inl = "<u>", inr = the compute_qname it delegates to *)
  Definition m_normalize (s : mst) (u : str) : mst * (str + (qn + exn)) :=
    match split u with
    | None => (s, inl (angle u))
    | Some (ns, _) =>
        let s1 := m_insert_strie s ns in
        match dget (n2p s1) ns with
        | None => (s1, inl (angle u))
        | Some _ => let r := m_compute s1 u true in (fst r, inr (snd r))
        end
    end.

  (* reset(): __cache_strict is not touched *)
  Definition m_reset (s : mst) : mst :=
    set_tries (set_caches s [] (cache_s s)) []
              (fold_left (fun t e => insert_trie t (snd e)) (p2n s) (T [])).

  (* ---------------------------------------------------------------- *)
  (* is the cached answer still right about the store?  (only another NamespaceManager on
     the same store can make it wrong) *)
  Definition boundb (s : mst) (q : qn) : bool :=
    opt_eqb str_eqb (dget (p2n s) (fst (fst q))) (Some (snd (fst q))).
  Definition cache_okb (s : mst) (u : str) : bool :=
    match dget (cache s) u with Some q => boundb s q | None => true end.
  Definition cache_s_okb (s : mst) (u : str) : bool :=
    match dget (cache_s s) u with Some q => boundb s q | None => true end.

  Inductive op :=
  | OBind (p : option str) (n : str) (ov rep : bool)
  | OQname (u : str)
  | OCurie (u : str) (gen : bool)
  | OCompute (u : str) (gen : bool)
  | OStrict (u : str) (gen : bool)
  | ONorm (u : str)
  | OExpand (c : str)
  | OReset
  | OParse (decls : list (str * str))   (* parse of a Turtle/N3/TriG document with these prefix directives *)
  | OOther.     (* an operation outside the model (serialize, add, other parsers); conformance runs only *)

  Inductive res :=
  | RUnit
  | RExn (e : exn)
  | RQ (s : str) (q : qn) (e : option str)  (* rendered string, the (prefix, namespace, name) behind it,
                                               expand_curie of the rendered string (None = raised) *)
  | RT (q : qn)
  | RS (s : str).

  Definition oexp (s : mst) (c : str) : option str :=
    match m_expand s c with inl x => Some x | inr _ => None end.

  Definition m_step (s : mst) (o : op) : mst * res :=
    match o with
    | OBind p n ov rep =>
        let '(s', e) := m_bind s p n ov rep in
        (s', match e with Some x => RExn x | None => RUnit end)
    | OQname u =>
        match m_compute s u true with
        | (s', inl q) => (s', RQ (qname_str q) q (oexp s' (qname_str q)))
        | (s', inr e) => (s', RExn e)
        end
    | OCurie u gen =>
        match m_compute s u gen with
        | (s', inl q) => (s', RQ (curie_str q) q (oexp s' (curie_str q)))
        | (s', inr e) => (s', RExn e)
        end
    | OCompute u gen =>
        match m_compute s u gen with
        | (s', inl q) => (s', RT q)
        | (s', inr e) => (s', RExn e)
        end
    | OStrict u gen =>
        match m_compute_strict s u gen with
        | (s', inl q) => (s', RT q)
        | (s', inr e) => (s', RExn e)
        end
    | ONorm u =>
        match m_normalize s u with
        | (s', inl x) => (s', RS x)
        | (s', inr (inl q)) => (s', RQ (curie_str q) q (oexp s' (curie_str q)))
        | (s', inr (inr e)) => (s', RExn e)
        end
    | OExpand c =>
        (s, match m_expand s c with inl x => RS x | inr e => RExn e end)
    | OReset => (m_reset s, RUnit)
    | OParse decls =>
        let x := m_binds s (eff_decls decls) in
        (fst x, match snd x with Some e => RExn e | None => RUnit end)
    | OOther => (s, RUnit)
    end.

  (* no cache entry that this operation answers from is stale *)
  Definition op_hits_ok (s : mst) (o : op) : bool :=
    match o with
    | OQname u | OCurie u _ | OCompute u _ => cache_okb s u
    | OStrict u gen =>
        cache_okb s u &&
        (let r := m_compute s u gen in
         match snd r with
         | inl q => if ncname (snd q) then true else cache_s_okb (fst r) u
         | inr _ => true
         end)
    | ONorm u =>
        match split u with
        | None => true
        | Some (ns, _) => match dget (n2p s) ns with None => true | Some _ => cache_okb s u end
        end
    | _ => true
    end.

  (* what is observed after every operation *)
  Record snap := {
    s_res : res;
    s_list : list (str * str);   (* list(store.namespaces()) *)
    s_rev : list (str * str);    (* the namespace -> prefix dictionary *)
    s_api : bool                 (* store.namespace(p) / store.prefix(n) agree with the two listings *)
  }.

  Definition snap_of (s : mst) (r : res) : snap :=
    {| s_res := r; s_list := p2n s; s_rev := n2p s; s_api := true |}.

  Fixpoint m_run (s : mst) (ops : list op) : list snap :=
    match ops with
    | [] => []
    | o :: r => let '(s', x) := m_step s o in snap_of s' x :: m_run s' r
    end.

  Fixpoint m_final (s : mst) (ops : list op) : mst :=
    match ops with
    | [] => s
    | o :: r => m_final (fst (m_step s o)) r
    end.
End Manager.

(* ------------------------------------------------------------------ *)
(* equality of observations *)
Definition qn_eqb (a b : qn) : bool :=
  let '(a1, a2, a3) := a in let '(b1, b2, b3) := b in
  str_eqb a1 b1 && str_eqb a2 b2 && str_eqb a3 b3.
Definition exn_eqb (a b : exn) : bool :=
  match a, b with EKey, EKey | EValue, EValue | ELoop, ELoop => true | _, _ => false end.
Definition res_eqb (a b : res) : bool :=
  match a, b with
  | RUnit, RUnit => true
  | RExn x, RExn y => exn_eqb x y
  | RQ s q e, RQ s' q' e' => str_eqb s s' && qn_eqb q q' && opt_eqb str_eqb e e'
  | RT q, RT q' => qn_eqb q q'
  | RS s, RS s' => str_eqb s s'
  | _, _ => false
  end.
Definition pairs_eqb : list (str * str) -> list (str * str) -> bool :=
  list_eqb (pair_eqb str_eqb str_eqb).
Definition snap_eqb (a b : snap) : bool :=
  res_eqb (s_res a) (s_res b) && pairs_eqb (s_list a) (s_list b)
  && pairs_eqb (s_rev a) (s_rev b) && Bool.eqb (s_api a) (s_api b).

(* ------------------------------------------------------------------ *)
(* Specification: a checker over what was observed after one operation.
   It speaks about the two listings as finite maps and about the strings
   returned; it never looks at the model's state. *)

(* prefix <-> namespace: each prefix once, each namespace once, both lookups agree *)
Definition bij_ok (l r : list (str * str)) : bool :=
  nodupb str_eqb (map fst l) && nodupb str_eqb (map snd l) && nodupb str_eqb (map fst r)
  && forallb (fun e => opt_eqb str_eqb (dget r (snd e)) (Some (fst e))) l
  && forallb (fun e => opt_eqb str_eqb (dget l (snd e)) (Some (fst e))) r.

(* the (prefix, namespace, name) answer for IRI u: prefix bound to namespace now, and
   namespace ++ name = u *)
Definition qn_ok (l : list (str * str)) (u : str) (q : qn) : bool :=
  let '(p, ns, nm) := q in
  opt_eqb str_eqb (dget l p) (Some ns) && str_eqb (ns ++ nm) u.

Definition has_colon (p : str) : bool := existsb (N.eqb colon) p.

(* expand_curie of the rendered string gives the IRI back (when the prefix itself
   has no colon; a bare local name - qname with the empty prefix - is not a CURIE) *)
Definition exp_ok (is_qname : bool) (u : str) (q : qn) (e : option str) : bool :=
  let '(p, _, _) := q in
  if has_colon p then true
  else if is_qname && negb (truthy p) then true
  else opt_eqb str_eqb e (Some u).

Definition expand_ok (l : list (str * str)) (c r : str) : bool :=
  match split_colon c with
  | Some (pre, rest) => match dget l pre with Some ns => str_eqb r (ns ++ rest) | None => false end
  | None => false
  end.

Definition res_ok (l : list (str * str)) (o : op) (r : res) : bool :=
  match o, r with
  | OBind p _ _ _, RUnit => true
  | OBind p _ _ _, RExn EKey => match p with Some x => has_space x | None => false end
  | OQname u, RQ s q e => str_eqb s (qname_str q) && qn_ok l u q && exp_ok true u q e
  | OCurie u _, RQ s q e => str_eqb s (curie_str q) && qn_ok l u q && exp_ok false u q e
  | ONorm u, RQ s q e => str_eqb s (curie_str q) && qn_ok l u q && exp_ok false u q e
  | ONorm u, RS s => str_eqb s (angle u)
  | OCompute u _, RT q => qn_ok l u q
  | OStrict u _, RT q => qn_ok l u q
  | OExpand c, RS s => expand_ok l c s
  | OReset, RUnit => true
  | OParse _, RUnit => true
  | OParse d, RExn EKey => existsb (fun e => has_space (fst e)) (eff_decls d)
  | OParse _, _ => false
  | OOther, _ => true
  | OBind _ _ _ _, _ => false
  | OReset, _ => false
  | _, RExn _ => true          (* ValueError (cannot be split / invalid) or KeyError (generate=False) *)
  | _, _ => false
  end.

Definition snap_ok (o : op) (x : snap) : bool :=
  bij_ok (s_list x) (s_rev x) && s_api x && res_ok (s_list x) o (s_res x).

(* When may an operation raise, and what?  (Judged on the listings observed after the step; an
   operation that raises leaves the bindings as they were.)
   ValueError: the IRI has a character URIRef warns about, or it cannot be split and is not
               itself a namespace with a non-empty prefix; compute_qname_strict also when the strict
               split fails; expand_curie when there is no colon or the prefix is not bound.
   KeyError:   only with generate=False (no prefix for the namespace chosen).
   ELoop is not an exception at all (a while loop of the code not ending): never accepted. *)
Definition sp_exists (sp : str -> option (str * str)) (r : list (str * str)) (u : str) : bool :=
  match sp u with
  | Some _ => true
  | None => match dget r u with Some p => truthy p | None => false end
  end.
Definition compute_exn_ok (sp : str -> option (str * str)) (r : list (str * str)) (u : str) (gen : bool)
                          (e : exn) : bool :=
  match e with
  | EValue => negb (valid_uri u) || negb (sp_exists sp r u)
  | EKey => negb gen && valid_uri u && sp_exists sp r u
  | ELoop => false
  end.
Definition is_none {A} (x : option A) : bool := match x with None => true | Some _ => false end.
Definition exn_ok (sp sps : str -> option (str * str)) (l r : list (str * str)) (o : op) (x : res) : bool :=
  match x with
  | RExn e =>
      match o with
      | OQname u => compute_exn_ok sp r u true e
      | OCurie u g | OCompute u g => compute_exn_ok sp r u g e
      | OStrict u g => compute_exn_ok sp r u g e || (exn_eqb e EValue && is_none (sps u))
                       || (exn_eqb e EKey && negb g)
      | ONorm u => exn_eqb e EValue && negb (valid_uri u)
      | OExpand c => exn_eqb e EValue &&
                     match split_colon c with None => true | Some (pre, _) => is_none (dget l pre) end
      | OBind _ _ _ _ | OReset | OParse _ => true      (* judged by res_ok *)
      | OOther => negb (exn_eqb e ELoop)
      end
  | _ => true
  end.

Definition snap_ok2 (sp sps : str -> option (str * str)) (o : op) (x : snap) : bool :=
  snap_ok o x && exn_ok sp sps (s_list x) (s_rev x) o (s_res x).

Fixpoint all_ok (sp sps : str -> option (str * str)) (ops : list op) (obs : list snap) : bool :=
  match ops, obs with
  | [], [] => true
  | o :: r, x :: xs => snap_ok2 sp sps o x && all_ok sp sps r xs
  | _, _ => false
  end.

(* ------------------------------------------------------------------ *)
(* Entry points of the correspondence check *)
(* c_tag: 0, or (conformance runs) 1 = the history goes through ConjunctiveGraph.default_context
   (finding F6e) *)
Record case := { c_cats : cattab; c_ops : list op; c_tag : N }.

Definition c_split (c : case) := split_uri (cat_of (c_cats c)) false.
Definition c_split_s (c : case) := split_uri (cat_of (c_cats c)) true.
Definition c_ncname (c : case) := is_ncname (cat_of (c_cats c)).

Definition obs := list snap.
Definition obs_eqb : obs -> obs -> bool := list_eqb snap_eqb.

Definition model_obs (c : case) : obs :=
  m_run (c_split c) (c_split_s c) (c_ncname c) m_init (c_ops c).
Definition model_final (c : case) : mst :=
  m_final (c_split c) (c_split_s c) (c_ncname c) m_init (c_ops c).

Definition spec_ok (c : case) (o : obs) : bool := all_ok (c_split c) (c_split_s c) (c_ops c) o.

(* conformance runs (default bindings, parse, serialize): there is no model of these
   operations; the per-step checker alone is applied to what rdflib shows.  To keep the
   generated files small the observation carries a string table and refers to it by index. *)
Inductive ires :=
| IUnit | IExn (e : exn) | IQ (s p ns nm : N) (e : option N) | IT (p ns nm : N) | IS (s : N).
Record isnap := { i_res : ires; i_list : list (N * N); i_rev : list (N * N); i_api : bool }.
Definition cobs := (list str * list isnap)%type.

Definition tab_get (t : list str) (i : N) : str := nth (N.to_nat i) t [].
Definition dec_res (t : list str) (r : ires) : res :=
  match r with
  | IUnit => RUnit
  | IExn e => RExn e
  | IQ s p ns nm e => RQ (tab_get t s) (tab_get t p, tab_get t ns, tab_get t nm)
                         (match e with Some i => Some (tab_get t i) | None => None end)
  | IT p ns nm => RT (tab_get t p, tab_get t ns, tab_get t nm)
  | IS s => RS (tab_get t s)
  end.
Definition dec_pairs (t : list str) (l : list (N * N)) : list (str * str) :=
  map (fun e => (tab_get t (fst e), tab_get t (snd e))) l.
Definition dec_snap (t : list str) (x : isnap) : snap :=
  {| s_res := dec_res t (i_res x); s_list := dec_pairs t (i_list x);
     s_rev := dec_pairs t (i_rev x); s_api := i_api x |}.

Definition conf_model (c : case) : cobs := ([], []).
Definition conf_eqb (a b : cobs) : bool := true.
Definition conf_spec (c : case) (o : cobs) : bool :=
  all_ok (c_split c) (c_split_s c) (c_ops c) (map (dec_snap (fst o)) (snd o)).

(* The model-backed suites hand the implementation's observation over in the packed form
   as well; the model's is plain.  Both are compared and checked after decoding. *)
(* delta form: a snapshot whose two listings are those of the previous snapshot says so *)
Record jsnap := { j_res : ires; j_lists : option (list (N * N) * list (N * N)); j_api : bool }.
Fixpoint dec_j (t : list str) (prev : list (str * str) * list (str * str)) (l : list jsnap) : list snap :=
  match l with
  | [] => []
  | x :: r =>
      let cur := match j_lists x with
                 | Some (a, b) => (dec_pairs t a, dec_pairs t b)
                 | None => prev
                 end in
      {| s_res := dec_res t (j_res x); s_list := fst cur; s_rev := snd cur; s_api := j_api x |}
      :: dec_j t cur r
  end.

Inductive dobs := Plain (o : obs) | Packed (t : list str) (l : list isnap) | PackedD (t : list str) (l : list jsnap)
               | NoModel.   (* what the model-less suites put in the model's place; never an observation *)
Definition dec_d (d : dobs) : obs :=
  match d with Plain o => o | Packed t l => map (dec_snap t) l | PackedD t l => dec_j t ([], []) l | NoModel => [] end.
Definition d_model (c : case) : dobs := Plain (model_obs c).
Definition d_eqb (a b : dobs) : bool := obs_eqb (dec_d a) (dec_d b).
Definition d_spec (c : case) (o : dobs) : bool := spec_ok c (dec_d o).

(* F6e region (conformance runs over a Dataset / ConjunctiveGraph) *)
Definition conf_kf (c : case) : N := if N.eqb (c_tag c) 1 then 4%N else 0%N.

(* ------------------------------------------------------------------ *)
(* Several NamespaceManagers over one store: the dataset's manager, the manager
   ConjunctiveGraph.default_context builds for itself (finding F6e), a user's second Graph on
   the same store.  Each manager has its own caches and tries; the two store dictionaries are
   shared.  An operation goes through one manager. *)
Record mgr := { g_cache : dict qn; g_cache_s : dict qn; g_strie : list str; g_trie : trie }.
Record world := { w_p2n : dict str; w_n2p : dict str; w_mgrs : list mgr }.

Definition g_empty : mgr := {| g_cache := []; g_cache_s := []; g_strie := []; g_trie := T [] |}.
Definition w_init : world := {| w_p2n := []; w_n2p := []; w_mgrs := [] |}.

Definition assemble (w : world) (g : mgr) : mst :=
  {| p2n := w_p2n w; n2p := w_n2p w; cache := g_cache g; cache_s := g_cache_s g;
     strie := g_strie g; trie_ := g_trie g |}.
Definition mgr_of (s : mst) : mgr :=
  {| g_cache := cache s; g_cache_s := cache_s s; g_strie := strie s; g_trie := trie_ s |}.

Fixpoint set_nth {A} (l : list A) (i : nat) (x : A) : list A :=
  match l, i with
  | [], _ => []
  | _ :: r, O => x :: r
  | y :: r, S j => y :: set_nth r j x
  end.

Inductive wop :=
| WOp (i : N) (o : op)                  (* operation o through manager number i *)
| WNew (binds : list (str * str)).      (* NamespaceManager(graph, bind_namespaces): a new manager that
                                           binds its stock prefixes, each with self.bind(prefix, ns) *)

Definition wop_op (x : wop) : op := match x with WOp _ o => o | WNew _ => OOther end.

Section World.
  Variables (split split_s : str -> option (str * str)) (ncname : str -> bool).

  Definition w_step (w : world) (x : wop) : world * res :=
    match x with
    | WOp i o =>
        match nth_error (w_mgrs w) (N.to_nat i) with
        | None => (w, RUnit)
        | Some g =>
            let r := m_step split split_s ncname (assemble w g) o in
            ({| w_p2n := p2n (fst r); w_n2p := n2p (fst r);
                w_mgrs := set_nth (w_mgrs w) (N.to_nat i) (mgr_of (fst r)) |}, snd r)
        end
    | WNew binds =>
        let s := fold_left (fun s e => fst (m_bind s (Some (fst e)) (snd e) true false)) binds
                           (assemble w g_empty) in
        ({| w_p2n := p2n s; w_n2p := n2p s; w_mgrs := w_mgrs w ++ [mgr_of s] |}, RUnit)
    end.

  Definition w_snap (w : world) (r : res) : snap :=
    {| s_res := r; s_list := w_p2n w; s_rev := w_n2p w; s_api := true |}.

  Fixpoint w_run (w : world) (ops : list wop) : list snap :=
    match ops with
    | [] => []
    | x :: r => let y := w_step w x in w_snap (fst y) (snd y) :: w_run (fst y) r
    end.

  (* does this step answer from a cache entry that another manager's bind has made stale? *)
  Definition w_hits_ok (w : world) (x : wop) : bool :=
    match x with
    | WOp i o => match nth_error (w_mgrs w) (N.to_nat i) with
                 | Some g => op_hits_ok split ncname (assemble w g) o
                 | None => true
                 end
    | WNew _ => true
    end.

  Fixpoint w_stale (w : world) (ops : list wop) : bool :=
    match ops with
    | [] => false
    | x :: r => negb (w_hits_ok w x) || w_stale (fst (w_step w x)) r
    end.

  Fixpoint w_final (w : world) (ops : list wop) : world :=
    match ops with [] => w | x :: r => w_final (fst (w_step w x)) r end.
End World.

(* every operation goes through a manager that exists at that point *)
Fixpoint wf_from (n : nat) (ops : list wop) : bool :=
  match ops with
  | [] => true
  | WOp i _ :: r => Nat.ltb (N.to_nat i) n && wf_from n r
  | WNew _ :: r => wf_from (S n) r
  end.

Record wcase := { wc_cats : cattab; wc_ops : list wop }.
Definition wc_wf (c : wcase) : bool := wf_from 0 (wc_ops c).
Definition wc_split (c : wcase) := split_uri (cat_of (wc_cats c)) false.
Definition wc_split_s (c : wcase) := split_uri (cat_of (wc_cats c)) true.
Definition wc_ncname (c : wcase) := is_ncname (cat_of (wc_cats c)).

Definition w_model_obs (c : wcase) : obs :=
  w_run (wc_split c) (wc_split_s c) (wc_ncname c) w_init (wc_ops c).
Definition w_spec_ok (c : wcase) (o : obs) : bool := all_ok (wc_split c) (wc_split_s c) (map wop_op (wc_ops c)) o.
Definition wd_model (c : wcase) : dobs := Plain (w_model_obs c).
Definition wd_spec (c : wcase) (o : dobs) : bool := w_spec_ok c (dec_d o).
(* trigger of finding F6e, as narrow as it gets: some operation answered from a cache entry
   whose prefix another manager has unbound or rebound meanwhile *)
Definition w_kf (c : wcase) : N :=
  if w_stale (wc_split c) (wc_split_s c) (wc_ncname c) w_init (wc_ops c) then 5%N else 0%N.

(* the conformance suites in the delta form *)
(* an empty observation is accepted only for an empty history; [NoModel] is the token that
   stands where a model-backed suite has its model's observation (bit 8 of the check code) *)
Definition confd_model (c : case) : dobs := NoModel.
Definition confd_eqb (a b : dobs) : bool := true.
Definition confd_spec (c : case) (o : dobs) : bool :=
  match o with NoModel => true | _ => spec_ok c (dec_d o) end.

(* Suite nsdsconform, histories that go through ConjunctiveGraph.default_context (finding F6e,
   demonstrated with its precise trigger by suite nsworld): nothing is waived except the one
   thing F6e can break - "the prefix answered is bound now".  The bijection, the API
   agreement, the rendering, namespace ++ name = IRI and the exception discipline are still
   demanded. *)
Definition qn_exp_ok (u : str) (q : qn) : bool := let '(_, ns, nm) := q in str_eqb (ns ++ nm) u.
Definition res_ok_w (l : list (str * str)) (o : op) (r : res) : bool :=
  match o, r with
  | OQname u, RQ s q _ => str_eqb s (qname_str q) && qn_exp_ok u q
  | OCurie u _, RQ s q _ | ONorm u, RQ s q _ => str_eqb s (curie_str q) && qn_exp_ok u q
  | OCompute u _, RT q | OStrict u _, RT q => qn_exp_ok u q
  | _, _ => res_ok l o r
  end.
Definition snap_ok_w (sp sps : str -> option (str * str)) (o : op) (x : snap) : bool :=
  bij_ok (s_list x) (s_rev x) && s_api x && res_ok_w (s_list x) o (s_res x)
  && exn_ok sp sps (s_list x) (s_rev x) o (s_res x).
Fixpoint all_ok_w (sp sps : str -> option (str * str)) (ops : list op) (obs : list snap) : bool :=
  match ops, obs with
  | [], [] => true
  | o :: r, x :: xs => snap_ok_w sp sps o x && all_ok_w sp sps r xs
  | _, _ => false
  end.
Definition confd_spec_t (c : case) (o : dobs) : bool :=
  match o with
  | NoModel => true
  | _ => if N.eqb (c_tag c) 1 then all_ok_w (c_split c) (c_split_s c) (c_ops c) (dec_d o)
         else spec_ok c (dec_d o)
  end.
