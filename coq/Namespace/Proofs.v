(* Invariants of the NamespaceManager model: the store
   dictionaries stay mutually inverse and every cached / returned
   (prefix, namespace, name) names a prefix bound to that namespace now and
   concatenates back to the IRI. *)
From RV Require Import Namespace.Model Namespace.Dict Namespace.StoreInv.
From Coq Require Import DecimalN.

Definition exact (f : str -> option (str * str)) (u : str) : Prop :=
  forall ns ln, f u = Some (ns, ln) -> ns ++ ln = u.

(* the answer q for IRI u is right in state s (X: what is known about the splitter on u) *)
Definition qg (s : mst) (u : str) (X : Prop) (q : qn) : Prop :=
  dget (p2n s) (fst (fst q)) = Some (snd (fst q)) /\ (X -> snd (fst q) ++ snd q = u).

(* ---------------------------------------------------------------- *)
(* small facts *)
Lemma has_space_uint d : has_space (uint_str d) = false.
Proof. induction d; simpl; auto. Qed.

Lemma has_space_ns num : has_space (s_ns ++ dec num) = false.
Proof. unfold has_space. rewrite existsb_app. simpl. apply has_space_uint. Qed.

(* "%s" % num is injective *)
Lemma uint_str_inj : forall d1 d2, uint_str d1 = uint_str d2 -> d1 = d2.
Proof.
  induction d1; destruct d2; cbn [uint_str]; intros H; try discriminate; try reflexivity;
    inversion H; f_equal; auto.
Qed.

Lemma dec_inj a b : dec a = dec b -> a = b.
Proof.
  unfold dec. intros H. apply uint_str_inj in H.
  rewrite <- (DecimalN.Unsigned.of_to a), <- (DecimalN.Unsigned.of_to b). now rewrite H.
Qed.

(* pigeonhole: n distinct strings that are all keys of a dictionary with fewer entries *)
Lemma NoDup_map_seq (f : nat -> str) : forall n a,
  (forall i j, a <= i < a + n -> a <= j < a + n -> f i = f j -> i = j) -> NoDup (map f (seq a n)).
Proof.
  induction n as [|n IH]; intros a H; cbn [seq map]; constructor.
  - intros X. apply in_map_iff in X. destruct X as (j & E & Hj). apply in_seq in Hj.
    assert (j = a) by (apply H; auto; lia). lia.
  - apply IH. intros i j Hi Hj. apply H; lia.
Qed.

Lemma pigeon {V} (d : dict V) (f : nat -> str) n :
  (forall i j, i < n -> j < n -> f i = f j -> i = j) ->
  (forall i, i < n -> dmem d (f i) = true) -> n <= length d.
Proof.
  intros Hinj Hin.
  assert (N : NoDup (map f (seq 0 n))) by (apply NoDup_map_seq; intros; apply Hinj; auto; lia).
  assert (I : incl (map f (seq 0 n)) (map fst d)).
  { intros x X. apply in_map_iff in X. destruct X as (i & <- & Hi). apply in_seq in Hi.
    specialize (Hin i ltac:(lia)). unfold dmem in Hin. destruct (dget d (f i)) eqn:E; [|discriminate].
    apply dget_In in E. now apply (in_map fst) in E. }
  pose proof (NoDup_incl_length N I) as L. now rewrite !map_length, seq_length in L.
Qed.

Lemma numbered_inj base num i j : base ++ dec (num + N.of_nat i) = base ++ dec (num + N.of_nat j) -> i = j.
Proof. intros H. apply app_inv_head in H. apply dec_inj in H. lia. Qed.

(* the "while 1" of compute_qname ends within |bindings|+1 rounds *)
Lemma find_ns_all s : forall fuel num, find_ns s fuel num = None ->
  forall i, i < fuel -> dmem (p2n s) (s_ns ++ dec (num + N.of_nat i)) = true.
Proof.
  induction fuel as [|f IH]; intros num H i Hi; [lia|]. cbn [find_ns] in H.
  destruct (dget (p2n s) (s_ns ++ dec num)) as [tn|] eqn:E; [|discriminate].
  destruct (truthy tn); [|discriminate].
  destruct i as [|i].
  - replace (num + N.of_nat 0)%N with num by lia. unfold dmem. now rewrite E.
  - replace (num + N.of_nat (S i))%N with (N.succ num + N.of_nat i)%N by lia. apply IH; auto. lia.
Qed.

Lemma find_ns_some s num : find_ns s (S (length (p2n s))) num <> None.
Proof.
  intros H. pose proof (find_ns_all s _ _ H) as A.
  pose proof (pigeon (p2n s) (fun i => s_ns ++ dec (num + N.of_nat i)) (S (length (p2n s)))
                (fun i j _ _ => numbered_inj s_ns num i j) A). lia.
Qed.

(* ... and so does the "while 1" of NamespaceManager.bind *)
Lemma find_num_all s base ns : forall fuel num, find_num s base ns fuel num = NLoop ->
  forall i, i < fuel -> dmem (p2n s) (base ++ dec (num + N.of_nat i)) = true.
Proof.
  induction fuel as [|f IH]; intros num H i Hi; [lia|]. cbn [find_num] in H.
  destruct (dget (p2n s) (base ++ dec num)) as [tn|] eqn:E; [|discriminate].
  destruct (truthy tn && str_eqb ns tn); [discriminate|].
  destruct (negb (truthy tn)); [discriminate|].
  destruct i as [|i].
  - replace (num + N.of_nat 0)%N with num by lia. unfold dmem. now rewrite E.
  - replace (num + N.of_nat (S i))%N with (N.succ num + N.of_nat i)%N by lia. apply IH; auto. lia.
Qed.

Lemma find_num_noloop s base ns num : find_num s base ns (S (length (p2n s))) num <> NLoop.
Proof.
  intros H. pose proof (find_num_all s base ns _ _ H) as A.
  pose proof (pigeon (p2n s) (fun i => base ++ dec (num + N.of_nat i)) (S (length (p2n s)))
                (fun i j _ _ => numbered_inj base num i j) A). lia.
Qed.

Lemma find_ns_free s : forall fuel num p,
  find_ns s fuel num = Some p ->
  has_space p = false /\ (dget (p2n s) p = None \/ exists b, dget (p2n s) p = Some b /\ truthy b = false).
Proof.
  induction fuel as [|f IH]; intros num p; cbn [find_ns]; [discriminate|].
  destruct (dget (p2n s) (s_ns ++ dec num)) as [tn|] eqn:E.
  - destruct (truthy tn) eqn:Et; [apply IH|].
    intros X; inversion X; subst. split; [apply has_space_ns|]. right. eauto.
  - intros X; inversion X; subst. split; [apply has_space_ns|]. now left.
Qed.

Lemma gln_prefix : forall t v k, gln t v = Some k -> starts_with v k = true.
Proof.
  fix IH 1. intros [kids] v. simpl.
  induction kids as [|[k0 sub] r IHr]; intros k; [discriminate|].
  destruct (starts_with v k0) eqn:E.
  - destruct (gln sub v) as [o|] eqn:Eg.
    + intros X; inversion X; subst. eapply IH; eauto.
    + intros X; inversion X; subst. exact E.
  - apply IHr.
Qed.

Lemma split_colon_join : forall p nm, has_colon p = false -> split_colon (p ++ colon :: nm) = Some (p, nm).
Proof.
  induction p as [|x p IH]; intros nm; cbn [app split_colon].
  - intros _. now rewrite N.eqb_refl.
  - unfold has_colon in *. cbn [existsb]. rewrite orb_false_iff. intros [H1 H2].
    rewrite N.eqb_sym, H1. now rewrite IH.
Qed.

(* ---------------------------------------------------------------- *)
Section Mgr.
  Variables (split split_s : str -> option (str * str)) (ncname : str -> bool).

  (* SB = true: one manager on the store, every cache entry is bound now.
     SB = false: other managers may bind on the same store; what survives is that every
     cache entry concatenates back to its IRI. *)
  Variable SB : bool.

  Definition qgB (s : mst) (u : str) (X : Prop) (q : qn) : Prop :=
    (SB = true -> dget (p2n s) (fst (fst q)) = Some (snd (fst q))) /\ (X -> snd (fst q) ++ snd q = u).

  Lemma qg_qgB s u X q : qg s u X q -> qgB s u X q.
  Proof. intros [A C]. split; auto. Qed.

  Definition cinv (s : mst) : Prop :=
    (forall u q, dget (cache s) u = Some q -> qgB s u (exact split u) q) /\
    (forall u q, dget (cache_s s) u = Some q -> qgB s u (exact split_s u) q).

  Definition good (s : mst) : Prop := bij s /\ cinv s.

  Lemma boundb_true s q : boundb s q = true -> dget (p2n s) (fst (fst q)) = Some (snd (fst q)).
  Proof.
    unfold boundb. destruct (@opt_eqb_spec _ _ str_eqb_spec (dget (p2n s) (fst (fst q))) (Some (snd (fst q)))); congruence.
  Qed.

  Lemma good_init : good m_init.
  Proof.
    split; [|split; intros u q; discriminate].
    split; [constructor|split; [constructor|]]. intros p n; simpl; split; discriminate.
  Qed.

  Lemma good_insert_strie s v : good s -> good (m_insert_strie s v).
  Proof. unfold m_insert_strie. destruct (memb str_eqb v (strie s)); auto. Qed.

  (* _store_bind *)
  Lemma m_store_bind_good s prefix ns ov :
    good s ->
    let r := m_store_bind s prefix ns ov in
    snd r = true /\ good (fst r) /\ (ov = true -> dget (p2n (fst r)) prefix = Some ns).
  Proof.
    intros [Hb _]. unfold m_store_bind.
    destruct (store_bind_good (set_caches s [] []) prefix ns ov Hb) as (H1 & H2 & H3).
    destruct (store_bind_frame (set_caches s [] []) prefix ns ov) as (F1 & F2 & _).
    split; [exact H1|]. split; [|exact H3].
    split; [exact H2|]. split; intros u q; [rewrite F1|rewrite F2]; discriminate.
  Qed.

  (* NamespaceManager.bind *)
  Definition bind_res_ok (prefix : option str) (e : option exn) : Prop :=
    e = None \/ (e = Some EKey /\ exists p, prefix = Some p /\ has_space p = true).

  Lemma m_bind_good s prefix ns ov rep :
    good s ->
    good (fst (m_bind s prefix ns ov rep)) /\ bind_res_ok prefix (snd (m_bind s prefix ns ov rep)).
  Proof.
    intros Hg. unfold m_bind.
    assert (F : forall r : mst * bool, snd r = true -> good (fst r) ->
      let x := (if snd r then (m_insert_trie (fst r) ns, None) else (fst r, Some EKey)) : mst * option exn in
      good (fst x) /\ bind_res_ok prefix (snd x)).
    { intros [r b]; simpl; intros -> H. split; [exact H|now left]. }
    assert (G : forall p,
      snd (m_store_bind s p ns ov) = true /\ good (fst (m_store_bind s p ns ov))).
    { intros p. destruct (m_store_bind_good s p ns ov Hg) as (H1 & H2 & _). auto. }
    destruct (match prefix with Some p => has_space p | None => false end) eqn:Esp.
    { split; [exact Hg|]. right. split; [reflexivity|].
      destruct prefix as [p|]; [eauto|discriminate]. }
    destruct (match dget (p2n s) (odefault prefix []) with Some b => truthy b && negb (str_eqb b ns) | None => false end).
    - destruct rep.
      + destruct (G (odefault prefix [])). now apply F.
      + destruct (find_num s _ ns _ 1) as [|np|] eqn:En.
        * split; [exact Hg|now left].
        * destruct (G np). now apply F.
        * now destruct (find_num_noloop _ _ _ _ En).
    - destruct (dget (n2p s) ns) as [bp|].
      + destruct (str_eqb bp (odefault prefix [])).
        * now apply F.
        * destruct (ov || starts_with bp [95%N]).
          { destruct (G (odefault prefix [])). now apply F. }
          { now apply F. }
      + destruct (G (odefault prefix [])). now apply F.
  Qed.

  (* the call compute_qname makes: fresh prefix, unbound namespace, override *)
  Lemma m_bind_generated s p ns :
    good s -> has_space p = false -> dget (n2p s) ns = None ->
    (dget (p2n s) p = None \/ exists b, dget (p2n s) p = Some b /\ truthy b = false) ->
    let r := m_bind s (Some p) ns true false in
    good (fst r) /\ snd r = None /\ dget (p2n (fst r)) p = Some ns.
  Proof.
    intros Hg Hsp Hn Hp. unfold m_bind. rewrite Hsp. cbn [odefault].
    assert (O : match dget (p2n s) p with Some b => truthy b && negb (str_eqb b ns) | None => false end = false).
    { destruct Hp as [->|(b & -> & ->)]; reflexivity. }
    rewrite O, Hn.
    destruct (m_store_bind_good s p ns true Hg) as (H1 & H2 & H3).
    destruct (m_store_bind s p ns true) as [s' ok]. simpl in *. subst ok. simpl.
    auto.
  Qed.

  (* the binds a Turtle parse makes *)
  Lemma m_binds_good l : forall s, good s ->
    good (fst (m_binds s l)) /\
    (snd (m_binds s l) = None \/
     (snd (m_binds s l) = Some EKey /\ existsb (fun e => has_space (fst e)) l = true)).
  Proof.
    induction l as [|[p n] r IH]; intros s Hg; cbn [m_binds].
    - cbn [fst snd]. auto.
    - destruct (m_bind_good s (Some p) n true false Hg) as [G R].
      destruct (snd (m_bind s (Some p) n true false)) as [e|] eqn:E; cbn [fst snd].
      + split; [exact G|]. right. destruct R as [R|(R & p0 & Ep & Hs)]; [discriminate|].
        inversion Ep; subst. split; [exact R|]. cbn [existsb fst]. now rewrite Hs.
      + destruct (IH _ G) as [G' R']. split; [exact G'|].
        destruct R' as [R'|[R1 R2]]; [now left|right]. split; [exact R1|].
        cbn [existsb fst]. rewrite R2. apply orb_true_r.
  Qed.

  Lemma m_generate_good s ns gen :
    good s -> dget (n2p s) ns = None ->
    let r := m_generate s ns gen in
    good (fst r) /\ (forall p, snd r = inl p -> dget (p2n (fst r)) p = Some ns).
  Proof.
    intros Hg Hn. unfold m_generate.
    destruct (negb gen); [simpl; split; [auto|discriminate]|].
    destruct (find_ns s (S (length (p2n s))) 1) as [p|] eqn:E;
      [|simpl; split; [auto|discriminate]].
    destruct (find_ns_free _ _ _ _ E) as [Hsp Hp].
    destruct (m_bind_generated s p ns Hg Hsp Hn Hp) as (H1 & H2 & H3).
    rewrite H2. simpl. split; [auto|]. intros p' X; inversion X; subst; auto.
  Qed.

  Lemma m_prefix_for_good s ns gen :
    good s ->
    let r := m_prefix_for s ns gen in
    good (fst r) /\ (forall p, snd r = inl p -> dget (p2n (fst r)) p = Some ns).
  Proof.
    intros Hg. unfold m_prefix_for. destruct (dget (n2p s) ns) as [p|] eqn:E.
    - simpl. split; [auto|]. intros p' X; inversion X; subst.
      destruct Hg as [(_ & _ & H) _]. now apply H.
    - now apply m_generate_good.
  Qed.

  Lemma good_set_cache s u q : good s -> qg s u (exact split u) q -> good (set_cache s u q).
  Proof.
    intros [Hb [C1 C2]] Hq. apply qg_qgB in Hq. split; [exact Hb|]. split; [|exact C2].
    intros u' q'. unfold set_cache; cbn [cache set_caches]. rewrite dget_dset.
    destruct (str_eqb_spec u' u) as [->|]; [intros X; inversion X; subst; exact Hq|apply C1].
  Qed.

  Lemma good_set_cache_s s u q : good s -> qg s u (exact split_s u) q -> good (set_cache_s s u q).
  Proof.
    intros [Hb [C1 C2]] Hq. apply qg_qgB in Hq. split; [exact Hb|]. split; [exact C1|].
    intros u' q'. unfold set_cache_s; cbn [cache_s set_caches]. rewrite dget_dset.
    destruct (str_eqb_spec u' u) as [->|]; [intros X; inversion X; subst; exact Hq|apply C2].
  Qed.

  Lemma split_or_whole_exact s u ns nm :
    split_or_whole split s u = Some (ns, nm) -> exact split u -> ns ++ nm = u.
  Proof.
    unfold split_or_whole. destruct (split u) as [[a b]|] eqn:E.
    - intros X Hx; inversion X; subst. now apply Hx.
    - destruct (dget (n2p s) u) as [p|]; [|discriminate]. destruct (truthy p); [|discriminate].
      intros X _; inversion X; subst. apply app_nil_r.
  Qed.

  Lemma pick_ns_exact s ns0 nm0 u :
    ns0 ++ nm0 = u -> fst (pick_ns s ns0 nm0 u) ++ snd (pick_ns s ns0 nm0 u) = u.
  Proof.
    intros H. unfold pick_ns.
    destruct (kids_of _); [exact H|].
    destruct (gln _ u) as [pl|] eqn:E; [|exact H].
    simpl. apply starts_with_app. eapply gln_prefix; eauto.
  Qed.

  (* compute_qname *)
  Lemma m_compute_good s u gen :
    good s ->
    let r := m_compute split s u gen in
    good (fst r) /\
    (SB = true \/ cache_okb s u = true -> forall q, snd r = inl q -> qg (fst r) u (exact split u) q).
  Proof.
    intros Hg. unfold m_compute. unfold cache_okb.
    destruct (dget (cache s) u) as [q|] eqn:Ec.
    { simpl. split; [auto|]. intros Hh q' X; inversion X; subst.
      destruct Hg as [_ [C _]]. destruct (C _ _ Ec) as [A1 A2]. split; [|exact A2].
      destruct Hh as [Hh|Hh]; [auto|now apply boundb_true]. }
    destruct (negb (valid_uri u)); [simpl; split; [auto|intros _ q; discriminate]|].
    destruct (split_or_whole split s u) as [[ns0 nm0]|] eqn:Es;
      [|simpl; split; [auto|intros _ q; discriminate]].
    set (s1 := m_insert_strie s ns0).
    assert (Hg1 : good s1) by now apply good_insert_strie.
    set (nn := pick_ns s1 ns0 nm0 u).
    destruct (m_prefix_for_good s1 (fst nn) gen Hg1) as (H1 & H3).
    destruct (m_prefix_for s1 (fst nn) gen) as [s2 [p|e]]; cbn [fst snd] in *.
    - assert (Hq : qg s2 u (exact split u) (p, fst nn, snd nn)).
      { split; cbn [fst snd]; [now apply H3|]. intros Hx. apply pick_ns_exact.
        eapply split_or_whole_exact; eauto. }
      split; [now apply good_set_cache|].
      intros _ q X; inversion X; subst. exact Hq.
    - split; [auto|intros _ q; discriminate].
  Qed.

  (* compute_qname_strict *)
  Lemma m_compute_strict_good s u gen :
    good s ->
    let r := m_compute_strict split split_s ncname s u gen in
    good (fst r) /\
    (SB = true \/ op_hits_ok split ncname s (OStrict u gen) = true ->
     forall q, snd r = inl q -> qg (fst r) u (exact split u /\ exact split_s u) q).
  Proof.
    intros Hg. unfold m_compute_strict. cbn [op_hits_ok].
    destruct (m_compute_good s u gen Hg) as (H1 & H3).
    destruct (m_compute split s u gen) as [s1 [q|e]]; cbn [fst snd] in *;
      [|split; [auto|intros _ q; discriminate]].
    destruct (ncname (snd q)).
    { cbn [fst snd]. split; [auto|]. intros Hh q' X; inversion X; subst.
      assert (Hh1 : SB = true \/ cache_okb s u = true).
      { destruct Hh as [Hh|Hh]; [now left|right]. now apply andb_true_iff in Hh. }
      destruct (H3 Hh1 _ eq_refl) as [A B]. split; [exact A|]. intros [Hx _]; auto. }
    unfold cache_s_okb.
    destruct (dget (cache_s s1) u) as [q'|] eqn:Ec.
    { cbn [fst snd]. split; [auto|]. intros Hh q'' X; inversion X; subst.
      destruct H1 as [_ [_ C]]. destruct (C _ _ Ec) as [A B]. split; [|intros [_ Hx]; auto].
      destruct Hh as [Hh|Hh]; [auto|]. apply andb_true_iff in Hh. now apply boundb_true. }
    destruct (split_s u) as [[ns' nm']|] eqn:Es; [|cbn [fst snd]; split; [auto|intros _ q0; discriminate]].
    set (s2 := m_insert_strie s1 ns').
    assert (Hg2 : good s2) by now apply good_insert_strie.
    destruct (m_prefix_for_good s2 ns' gen Hg2) as (G1 & G3).
    destruct (m_prefix_for s2 ns' gen) as [s3 [p|e]]; cbn [fst snd] in *.
    - assert (Hq : qg s3 u (exact split_s u) (p, ns', nm')).
      { split; cbn [fst snd]; [now apply G3|]. intros Hx. now apply Hx. }
      split; [now apply good_set_cache_s|].
      intros _ q0 X; inversion X; subst. destruct Hq as [A B]. split; [exact A|]. intros [_ Hx]; auto.
    - split; [auto|intros _ q0; discriminate].
  Qed.

  Lemma m_normalize_good s u :
    good s ->
    let r := m_normalize split s u in
    good (fst r) /\
    (SB = true \/ op_hits_ok split ncname s (ONorm u) = true ->
     forall q, snd r = inr (inl q) -> qg (fst r) u (exact split u) q) /\
    (forall x, snd r = inl x -> x = angle u).
  Proof.
    intros Hg. unfold m_normalize. cbn [op_hits_ok].
    destruct (split u) as [[ns nm]|];
      [|cbn [fst snd]; split; [auto|split; [intros _ q; discriminate|]]; intros x X; now inversion X].
    set (s1 := m_insert_strie s ns).
    assert (Hg1 : good s1) by now apply good_insert_strie.
    assert (En : n2p s1 = n2p s /\ cache_okb s1 u = cache_okb s u).
    { unfold s1, m_insert_strie. destruct (memb str_eqb ns (strie s)); auto. }
    destruct En as [En Ec]. rewrite En.
    destruct (dget (n2p s) ns).
    - destruct (m_compute_good s1 u true Hg1) as (H1 & H3).
      cbn [fst snd]. split; [auto|split; [|discriminate]].
      intros Hh q X. apply H3; [rewrite Ec; exact Hh|now inversion X].
    - cbn [fst snd]. split; [auto|split; [intros _ q; discriminate|]]. intros x X; now inversion X.
  Qed.

  Lemma m_reset_good s : good s -> good (m_reset s).
  Proof.
    intros [Hb [_ C]]. split; [exact Hb|].
    split; [intros u q; discriminate|exact C].
  Qed.

  (* ---------------------------------------------------------------- *)
  (* the boolean specification holds of what the model shows *)
  Lemma opt_str_refl x : opt_eqb str_eqb x x = true.
  Proof. destruct x; simpl; auto. apply str_eqb_refl. Qed.

  Lemma NoDup_values (d : dict str) :
    NoDup (map fst d) ->
    (forall p1 p2 n, dget d p1 = Some n -> dget d p2 = Some n -> p1 = p2) ->
    NoDup (map snd d).
  Proof.
    induction d as [|[k v] r IH]; intros Hn Hinj; simpl; [constructor|].
    inversion Hn as [|? ? Hk Hr]; subst. constructor.
    - intros Hin. apply in_map_iff in Hin. destruct Hin as ([k' v'] & E & Hin). simpl in E. subst v'.
      assert (k' <> k). { intros ->. apply Hk. now apply (in_map fst) in Hin. }
      assert (E1 : dget ((k, v) :: r) k' = Some v).
      { apply In_dget; [exact Hn|now right]. }
      assert (E2 : dget ((k, v) :: r) k = Some v) by (simpl; now rewrite str_eqb_refl).
      now apply H, (Hinj _ _ _ E1 E2).
    - apply IH; auto. intros p1 p2 n H1 H2.
      assert (forall p, dget r p = Some n -> dget ((k, v) :: r) p = Some n).
      { intros p Hp. simpl. destruct (str_eqb_spec p k) as [->|]; auto.
        exfalso. apply Hk. apply dget_In in Hp. now apply (in_map fst) in Hp. }
      eapply Hinj; eauto.
  Qed.

  Lemma bij_ok_of_bij s : bij s -> bij_ok (p2n s) (n2p s) = true.
  Proof.
    intros (Hp & Hn & H). unfold bij_ok. rewrite !andb_true_iff. repeat split.
    - now apply nodupb_spec; [apply str_eqb_spec|].
    - apply nodupb_spec; [apply str_eqb_spec|]. apply NoDup_values; auto.
      intros p1 p2 n H1 H2. apply H in H1, H2. congruence.
    - now apply nodupb_spec; [apply str_eqb_spec|].
    - apply forallb_forall. intros [p n] Hin. cbn [fst snd].
      apply In_dget in Hin; auto. apply H in Hin. rewrite Hin. apply opt_str_refl.
    - apply forallb_forall. intros [n p] Hin. cbn [fst snd].
      apply In_dget in Hin; auto. apply H in Hin. rewrite Hin. apply opt_str_refl.
  Qed.

  Lemma qn_ok_of_qg s u (X : Prop) q : qg s u X q -> X -> qn_ok (p2n s) u q = true.
  Proof.
    destruct q as [[p ns] nm]. intros [A B] Hx. cbn [fst snd] in *. unfold qn_ok.
    rewrite A, opt_str_refl, (B Hx). apply str_eqb_refl.
  Qed.

  Lemma expand_join s p ns nm :
    dget (p2n s) p = Some ns -> has_colon p = false -> oexp s (join_colon p nm) = Some (ns ++ nm).
  Proof.
    intros A Hc. unfold oexp, m_expand, join_colon. rewrite (split_colon_join p nm Hc), A. reflexivity.
  Qed.

  Lemma exp_ok_curie s u (X : Prop) q : qg s u X q -> X -> exp_ok false u q (oexp s (curie_str q)) = true.
  Proof.
    destruct q as [[p ns] nm]. intros [A B] Hx. cbn [fst snd] in *. unfold exp_ok, curie_str.
    destruct (has_colon p) eqn:Hc; auto. cbn [andb]. rewrite (expand_join s p ns nm A Hc), (B Hx).
    apply opt_str_refl.
  Qed.

  Lemma exp_ok_qname s u (X : Prop) q : qg s u X q -> X -> exp_ok true u q (oexp s (qname_str q)) = true.
  Proof.
    destruct q as [[p ns] nm]. intros [A B] Hx. cbn [fst snd] in *. unfold exp_ok, qname_str.
    destruct (has_colon p) eqn:Hc; auto. destruct p as [|c p]; [reflexivity|].
    cbn [truthy negb andb]. rewrite (expand_join s (c :: p) ns nm A Hc), (B Hx). apply opt_str_refl.
  Qed.

  Lemma expand_ok_model s c x : m_expand s c = inl x -> expand_ok (p2n s) c x = true.
  Proof.
    unfold m_expand, expand_ok. destruct (split_colon c) as [[pre rest]|]; [|discriminate].
    destruct (dget (p2n s) pre); [|discriminate]. intros X; inversion X. apply str_eqb_refl.
  Qed.

  Definition op_iri (o : op) : option str :=
    match o with
    | OQname u | OCurie u _ | OCompute u _ | OStrict u _ | ONorm u => Some u
    | _ => None
    end.

  Definition op_exact (o : op) : Prop :=
    forall u, op_iri o = Some u -> exact split u /\ exact split_s u.

  Lemma m_step_good s o :
    good s ->
    good (fst (m_step split split_s ncname s o)) /\
    (SB = true \/ op_hits_ok split ncname s o = true -> op_exact o ->
     snap_ok o (snap_of (fst (m_step split split_s ncname s o)) (snd (m_step split split_s ncname s o))) = true).
  Proof.
    intros Hg. unfold snap_ok, snap_of. cbn [s_list s_rev s_api s_res].
    destruct o; cbn [m_step].
    - (* bind *)
      pose proof (m_bind_good s p n ov rep Hg) as M.
      destruct (m_bind s p n ov rep) as [s' e]. cbn [fst snd] in *.
      destruct M as [G R]. split; [exact G|]. intros _ _.
      rewrite (bij_ok_of_bij s' (proj1 G)). cbn [andb].
      destruct R as [->|(-> & p0 & -> & Hs)]; [reflexivity|exact Hs].
    - (* qname *)
      destruct (m_compute_good s u true Hg) as (G & Q).
      destruct (m_compute split s u true) as [s' [q|e]]; cbn [fst snd] in *;
        (split; [exact G|]); intros Hh Hx; rewrite (bij_ok_of_bij s' (proj1 G)); cbn [andb res_ok]; auto.
      destruct (Hx u eq_refl) as [X1 X2]. specialize (Q Hh _ eq_refl).
      rewrite str_eqb_refl, (qn_ok_of_qg s' u _ q Q X1), (exp_ok_qname s' u _ q Q X1).
      reflexivity.
    - (* curie *)
      destruct (m_compute_good s u gen Hg) as (G & Q).
      destruct (m_compute split s u gen) as [s' [q|e]]; cbn [fst snd] in *;
        (split; [exact G|]); intros Hh Hx; rewrite (bij_ok_of_bij s' (proj1 G)); cbn [andb res_ok]; auto.
      destruct (Hx u eq_refl) as [X1 X2]. specialize (Q Hh _ eq_refl).
      rewrite str_eqb_refl, (qn_ok_of_qg s' u _ q Q X1), (exp_ok_curie s' u _ q Q X1).
      reflexivity.
    - (* compute_qname *)
      destruct (m_compute_good s u gen Hg) as (G & Q).
      destruct (m_compute split s u gen) as [s' [q|e]]; cbn [fst snd] in *;
        (split; [exact G|]); intros Hh Hx; rewrite (bij_ok_of_bij s' (proj1 G)); cbn [andb res_ok]; auto.
      destruct (Hx u eq_refl) as [X1 X2].
      apply (qn_ok_of_qg s' u _ q (Q Hh _ eq_refl) X1).
    - (* compute_qname_strict *)
      destruct (m_compute_strict_good s u gen Hg) as (G & Q).
      destruct (m_compute_strict split split_s ncname s u gen) as [s' [q|e]]; cbn [fst snd] in *;
        (split; [exact G|]); intros Hh Hx; rewrite (bij_ok_of_bij s' (proj1 G)); cbn [andb res_ok]; auto.
      apply (qn_ok_of_qg s' u _ q (Q Hh _ eq_refl) (Hx u eq_refl)).
    - (* normalizeUri *)
      destruct (m_normalize_good s u Hg) as (G & Q & A).
      destruct (m_normalize split s u) as [s' [x|[q|e]]]; cbn [fst snd] in *;
        (split; [exact G|]); intros Hh Hx; rewrite (bij_ok_of_bij s' (proj1 G)); cbn [andb res_ok]; auto.
      + rewrite (A x eq_refl). apply str_eqb_refl.
      + destruct (Hx u eq_refl) as [X1 X2]. specialize (Q Hh _ eq_refl).
        rewrite str_eqb_refl, (qn_ok_of_qg s' u _ q Q X1), (exp_ok_curie s' u _ q Q X1).
        reflexivity.
    - (* expand_curie *)
      cbn [fst snd]. split; [exact Hg|]. intros _ _.
      rewrite (bij_ok_of_bij s (proj1 Hg)). cbn [andb].
      destruct (m_expand s c) as [x|e] eqn:E; cbn [res_ok]; auto. now apply expand_ok_model.
    - (* reset *)
      cbn [fst snd]. pose proof (m_reset_good s Hg) as G. split; [exact G|]. intros _ _.
      rewrite (bij_ok_of_bij _ (proj1 G)). reflexivity.
    - (* parse of a Turtle document *)
      destruct (m_binds_good (eff_decls decls) s Hg) as [G R].
      destruct (m_binds s (eff_decls decls)) as [s' e]. cbn [fst snd] in *.
      split; [exact G|]. intros _ _. rewrite (bij_ok_of_bij s' (proj1 G)). cbn [andb].
      destruct R as [->|[-> R]]; [reflexivity|exact R].
    - (* outside the model *)
      cbn [fst snd]. split; [exact Hg|]. intros _ _.
      rewrite (bij_ok_of_bij s (proj1 Hg)). reflexivity.
  Qed.

  (* ---------------------------------------------------------------- *)
  (* when the model raises, and what *)
  Lemma sp_exists_whole s u :
    sp_exists split (n2p s) u = match split_or_whole split s u with Some _ => true | None => false end.
  Proof.
    unfold sp_exists, split_or_whole. destruct (split u); [reflexivity|].
    destruct (dget (n2p s) u) as [p|]; [|reflexivity]. now destruct (truthy p).
  Qed.

  Lemma m_generate_exn s ns gen e :
    good s -> dget (n2p s) ns = None -> snd (m_generate s ns gen) = inr e ->
    gen = false /\ e = EKey /\ fst (m_generate s ns gen) = s.
  Proof.
    intros Hg Hn. unfold m_generate. destruct gen; cbn [negb].
    - destruct (find_ns s (S (length (p2n s))) 1) as [p|] eqn:E; [|now destruct (find_ns_some _ _ E)].
      destruct (find_ns_free _ _ _ _ E) as [Hsp Hp].
      destruct (m_bind_generated s p ns Hg Hsp Hn Hp) as (_ & H2 & _). rewrite H2. discriminate.
    - cbn [fst snd]. intros X; inversion X. auto.
  Qed.

  Lemma m_prefix_for_exn s ns gen e :
    good s -> snd (m_prefix_for s ns gen) = inr e ->
    gen = false /\ e = EKey /\ fst (m_prefix_for s ns gen) = s.
  Proof.
    intros Hg. unfold m_prefix_for. destruct (dget (n2p s) ns) eqn:E; [discriminate|].
    now apply m_generate_exn.
  Qed.

  Lemma maps_insert_strie s v : p2n (m_insert_strie s v) = p2n s /\ n2p (m_insert_strie s v) = n2p s.
  Proof. unfold m_insert_strie. destruct (memb str_eqb v (strie s)); auto. Qed.

  Lemma m_compute_exn s u gen e :
    good s -> snd (m_compute split s u gen) = inr e ->
    p2n (fst (m_compute split s u gen)) = p2n s /\ n2p (fst (m_compute split s u gen)) = n2p s /\
    compute_exn_ok split (n2p s) u gen e = true.
  Proof.
    intros Hg. unfold m_compute, compute_exn_ok. rewrite sp_exists_whole.
    destruct (dget (cache s) u); [discriminate|].
    destruct (valid_uri u) eqn:Ev; cbn [negb];
      [|cbn [fst snd]; intros X; inversion X; auto].
    destruct (split_or_whole split s u) as [[ns0 nm0]|] eqn:Es;
      [|cbn [fst snd]; intros X; inversion X; auto].
    set (s1 := m_insert_strie s ns0).
    assert (Hg1 : good s1) by now apply good_insert_strie.
    destruct (maps_insert_strie s ns0) as [M1 M2].
    pose proof (m_prefix_for_exn s1 (fst (pick_ns s1 ns0 nm0 u)) gen) as P.
    destruct (m_prefix_for s1 (fst (pick_ns s1 ns0 nm0 u)) gen) as [s2 [p|e']]; cbn [fst snd] in *;
      [discriminate|].
    intros X; inversion X; subst e'. destruct (P e Hg1 eq_refl) as (-> & -> & ->).
    unfold s1. rewrite M1, M2. auto.
  Qed.

  Definition strict_exn_ok (r : list (str * str)) (u : str) (g : bool) (e : exn) : bool :=
    compute_exn_ok split r u g e || (exn_eqb e EValue && is_none (split_s u)) || (exn_eqb e EKey && negb g).

  Lemma m_compute_strict_exn s u gen e :
    good s -> snd (m_compute_strict split split_s ncname s u gen) = inr e ->
    strict_exn_ok (n2p (fst (m_compute_strict split split_s ncname s u gen))) u gen e = true.
  Proof.
    intros Hg. unfold m_compute_strict, strict_exn_ok.
    pose proof (m_compute_exn s u gen) as C. destruct (m_compute_good s u gen Hg) as (G1 & _).
    destruct (m_compute split s u gen) as [s1 [q|e1]]; cbn [fst snd] in *.
    - destruct (ncname (snd q)); [discriminate|].
      destruct (dget (cache_s s1) u); [discriminate|].
      destruct (split_s u) as [[ns' nm']|] eqn:Es.
      + assert (Hg2 : good (m_insert_strie s1 ns')) by now apply good_insert_strie.
        pose proof (m_prefix_for_exn (m_insert_strie s1 ns') ns' gen) as P.
        destruct (m_prefix_for (m_insert_strie s1 ns') ns' gen) as [s3 [p|e']]; cbn [fst snd] in *;
          [discriminate|].
        intros X; inversion X; subst e'. destruct (P e Hg2 eq_refl) as (-> & -> & _).
        cbn. now rewrite !orb_true_r.
      + cbn [fst snd]. intros X; inversion X. cbn. now rewrite orb_true_r.
    - intros X; inversion X; subst e1. destruct (C e Hg eq_refl) as (_ & -> & ->). reflexivity.
  Qed.

  Lemma m_step_exn s o :
    good s ->
    let r := m_step split split_s ncname s o in
    exn_ok split split_s (p2n (fst r)) (n2p (fst r)) o (snd r) = true.
  Proof.
    intros Hg. destruct o; cbn [m_step].
    - destruct (m_bind s p n ov rep) as [s' [e|]]; reflexivity.
    - pose proof (m_compute_exn s u true) as C.
      destruct (m_compute split s u true) as [s' [q|e]]; cbn [fst snd exn_ok] in *; [reflexivity|].
      destruct (C e Hg eq_refl) as (_ & -> & H). exact H.
    - pose proof (m_compute_exn s u gen) as C.
      destruct (m_compute split s u gen) as [s' [q|e]]; cbn [fst snd exn_ok] in *; [reflexivity|].
      destruct (C e Hg eq_refl) as (_ & -> & H). exact H.
    - pose proof (m_compute_exn s u gen) as C.
      destruct (m_compute split s u gen) as [s' [q|e]]; cbn [fst snd exn_ok] in *; [reflexivity|].
      destruct (C e Hg eq_refl) as (_ & -> & H). exact H.
    - pose proof (m_compute_strict_exn s u gen) as C.
      destruct (m_compute_strict split split_s ncname s u gen) as [s' [q|e]]; cbn [fst snd exn_ok] in *;
        [reflexivity|]. exact (C e Hg eq_refl).
    - unfold m_normalize. destruct (split u) as [[ns nm]|] eqn:Es; [|reflexivity].
      destruct (dget (n2p (m_insert_strie s ns)) ns); [|reflexivity].
      assert (Hg1 : good (m_insert_strie s ns)) by now apply good_insert_strie.
      pose proof (m_compute_exn (m_insert_strie s ns) u true) as C.
      destruct (m_compute split (m_insert_strie s ns) u true) as [s' [q|e]]; cbn [fst snd exn_ok] in *;
        [reflexivity|].
      destruct (C e Hg1 eq_refl) as (_ & _ & H). unfold compute_exn_ok in H.
      destruct e; cbn in H |- *; try discriminate.
      unfold sp_exists in H. rewrite Es in H. cbn in H. now rewrite orb_false_r in H.
    - cbn [fst snd]. unfold m_expand, exn_ok. destruct (split_colon c) as [[pre rest]|]; [|reflexivity].
      destruct (dget (p2n s) pre); reflexivity.
    - reflexivity.
    - destruct (m_binds s (eff_decls decls)) as [s' [e|]]; reflexivity.
    - reflexivity.
  Qed.

  Lemma m_run_ok ops : SB = true -> forall s,
    good s -> (forall o, In o ops -> op_exact o) ->
    all_ok split split_s ops (m_run split split_s ncname s ops) = true.
  Proof.
    intros HB. induction ops as [|o r IH]; intros s Hg Hx; cbn [m_run m_final all_ok] in *; auto.
    destruct (m_step_good s o Hg) as [G S]. specialize (S (or_introl HB)).
    pose proof (m_step_exn s o Hg) as X.
    destruct (m_step split split_s ncname s o) as [s' x]. cbn [fst snd] in *.
    cbn [all_ok]. unfold snap_ok2. rewrite (S (Hx o (or_introl eq_refl))).
    unfold snap_of. cbn [s_list s_rev s_res]. rewrite X. cbn [andb].
    apply IH; auto. intros o' Ho. apply Hx. now right.
  Qed.

  Lemma m_final_good ops : SB = true -> forall s, good s -> good (m_final split split_s ncname s ops).
  Proof.
    intros HB. induction ops as [|o r IH]; intros s Hg; cbn [m_final] in *; auto.
    apply IH. now apply m_step_good.
  Qed.
End Mgr.
