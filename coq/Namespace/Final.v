(* Case-level statements: exactness of the executable split_uri, the theorem
   tying model and checker, Prop-level readings of the checker, witnesses. *)
From RV Require Import Namespace.Model Namespace.Dict Namespace.StoreInv Namespace.Proofs.

Lemma until_sub_noocc : forall s pat, occurs pat s = false -> until_sub s pat = s.
Proof.
  induction s as [|c r IH]; intros pat; cbn [occurs until_sub]; auto.
  rewrite orb_false_iff. intros [H1 H2]. rewrite H1. f_equal. auto.
Qed.

(* split_uri(uri)[0] + split_uri(uri)[1] == uri, whatever unicodedata.category says,
   unless the IRI starts with the XML namespace and contains it again *)
Lemma split_uri_exact cat strict u : xml_twice u = false -> exact (split_uri cat strict) u.
Proof.
  intros Hx ns ln. unfold split_uri. unfold xml_twice in Hx.
  destruct (starts_with u XMLNS) eqn:E.
  - cbn [andb] in Hx. intros X.
    assert (Hn : ns = XMLNS) by congruence.
    assert (Hl : ln = until_sub (skipn (length XMLNS) u) XMLNS) by congruence. subst ns ln. clear X.
    rewrite (until_sub_noocc _ _ Hx). now apply starts_with_app.
  - destruct (first_bad cat (rev u) 0) as [i|]; [|discriminate].
    destruct (first_start cat strict u _) as [p|]; [|discriminate].
    destruct (firstn p u) as [|c r] eqn:F; [discriminate|].
    intros X; inversion X; subst. rewrite <- F. apply firstn_skipn.
Qed.

Lemma kf0 c : kf c = 0%N ->
  bad (model_final c) = false /\
  forall o, In o (c_ops c) -> op_exact (c_split c) (c_split_s c) o.
Proof.
  unfold kf. destruct (bad (model_final c)); [discriminate|].
  destruct (existsb _ (c_ops c)) eqn:E; [discriminate|]. intros _. split; [reflexivity|].
  intros o Ho u Hu.
  assert (Hx : xml_twice u = false).
  { destruct (xml_twice u) eqn:Ex; auto.
    assert (existsb (fun o => match op_iri o with Some u => xml_twice u | None => false end) (c_ops c) = true).
    { apply existsb_exists. exists o. split; auto. now rewrite Hu. }
    congruence. }
  split; now apply split_uri_exact.
Qed.

Theorem spec_ok_model c : kf c = 0%N -> spec_ok c (model_obs c) = true.
Proof.
  intros H. destruct (kf0 c H) as [Hb Hx]. unfold spec_ok, model_obs.
  apply m_run_ok; auto. apply good_init.
Qed.

(* ---------------------------------------------------------------- *)
(* what the booleans mean *)
Lemma bij_ok_reading l r : bij_ok l r = true ->
  NoDup (map fst l) /\ NoDup (map snd l) /\ NoDup (map fst r) /\
  (forall p n, In (p, n) l <-> dget l p = Some n) /\
  (forall p n, dget l p = Some n <-> dget r n = Some p).
Proof.
  unfold bij_ok. rewrite !andb_true_iff. intros ((((H1 & H2) & H3) & H4) & H5).
  apply nodupb_spec in H1, H2, H3; try apply str_eqb_spec.
  rewrite forallb_forall in H4, H5.
  assert (A : forall p n, In (p, n) l <-> dget l p = Some n).
  { intros p n. split; [now apply In_dget|apply dget_In]. }
  repeat split; auto; try apply A.
  - intros E. apply dget_In in E. specialize (H4 _ E). cbn [fst snd] in H4.
    destruct (@opt_eqb_spec _ _ str_eqb_spec (dget r n) (Some p)); congruence.
  - intros E. apply dget_In in E. specialize (H5 _ E). cbn [fst snd] in H5.
    destruct (@opt_eqb_spec _ _ str_eqb_spec (dget l p) (Some n)); congruence.
Qed.

Lemma qn_ok_reading l u p ns nm : qn_ok l u (p, ns, nm) = true <-> dget l p = Some ns /\ ns ++ nm = u.
Proof.
  unfold qn_ok. rewrite andb_true_iff.
  destruct (@opt_eqb_spec _ _ str_eqb_spec (dget l p) (Some ns)), (str_eqb_spec (ns ++ nm) u);
    split; intros [A B]; try split; congruence.
Qed.

Lemma exp_ok_reading isq u p ns nm e : exp_ok isq u (p, ns, nm) e = true ->
  has_colon p = false -> (isq = true -> p <> []) -> e = Some u.
Proof.
  unfold exp_ok. intros H Hc Hp. rewrite Hc in H.
  destruct isq; cbn [andb] in H.
  - destruct p as [|c p]; [now destruct (Hp eq_refl)|]. cbn [truthy negb] in H.
    destruct (@opt_eqb_spec _ _ str_eqb_spec e (Some u)); congruence.
  - destruct (@opt_eqb_spec _ _ str_eqb_spec e (Some u)); congruence.
Qed.

Lemma snap_ok_reading o x : snap_ok o x = true ->
  bij_ok (s_list x) (s_rev x) = true /\ s_api x = true /\ res_ok (s_list x) o (s_res x) = true.
Proof. unfold snap_ok. rewrite !andb_true_iff. tauto. Qed.

(* ---------------------------------------------------------------- *)
(* statements about states, for arbitrary splitters *)
Section States.
  Variables (split split_s : str -> option (str * str)) (ncname : str -> bool).
  Local Notation final := (m_final split split_s ncname m_init).

  Lemma bijection ops : bad (final ops) = false ->
    let s := final ops in
    NoDup (map fst (p2n s)) /\ NoDup (map snd (p2n s)) /\ NoDup (map fst (n2p s)) /\
    (forall p n, In (p, n) (p2n s) <-> dget (p2n s) p = Some n) /\
    (forall p n, dget (p2n s) p = Some n <-> dget (n2p s) n = Some p).
  Proof.
    intros Hb. apply bij_ok_reading. apply bij_ok_of_bij.
    now apply (m_final_good split split_s ncname ops m_init (good_init split split_s)).
  Qed.

  Lemma qname_bound_now ops u gen s' p ns nm : bad (final ops) = false ->
    m_compute split (final ops) u gen = (s', inl (p, ns, nm)) ->
    dget (p2n s') p = Some ns /\ dget (n2p s') ns = Some p /\ (exact split u -> ns ++ nm = u).
  Proof.
    intros Hb E.
    pose proof (m_final_good split split_s ncname ops m_init (good_init split split_s) Hb) as Hg.
    destruct (m_compute_good split split_s (final ops) u gen Hg) as (G & _ & Q).
    rewrite E in G, Q. cbn [fst snd] in *.
    destruct (Q _ eq_refl) as [A B]. cbn [fst snd] in *. split; [exact A|]. split; [|exact B].
    destruct G as [(_ & _ & H) _]. now apply H.
  Qed.

  Lemma strict_bound_now ops u gen s' p ns nm : bad (final ops) = false ->
    m_compute_strict split split_s ncname (final ops) u gen = (s', inl (p, ns, nm)) ->
    dget (p2n s') p = Some ns /\ dget (n2p s') ns = Some p
    /\ (exact split u -> exact split_s u -> ns ++ nm = u).
  Proof.
    intros Hb E.
    pose proof (m_final_good split split_s ncname ops m_init (good_init split split_s) Hb) as Hg.
    destruct (m_compute_strict_good split split_s ncname (final ops) u gen Hg) as (G & _ & Q).
    rewrite E in G, Q. cbn [fst snd] in *.
    destruct (Q _ eq_refl) as [A B]. cbn [fst snd] in *. split; [exact A|]. split; [|tauto].
    destruct G as [(_ & _ & H) _]. now apply H.
  Qed.

  Lemma qname_expands ops u gen s' p ns nm : bad (final ops) = false -> exact split u ->
    m_compute split (final ops) u gen = (s', inl (p, ns, nm)) ->
    has_colon p = false ->
    m_expand s' (curie_str (p, ns, nm)) = inl u /\
    (p <> [] -> m_expand s' (qname_str (p, ns, nm)) = inl u) /\
    (p = [] -> qname_str (p, ns, nm) = nm /\ dget (p2n s') [] = Some ns /\ ns ++ nm = u).
  Proof.
    intros Hb Hx E Hc. destruct (qname_bound_now ops u gen s' p ns nm Hb E) as (A & _ & B).
    specialize (B Hx).
    assert (C : m_expand s' (join_colon p nm) = inl u).
    { unfold m_expand, join_colon. rewrite (split_colon_join p nm Hc), A. now rewrite B. }
    split; [exact C|]. split.
    - intros Hp. destruct p; [congruence|exact C].
    - intros ->. auto.
  Qed.
End States.

(* ---------------------------------------------------------------- *)
(* witnesses *)
Definition w_split := split_uri (fun c => if (N.leb 97 c && N.leb c 122)%bool then 1%N else 0%N) false.

(* F6b: bind(a, h:e/); bind(b, h:e/a#); bind(a, h:e/a#, override=False, replace=True) *)
Definition w_e : str := [104; 58; 101; 47]%N.
Definition w_ea : str := [104; 58; 101; 47; 97; 35]%N.
Definition w_f6b : list op :=
  [OBind (Some [97%N]) w_e true false; OBind (Some [98%N]) w_ea true false;
   OBind (Some [97%N]) w_ea false true].

Lemma f6b_witness :
  let s := m_final w_split w_split (fun _ => true) m_init w_f6b in
  bad s = true /\ ~ bij s /\
  (* and then qname(h:e/a#x) names prefix b, which namespace() maps to h:e/ *)
  exists s' p ns nm, m_compute w_split s (w_ea ++ [120%N]) true = (s', inl (p, ns, nm))
    /\ dget (p2n s') p <> Some ns.
Proof.
  split; [vm_compute; reflexivity|]. split.
  - intros H. apply bij_ok_of_bij in H. vm_compute in H. discriminate.
  - eexists. eexists. eexists. eexists. split; [vm_compute; reflexivity|]. vm_compute. discriminate.
Qed.

(* F6c *)
Lemma f6c_witness :
  exists u ns ln, w_split u = Some (ns, ln) /\ ns ++ ln <> u.
Proof.
  exists (XMLNS ++ [97%N] ++ XMLNS ++ [98%N]). eexists. eexists.
  split; [vm_compute; reflexivity|]. vm_compute. discriminate.
Qed.
