(* Case-level statements: exactness of the executable split_uri, the theorem
   tying model and checker, Prop-level readings of the checker, witnesses. *)
From RV Require Import Namespace.Model Namespace.Dict Namespace.StoreInv Namespace.Proofs.

(* split_uri(uri)[0] + split_uri(uri)[1] == uri, whatever unicodedata.category says *)
Lemma split_uri_exact cat strict u : exact (split_uri cat strict) u.
Proof.
  intros ns ln. unfold split_uri.
  destruct (starts_with u XMLNS) eqn:E.
  - intros X.
    assert (Hn : ns = XMLNS) by congruence.
    assert (Hl : ln = skipn (length XMLNS) u) by congruence. subst ns ln. clear X.
    now apply starts_with_app.
  - destruct (first_bad cat (rev u) 0) as [i|]; [|discriminate].
    destruct (first_start cat strict u _) as [p|]; [|discriminate].
    destruct (firstn p u) as [|c r] eqn:F; [discriminate|].
    intros X; inversion X; subst. rewrite <- F. apply firstn_skipn.
Qed.

Theorem spec_ok_model c : spec_ok c (model_obs c) = true.
Proof.
  unfold spec_ok, model_obs. apply (m_run_ok _ _ _ true); [reflexivity|apply good_init|].
  intros o _ u _. split; apply split_uri_exact.
Qed.

(* ---------------------------------------------------------------- *)
(* what the booleans mean *)
Lemma bij_ok_reading l r : bij_ok l r = true ->
  NoDup (map fst l) /\ NoDup (map snd l) /\ NoDup (map fst r) /\
  (forall p n, In (p, n) l <-> dget l p = Some n) /\
  (forall p n, dget l p = Some n <-> dget r n = Some p).
Proof.
  unfold bij_ok. rewrite !andb_true_iff. intros ((((H1 & H2) & H3) & H4) & H5).
  apply nodupb_spec in H1, H2, H3; try apply str_eqb_spec.
  rewrite forallb_forall in H4, H5.
  assert (A : forall p n, In (p, n) l <-> dget l p = Some n).
  { intros p n. split; [now apply In_dget|apply dget_In]. }
  repeat split; auto; try apply A.
  - intros E. apply dget_In in E. specialize (H4 _ E). cbn [fst snd] in H4.
    destruct (@opt_eqb_spec _ _ str_eqb_spec (dget r n) (Some p)); congruence.
  - intros E. apply dget_In in E. specialize (H5 _ E). cbn [fst snd] in H5.
    destruct (@opt_eqb_spec _ _ str_eqb_spec (dget l p) (Some n)); congruence.
Qed.

Lemma qn_ok_reading l u p ns nm : qn_ok l u (p, ns, nm) = true <-> dget l p = Some ns /\ ns ++ nm = u.
Proof.
  unfold qn_ok. rewrite andb_true_iff.
  destruct (@opt_eqb_spec _ _ str_eqb_spec (dget l p) (Some ns)), (str_eqb_spec (ns ++ nm) u);
    split; intros [A B]; try split; congruence.
Qed.

Lemma exp_ok_reading isq u p ns nm e : exp_ok isq u (p, ns, nm) e = true ->
  has_colon p = false -> (isq = true -> p <> []) -> e = Some u.
Proof.
  unfold exp_ok. intros H Hc Hp. rewrite Hc in H.
  destruct isq; cbn [andb] in H.
  - destruct p as [|c p]; [now destruct (Hp eq_refl)|]. cbn [truthy negb] in H.
    destruct (@opt_eqb_spec _ _ str_eqb_spec e (Some u)); congruence.
  - destruct (@opt_eqb_spec _ _ str_eqb_spec e (Some u)); congruence.
Qed.

Lemma snap_ok_reading o x : snap_ok o x = true ->
  bij_ok (s_list x) (s_rev x) = true /\ s_api x = true /\ res_ok (s_list x) o (s_res x) = true.
Proof. unfold snap_ok. rewrite !andb_true_iff. tauto. Qed.

(* ---------------------------------------------------------------- *)
(* statements about states, for arbitrary splitters *)
Section States.
  Variables (split split_s : str -> option (str * str)) (ncname : str -> bool).
  Local Notation final := (m_final split split_s ncname m_init).

  Lemma final_good ops : good split split_s true (final ops).
  Proof. apply m_final_good; [reflexivity|apply good_init]. Qed.

  Lemma bijection ops :
    let s := final ops in
    NoDup (map fst (p2n s)) /\ NoDup (map snd (p2n s)) /\ NoDup (map fst (n2p s)) /\
    (forall p n, In (p, n) (p2n s) <-> dget (p2n s) p = Some n) /\
    (forall p n, dget (p2n s) p = Some n <-> dget (n2p s) n = Some p).
  Proof. apply bij_ok_reading, bij_ok_of_bij. apply final_good. Qed.

  Lemma qname_bound_now ops u gen s' p ns nm :
    m_compute split (final ops) u gen = (s', inl (p, ns, nm)) ->
    dget (p2n s') p = Some ns /\ dget (n2p s') ns = Some p /\ (exact split u -> ns ++ nm = u).
  Proof.
    intros E. pose proof (final_good ops) as Hg.
    destruct (m_compute_good split split_s true (final ops) u gen Hg) as (G & Q). specialize (Q (or_introl eq_refl)).
    rewrite E in G, Q. cbn [fst snd] in *.
    destruct (Q _ eq_refl) as [A B]. cbn [fst snd] in *. split; [exact A|]. split; [|exact B].
    destruct G as [(_ & _ & H) _]. now apply H.
  Qed.

  Lemma strict_bound_now ops u gen s' p ns nm :
    m_compute_strict split split_s ncname (final ops) u gen = (s', inl (p, ns, nm)) ->
    dget (p2n s') p = Some ns /\ dget (n2p s') ns = Some p
    /\ (exact split u -> exact split_s u -> ns ++ nm = u).
  Proof.
    intros E. pose proof (final_good ops) as Hg.
    destruct (m_compute_strict_good split split_s ncname true (final ops) u gen Hg) as (G & Q). specialize (Q (or_introl eq_refl)).
    rewrite E in G, Q. cbn [fst snd] in *.
    destruct (Q _ eq_refl) as [A B]. cbn [fst snd] in *. split; [exact A|]. split; [|tauto].
    destruct G as [(_ & _ & H) _]. now apply H.
  Qed.

  Lemma qname_expands ops u gen s' p ns nm : exact split u ->
    m_compute split (final ops) u gen = (s', inl (p, ns, nm)) ->
    has_colon p = false ->
    m_expand s' (curie_str (p, ns, nm)) = inl u /\
    (p <> [] -> m_expand s' (qname_str (p, ns, nm)) = inl u) /\
    (p = [] -> qname_str (p, ns, nm) = nm /\ dget (p2n s') [] = Some ns /\ ns ++ nm = u).
  Proof.
    intros Hx E Hc. destruct (qname_bound_now ops u gen s' p ns nm E) as (A & _ & B).
    specialize (B Hx).
    assert (C : m_expand s' (join_colon p nm) = inl u).
    { unfold m_expand, join_colon. rewrite (split_colon_join p nm Hc), A. now rewrite B. }
    split; [exact C|]. split.
    - intros Hp. destruct p; [congruence|exact C].
    - intros ->. auto.
  Qed.
End States.

(* ---------------------------------------------------------------- *)
(* the historical code (before the "fix:" commits for F6b and F6c) *)
Definition w_e : str := [104; 58; 101; 47]%N.
Definition w_ea : str := [104; 58; 101; 47; 97; 35]%N.

(* store.bind(a, h:e/); store.bind(b, h:e/a#); store.bind(a, h:e/a#, override=False) *)
Lemma old_store_bind_witness :
  let s1 := fst (store_bind m_init [97%N] w_e true) in
  let s2 := fst (store_bind s1 [98%N] w_ea true) in
  bij s2 /\ ~ bij (store_bind_old_noov s2 [97%N] w_ea).
Proof.
  split.
  - apply store_bind_good. apply store_bind_good.
    split; [constructor|split; [constructor|]]. intros p n; simpl; split; discriminate.
  - intros H. apply bij_ok_of_bij in H. vm_compute in H. discriminate.
Qed.

Lemma old_xml_split_witness :
  exists u, starts_with u XMLNS = true /\ XMLNS ++ xml_local_old u <> u.
Proof.
  exists (XMLNS ++ [97%N] ++ XMLNS ++ [98%N]). split; [vm_compute; reflexivity|]. vm_compute. discriminate.
Qed.

(* ---------------------------------------------------------------- *)
(* Two NamespaceManagers over one store (what a graph object with a manager of its own
   amounts to): the second manager's bind changes the store's dictionaries but cannot empty
   the first manager's caches. *)
Definition w_split := split_uri (fun c => if (N.leb 97 c && N.leb c 122)%bool then 1%N else 0%N) false.

Definition other_manager_bind (s : mst) (p : option str) (n : str) (ov rep : bool) : mst :=
  let s2 := fst (m_bind (set_tries (set_caches s [] []) [] (T [])) p n ov rep) in
  set_maps s (p2n s2) (n2p s2).

(* bind(a, h:e/); qname(h:e/x) through the first manager, bind(b, h:e/) through a second one:
   the first still answers a:x, and a is not bound any more *)
Lemma second_manager_witness :
  let s := m_final w_split w_split (fun _ => true) m_init
             [OBind (Some [97%N]) w_e true false; OQname (w_e ++ [120%N])] in
  let s' := other_manager_bind s (Some [98%N]) w_e true false in
  bij s' /\
  exists p ns nm, m_compute w_split s' (w_e ++ [120%N]) true = (s', inl (p, ns, nm))
    /\ dget (p2n s') p = None.
Proof.
  split.
  - unfold other_manager_bind. cbn zeta.
    set (s := m_final _ _ _ _ _).
    assert (G : good w_split w_split true (set_tries (set_caches s [] []) [] (T []))).
    { pose proof (m_final_good w_split w_split (fun _ => true) true
                    [OBind (Some [97%N]) w_e true false; OQname (w_e ++ [120%N])] eq_refl m_init
                    (good_init w_split w_split true)) as [B _].
      split; [exact B|]. split; intros u q; discriminate. }
    destruct (m_bind_good w_split w_split true _ (Some [98%N]) w_e true false G) as [[B _] _].
    exact B.
  - eexists. eexists. eexists. split; vm_compute; reflexivity.
Qed.
