(* The namespace trie: get_longest_namespace on a well-formed trie returns the
   longest key that is a prefix of the value. *)
From RV Require Import Namespace.Model Namespace.Dict.

Lemma trie_ind' (P : trie -> Prop) :
  (forall kids, (forall k sub, In (k, sub) kids -> P sub) -> P (T kids)) -> forall t, P t.
Proof.
  intros H. fix IH 1. intros [kids]. apply H.
  induction kids as [|[k s] r IHr]; intros k0 sub Hin; [destruct Hin|].
  destruct Hin as [E|Hin]; [replace sub with s by congruence; apply IH|eapply IHr; eauto].
Qed.

(* prefix order on strings *)
Lemma sw_refl a : starts_with a a = true.
Proof. apply starts_with_iff. exists []. now rewrite app_nil_r. Qed.

Lemma sw_trans a b c : starts_with b a = true -> starts_with c b = true -> starts_with c a = true.
Proof.
  rewrite !starts_with_iff. intros [r1 ->] [r2 ->]. exists (r1 ++ r2). now rewrite app_assoc.
Qed.

Lemma sw_comparable : forall a b v, starts_with v a = true -> starts_with v b = true ->
  starts_with a b = true \/ starts_with b a = true.
Proof.
  induction a as [|x a IH]; intros b v Ha Hb.
  - right. reflexivity.
  - destruct b as [|y b]; [left; reflexivity|].
    destruct v as [|z v]; [discriminate|]. cbn [starts_with] in *.
    apply andb_true_iff in Ha, Hb. destruct Ha as [E1 Ha], Hb as [E2 Hb].
    apply N.eqb_eq in E1, E2. subst. rewrite N.eqb_refl. cbn [andb]. eauto.
Qed.

Lemma sw_antisym a b : starts_with a b = true -> starts_with b a = true -> a = b.
Proof.
  rewrite !starts_with_iff. intros [r1 E1] [r2 E2]. rewrite E2 in E1 at 1.
  rewrite <- app_assoc in E1. rewrite <- (app_nil_r a) in E1 at 1.
  apply app_inv_head in E1. symmetry in E1. apply app_eq_nil in E1. destruct E1 as [-> _].
  now rewrite app_nil_r in E2.
Qed.

(* keys of a trie *)
Lemma trie_keys_cons k sub r :
  trie_keys (T ((k, sub) :: r)) = k :: trie_keys sub ++ trie_keys (T r).
Proof. reflexivity. Qed.

Lemma gln_cons k sub r v :
  gln (T ((k, sub) :: r)) v =
  if starts_with v k then match gln sub v with None => Some k | Some o => Some o end
  else gln (T r) v.
Proof. reflexivity. Qed.

Lemma trie_keys_In kids k' :
  In k' (trie_keys (T kids)) <-> exists k sub, In (k, sub) kids /\ (k' = k \/ In k' (trie_keys sub)).
Proof.
  induction kids as [|[k sub] r IH].
  - simpl. split; [tauto|intros (k & sub & [] & _)].
  - rewrite trie_keys_cons. cbn [In]. rewrite in_app_iff, IH. split.
    + intros [E|[H|(k1 & s1 & Hin & H)]].
      * exists k, sub. split; [now left|left; congruence].
      * exists k, sub. split; [now left|now right].
      * exists k1, s1. split; [now right|exact H].
    + intros (k1 & s1 & [E|Hin] & H).
      * inversion E; subst. destruct H; [left; congruence|right; now left].
      * right; right. exists k1, s1. auto.
Qed.

(* well-formed: sibling keys are distinct and pairwise not prefixes of one another,
   every key below a node properly extends the node's key *)
Inductive wft : trie -> Prop :=
| wft_T kids :
    NoDup (map fst kids) ->
    (forall a b, In a (map fst kids) -> In b (map fst kids) -> starts_with a b = true -> a = b) ->
    (forall k sub, In (k, sub) kids -> wft sub) ->
    (forall k sub k', In (k, sub) kids -> In k' (trie_keys sub) -> starts_with k' k = true /\ k' <> k) ->
    wft (T kids).

Lemma wft_tail e r : wft (T (e :: r)) -> wft (T r).
Proof.
  intros H; inversion H as [kids H1 H2 H3 H4]; subst. constructor.
  - now inversion H1.
  - intros a b Ha Hb. apply H2; now right.
  - intros k sub Hin. eapply H3. right; eauto.
  - intros k sub k' Hin. eapply H4. right; eauto.
Qed.

(* a key of another sibling's subtree cannot be a prefix of v when k is *)
Lemma other_sibling k sub r v k' :
  wft (T ((k, sub) :: r)) -> starts_with v k = true ->
  In k' (trie_keys (T r)) -> starts_with v k' = true -> False.
Proof.
  intros H Hk Hin Hk'. inversion H as [kids H1 H2 H3 H4]; subst.
  apply trie_keys_In in Hin. destruct Hin as (k2 & s2 & Hin & Hor).
  assert (P2 : starts_with v k2 = true).
  { destruct Hor as [->|Hs]; auto.
    destruct (H4 k2 s2 k' (or_intror Hin) Hs) as [A _]. eapply sw_trans; eauto. }
  assert (In2 : In k2 (map fst ((k, sub) :: r))) by (right; now apply (in_map fst) in Hin).
  assert (In1 : In k (map fst ((k, sub) :: r))) by now left.
  assert (k2 = k).
  { destruct (sw_comparable k k2 v Hk P2) as [C|C]; [symmetry|]; now apply H2. }
  subst. cbn [map fst] in H1. inversion H1 as [|? ? Hn _]; subst. apply Hn. now apply (in_map fst) in Hin.
Qed.

Definition longest (t : trie) (v : str) (o : option str) : Prop :=
  match o with
  | Some k => In k (trie_keys t) /\ starts_with v k = true /\
              forall k', In k' (trie_keys t) -> starts_with v k' = true -> starts_with k k' = true
  | None => forall k', In k' (trie_keys t) -> starts_with v k' = false
  end.

Lemma gln_longest : forall t, wft t -> forall v, longest t v (gln t v).
Proof.
  apply (trie_ind' (fun t => wft t -> forall v, longest t v (gln t v))).
  intros kids IHsub. induction kids as [|[k sub] r IHr]; intros Hw v.
  - simpl. intros k' [].
  - rewrite gln_cons.
    assert (Hw' := Hw). inversion Hw' as [kids H1 H2 H3 H4]; subst.
    assert (Wsub : wft sub) by (eapply H3; now left).
    destruct (starts_with v k) eqn:Ek.
    + specialize (IHsub k sub (or_introl eq_refl) Wsub v).
      destruct (gln sub v) as [o|]; unfold longest in *; rewrite trie_keys_cons.
      * destruct IHsub as (A & B & C). split; [right; apply in_or_app; now left|]. split; [exact B|].
        intros k' [E|Hin] Hk'.
        { subst k'. now apply (H4 k sub o (or_introl eq_refl) A). }
        apply in_app_or in Hin. destruct Hin as [Hin|Hin]; [now apply C|].
        exfalso. eapply other_sibling; eauto.
      * split; [now left|]. split; [exact Ek|].
        intros k' [E|Hin] Hk'; [subst; apply sw_refl|].
        apply in_app_or in Hin. destruct Hin as [Hin|Hin].
        { rewrite (IHsub k' Hin) in Hk'. discriminate. }
        exfalso. eapply other_sibling; eauto.
    + assert (IH := IHr (fun k0 s0 Hin => IHsub k0 s0 (or_intror Hin)) (wft_tail _ _ Hw) v).
      assert (Hnot : forall k', In k' (k :: trie_keys sub) -> starts_with v k' = false).
      { intros k' [E|Hin]; [now subst|].
        destruct (starts_with v k') eqn:E'; auto.
        destruct (H4 k sub k' (or_introl eq_refl) Hin) as [A _].
        rewrite (sw_trans _ _ _ A E') in Ek. discriminate. }
      destruct (gln (T r) v) as [o|]; unfold longest in *; rewrite trie_keys_cons.
      * destruct IH as (A & B & C). split; [right; apply in_or_app; now right|]. split; [exact B|].
        intros k' Hin Hk'. change (In k' ((k :: trie_keys sub) ++ trie_keys (T r))) in Hin.
        apply in_app_or in Hin. destruct Hin as [Hin|Hin]; [|now apply C].
        rewrite (Hnot k' Hin) in Hk'. discriminate.
      * intros k' Hin. change (In k' ((k :: trie_keys sub) ++ trie_keys (T r))) in Hin.
        apply in_app_or in Hin. destruct Hin as [Hin|Hin]; [now apply Hnot|now apply IH].
Qed.

(* insertion orders: all permutations of a list (for the sampled check below) *)
Fixpoint inserts (x : str) (l : list str) : list (list str) :=
  match l with
  | [] => [[x]]
  | y :: r => (x :: l) :: map (cons y) (inserts x r)
  end.
Fixpoint perms (l : list str) : list (list str) :=
  match l with
  | [] => [[]]
  | x :: r => flat_map (inserts x) (perms r)
  end.

Definition build (vs : list str) : trie := fold_left insert_trie vs (T []).

(* the longest element of vs that is a prefix of v, by brute force *)
Definition longest_of (vs : list str) (v : str) : option str :=
  fold_left (fun acc k => if starts_with v k
                          then match acc with
                               | Some o => if Nat.ltb (length o) (length k) then Some k else acc
                               | None => Some k
                               end
                          else acc) vs None.

(* Starting point for the missing half of C17_trie (insert_trie keeps [wft]): the loop of
   insert_trie as a function of its own, convertible with the nested fix of the model.
   Plan: (A) if some sibling key is a proper prefix of v, no sibling starts with v and the
   loop returns [dset kids k (insert_trie sub v)]; (B) otherwise it returns
   [filter stay kids ++ [(v, T (filter moved kids))]], by the invariant
   cur = A ++ snap ++ [(v, T m)]. *)
Section L.
Variables (ins : trie -> trie) (v : str).
Fixpoint ins_loop (snap cur : list (str * trie)) : list (str * trie) :=
  match snap with
  | [] => ensure cur v
  | (k, sub) :: rest =>
      if (N.ltb (N_len k) (N_len v)) && starts_with v k then dset cur k (ins sub)
      else if starts_with k v
      then ins_loop rest (add_child (dremove (ensure cur v) k) v (k, sub))
      else ins_loop rest cur
  end.
End L.

Lemma insert_trie_eq kids v :
  insert_trie (T kids) v =
  if dmem kids v then T kids else T (ins_loop (fun sub => insert_trie sub v) v kids kids).
Proof. cbn [insert_trie]. destruct (dmem kids v); reflexivity. Qed.
