(* The namespace trie: get_longest_namespace on a well-formed trie returns the
   longest key that is a prefix of the value. *)
From RV Require Import Namespace.Model Namespace.Dict.
From Coq Require Import Permutation.

Lemma trie_ind' (P : trie -> Prop) :
  (forall kids, (forall k sub, In (k, sub) kids -> P sub) -> P (T kids)) -> forall t, P t.
Proof.
  intros H. fix IH 1. intros [kids]. apply H.
  induction kids as [|[k s] r IHr]; intros k0 sub Hin; [destruct Hin|].
  destruct Hin as [E|Hin]; [replace sub with s by congruence; apply IH|eapply IHr; eauto].
Qed.

(* prefix order on strings *)
Lemma sw_refl a : starts_with a a = true.
Proof. apply starts_with_iff. exists []. now rewrite app_nil_r. Qed.

Lemma sw_trans a b c : starts_with b a = true -> starts_with c b = true -> starts_with c a = true.
Proof.
  rewrite !starts_with_iff. intros [r1 ->] [r2 ->]. exists (r1 ++ r2). now rewrite app_assoc.
Qed.

Lemma sw_comparable : forall a b v, starts_with v a = true -> starts_with v b = true ->
  starts_with a b = true \/ starts_with b a = true.
Proof.
  induction a as [|x a IH]; intros b v Ha Hb.
  - right. reflexivity.
  - destruct b as [|y b]; [left; reflexivity|].
    destruct v as [|z v]; [discriminate|]. cbn [starts_with] in *.
    apply andb_true_iff in Ha, Hb. destruct Ha as [E1 Ha], Hb as [E2 Hb].
    apply N.eqb_eq in E1, E2. subst. rewrite N.eqb_refl. cbn [andb]. eauto.
Qed.

Lemma sw_antisym a b : starts_with a b = true -> starts_with b a = true -> a = b.
Proof.
  rewrite !starts_with_iff. intros [r1 E1] [r2 E2]. rewrite E2 in E1 at 1.
  rewrite <- app_assoc in E1. rewrite <- (app_nil_r a) in E1 at 1.
  apply app_inv_head in E1. symmetry in E1. apply app_eq_nil in E1. destruct E1 as [-> _].
  now rewrite app_nil_r in E2.
Qed.

(* keys of a trie *)
Lemma trie_keys_cons k sub r :
  trie_keys (T ((k, sub) :: r)) = k :: trie_keys sub ++ trie_keys (T r).
Proof. reflexivity. Qed.

Lemma gln_cons k sub r v :
  gln (T ((k, sub) :: r)) v =
  if starts_with v k then match gln sub v with None => Some k | Some o => Some o end
  else gln (T r) v.
Proof. reflexivity. Qed.

Lemma trie_keys_In kids k' :
  In k' (trie_keys (T kids)) <-> exists k sub, In (k, sub) kids /\ (k' = k \/ In k' (trie_keys sub)).
Proof.
  induction kids as [|[k sub] r IH].
  - simpl. split; [tauto|intros (k & sub & [] & _)].
  - rewrite trie_keys_cons. cbn [In]. rewrite in_app_iff, IH. split.
    + intros [E|[H|(k1 & s1 & Hin & H)]].
      * exists k, sub. split; [now left|left; congruence].
      * exists k, sub. split; [now left|now right].
      * exists k1, s1. split; [now right|exact H].
    + intros (k1 & s1 & [E|Hin] & H).
      * inversion E; subst. destruct H; [left; congruence|right; now left].
      * right; right. exists k1, s1. auto.
Qed.

(* well-formed: sibling keys are distinct and pairwise not prefixes of one another,
   every key below a node properly extends the node's key *)
Inductive wft : trie -> Prop :=
| wft_T kids :
    NoDup (map fst kids) ->
    (forall a b, In a (map fst kids) -> In b (map fst kids) -> starts_with a b = true -> a = b) ->
    (forall k sub, In (k, sub) kids -> wft sub) ->
    (forall k sub k', In (k, sub) kids -> In k' (trie_keys sub) -> starts_with k' k = true /\ k' <> k) ->
    wft (T kids).

Lemma wft_tail e r : wft (T (e :: r)) -> wft (T r).
Proof.
  intros H; inversion H as [kids H1 H2 H3 H4]; subst. constructor.
  - now inversion H1.
  - intros a b Ha Hb. apply H2; now right.
  - intros k sub Hin. eapply H3. right; eauto.
  - intros k sub k' Hin. eapply H4. right; eauto.
Qed.

(* a key of another sibling's subtree cannot be a prefix of v when k is *)
Lemma other_sibling k sub r v k' :
  wft (T ((k, sub) :: r)) -> starts_with v k = true ->
  In k' (trie_keys (T r)) -> starts_with v k' = true -> False.
Proof.
  intros H Hk Hin Hk'. inversion H as [kids H1 H2 H3 H4]; subst.
  apply trie_keys_In in Hin. destruct Hin as (k2 & s2 & Hin & Hor).
  assert (P2 : starts_with v k2 = true).
  { destruct Hor as [->|Hs]; auto.
    destruct (H4 k2 s2 k' (or_intror Hin) Hs) as [A _]. eapply sw_trans; eauto. }
  assert (In2 : In k2 (map fst ((k, sub) :: r))) by (right; now apply (in_map fst) in Hin).
  assert (In1 : In k (map fst ((k, sub) :: r))) by now left.
  assert (k2 = k).
  { destruct (sw_comparable k k2 v Hk P2) as [C|C]; [symmetry|]; now apply H2. }
  subst. cbn [map fst] in H1. inversion H1 as [|? ? Hn _]; subst. apply Hn. now apply (in_map fst) in Hin.
Qed.

Definition longest (t : trie) (v : str) (o : option str) : Prop :=
  match o with
  | Some k => In k (trie_keys t) /\ starts_with v k = true /\
              forall k', In k' (trie_keys t) -> starts_with v k' = true -> starts_with k k' = true
  | None => forall k', In k' (trie_keys t) -> starts_with v k' = false
  end.

Lemma gln_longest : forall t, wft t -> forall v, longest t v (gln t v).
Proof.
  apply (trie_ind' (fun t => wft t -> forall v, longest t v (gln t v))).
  intros kids IHsub. induction kids as [|[k sub] r IHr]; intros Hw v.
  - simpl. intros k' [].
  - rewrite gln_cons.
    assert (Hw' := Hw). inversion Hw' as [kids H1 H2 H3 H4]; subst.
    assert (Wsub : wft sub) by (eapply H3; now left).
    destruct (starts_with v k) eqn:Ek.
    + specialize (IHsub k sub (or_introl eq_refl) Wsub v).
      destruct (gln sub v) as [o|]; unfold longest in *; rewrite trie_keys_cons.
      * destruct IHsub as (A & B & C). split; [right; apply in_or_app; now left|]. split; [exact B|].
        intros k' [E|Hin] Hk'.
        { subst k'. now apply (H4 k sub o (or_introl eq_refl) A). }
        apply in_app_or in Hin. destruct Hin as [Hin|Hin]; [now apply C|].
        exfalso. eapply other_sibling; eauto.
      * split; [now left|]. split; [exact Ek|].
        intros k' [E|Hin] Hk'; [subst; apply sw_refl|].
        apply in_app_or in Hin. destruct Hin as [Hin|Hin].
        { rewrite (IHsub k' Hin) in Hk'. discriminate. }
        exfalso. eapply other_sibling; eauto.
    + assert (IH := IHr (fun k0 s0 Hin => IHsub k0 s0 (or_intror Hin)) (wft_tail _ _ Hw) v).
      assert (Hnot : forall k', In k' (k :: trie_keys sub) -> starts_with v k' = false).
      { intros k' [E|Hin]; [now subst|].
        destruct (starts_with v k') eqn:E'; auto.
        destruct (H4 k sub k' (or_introl eq_refl) Hin) as [A _].
        rewrite (sw_trans _ _ _ A E') in Ek. discriminate. }
      destruct (gln (T r) v) as [o|]; unfold longest in *; rewrite trie_keys_cons.
      * destruct IH as (A & B & C). split; [right; apply in_or_app; now right|]. split; [exact B|].
        intros k' Hin Hk'. change (In k' ((k :: trie_keys sub) ++ trie_keys (T r))) in Hin.
        apply in_app_or in Hin. destruct Hin as [Hin|Hin]; [|now apply C].
        rewrite (Hnot k' Hin) in Hk'. discriminate.
      * intros k' Hin. change (In k' ((k :: trie_keys sub) ++ trie_keys (T r))) in Hin.
        apply in_app_or in Hin. destruct Hin as [Hin|Hin]; [now apply Hnot|now apply IH].
Qed.

(* insertion orders: all permutations of a list (for the sampled check below) *)
Fixpoint inserts (x : str) (l : list str) : list (list str) :=
  match l with
  | [] => [[x]]
  | y :: r => (x :: l) :: map (cons y) (inserts x r)
  end.
Fixpoint perms (l : list str) : list (list str) :=
  match l with
  | [] => [[]]
  | x :: r => flat_map (inserts x) (perms r)
  end.

Definition build (vs : list str) : trie := fold_left insert_trie vs (T []).

(* the longest element of vs that is a prefix of v, by brute force *)
Definition longest_of (vs : list str) (v : str) : option str :=
  fold_left (fun acc k => if starts_with v k
                          then match acc with
                               | Some o => if Nat.ltb (length o) (length k) then Some k else acc
                               | None => Some k
                               end
                          else acc) vs None.

(* ------------------------------------------------------------------ *)
(* insert_trie keeps a trie well-formed and adds exactly the value to its keys.
   The loop of insert_trie as a function of its own, convertible with the nested fix of the
   model.  (A) if some sibling key is a proper prefix of v, no sibling starts with v and
   the loop returns [dset kids k (insert_trie sub v)]; (B) otherwise it returns
   [filter stay kids ++ [(v, T (filter moved kids))]], by the invariant
   cur = A ++ snap ++ [(v, T m)]. *)
Section L.
Variables (ins : trie -> trie) (v : str).
Fixpoint ins_loop (snap cur : list (str * trie)) : list (str * trie) :=
  match snap with
  | [] => ensure cur v
  | (k, sub) :: rest =>
      if (N.ltb (N_len k) (N_len v)) && starts_with v k then dset cur k (ins sub)
      else if starts_with k v
      then ins_loop rest (add_child (dremove (ensure cur v) k) v (k, sub))
      else ins_loop rest cur
  end.
End L.

Lemma insert_trie_eq kids v :
  insert_trie (T kids) v =
  if dmem kids v then T kids else T (ins_loop (fun sub => insert_trie sub v) v kids kids).
Proof. cbn [insert_trie]. destruct (dmem kids v); reflexivity. Qed.

(* dictionary facts used below *)
Lemma dget_app {V} (l1 l2 : dict V) k :
  dget (l1 ++ l2) k = match dget l1 k with Some x => Some x | None => dget l2 k end.
Proof.
  induction l1 as [|[k0 x0] r IH]; simpl; auto. destruct (str_eqb k k0); auto.
Qed.

Lemma dremove_app {V} (l1 l2 : dict V) k : dremove (l1 ++ l2) k = dremove l1 k ++ dremove l2 k.
Proof. unfold dremove. apply filter_app. Qed.

Lemma dremove_notin {V} (l : dict V) k : ~ In k (map fst l) -> dremove l k = l.
Proof.
  induction l as [|[k0 x0] r IH]; simpl; auto. intros H.
  destruct (str_eqb_spec k k0) as [->|]; [tauto|]. simpl. f_equal. apply IH. tauto.
Qed.

Lemma dset_notin {V} (m : dict V) j x : ~ In j (map fst m) -> dset m j x = m ++ [(j, x)].
Proof.
  induction m as [|[k0 x0] r IH]; simpl; auto. intros H.
  destruct (str_eqb_spec j k0) as [->|]; [tauto|]. f_equal. apply IH. tauto.
Qed.

Lemma dset_mid {V} (l1 l2 : dict V) k s x :
  ~ In k (map fst l1) -> dset (l1 ++ (k, s) :: l2) k x = l1 ++ (k, x) :: l2.
Proof.
  induction l1 as [|[k0 x0] r IH]; simpl.
  - intros _. now rewrite str_eqb_refl.
  - intros H. destruct (str_eqb_spec k k0) as [->|]; [tauto|]. f_equal. apply IH. tauto.
Qed.

Lemma add_child_app l v m e :
  ~ In v (map fst l) -> add_child (l ++ [(v, T m)]) v e = l ++ [(v, T (dset m (fst e) (snd e)))].
Proof.
  induction l as [|[k0 [ks]] r IH]; simpl.
  - intros _. now rewrite str_eqb_refl.
  - intros H. destruct (str_eqb_spec v k0) as [->|]; [tauto|]. f_equal. apply IH. tauto.
Qed.

Lemma sw_len a b : starts_with a b = true -> a <> b -> length b < length a.
Proof.
  rewrite starts_with_iff. intros [r ->] H. rewrite app_length.
  destruct r; [rewrite app_nil_r in H; congruence|simpl; lia].
Qed.

Section Loop.
  Variables (ins : trie -> trie) (v : str).
  Definition test1 (k : str) : bool := N.ltb (N_len k) (N_len v) && starts_with v k.
  Definition movedb (e : str * trie) : bool := starts_with (fst e) v.
  Definition stayb (e : str * trie) : bool := negb (starts_with (fst e) v).

  Lemma loop_descend : forall l1 cur k sub l2,
    (forall j s, In (j, s) l1 -> test1 j = false /\ starts_with j v = false) ->
    test1 k = true ->
    ins_loop ins v (l1 ++ (k, sub) :: l2) cur = dset cur k (ins sub).
  Proof.
    induction l1 as [|[j s] r IH]; intros cur k sub l2 H Hk; cbn [app ins_loop].
    - unfold test1 in Hk. now rewrite Hk.
    - destruct (H j s (or_introl eq_refl)) as [H1 H2]. unfold test1 in H1. rewrite H1, H2.
      apply IH; auto. intros j' s' Hin. apply (H j' s'). now right.
  Qed.

  Lemma loop_move : forall snap A m (has : bool),
    (forall j s, In (j, s) snap -> test1 j = false) ->
    NoDup (map fst (m ++ A ++ snap)) -> ~ In v (map fst (m ++ A ++ snap)) ->
    (has = false -> m = []) ->
    ins_loop ins v snap (A ++ snap ++ (if has then [(v, T m)] else []))
    = (A ++ filter stayb snap) ++ [(v, T (m ++ filter movedb snap))].
  Proof.
    induction snap as [|[j sub] rest IH]; intros A m has Ht Hn Hv Hm; cbn [ins_loop filter].
    - rewrite !app_nil_r. cbn [app]. unfold ensure, dmem.
      destruct has.
      + rewrite dget_app. cbn [dget]. rewrite str_eqb_refl. now destruct (dget A v).
      + rewrite (Hm eq_refl), app_nil_r.
        assert (E : dget A v = None).
        { apply dget_None. intros Hin. apply Hv. rewrite !map_app. apply in_or_app. right.
          apply in_or_app. now left. }
        now rewrite E.
    - assert (T1 := Ht j sub (or_introl eq_refl)). unfold test1 in T1. rewrite T1.
      unfold stayb, movedb. cbn [fst]. destruct (starts_with j v) eqn:Ej; cbn [negb].
      + (* moved under v *)
        assert (Hjv : j <> v).
        { intros ->. apply Hv. rewrite !map_app. apply in_or_app. right. apply in_or_app. right. now left. }
        assert (NA : ~ In j (map fst A) /\ ~ In j (map fst rest) /\ ~ In j (map fst m)).
        { rewrite !map_app in Hn. cbn [map fst] in Hn.
          rewrite app_assoc in Hn. apply NoDup_remove_2 in Hn. rewrite !in_app_iff in Hn.
          repeat split; intros X; apply Hn; tauto. }
        destruct NA as (NA1 & NA2 & NA3).
        assert (NV : ~ In v (map fst (A ++ rest))).
        { intros X. apply Hv. rewrite !map_app in *. apply in_or_app. right.
          apply in_app_or in X. destruct X as [X|X]; apply in_or_app; [now left|right; now right]. }
        assert (E1 : ensure (A ++ ((j, sub) :: rest) ++ (if has then [(v, T m)] else [])) v
                     = A ++ ((j, sub) :: rest) ++ [(v, T m)]).
        { unfold ensure, dmem. destruct has.
          - rewrite !dget_app. cbn [dget]. rewrite str_eqb_refl.
            destruct (dget A v); [reflexivity|].
            destruct (str_eqb v j); [reflexivity|]. now destruct (dget rest v).
          - rewrite (Hm eq_refl), app_nil_r.
            assert (E : dget (A ++ (j, sub) :: rest) v = None).
            { apply dget_None. intros Hin. apply Hv. rewrite !map_app. apply in_or_app. right.
              now rewrite <- map_app. }
            rewrite E. now rewrite <- app_assoc. }
        rewrite E1.
        assert (E2 : dremove (A ++ ((j, sub) :: rest) ++ [(v, T m)]) j = (A ++ rest) ++ [(v, T m)]).
        { rewrite !dremove_app. rewrite (dremove_notin A j NA1).
          unfold dremove at 1. cbn [filter fst]. rewrite str_eqb_refl. cbn [negb].
          fold (dremove rest j). rewrite (dremove_notin rest j NA2).
          unfold dremove. cbn [filter fst].
          destruct (str_eqb_spec j v); [congruence|]. cbn [negb]. now rewrite app_assoc. }
        rewrite E2, (add_child_app (A ++ rest) v m (j, sub) NV). cbn [fst snd].
        rewrite (dset_notin m j sub NA3).
        rewrite <- app_assoc.
        assert (R : ins_loop ins v rest (A ++ rest ++ [(v, T (m ++ [(j, sub)]))])
                    = (A ++ filter stayb rest) ++ [(v, T ((m ++ [(j, sub)]) ++ filter movedb rest))]).
        { apply (IH A (m ++ [(j, sub)]) true).
          * intros j' s' Hin. apply (Ht j' s'). now right.
          * rewrite !map_app in *. cbn [map fst] in *.
            apply (Permutation_NoDup (l := map fst m ++ map fst A ++ j :: map fst rest)); [|exact Hn].
            rewrite <- !app_assoc. apply Permutation_app_head. cbn [app].
            apply Permutation_sym, Permutation_middle.
          * intros X. apply Hv. rewrite !map_app in *. cbn [map fst] in *.
            rewrite !in_app_iff in *. cbn [In] in *. tauto.
          * discriminate. }
        rewrite R. unfold stayb, movedb. now rewrite <- (app_assoc m).
      + (* stays *)
        replace (A ++ ((j, sub) :: rest) ++ (if has then [(v, T m)] else []))
          with ((A ++ [(j, sub)]) ++ rest ++ (if has then [(v, T m)] else []))
          by (rewrite <- app_assoc; reflexivity).
        rewrite IH.
        * now rewrite <- (app_assoc A).
        * intros j' s' Hin. apply (Ht j' s'). now right.
        * replace (m ++ (A ++ [(j, sub)]) ++ rest) with (m ++ A ++ (j, sub) :: rest); [exact Hn|].
          now rewrite <- (app_assoc A).
        * replace (m ++ (A ++ [(j, sub)]) ++ rest) with (m ++ A ++ (j, sub) :: rest); [exact Hv|].
          now rewrite <- (app_assoc A).
        * exact Hm.
  Qed.
End Loop.

Lemma first_test v (kids : list (str * trie)) :
  (exists l1 k sub l2, kids = l1 ++ (k, sub) :: l2 /\ test1 v k = true /\
     forall j s, In (j, s) l1 -> test1 v j = false)
  \/ (forall j s, In (j, s) kids -> test1 v j = false).
Proof.
  induction kids as [|[k sub] r IH]; [right; intros j s []|].
  destruct (test1 v k) eqn:E.
  - left. exists [], k, sub, r. split; [reflexivity|]. split; [exact E|]. intros j s [].
  - destruct IH as [(l1 & k0 & s0 & l2 & -> & Hk & Hl)|Hall].
    + left. exists ((k, sub) :: l1), k0, s0, l2. split; [reflexivity|]. split; [exact Hk|].
      intros j s [X|X]; [inversion X; subst; exact E|eauto].
    + right. intros j s [X|X]; [inversion X; subst; exact E|eauto].
Qed.

Lemma trie_keys_app l1 l2 : trie_keys (T (l1 ++ l2)) = trie_keys (T l1) ++ trie_keys (T l2).
Proof.
  induction l1 as [|[k sub] r IH]; [reflexivity|].
  cbn [app]. rewrite !trie_keys_cons, IH. cbn [app]. now rewrite <- app_assoc.
Qed.

Lemma NoDup_keys_filter {V} (f : str * V -> bool) (l : dict V) :
  NoDup (map fst l) -> NoDup (map fst (filter f l)).
Proof.
  induction l as [|e r IH]; simpl; auto. intros H; inversion H; subst.
  destruct (f e); simpl; auto. constructor; auto.
  intros X. apply H2. apply in_map_iff in X. destruct X as (e' & <- & Hin).
  apply filter_In in Hin. apply in_map. tauto.
Qed.

Lemma In_keys_filter {V} (f : str * V -> bool) (l : dict V) a :
  In a (map fst (filter f l)) -> In a (map fst l).
Proof.
  intros X. apply in_map_iff in X. destruct X as (e & <- & Hin). apply filter_In in Hin. apply in_map. tauto.
Qed.

Lemma wft_filter f kids : wft (T kids) -> wft (T (filter f kids)).
Proof.
  intros H; inversion H as [? H1 H2 H3 H4]; subst. constructor.
  - now apply NoDup_keys_filter.
  - intros a b Ha Hb. apply H2; eapply In_keys_filter; eauto.
  - intros k sub Hin. apply filter_In in Hin. eapply H3; apply Hin.
  - intros k sub k' Hin. apply filter_In in Hin. eapply H4; apply Hin.
Qed.

Lemma trie_keys_split f kids k' :
  In k' (trie_keys (T kids)) <->
  In k' (trie_keys (T (filter f kids))) \/ In k' (trie_keys (T (filter (fun e => negb (f e)) kids))).
Proof.
  rewrite !trie_keys_In. split.
  - intros (k & sub & Hin & H). destruct (f (k, sub)) eqn:E; [left|right]; exists k, sub;
      (split; [apply filter_In; split; [exact Hin|]|exact H]); [exact E|now rewrite E].
  - intros [(k & sub & Hin & H)|(k & sub & Hin & H)]; apply filter_In in Hin; exists k, sub; tauto.
Qed.

Lemma test1_true v k : test1 v k = true -> starts_with v k = true /\ v <> k.
Proof.
  unfold test1. rewrite andb_true_iff, N.ltb_lt. unfold N_len. intros [H1 H2]. split; [exact H2|].
  intros ->. lia.
Qed.

Lemma test1_false v k : test1 v k = false -> starts_with v k = true -> v = k.
Proof.
  unfold test1. intros H1 H2. rewrite H2, andb_true_r in H1. apply N.ltb_ge in H1.
  destruct (str_eqb_spec v k) as [|Hne]; auto.
  pose proof (sw_len _ _ H2 Hne). unfold N_len in H1. lia.
Qed.

Definition ins_ok (t : trie) (v : str) : Prop :=
  wft (insert_trie t v) /\
  forall k', In k' (trie_keys (insert_trie t v)) <-> k' = v \/ In k' (trie_keys t).

Theorem insert_wft : forall t, wft t -> forall v, ins_ok t v.
Proof.
  apply (trie_ind' (fun t => wft t -> forall v, ins_ok t v)).
  intros kids IH Hw v. unfold ins_ok. rewrite insert_trie_eq.
  destruct (dmem kids v) eqn:Em.
  { split; [exact Hw|]. intros k'. split; [auto|]. intros [->|H]; [|exact H].
    unfold dmem in Em. destruct (dget kids v) as [sub|] eqn:E; [|discriminate].
    apply trie_keys_In. exists v, sub. split; [now apply dget_In|now left]. }
  assert (Hv : ~ In v (map fst kids)).
  { apply dget_None. unfold dmem in Em. now destruct (dget kids v). }
  inversion Hw as [? H1 H2 H3 H4]; subst.
  destruct (first_test v kids) as [(l1 & k & sub & l2 & -> & Hk & Hl1)|Hall].
  - (* descend into the one sibling that is a proper prefix of v *)
    destruct (test1_true v k Hk) as [Pk Nk].
    assert (Ink : In k (map fst (l1 ++ (k, sub) :: l2))).
    { rewrite map_app. apply in_or_app. right. now left. }
    assert (Hl : forall j s, In (j, s) l1 -> test1 v j = false /\ starts_with j v = false).
    { intros j s Hin. split; [eauto|]. destruct (starts_with j v) eqn:E; auto.
      assert (j = k).
      { apply H2; auto.
        - rewrite map_app. apply in_or_app. left. now apply (in_map fst) in Hin.
        - eapply sw_trans; eauto. }
      subst. rewrite (Hl1 k s Hin) in Hk. discriminate. }
    rewrite (loop_descend _ v l1 _ k sub l2 Hl Hk).
    assert (Nk1 : ~ In k (map fst l1)).
    { rewrite map_app in H1. cbn [map fst] in H1. apply NoDup_remove_2 in H1.
      intros X. apply H1. apply in_or_app. now left. }
    rewrite (dset_mid l1 l2 k sub _ Nk1).
    assert (Insub : In (k, sub) (l1 ++ (k, sub) :: l2)) by (apply in_or_app; right; now left).
    destruct (IH k sub Insub (H3 k sub Insub) v) as [Wx Kx].
    set (x := insert_trie sub v) in *.
    assert (Emap : map fst (l1 ++ (k, x) :: l2) = map fst (l1 ++ (k, sub) :: l2)).
    { now rewrite !map_app. }
    assert (Hin' : forall k0 s0, In (k0, s0) (l1 ++ (k, x) :: l2) ->
              (k0 = k /\ s0 = x) \/ In (k0, s0) (l1 ++ (k, sub) :: l2)).
    { intros k0 s0 X. apply in_app_or in X. destruct X as [X|[X|X]].
      - right. apply in_or_app. now left.
      - inversion X; subst. now left.
      - right. apply in_or_app. right. now right. }
    split.
    + constructor.
      * now rewrite Emap.
      * rewrite Emap. exact H2.
      * intros k0 s0 X. destruct (Hin' k0 s0 X) as [[-> ->]|Y]; [exact Wx|eauto].
      * intros k0 s0 k' X Hk'. destruct (Hin' k0 s0 X) as [[-> ->]|Y]; [|eauto].
        apply Kx in Hk'. destruct Hk' as [->|Hk']; [split; auto|eauto].
    + intros k'. rewrite !trie_keys_app, !trie_keys_cons, !in_app_iff. cbn [In].
      rewrite !in_app_iff, Kx. tauto.
  - (* no sibling is a proper prefix of v: siblings that start with v move under v *)
    pose proof (loop_move (fun sub => insert_trie sub v) v kids [] [] false Hall) as R.
    cbn [app] in R. rewrite app_nil_r in R. rewrite (R H1 Hv (fun _ => eq_refl)). clear R.
    assert (Hstay : forall a, In a (map fst (filter (stayb v) kids)) ->
              In a (map fst kids) /\ starts_with a v = false).
    { intros a X. apply in_map_iff in X. destruct X as ([k0 s0] & <- & Hin).
      apply filter_In in Hin. destruct Hin as [Hin Hs]. unfold stayb in Hs. cbn [fst] in *.
      split; [now apply (in_map fst) in Hin|]. now destruct (starts_with k0 v). }
    assert (Wm : wft (T (filter (movedb v) kids))) by now apply wft_filter.
    assert (Ws : wft (T (filter (stayb v) kids))) by now apply wft_filter.
    inversion Ws as [? S1 S2 S3 S4]; subst.
    split.
    + constructor.
      * rewrite map_app. cbn [map fst]. apply NoDup_app_single; [exact S1|].
        intros X. apply Hv. now apply Hstay.
      * intros a b Ha Hb Hab. rewrite map_app in Ha, Hb. cbn [map fst] in Ha, Hb.
        apply in_app_or in Ha, Hb. destruct Ha as [Ha|[<-|[]]], Hb as [Hb|[<-|[]]]; auto.
        { destruct (Hstay a Ha) as [_ X]. congruence. }
        { destruct (Hstay b Hb) as [Hb' _]. apply in_map_iff in Hb'. destruct Hb' as ([k0 s0] & <- & Hin).
          cbn [fst] in *. now apply (test1_false v k0 (Hall k0 s0 Hin)). }
      * intros k0 s0 X. apply in_app_or in X. destruct X as [X|[X|[]]]; [eauto|].
        inversion X; subst. exact Wm.
      * intros k0 s0 k' X Hk'. apply in_app_or in X. destruct X as [X|[X|[]]]; [eauto|].
        inversion X; subst. apply trie_keys_In in Hk'. destruct Hk' as (m & sm & Hin & Hor).
        apply filter_In in Hin. destruct Hin as [Hin Hm]. unfold movedb in Hm. cbn [fst] in Hm.
        assert (Nm : m <> k0). { intros ->. apply Hv. now apply (in_map fst) in Hin. }
        destruct Hor as [->|Hs]; [split; auto|].
        destruct (H4 m sm k' Hin Hs) as [P N]. split; [eapply sw_trans; eauto|].
        intros ->. apply Nm. now apply sw_antisym.
    + intros k'. rewrite trie_keys_app, trie_keys_cons.
      change (trie_keys (T [])) with (@nil str). rewrite app_nil_r, in_app_iff. cbn [In].
      rewrite (trie_keys_split (movedb v) kids k').
      assert (E : filter (fun e => negb (movedb v e)) kids = filter (stayb v) kids) by reflexivity.
      rewrite E. intuition (subst; auto).
Qed.

Lemma wft_empty : wft (T []).
Proof. constructor; [constructor| | |]; intros; simpl in *; tauto. Qed.

Lemma fold_insert_wft : forall vs t, wft t ->
  wft (fold_left insert_trie vs t) /\
  forall k', In k' (trie_keys (fold_left insert_trie vs t)) <-> In k' vs \/ In k' (trie_keys t).
Proof.
  induction vs as [|v r IH]; intros t Hw; cbn [fold_left].
  - split; [exact Hw|]. intros k'. simpl. tauto.
  - destruct (insert_wft t Hw v) as [W K]. destruct (IH _ W) as [W' K']. split; [exact W'|].
    intros k'. rewrite K', K. simpl. intuition (subst; auto).
Qed.

(* the trie built by inserting vs in the given order *)
Lemma build_wft vs : wft (build vs) /\ forall k', In k' (trie_keys (build vs)) <-> In k' vs.
Proof.
  destruct (fold_insert_wft vs (T []) wft_empty) as [W K]. split; [exact W|].
  intros k'. unfold build. rewrite K. simpl. tauto.
Qed.

(* get_longest_namespace after any insertion order: the longest inserted namespace that is
   a prefix of the value *)
Theorem gln_build vs v :
  match gln (build vs) v with
  | Some k => In k vs /\ starts_with v k = true /\
              forall k', In k' vs -> starts_with v k' = true -> starts_with k k' = true
  | None => forall k', In k' vs -> starts_with v k' = false
  end.
Proof.
  destruct (build_wft vs) as [W K]. pose proof (gln_longest (build vs) W v) as L.
  unfold longest in L. destruct (gln (build vs) v) as [k|].
  - destruct L as (A & B & C). split; [now apply K|]. split; [exact B|].
    intros k' Hin. apply C. now apply K.
  - intros k' Hin. apply L. now apply K.
Qed.

(* "longest" in the usual sense *)
Lemma sw_length a b : starts_with a b = true -> length b <= length a.
Proof. rewrite starts_with_iff. intros [r ->]. rewrite app_length. lia. Qed.

(* every node reachable by find_sub in a well-formed trie is a well-formed trie *)
Lemma find_sub_wft : forall t, wft t -> forall v sub, find_sub t v = Some sub -> wft sub.
Proof.
  apply (trie_ind' (fun t => wft t -> forall v sub, find_sub t v = Some sub -> wft sub)).
  intros kids IH Hw v sub. inversion Hw as [? H1 H2 H3 H4]; subst. cbn [find_sub].
  destruct (dget kids v) as [s0|] eqn:E.
  - intros X; inversion X; subst. apply dget_In in E. eauto.
  - assert (G : forall l, (forall k s, In (k, s) l -> In (k, s) kids) ->
      (fix loop (l : list (str * trie)) : option trie :=
         match l with
         | [] => None
         | (k, sub) :: r =>
             if (N.ltb (N_len k) (N_len v)) && starts_with v k then find_sub sub v else loop r
         end) l = Some sub -> wft sub).
    { induction l as [|[k s] r IHl]; intros Hsub; [discriminate|].
      destruct ((N_len k <? N_len v)%N && starts_with v k).
      - apply (IH k s); [apply Hsub; now left|]. apply (H3 k s). apply Hsub. now left.
      - apply IHl. intros k' s' X. apply Hsub. now right. }
    apply G. auto.
Qed.
