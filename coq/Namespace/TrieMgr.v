(* The trie of every reachable NamespaceManager state is well-formed, so what
   compute_qname gets from get_longest_namespace is the longest known namespace
   (below the split namespace) that is a prefix of the IRI. *)
From RV Require Import Namespace.Model Namespace.Dict Namespace.StoreInv Namespace.Trie.

Definition tinv (s : mst) : Prop := wft (trie_ s).

Lemma tinv_store_bind s p n ov : tinv s -> tinv (fst (m_store_bind s p n ov)).
Proof.
  unfold tinv, m_store_bind. intros H.
  destruct (store_bind_frame (set_caches s [] []) p n ov) as (_ & _ & _ & E). now rewrite E.
Qed.

Lemma tinv_insert_trie s v : tinv s -> tinv (m_insert_trie s v).
Proof. unfold tinv, m_insert_trie. cbn [trie_ set_tries]. intros H. now apply insert_wft. Qed.

Lemma tinv_insert_strie s v : tinv s -> tinv (m_insert_strie s v).
Proof.
  unfold tinv, m_insert_strie. destruct (memb str_eqb v (strie s)); auto.
  cbn [trie_ set_tries]. intros H. now apply insert_wft.
Qed.

Lemma tinv_bind s prefix ns ov rep : tinv s -> tinv (fst (m_bind s prefix ns ov rep)).
Proof.
  intros H. unfold m_bind.
  assert (F : forall r : mst * bool, tinv (fst r) ->
    tinv (fst ((if snd r then (m_insert_trie (fst r) ns, None) else (fst r, Some EKey)) : mst * option exn))).
  { intros [r []]; simpl; auto. apply tinv_insert_trie. }
  destruct (match prefix with Some p => has_space p | None => false end); [exact H|].
  destruct (match dget (p2n s) (odefault prefix []) with Some b => truthy b && negb (str_eqb b ns) | None => false end).
  - destruct rep; [apply F, tinv_store_bind, H|].
    destruct (find_num s _ ns _ 1); [exact H|apply F, tinv_store_bind, H|exact H].
  - destruct (dget (n2p s) ns) as [bp|]; [|apply F, tinv_store_bind, H].
    destruct (str_eqb bp (odefault prefix [])); [apply F; exact H|].
    destruct (ov || starts_with bp [95%N]); apply F; [apply tinv_store_bind, H|exact H].
Qed.

Lemma tinv_binds l : forall s, tinv s -> tinv (fst (m_binds s l)).
Proof.
  induction l as [|[p n] r IH]; intros s H; cbn [m_binds]; auto.
  pose proof (tinv_bind s (Some p) n true false H) as M.
  destruct (snd (m_bind s (Some p) n true false)); cbn [fst]; auto.
Qed.

Section M.
  Variables (split split_s : str -> option (str * str)) (ncname : str -> bool).

  Lemma tinv_generate s ns gen : tinv s -> tinv (fst (m_generate s ns gen)).
  Proof.
    intros H. unfold m_generate. destruct (negb gen); auto.
    destruct (find_ns s _ 1) as [p|]; auto.
    pose proof (tinv_bind s (Some p) ns true false H) as M.
    destruct (snd (m_bind s (Some p) ns true false)); exact M.
  Qed.

  Lemma tinv_prefix_for s ns gen : tinv s -> tinv (fst (m_prefix_for s ns gen)).
  Proof. intros H. unfold m_prefix_for. destruct (dget (n2p s) ns); auto. now apply tinv_generate. Qed.

  Lemma tinv_compute s u gen : tinv s -> tinv (fst (m_compute split s u gen)).
  Proof.
    intros H. unfold m_compute. destruct (dget (cache s) u); auto.
    destruct (negb (valid_uri u)); auto.
    destruct (split_or_whole split s u) as [[ns0 nm0]|]; auto.
    assert (M : tinv (fst (m_prefix_for (m_insert_strie s ns0)
                  (fst (pick_ns (m_insert_strie s ns0) ns0 nm0 u)) gen))).
    { apply tinv_prefix_for. now apply tinv_insert_strie. }
    destruct (snd (m_prefix_for _ _ gen)); exact M.
  Qed.

  Lemma tinv_compute_strict s u gen :
    tinv s -> tinv (fst (m_compute_strict split split_s ncname s u gen)).
  Proof.
    intros H. unfold m_compute_strict.
    pose proof (tinv_compute s u gen H) as M.
    destruct (m_compute split s u gen) as [s1 [q|e]]; cbn [fst snd] in *; auto.
    destruct (ncname (snd q)); auto.
    destruct (dget (cache_s s1) u); auto.
    destruct (split_s u) as [[ns' nm']|]; auto.
    assert (M2 : tinv (fst (m_prefix_for (m_insert_strie s1 ns') ns' gen))).
    { apply tinv_prefix_for. now apply tinv_insert_strie. }
    destruct (snd (m_prefix_for _ _ gen)); exact M2.
  Qed.

  Lemma tinv_normalize s u : tinv s -> tinv (fst (m_normalize split s u)).
  Proof.
    intros H. unfold m_normalize. destruct (split u) as [[ns nm]|]; auto.
    destruct (dget (n2p (m_insert_strie s ns)) ns); cbn [fst].
    - apply tinv_compute. now apply tinv_insert_strie.
    - now apply tinv_insert_strie.
  Qed.

  Lemma tinv_reset s : tinv (m_reset s).
  Proof.
    unfold tinv, m_reset. cbn [trie_ set_tries].
    assert (G : forall (l : list (str * str)) t, wft t -> wft (fold_left (fun t e => insert_trie t (snd e)) l t)).
    { induction l as [|e r IH]; intros t Ht; cbn [fold_left]; auto. apply IH. now apply insert_wft. }
    apply G, wft_empty.
  Qed.

  Lemma tinv_step s o : tinv s -> tinv (fst (m_step split split_s ncname s o)).
  Proof.
    intros H. destruct o; cbn [m_step].
    - pose proof (tinv_bind s p n ov rep H). destruct (m_bind s p n ov rep) as [s' e]. exact H0.
    - pose proof (tinv_compute s u true H). destruct (m_compute split s u true) as [s' [q|e]]; exact H0.
    - pose proof (tinv_compute s u gen H). destruct (m_compute split s u gen) as [s' [q|e]]; exact H0.
    - pose proof (tinv_compute s u gen H). destruct (m_compute split s u gen) as [s' [q|e]]; exact H0.
    - pose proof (tinv_compute_strict s u gen H).
      destruct (m_compute_strict split split_s ncname s u gen) as [s' [q|e]]; exact H0.
    - pose proof (tinv_normalize s u H). destruct (m_normalize split s u) as [s' [x|[q|e]]]; exact H0.
    - exact H.
    - apply tinv_reset.
    - pose proof (tinv_binds (eff_decls decls) s H) as M.
      destruct (m_binds s (eff_decls decls)) as [s' e]. exact M.
    - exact H.
  Qed.

  Lemma tinv_final ops : forall s, tinv s -> tinv (m_final split split_s ncname s ops).
  Proof. induction ops as [|o r IH]; intros s H; cbn [m_final]; auto. apply IH. now apply tinv_step. Qed.

  Lemma tinv_init : tinv m_init.
  Proof. apply wft_empty. Qed.

  (* the sub-dictionary compute_qname hands to get_longest_namespace *)
  Lemma reachable_gln ops ns0 sub u :
    find_sub (trie_ (m_final split split_s ncname m_init ops)) ns0 = Some sub ->
    longest sub u (gln sub u).
  Proof.
    intros E. apply gln_longest. eapply find_sub_wft; [|exact E]. apply tinv_final, tinv_init.
  Qed.
End M.
