(* The two store dictionaries stay mutually inverse under Memory.bind, outside
   the F6b region. *)
From RV Require Import Namespace.Model Namespace.Dict.

Definition fbij (P Nn : dict str) : Prop :=
  forall p n, dget P p = Some n <-> dget Nn n = Some p.

Definition bij (s : mst) : Prop :=
  NoDup (map fst (p2n s)) /\ NoDup (map fst (n2p s)) /\ fbij (p2n s) (n2p s).

Ltac inst9 H p n prefix ns q b :=
  pose proof (H p n); pose proof (H p ns); pose proof (H p b);
  pose proof (H prefix n); pose proof (H prefix ns); pose proof (H prefix b);
  pose proof (H q n); pose proof (H q ns); pose proof (H q b).

Lemma fbij_ov_both P Nn prefix ns q b :
  fbij P Nn -> dget P prefix = Some b -> dget Nn ns = Some q ->
  fbij (dset (dremove P q) prefix ns) (dset (dremove Nn b) ns prefix).
Proof.
  intros H Hb Hq p n. rewrite !dget_dset, !dget_dremove.
  inst9 H p n prefix ns q b.
  destruct (str_eqb_spec p prefix), (str_eqb_spec n ns), (str_eqb_spec p q), (str_eqb_spec n b);
    subst; try tauto; try (split; congruence); try (split; intros; exfalso; intuition congruence).
Qed.

Lemma fbij_ov_prefix P Nn prefix ns b :
  fbij P Nn -> dget P prefix = Some b -> dget Nn ns = None ->
  fbij (dset (dremove P prefix) prefix ns) (dset (dremove Nn b) ns prefix).
Proof.
  intros H Hb Hq p n. rewrite !dget_dset, !dget_dremove.
  pose proof (H p n); pose proof (H p ns); pose proof (H p b);
  pose proof (H prefix n); pose proof (H prefix ns); pose proof (H prefix b).
  destruct (str_eqb_spec p prefix), (str_eqb_spec n ns), (str_eqb_spec n b);
    subst; try tauto; try (split; congruence); try (split; intros; exfalso; intuition congruence).
Qed.

Lemma fbij_ov_ns P Nn prefix ns q :
  fbij P Nn -> dget P prefix = None -> dget Nn ns = Some q ->
  fbij (dset (dremove P q) prefix ns) (dset Nn ns prefix).
Proof.
  intros H Hb Hq p n. rewrite !dget_dset, !dget_dremove.
  pose proof (H p n); pose proof (H p ns); pose proof (H prefix n); pose proof (H prefix ns);
  pose proof (H q n); pose proof (H q ns).
  destruct (str_eqb_spec p prefix), (str_eqb_spec n ns), (str_eqb_spec p q);
    subst; try tauto; try (split; congruence); try (split; intros; exfalso; intuition congruence).
Qed.

Lemma fbij_fresh P Nn prefix ns :
  fbij P Nn -> dget P prefix = None -> dget Nn ns = None ->
  fbij (dset P prefix ns) (dset Nn ns prefix).
Proof.
  intros H Hb Hq p n. rewrite !dget_dset.
  pose proof (H p n); pose proof (H p ns); pose proof (H prefix n); pose proof (H prefix ns).
  destruct (str_eqb_spec p prefix), (str_eqb_spec n ns);
    subst; try tauto; try (split; congruence); try (split; intros; exfalso; intuition congruence).
Qed.

Lemma fbij_noop P Nn p0 n0 :
  fbij P Nn -> dget P p0 = Some n0 -> fbij (dset P p0 n0) (dset Nn n0 p0).
Proof.
  intros H Hb p n. rewrite !dget_dset.
  pose proof (H p n); pose proof (H p n0); pose proof (H p0 n); pose proof (H p0 n0).
  destruct (str_eqb_spec p p0), (str_eqb_spec n n0);
    subst; try tauto; try (split; congruence); try (split; intros; exfalso; intuition congruence).
Qed.

(* frame: what Memory.bind does not touch *)
Lemma store_bind_frame s prefix ns ov :
  let s' := fst (store_bind s prefix ns ov) in
  cache s' = cache s /\ cache_s s' = cache_s s /\ strie s' = strie s /\ trie_ s' = trie_ s.
Proof.
  unfold store_bind. destruct ov; simpl.
  - destruct (match coalesce _ _ with Some q => ddel (p2n s) q | None => Some (p2n s) end); simpl; auto.
    destruct (match dget (p2n s) prefix with Some b => ddel (n2p s) b | None => Some (n2p s) end); simpl; auto.
  - destruct (dget (p2n s) prefix); [simpl; auto|].
    destruct (coalesce (dget (n2p s) ns) None); simpl; auto.
Qed.

(* Memory.bind never raises on mutually inverse dictionaries, keeps them mutually inverse,
   and with override the prefix is bound to the namespace afterwards *)
Lemma store_bind_good s prefix ns ov :
  bij s ->
  let r := store_bind s prefix ns ov in
  snd r = true /\ bij (fst r) /\ (ov = true -> dget (p2n (fst r)) prefix = Some ns).
Proof.
  intros (Hp & Hn & H). unfold store_bind.
  destruct (dget (p2n s) prefix) as [b|] eqn:Eb.
  - assert (Hbp : dget (n2p s) b = Some prefix) by now apply H.
    destruct (dget (n2p s) ns) as [q|] eqn:Eq; cbn [coalesce].
    + assert (Hq : dget (p2n s) q = Some ns) by now apply H.
      destruct ov.
      * rewrite (@ddel_Some _ _ _ _ Hq), (@ddel_Some _ _ _ _ Hbp). cbn [fst snd set_maps p2n n2p].
        split; [reflexivity|]. split.
        { split; [|split]; cbn [p2n n2p set_maps].
          - apply dset_NoDup, dremove_NoDup, Hp.
          - apply dset_NoDup, dremove_NoDup, Hn.
          - now apply fbij_ov_both. }
        intros _. rewrite dget_dset. now rewrite str_eqb_refl.
      * cbn [fst snd]. split; [reflexivity|]. split; [|discriminate]. split; [|split]; assumption.
    + rewrite Hbp. destruct ov.
      * rewrite (@ddel_Some _ _ _ _ Eb), (@ddel_Some _ _ _ _ Hbp). cbn [fst snd set_maps p2n n2p].
        split; [reflexivity|]. split.
        { split; [|split]; cbn [p2n n2p set_maps].
          - apply dset_NoDup, dremove_NoDup, Hp.
          - apply dset_NoDup, dremove_NoDup, Hn.
          - now apply fbij_ov_prefix. }
        intros _. rewrite dget_dset. now rewrite str_eqb_refl.
      * cbn [fst snd]. split; [reflexivity|]. split; [|discriminate]. split; [|split]; assumption.
  - destruct (dget (n2p s) ns) as [q|] eqn:Eq; cbn [coalesce].
    + assert (Hq : dget (p2n s) q = Some ns) by now apply H.
      destruct ov.
      * rewrite (@ddel_Some _ _ _ _ Hq). cbn [fst snd set_maps p2n n2p].
        split; [reflexivity|]. split.
        { split; [|split]; cbn [p2n n2p set_maps].
          - apply dset_NoDup, dremove_NoDup, Hp.
          - apply dset_NoDup, Hn.
          - now apply fbij_ov_ns. }
        intros _. rewrite dget_dset. now rewrite str_eqb_refl.
      * cbn [fst snd]. split; [reflexivity|]. split; [|discriminate]. split; [|split]; assumption.
    + destruct ov.
      * cbn [fst snd set_maps p2n n2p].
        split; [reflexivity|]. split.
        { split; [|split]; cbn [p2n n2p set_maps].
          - apply dset_NoDup, Hp.
          - apply dset_NoDup, Hn.
          - now apply fbij_fresh. }
        intros _. rewrite dget_dset. now rewrite str_eqb_refl.
      * cbn [fst snd set_maps p2n n2p]. split; [reflexivity|]. split; [|discriminate].
        split; [|split]; cbn [p2n n2p set_maps].
        { apply dset_NoDup, Hp. } { apply dset_NoDup, Hn. }
        now apply fbij_fresh.
Qed.
