(* Model of the prefix handling of the Turtle serialiser
   (rdflib/plugins/serializers/turtle.py): RecursiveSerializer.addNamespace,
   TurtleSerializer.addNamespace (the "_" / clash rewriting), getQName, the preprocess pass
   over the triples, and the @prefix header of startDocument.  Definitions only. *)
From RV Require Export Namespace.Model.

Record sst := { z_ns : dict str;     (* self.namespaces : prefix -> namespace, insertion order *)
                z_rw : dict str }.   (* self._ns_rewrite *)
Definition z_init : sst := {| z_ns := []; z_rw := [] |}.

Definition letter_p : N := 112%N.

(* p = "p" + prefix; while p in self.namespaces: p = "p" + p   (None: the loop does not end) *)
Fixpoint fresh_p (nsd : dict str) (fuel : nat) (p : str) : option str :=
  match fuel with
  | O => None
  | S f => if dmem nsd p then fresh_p nsd f (letter_p :: p) else Some p
  end.

(* TurtleSerializer.addNamespace; the prefix actually registered, None = the Exception of
   RecursiveSerializer.addNamespace ("Trying to override namespace prefix") *)
Definition add_ns (t : sst) (prefix ns : str) : sst * option str :=
  let clash := (match prefix with c :: _ => N.eqb c 95 | [] => false end)
               || negb (str_eqb (odefault (dget (z_ns t) prefix) ns) ns) in
  let r := if clash then
             match dget (z_rw t) prefix with
             | Some p => (t, Some p)
             | None => match fresh_p (z_ns t) (S (length (z_ns t))) (letter_p :: prefix) with
                       | Some p => ({| z_ns := z_ns t; z_rw := dset (z_rw t) prefix p |}, Some p)
                       | None => (t, None)
                       end
             end
           else (t, Some prefix) in
  match snd r with
  | None => (fst r, None)
  | Some p =>
      match dget (z_ns (fst r)) p with
      | Some old => if str_eqb old ns then (fst r, Some p) else (fst r, None)
      | None => ({| z_ns := dset (z_ns (fst r)) p ns; z_rw := z_rw (fst r) |}, Some p)
      end
  end.

Definition ends_with_dot (l : str) : bool := match rev l with c :: _ => N.eqb c 46 | [] => false end.

(* what getQName did: raised (from addNamespace), returned None, returned prefix:local
   (local before the escaping of parentheses) *)
Inductive qres := QRaise | QNone | QName (p local : str).

Section Ser.
  Variable split : str -> option (str * str).

  (* TurtleSerializer.getQName(uri, gen_prefix) for a URIRef *)
  Definition ser_q (s : mst) (t : sst) (u : str) (gen : bool) : mst * sst * qres :=
    let r := m_compute split s u gen in
    let parts := match snd r with
                 | inl q => Some q
                 | inr _ => match dget (n2p (fst r)) u with       (* self.store.store.prefix(uri) *)
                            | Some pfx => Some (pfx, u, [])
                            | None => None
                            end
                 end in
    match parts with
    | None => (fst r, t, QNone)
    | Some (p, ns, local) =>
        let a := add_ns t p ns in
        match snd a with
        | None => (fst r, fst a, QRaise)
        | Some p' => (fst r, fst a, if ends_with_dot local then QNone else QName p' local)
        end
    end.

  (* preprocess(): getQName for the terms of every triple, in the store's order; the harness
     flattens the triples into (IRI, gen_prefix) calls.  Stops at the first exception. *)
  Fixpoint ser_pre (s : mst) (t : sst) (calls : list (str * bool)) : mst * sst * list (str * qres) :=
    match calls with
    | [] => (s, t, [])
    | (u, gen) :: r =>
        let x := ser_q s t u gen in
        match snd x with
        | QRaise => (fst (fst x), snd (fst x), [(u, QRaise)])
        | y => let z := ser_pre (fst (fst x)) (snd (fst x)) r in (fst (fst z), snd (fst z), (u, y) :: snd z)
        end
    end.
End Ser.

(* preprocessTriple's shortcut: with a base, a predicate that starts with the base and has neither
   '#' nor '/' in node.replace(base, "") "corresponds to the base namespace" and is not looked at *)
Fixpoint remove_all (fuel : nat) (s pat : str) : str :=
  match fuel with
  | O => s
  | S f => match s with
           | [] => []
           | c :: r => if starts_with s pat then remove_all f (skipn (length pat) s) pat
                       else c :: remove_all f r pat
           end
  end.
Definition str_replace_empty (s pat : str) : str :=
  match pat with [] => s | _ => remove_all (S (length s)) s pat end.
Definition pred_skipped (base : option str) (u : str) : bool :=
  match base with
  | None => false
  | Some b => starts_with u b
              && negb (existsb (N.eqb 35) (str_replace_empty u b))
              && negb (existsb (N.eqb 47) (str_replace_empty u b))
  end.
(* the calls preprocess makes: (IRI, is it the predicate?) -> (IRI, gen_prefix) *)
Definition eff_calls (base : option str) (calls : list (str * bool)) : list (str * bool) :=
  filter (fun e => negb (snd e && pred_skipped base (fst e))) calls.

(* sorted(self.namespaces.items()): by prefix (keys are distinct), code point order *)
Fixpoint str_leb (a b : str) : bool :=
  match a, b with
  | [], _ => true
  | _ :: _, [] => false
  | x :: a', y :: b' => if N.ltb x y then true else if N.ltb y x then false else str_leb a' b'
  end.
Fixpoint insert_sorted (e : str * str) (l : list (str * str)) : list (str * str) :=
  match l with
  | [] => [e]
  | x :: r => if str_leb (fst e) (fst x) then e :: l else x :: insert_sorted e r
  end.
Definition header_of (t : sst) : list (str * str) := fold_right insert_sorted [] (z_ns t).

(* ------------------------------------------------------------------ *)
(* correspondence entry points *)
Record scase := { sc_cats : cattab; sc_setup : list op; sc_base : option str; sc_calls : list (str * bool) }.

Record sobs := {
  so_list : list (str * str);       (* list(store.namespaces()) after serialize *)
  so_rev : list (str * str);
  so_ns : list (str * str);         (* serializer.namespaces, insertion order *)
  so_rw : list (str * str);         (* serializer._ns_rewrite *)
  so_log : list (str * qres);       (* the getQName calls of preprocess and what they returned *)
  so_header : list (str * str);     (* the @prefix lines of the document *)
  so_body : list (str * qres)       (* getQName calls made while writing the body (not modelled) *)
}.

Definition sc_split (c : scase) := split_uri (cat_of (sc_cats c)) false.

Definition ser_model (c : scase) : sobs :=
  let s := m_final (sc_split c) (split_uri (cat_of (sc_cats c)) true) (is_ncname (cat_of (sc_cats c)))
                   m_init (sc_setup c) in
  let x := ser_pre (sc_split c) s z_init (eff_calls (sc_base c) (sc_calls c)) in
  let s' := fst (fst x) in let t := snd (fst x) in
  let raised := existsb (fun e => match snd e with QRaise => true | _ => false end) (snd x) in
  {| so_list := p2n s'; so_rev := n2p s'; so_ns := z_ns t; so_rw := z_rw t;
     so_log := snd x;
     so_header := if raised then [] else header_of t; so_body := [] |}.

Definition qres_eqb (a b : qres) : bool :=
  match a, b with
  | QRaise, QRaise | QNone, QNone => true
  | QName p l, QName p' l' => str_eqb p p' && str_eqb l l'
  | _, _ => false
  end.
Definition log_eqb : list (str * qres) -> list (str * qres) -> bool := list_eqb (pair_eqb str_eqb qres_eqb).
(* the body calls are not part of the comparison with the model *)
Definition sobs_eqb (a b : sobs) : bool :=
  pairs_eqb (so_list a) (so_list b) && pairs_eqb (so_rev a) (so_rev b) && pairs_eqb (so_ns a) (so_ns b)
  && pairs_eqb (so_rw a) (so_rw b) && log_eqb (so_log a) (so_log b) && pairs_eqb (so_header a) (so_header b).

(* Specification: the store stays a bijection; the serialiser's prefix table has each prefix once;
   every name getQName handed out - in preprocess and while writing the body - is prefix:local
   with that prefix declared in the table for a namespace ns with ns ++ local = IRI; the header
   declares exactly the table (unless the run ended in the exception). *)
Definition name_ok (tab : list (str * str)) (e : str * qres) : bool :=
  match snd e with
  | QName p l => match dget tab p with Some ns => str_eqb (ns ++ l) (fst e) | None => false end
  | _ => true
  end.
Definition raised_in (l : list (str * qres)) : bool :=
  existsb (fun e => match snd e with QRaise => true | _ => false end) l.
Definition same_set (a b : list (str * str)) : bool :=
  forallb (fun e => opt_eqb str_eqb (dget b (fst e)) (Some (snd e))) a
  && forallb (fun e => opt_eqb str_eqb (dget a (fst e)) (Some (snd e))) b.
Definition ser_spec (c : scase) (o : sobs) : bool :=
  bij_ok (so_list o) (so_rev o)
  && nodupb str_eqb (map fst (so_ns o))
  && forallb (name_ok (so_ns o)) (so_log o)
  && forallb (name_ok (so_ns o)) (so_body o)
  && (raised_in (so_log o) || (same_set (so_header o) (so_ns o) && nodupb str_eqb (map fst (so_header o)))).
