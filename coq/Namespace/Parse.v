(* What a Turtle parse leaves behind: the binds of its prefix directives. *)
From RV Require Import Namespace.Model Namespace.Dict Namespace.StoreInv Namespace.Proofs.

(* the prefix is in use for another (non-empty) namespace: NamespaceManager.bind then takes a
   numbered prefix instead *)
Definition taken (s : mst) (p n : str) : bool :=
  match dget (p2n s) p with Some b => truthy b && negb (str_eqb b n) | None => false end.

Definition free_or_same (s : mst) (x n : str) : Prop :=
  match dget (p2n s) x with None => True | Some b => truthy b = false \/ b = n end.

(* store level *)
Lemma store_bind_binds s x n : bij s -> dget (n2p (fst (store_bind s x n true))) n = Some x.
Proof.
  intros Hb. destruct (store_bind_good s x n true Hb) as (_ & (_ & _ & H) & P). apply H. now apply P.
Qed.

Lemma store_bind_keeps s x n n0 :
  bij s -> n0 <> n -> dget (p2n s) x <> Some n0 ->
  dget (n2p (fst (store_bind s x n true))) n0 = dget (n2p s) n0.
Proof.
  intros Hb Hn Hx. destruct (store_bind_good s x n true Hb) as (Ok & _ & _). revert Ok. unfold store_bind.
  destruct (match coalesce _ _ with Some q => ddel (p2n s) q | None => Some (p2n s) end) as [p1|];
    [|cbn; discriminate].
  destruct (dget (p2n s) x) as [b|] eqn:Eb.
  - unfold ddel. destruct (dmem (n2p s) b); [|cbn; discriminate]. intros _. cbn [fst set_maps n2p].
    rewrite dget_dset, dget_dremove.
    destruct (str_eqb_spec n0 n); [congruence|]. destruct (str_eqb_spec n0 b); [congruence|reflexivity].
  - intros _. cbn [fst set_maps n2p]. rewrite dget_dset. destruct (str_eqb_spec n0 n); [congruence|reflexivity].
Qed.

Lemma find_num_cases s base n : forall fuel num,
  match find_num s base n fuel num with
  | NAlready => exists np, dget (p2n s) np = Some n
  | NFresh np => free_or_same s np n
  | NLoop => True
  end.
Proof.
  induction fuel as [|f IH]; intros num; cbn [find_num]; auto.
  destruct (dget (p2n s) (base ++ dec num)) as [tn|] eqn:E.
  - destruct (truthy tn && str_eqb n tn) eqn:E1.
    + apply andb_true_iff in E1. destruct E1 as [_ E1]. destruct (str_eqb_spec n tn); [subst|discriminate]. eauto.
    + destruct (truthy tn) eqn:Et; cbn [negb]; [apply IH|]. unfold free_or_same. rewrite E. now left.
  - unfold free_or_same. now rewrite E.
Qed.

Section P.
  Variables (split split_s : str -> option (str * str)).
  Local Notation goodT := (good split split_s true).

  (* one bind(prefix, ns) of the parser: override=True, replace=False *)
  Lemma m_bind_n2p s p n :
    goodT s -> has_space p = false ->
    let r := m_bind s (Some p) n true false in
    snd r = None /\
    ((n2p (fst r) = n2p s /\ exists q, dget (n2p s) n = Some q /\ (taken s p n = false -> q = p)) \/
     (exists x, n2p (fst r) = n2p (fst (store_bind (set_caches s [] []) x n true)) /\
                (taken s p n = false -> x = p) /\ free_or_same s x n)).
  Proof.
    intros Hg Hsp. unfold m_bind, taken. rewrite Hsp. cbn [odefault].
    assert (F : forall x, let r := (if snd (m_store_bind s x n true)
                                   then (m_insert_trie (fst (m_store_bind s x n true)) n, None)
                                   else (fst (m_store_bind s x n true), Some EKey)) : mst * option exn in
                snd r = None /\ n2p (fst r) = n2p (fst (store_bind (set_caches s [] []) x n true))).
    { intros x. destruct (m_store_bind_good split split_s true s x n true Hg) as (Ok & _ & _).
      rewrite Ok. cbn [fst snd]. split; reflexivity. }
    destruct (dget (p2n s) p) as [b|] eqn:Eb.
    - destruct (truthy b && negb (str_eqb b n)) eqn:Eo.
      + pose proof (find_num_cases s (if truthy p then p else s_default) n (S (length (p2n s))) 1) as C.
        destruct (find_num s _ n _ 1) as [|np|] eqn:En.
        * cbn [fst snd]. split; [reflexivity|]. left. split; [reflexivity|].
          destruct C as (np & Hnp). destruct Hg as [(_ & _ & H) _]. exists np. split; [now apply H|discriminate].
        * destruct (F np) as [F1 F2]. split; [exact F1|]. right. exists np. split; [exact F2|]. split; [discriminate|exact C].
        * now destruct (find_num_noloop _ _ _ _ En).
      + assert (Hfs : free_or_same s p n).
        { unfold free_or_same. rewrite Eb. apply andb_false_iff in Eo. destruct Eo as [Eo|Eo]; [now left|right].
          apply negb_false_iff in Eo. destruct (str_eqb_spec b n); congruence. }
        destruct (dget (n2p s) n) as [bp|] eqn:En.
        * destruct (str_eqb_spec bp p) as [->|Hne].
          { cbn [fst snd]. split; [reflexivity|]. left. split; [reflexivity|]. exists p. auto. }
          cbn [orb]. destruct (F p) as [F1 F2]. split; [exact F1|]. right. exists p. auto.
        * destruct (F p) as [F1 F2]. split; [exact F1|]. right. exists p. auto.
    - assert (Hfs : free_or_same s p n) by (unfold free_or_same; now rewrite Eb).
      destruct (dget (n2p s) n) as [bp|] eqn:En.
      + destruct (str_eqb_spec bp p) as [->|Hne].
        { cbn [fst snd]. split; [reflexivity|]. left. split; [reflexivity|]. exists p. auto. }
        cbn [orb]. destruct (F p) as [F1 F2]. split; [exact F1|]. right. exists p. auto.
      + destruct (F p) as [F1 F2]. split; [exact F1|]. right. exists p. auto.
  Qed.

  (* A: afterwards the namespace has a prefix - the declared one unless that was taken *)
  Lemma m_bind_binds s p n :
    goodT s -> has_space p = false ->
    let r := m_bind s (Some p) n true false in
    snd r = None /\ exists q, dget (n2p (fst r)) n = Some q /\ (taken s p n = false -> q = p).
  Proof.
    intros Hg Hsp. destruct (m_bind_n2p s p n Hg Hsp) as (Ok & [(E & q & Hq & Hp)|(x & E & Hp & _)]).
    - split; [exact Ok|]. exists q. rewrite E. auto.
    - split; [exact Ok|]. exists x. rewrite E. split; [|exact Hp].
      apply store_bind_binds. exact (proj1 Hg).
  Qed.

  (* B: a bind for another namespace does not take a (non-empty) namespace's prefix away *)
  Lemma m_bind_keeps s p n n0 q :
    goodT s -> has_space p = false -> n0 <> n -> truthy n0 = true ->
    dget (n2p s) n0 = Some q ->
    dget (n2p (fst (m_bind s (Some p) n true false))) n0 = Some q.
  Proof.
    intros Hg Hsp Hn Ht Hq. destruct (m_bind_n2p s p n Hg Hsp) as (_ & [(E & _)|(x & E & _ & Hf)]).
    - now rewrite E.
    - rewrite E. rewrite store_bind_keeps; [exact Hq|exact (proj1 Hg)|exact Hn|].
      cbn [set_caches p2n]. unfold free_or_same in Hf. destruct (dget (p2n s) x) as [b|]; [|discriminate].
      intros X; inversion X; subst. destruct Hf as [Hf|Hf]; congruence.
  Qed.

  Definition decl_ok (e : str * str) : Prop := has_space (fst e) = false /\ truthy (snd e) = true.

  Lemma m_binds_ok l : forall s, goodT s -> Forall decl_ok l ->
    snd (m_binds s l) = None /\ goodT (fst (m_binds s l)).
  Proof.
    induction l as [|[p n] r IH]; intros s Hg Hl; cbn [m_binds]; [auto|].
    inversion Hl as [|? ? [H1 _] Hr]; subst. cbn [fst] in H1.
    destruct (m_bind_binds s p n Hg H1) as (Ok & _).
    destruct (m_bind_good split split_s true s (Some p) n true false Hg) as [G _].
    rewrite Ok. now apply IH.
  Qed.

  Lemma m_binds_keeps l : forall s n0 q, goodT s -> Forall decl_ok l ->
    truthy n0 = true -> (forall e, In e l -> snd e <> n0) ->
    dget (n2p s) n0 = Some q -> dget (n2p (fst (m_binds s l))) n0 = Some q.
  Proof.
    induction l as [|[p n] r IH]; intros s n0 q Hg Hl Ht Hne Hq; cbn [m_binds]; [exact Hq|].
    inversion Hl as [|? ? [H1 _] Hr]; subst. cbn [fst] in H1.
    destruct (m_bind_binds s p n Hg H1) as (Ok & _).
    destruct (m_bind_good split split_s true s (Some p) n true false Hg) as [G _].
    rewrite Ok. apply IH; auto.
    - intros e He. apply Hne. now right.
    - apply m_bind_keeps; auto. intros E. apply (Hne (p, n)); [now left|cbn [snd]; congruence].
  Qed.

  (* the parse: every declared namespace has a prefix afterwards; the last directive for a
     namespace decides which - its own prefix, unless that prefix was in use for another
     namespace when its turn came *)
  Theorem m_binds_result l1 p n l2 s :
    goodT s -> Forall decl_ok (l1 ++ (p, n) :: l2) ->
    (forall e, In e l2 -> snd e <> n) ->
    let s1 := fst (m_binds s l1) in
    let s' := fst (m_binds s (l1 ++ (p, n) :: l2)) in
    snd (m_binds s (l1 ++ (p, n) :: l2)) = None /\ bij s' /\
    exists q, dget (n2p s') n = Some q /\ dget (p2n s') q = Some n /\ (taken s1 p n = false -> q = p).
  Proof.
    intros Hg Hl Hne. cbn zeta.
    apply Forall_app in Hl. destruct Hl as [Hl1 Hl2]. inversion Hl2 as [|? ? [H1 H2] Hl3]; subst.
    cbn [fst snd] in H1, H2.
    destruct (m_binds_ok l1 s Hg Hl1) as [Ok1 G1].
    assert (E : m_binds s (l1 ++ (p, n) :: l2) = m_binds (fst (m_binds s l1)) ((p, n) :: l2)).
    { clear - Ok1. revert s Ok1. induction l1 as [|[p0 n0] r IH]; intros s Ok1; cbn [app m_binds] in *; [reflexivity|].
      destruct (snd (m_bind s (Some p0) n0 true false)); [discriminate|]. now apply IH. }
    rewrite E. set (s1 := fst (m_binds s l1)) in *. cbn [m_binds].
    destruct (m_bind_binds s1 p n G1 H1) as (Ok & q & Hq & Hp).
    destruct (m_bind_good split split_s true s1 (Some p) n true false G1) as [G2 _].
    rewrite Ok. destruct (m_binds_ok l2 _ G2 Hl3) as [Ok3 G3].
    split; [exact Ok3|]. split; [exact (proj1 G3)|]. exists q.
    assert (Hfin : dget (n2p (fst (m_binds (fst (m_bind s1 (Some p) n true false)) l2))) n = Some q)
      by (apply m_binds_keeps; auto).
    split; [exact Hfin|]. split; [|exact Hp]. destruct G3 as [(_ & _ & H) _]. now apply H.
  Qed.
End P.
