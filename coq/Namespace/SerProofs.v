(* The Turtle serialiser's prefix table: entries are never changed once made, every name
   handed out by getQName is declared in the table for a namespace that concatenates back to
   the IRI, the header declares exactly the table, the store stays a bijection. *)
From RV Require Import Namespace.SerModel Namespace.Dict Namespace.StoreInv Namespace.Proofs Namespace.Final.
From Coq Require Import Permutation.

Definition zinv (t : sst) : Prop := NoDup (map fst (z_ns t)).

Lemma add_ns_spec t prefix ns :
  zinv t ->
  let a := add_ns t prefix ns in
  zinv (fst a) /\
  (forall k v, dget (z_ns t) k = Some v -> dget (z_ns (fst a)) k = Some v) /\
  (forall p, snd a = Some p -> dget (z_ns (fst a)) p = Some ns).
Proof.
  intros Hz. unfold add_ns.
  match goal with |- context [snd ?X] => set (r := X) end.
  assert (R : z_ns (fst r) = z_ns t).
  { unfold r. destruct (_ || _); [|reflexivity].
    destruct (dget (z_rw t) prefix); [reflexivity|].
    destruct (fresh_p _ _ _); reflexivity. }
  assert (Zr : zinv (fst r)) by (unfold zinv; rewrite R; exact Hz).
  destruct (snd r) as [p|]; [|cbn [fst snd]; split; [exact Zr|split; [rewrite R; auto|discriminate]]].
  destruct (dget (z_ns (fst r)) p) as [old|] eqn:E.
  - destruct (str_eqb_spec old ns) as [->|]; cbn [fst snd].
    + split; [exact Zr|split; [rewrite R; auto|]]. intros p0 X; inversion X; subst; exact E.
    + split; [exact Zr|split; [rewrite R; auto|discriminate]].
  - cbn [fst snd z_ns]. split; [unfold zinv; cbn [z_ns]; apply dset_NoDup; exact Zr|]. split.
    + intros k v Hk. rewrite dget_dset, R. destruct (str_eqb_spec k p) as [->|]; [rewrite R in E; congruence|exact Hk].
    + intros p0 X; inversion X; subst. rewrite dget_dset. now rewrite str_eqb_refl.
Qed.

Section S.
  Variables (split split_s : str -> option (str * str)).
  Local Notation goodT := (good split split_s true).

  Definition name_good (tab : dict str) (u : str) (r : qres) : Prop :=
    match r with
    | QName p l => exists ns, dget tab p = Some ns /\ (exact split u -> ns ++ l = u)
    | _ => True
    end.

  Lemma ser_q_spec s t u gen :
    goodT s -> zinv t ->
    let x := ser_q split s t u gen in
    goodT (fst (fst x)) /\ zinv (snd (fst x)) /\
    (forall k v, dget (z_ns t) k = Some v -> dget (z_ns (snd (fst x))) k = Some v) /\
    name_good (z_ns (snd (fst x))) u (snd x).
  Proof.
    intros Hg Hz. unfold ser_q.
    destruct (m_compute_good split split_s true s u gen Hg) as (G & Q). specialize (Q (or_introl eq_refl)).
    set (r := m_compute split s u gen) in *.
    assert (P : forall p ns local,
      (forall q, Some q = Some (p, ns, local) -> exact split u -> ns ++ local = u) ->
      let a := add_ns t p ns in
      let y := (match snd a with
                | None => (fst r, fst a, QRaise)
                | Some p' => (fst r, fst a, if ends_with_dot local then QNone else QName p' local)
                end) : mst * sst * qres in
      goodT (fst (fst y)) /\ zinv (snd (fst y)) /\
      (forall k v, dget (z_ns t) k = Some v -> dget (z_ns (snd (fst y))) k = Some v) /\
      name_good (z_ns (snd (fst y))) u (snd y)).
    { intros p ns local Hx. cbv zeta. destruct (add_ns_spec t p ns Hz) as (A1 & A2 & A3).
      destruct (snd (add_ns t p ns)) as [p'|]; cbn [fst snd].
      - split; [exact G|split; [exact A1|split; [exact A2|]]].
        destruct (ends_with_dot local); [exact I|]. cbn [name_good]. exists ns. split; [now apply A3|].
        apply (Hx _ eq_refl).
      - split; [exact G|split; [exact A1|split; [exact A2|exact I]]]. }
    destruct (snd r) as [[[p ns] local]|e] eqn:Er.
    - apply P. intros q X Hx. destruct (Q _ eq_refl) as [_ B]. cbn [fst snd] in B. auto.
    - destruct (dget (n2p (fst r)) u) as [pfx|].
      + apply P. intros q X _. apply app_nil_r.
      + cbn [fst snd]. split; [exact G|split; [exact Hz|split; [auto|exact I]]].
  Qed.

  Lemma name_good_mono tab tab' u r :
    (forall k v, dget tab k = Some v -> dget tab' k = Some v) -> name_good tab u r -> name_good tab' u r.
  Proof. intros H. destruct r; auto. intros (ns & A & B). exists ns. auto. Qed.

  Lemma ser_pre_spec calls : forall s t,
    goodT s -> zinv t ->
    let z := ser_pre split s t calls in
    goodT (fst (fst z)) /\ zinv (snd (fst z)) /\
    (forall k v, dget (z_ns t) k = Some v -> dget (z_ns (snd (fst z))) k = Some v) /\
    Forall (fun e => name_good (z_ns (snd (fst z))) (fst e) (snd e)) (snd z).
  Proof.
    induction calls as [|[u gen] r IH]; intros s t Hg Hz; cbn [ser_pre].
    - cbn [fst snd]. auto.
    - destruct (ser_q_spec s t u gen Hg Hz) as (G & Z & M & N).
      set (x := ser_q split s t u gen) in *.
      assert (Rest : forall y, snd x = y -> y <> QRaise ->
        let z := ser_pre split (fst (fst x)) (snd (fst x)) r in
        let w := (fst (fst z), snd (fst z), (u, y) :: snd z) in
        goodT (fst (fst w)) /\ zinv (snd (fst w)) /\
        (forall k v, dget (z_ns t) k = Some v -> dget (z_ns (snd (fst w))) k = Some v) /\
        Forall (fun e => name_good (z_ns (snd (fst w))) (fst e) (snd e)) (snd w)).
      { intros y Ey _. destruct (IH _ _ G Z) as (G' & Z' & M' & N'). cbn [fst snd].
        split; [exact G'|split; [exact Z'|split; [auto|]]]. constructor; [|exact N'].
        cbn [fst snd]. rewrite <- Ey. eapply name_good_mono; [exact M'|exact N]. }
      destruct (snd x) eqn:Ex.
      + cbn [fst snd]. split; [exact G|split; [exact Z|split; [exact M|]]].
        constructor; [exact I|constructor].
      + apply (Rest QNone eq_refl). discriminate.
      + apply (Rest (QName p local) eq_refl). discriminate.
  Qed.
End S.

(* the header: sorted(self.namespaces.items()) is the same finite map *)
Lemma insert_sorted_perm e l : Permutation (insert_sorted e l) (e :: l).
Proof.
  induction l as [|x r IH]; cbn [insert_sorted]; [reflexivity|].
  destruct (str_leb (fst e) (fst x)); [reflexivity|].
  rewrite IH. apply perm_swap.
Qed.

Lemma header_perm t : Permutation (header_of t) (z_ns t).
Proof.
  unfold header_of. induction (z_ns t) as [|e r IH]; cbn [fold_right]; [reflexivity|].
  rewrite insert_sorted_perm. now constructor.
Qed.

Lemma perm_same_set (a b : dict str) :
  Permutation a b -> NoDup (map fst b) ->
  same_set a b = true /\ nodupb str_eqb (map fst a) = true.
Proof.
  intros P Hb.
  assert (Ha : NoDup (map fst a)).
  { eapply Permutation_NoDup; [|exact Hb]. apply Permutation_map. now apply Permutation_sym. }
  split; [|now apply nodupb_spec; [apply str_eqb_spec|]].
  unfold same_set. rewrite andb_true_iff, !forallb_forall. split; intros [k v] Hin; cbn [fst snd].
  - assert (In (k, v) b) by (eapply Permutation_in; eauto).
    rewrite (In_dget _ _ _ _ Hb H). apply opt_str_refl.
  - assert (In (k, v) a) by (eapply Permutation_in; [apply Permutation_sym|]; eauto).
    rewrite (In_dget _ _ _ _ Ha H). apply opt_str_refl.
Qed.

Theorem ser_spec_model c : ser_spec c (ser_model c) = true.
Proof.
  unfold ser_spec, ser_model.
  set (sp := sc_split c). set (sps := split_uri (cat_of (sc_cats c)) true).
  set (s := m_final sp sps _ m_init (sc_setup c)).
  assert (Hg : good sp sps true s).
  { apply m_final_good; [reflexivity|apply good_init]. }
  assert (Hz : zinv z_init) by constructor.
  destruct (ser_pre_spec sp sps (eff_calls (sc_base c) (sc_calls c)) s z_init Hg Hz) as (G & Z & _ & N).
  set (x := ser_pre sp s z_init (eff_calls (sc_base c) (sc_calls c))) in *.
  cbn [so_list so_rev so_ns so_log so_body so_header].
  rewrite (bij_ok_of_bij _ (proj1 G)). cbn [andb].
  assert (E1 : nodupb str_eqb (map fst (z_ns (snd (fst x)))) = true)
    by (apply nodupb_spec; [apply str_eqb_spec|exact Z]).
  rewrite E1. cbn [andb forallb]. rewrite andb_true_r.
  assert (E2 : forallb (name_ok (z_ns (snd (fst x)))) (snd x) = true).
  { apply forallb_forall. intros [u r] Hin. rewrite Forall_forall in N. specialize (N _ Hin).
    cbn [fst snd] in N. unfold name_ok. cbn [fst snd]. destruct r; auto.
    destruct N as (ns & A & B). rewrite A. rewrite (B (split_uri_exact _ _ _)). apply str_eqb_refl. }
  rewrite E2. cbn [andb]. unfold raised_in.
  destruct (existsb _ (snd x)); [reflexivity|]. cbn [orb].
  destruct (perm_same_set _ _ (header_perm (snd (fst x))) Z) as [A B]. now rewrite A, B.
Qed.
