(* C16 - the theorem tying model and checker, the Prop-level reading of the checker,
   and the witnesses of the findings. *)
From Coq Require Import String.
From RV Require Import Results.Model Results.Proofs Results.ProofsXml Results.ProofsTsv Results.ProofsTsvDoc Results.ProofsCsv.
Local Open Scope N_scope.

Lemma json_ok : forall c, wf c = true -> c_fmt c = FJson -> spec_ok c (format_obs c) = true.
Proof.
  intros c Hwf Hf. unfold spec_ok, format_obs. rewrite Hf.
  unfold wf in Hwf. apply andb_true_iff in Hwf. destruct Hwf as [Hwf _].
  apply andb_true_iff in Hwf. destruct Hwf as [Hnd Hrows]. apply andb_true_iff in Hnd. destruct Hnd as [_ Hnm].
  destruct (c_ask c) as [b|].
  - rewrite (json_ask json (fun v => v) (fun v => v) (fun v => eq_refl)). apply eqb_reflx.
  - rewrite (json_select json (fun v => v) (fun v => v) (fun v => eq_refl)) by auto.
    unfold spec_select. rewrite list_eqb_refl by apply str_eqb_refl. simpl. apply rows_ok_bound_of. auto.
Qed.

Theorem format_ok : forall c, wf c = true -> spec_ok c (format_obs c) = true.
Proof.
  intros c Hwf. destruct (c_fmt c) eqn:E.
  - apply json_ok; auto.
  - apply xml_ok; auto.
  - apply tsv_ok; auto.
  - apply csv_cells_ok; auto.
  - apply csvp_ok; auto.
Qed.

Lemma consume_id : forall rows k, (let '(a, b) := consume k rows in a ++ b) = rows.
Proof.
  induction rows as [|r rest IH]; intro k; [reflexivity|].
  destruct k as [|k']; [reflexivity|]. cbn [consume].
  specialize (IH (if is_nil r then S k' else k')). destruct (consume (if is_nil r then S k' else k') rest) as [a b].
  cbn [app]. now rewrite IH.
Qed.

Lemma with_rows_id : forall c, with_rows c (c_rows c) = c.
Proof. intros []. reflexivity. Qed.

(* the Result object hands the formats the rows it was given, however far it was iterated before *)
Theorem result_rows_kept : forall c, result_rows c = c_rows c.
Proof. intros c. unfold result_rows. apply consume_id. Qed.

Theorem spec_ok_model : forall c, wf c = true -> spec_ok c (model_obs c) = true.
Proof.
  intros c Hwf. unfold model_obs. rewrite (result_rows_kept c), with_rows_id. apply format_ok. exact Hwf.
Qed.

(* ------------------------------------------------------------------ *)
(* what the boolean checker means *)

Definition row_agrees (vars : list str) (r : row) (p : prow) : Prop :=
  (forall v, In v vars -> lookup v p = cell v r) /\ (forall k, In k (keys p) -> In k vars).

Lemma row_ok_reflect : forall vars r p, row_ok vars r p = true <-> row_agrees vars r p.
Proof.
  intros vars r p. unfold row_ok, row_agrees. rewrite andb_true_iff, !forallb_forall. split.
  - intros [H1 H2]. split.
    + intros v Hv. specialize (H1 v Hv). destruct (@opt_eqb_spec _ _ term_eqb_spec (cell v r) (lookup v p)); congruence.
    + intros k Hk. apply memb_str_In. auto.
  - intros [H1 H2]. split.
    + intros v Hv. rewrite H1 by auto. apply oterm_eqb_refl.
    + intros k Hk. apply memb_str_In. auto.
Qed.

Lemma rows_ok_reflect : forall vars rs ps, rows_ok vars rs ps = true <-> Forall2 (row_agrees vars) rs ps.
Proof.
  induction rs as [|r rs IH]; intros [|p ps]; simpl; split; intro H; try discriminate; try constructor;
    try (inversion H; fail).
  - apply andb_true_iff in H. apply row_ok_reflect. tauto.
  - apply andb_true_iff in H. apply IH. tauto.
  - inversion H; subst. apply andb_true_iff. split; [apply row_ok_reflect|apply IH]; auto.
Qed.

(* for the three parsed formats: the reader's answer has the variables of the result in their
   order, as many rows in the same order, and row by row every variable bound to the same term or
   unbound; for XML this is demanded of every expressible result *)
Theorem spec_ok_select_reading : forall c vs ps,
  c_fmt c <> FCsv -> c_fmt c <> FCsvP -> c_ask c = None -> (c_fmt c = FXml -> xml_expressible c = true) ->
  (spec_ok c (OSel vs ps) = true <-> vs = c_vars c /\ Forall2 (row_agrees (c_vars c)) (c_rows c) ps).
Proof.
  intros c vs ps Hf Hf2 Ha Hx. unfold spec_ok. rewrite Ha.
  assert (E : (spec_select c (OSel vs ps) = true)
              <-> vs = c_vars c /\ Forall2 (row_agrees (c_vars c)) (c_rows c) ps).
  { unfold spec_select. rewrite andb_true_iff, rows_ok_reflect.
    destruct (@list_eqb_spec _ _ str_eqb_spec vs (c_vars c)); split; intros [H1 H2]; split; auto; congruence. }
  destruct (c_fmt c); try exact E; try congruence. rewrite Hx by reflexivity. exact E.
Qed.

(* an XML result that XML 1.0 cannot express must be refused by the serialiser *)
Theorem spec_ok_refusal_reading : forall c o,
  c_fmt c = FXml -> c_ask c = None -> xml_expressible c = false ->
  (spec_ok c o = true <-> o = ORefused).
Proof.
  intros c o Hf Ha Hx. unfold spec_ok. rewrite Hf, Ha, Hx.
  destruct o; split; intro H; try discriminate; reflexivity.
Qed.

Theorem spec_ok_ask_reading : forall c b o,
  c_fmt c <> FCsv -> c_fmt c <> FCsvP -> c_ask c = Some b -> (spec_ok c o = true <-> o = OAsk b).
Proof.
  intros c b o Hf Hf2 Ha. unfold spec_ok. rewrite Ha.
  assert (E : match o with OAsk b' => Bool.eqb b b' | _ => false end = true <-> o = OAsk b).
  { destruct o as [| |b'| |]; split; intro H; try discriminate.
    - apply eqb_prop in H. congruence.
    - inversion H. apply eqb_reflx. }
  destruct (c_fmt c); try exact E; congruence.
Qed.

Theorem spec_ok_csv_reading : forall c o,
  c_fmt c = FCsv ->
  (spec_ok c o = true <->
   o = OCells (c_vars c :: map (fun r => map (fun v => csv_value (cell v r)) (c_vars c)) (c_rows c))).
Proof.
  intros c o Hf. unfold spec_ok. rewrite Hf. destruct o as [| | | |m]; split; intro H; try discriminate.
  - destruct (@list_eqb_spec _ _ (@list_eqb_spec _ _ str_eqb_spec) m
                (c_vars c :: map (fun r => map (fun v => csv_value (cell v r)) (c_vars c)) (c_rows c))); congruence.
  - inversion H. apply list_eqb_refl. intro. apply list_eqb_refl. apply str_eqb_refl.
Qed.

(* rdflib's own CSV reader: same variables, same number of rows, and for every variable of a row either
   nothing - exactly when the CSV value of the cell is empty - or a term whose string is that value *)
Definition csvp_row_agrees (vars : list str) (r : row) (p : prow) : Prop :=
  (forall v, In v vars ->
     match lookup v p with
     | Some t => term_text t = csv_value (cell v r) /\ csv_value (cell v r) <> []
     | None => csv_value (cell v r) = []
     end)
  /\ (forall k, In k (keys p) -> In k vars).

Lemma csvp_row_reflect : forall vars r p, csvp_row_ok vars r p = true <-> csvp_row_agrees vars r p.
Proof.
  intros vars r p. unfold csvp_row_ok, csvp_row_agrees. rewrite andb_true_iff, !forallb_forall. split.
  - intros [H1 H2]. split.
    + intros v Hv. specialize (H1 v Hv). destruct (lookup v p) as [t|].
      * apply andb_true_iff in H1. destruct H1 as [Ha Hb]. apply str_eqb_true in Ha. split; auto.
        intro E. rewrite E in Hb. discriminate.
      * destruct (csv_value (cell v r)); [reflexivity|discriminate].
    + intros k Hk. apply memb_str_In. auto.
  - intros [H1 H2]. split.
    + intros v Hv. specialize (H1 v Hv). destruct (lookup v p) as [t|].
      * destruct H1 as [Ha Hb]. rewrite Ha, str_eqb_refl. destruct (csv_value (cell v r)); [congruence|reflexivity].
      * rewrite H1. reflexivity.
    + intros k Hk. apply memb_str_In. auto.
Qed.

Lemma csvp_rows_reflect : forall vars rs ps, csvp_rows_ok vars rs ps = true <-> Forall2 (csvp_row_agrees vars) rs ps.
Proof.
  induction rs as [|r rs IH]; intros [|p ps]; simpl; split; intro H; try discriminate; try constructor;
    try (inversion H; fail).
  - apply andb_true_iff in H. apply csvp_row_reflect. tauto.
  - apply andb_true_iff in H. apply IH. tauto.
  - inversion H; subst. apply andb_true_iff. split; [apply csvp_row_reflect|apply IH]; auto.
Qed.

Theorem spec_ok_csvp_reading : forall c vs ps,
  c_fmt c = FCsvP ->
  (spec_ok c (OSel vs ps) = true <-> vs = c_vars c /\ Forall2 (csvp_row_agrees (c_vars c)) (c_rows c) ps).
Proof.
  intros c vs ps Hf. unfold spec_ok. rewrite Hf. rewrite andb_true_iff, csvp_rows_reflect.
  destruct (@list_eqb_spec _ _ str_eqb_spec vs (c_vars c)); split; intros [H1 H2]; split; auto; congruence.
Qed.

(* ------------------------------------------------------------------ *)
(* witnesses of the findings (each replayed on rdflib by the harness corpus) *)

Definition st0 : style := {| st_sq := false; st_esc_all := false; st_bare := false; st_cross := false |}.
Definition vx : str := [120].
Definition iri_a : term := IRI (s2l "http://e/a"%string).
Definition mk (f : fmt) (rows : list row) (st : style) : case :=
  {| c_fmt := f; c_ask := None; c_vars := [vx]; c_rows := rows; c_style := st; c_bytes := true; c_src := 1; c_pre := 0 |}.

(* all of these were violations once; they are accepted since the repairs (notes/C16.md) *)
Definition w_F11a := mk FTsv [[(vx, Some iri_a)]; []; [(vx, Some iri_a)]] st0.
Definition w_F11a2 : case :=
  {| c_fmt := FTsv; c_ask := None; c_vars := [vx; [121]]; c_rows := [[(vx, Some iri_a)]; []; [([121], Some iri_a)]];
     c_style := st0; c_bytes := true; c_src := 1; c_pre := 0 |}.
Definition w_F11b := mk FXml [[(vx, Some (Lit [97; 1; 98] None None))]] st0.
Definition w_F11c := mk FXml [[(vx, Some (Lit [97; 13; 98; 13; 10] None None))]] st0.
Definition w_F11d_iri := mk FXml [[(vx, Some (IRI []))]] st0.
Definition w_F11d := mk FXml [[(vx, Some (Lit [118] (Some []) None))]] st0.
Definition w_F11e := mk FTsv [[(vx, Some (Lit [97; 8232; 98] None None))]] st0.
Definition w_F11f := mk FTsv [[(vx, Some (Lit [105; 116; 39; 115] None None))]]
                        {| st_sq := false; st_esc_all := false; st_bare := false; st_cross := true |}.
Definition w_F11g := mk FXml [[(vx, Some (Lit [48] (Some xsd_integer) None))]] st0.
Definition w_F11h : case :=
  {| c_fmt := FTsv; c_ask := None; c_vars := [vx; [121; 5760]];
     c_rows := [[(vx, Some iri_a); ([121; 5760], Some iri_a)]]; c_style := st0; c_bytes := true; c_src := 1; c_pre := 0 |}.

Lemma repaired :
  (wf w_F11a = true /\ format_obs w_F11a = OSel [vx] [[(vx, iri_a)]; []; [(vx, iri_a)]])
  /\ (wf w_F11a2 = true /\ format_obs w_F11a2 = OSel [vx; [121]] [[(vx, iri_a)]; []; [([121], iri_a)]])
  /\ (wf w_F11b = true /\ xml_expressible w_F11b = false /\ format_obs w_F11b = ORefused)
  /\ (wf w_F11c = true /\ format_obs w_F11c = OSel [vx] [[(vx, Lit [97; 13; 98; 13; 10] None None)]])
  /\ (wf w_F11d_iri = true /\ format_obs w_F11d_iri = OSel [vx] [[(vx, IRI [])]])
  /\ (wf w_F11d = true /\ format_obs w_F11d = OSel [vx] [[(vx, Lit [118] (Some []) None)]])
  /\ (wf w_F11e = true /\ format_obs w_F11e = OSel [vx] [[(vx, Lit [97; 8232; 98] None None)]])
  /\ (wf w_F11f = true /\ format_obs w_F11f = OSel [vx] [[(vx, Lit [105; 116; 39; 115] None None)]])
  /\ (wf w_F11g = true /\ format_obs w_F11g = OSel [vx] [[(vx, Lit [48] (Some xsd_integer) None)]])
  /\ (wf w_F11h = true /\ format_obs w_F11h = OSel [vx; [121; 5760]] [[(vx, iri_a); ([121; 5760], iri_a)]]).
Proof. vm_compute. repeat split. Qed.

(* F11i, repaired by 60d20593: the case is accepted now; with the lines cut as the codecs reader cut
   them (LSplit) the unquoted field with a form feed is split and a row appears *)
Definition w_F11i : case :=
  {| c_fmt := FCsvP; c_ask := None; c_vars := [vx];
     c_rows := [[(vx, Some (Lit [97; 12; 98] None None))]; [(vx, Some iri_a)]]; c_style := st0; c_bytes := true; c_src := 0; c_pre := 0 |}.

Lemma csv_bytes_prefix_refuted :
  (wf w_F11i = true /\ spec_ok w_F11i (format_obs w_F11i) = true
   /\ format_obs w_F11i = OSel [vx] [[(vx, Lit [97; 12; 98] None None)]; [(vx, iri_a)]])
  /\ csv_parse LSplit (csv_text (csv_serialize (c_vars w_F11i) (c_rows w_F11i)))
     = OSel [vx] [[(vx, Lit [97; 12] None None)]; [(vx, Lit [98] None None)]; [(vx, iri_a)]].
Proof. vm_compute. repeat split. Qed.

(* F11j, repaired by ef926fa5: a query result iterated once before it is serialised keeps the solution
   without bindings that came first; what the iteration before the repair left over is consume_prefix *)
Definition w_F11j : case :=
  {| c_fmt := FJson; c_ask := None; c_vars := [vx];
     c_rows := [[]; [(vx, Some iri_a)]; []; [(vx, Some iri_a)]]; c_style := st0; c_bytes := true; c_src := 1; c_pre := 1 |}.

Fixpoint consume_prefix (k : nat) (rows : list row) : list row * list row :=
  match rows with
  | [] => ([], [])
  | r :: rest =>
      match k with
      | O => ([], rows)
      | S k' => if is_nil r then consume_prefix k rest
                else let '(a, b) := consume_prefix k' rest in (r :: a, b)
      end
  end.

Lemma partial_iteration_prefix_refuted :
  (wf w_F11j = true /\ spec_ok w_F11j (model_obs w_F11j) = true)
  /\ (let '(a, b) := consume_prefix 1 (c_rows w_F11j) in a ++ b) = [[(vx, Some iri_a)]; []; [(vx, Some iri_a)]].
Proof. vm_compute. repeat split. Qed.

(* F11k, repaired by 53a005c9: the bare negative decimal is read *)
Definition w_F11k : case :=
  {| c_fmt := FTsv; c_ask := None; c_vars := [vx];
     c_rows := [[(vx, Some (Lit [45; 49; 46; 53] (Some xsd_decimal) None))]];
     c_style := {| st_sq := false; st_esc_all := false; st_bare := true; st_cross := false |};
     c_bytes := true; c_src := 1; c_pre := 0 |}.
Lemma neg_decimal_read :
  wf w_F11k = true /\ render_doc (c_style w_F11k) [vx] (c_rows w_F11k) = [63; 120; 10; 45; 49; 46; 53; 10]
  /\ model_obs w_F11k = OSel [vx] [[(vx, Lit [45; 49; 46; 53] (Some xsd_decimal) None)]].
Proof. vm_compute. repeat split. Qed.

(* historical behaviour kept in the model: the row loop before 40b19e31 drops the row with nothing
   bound; line splitting as codecs' readline did it before e84c9b4e cuts the row of w_F11e in two *)
Lemma tsv_rows_prefix_refuted :
  tsv_rows_prefix [vx] (split_lines true [] (flat_map (fun r => render_row st0 [vx] r ++ [10]) (c_rows w_F11a)))
  = Some [[(vx, iri_a)]; [(vx, iri_a)]]
  /\ tsv_rows [vx] (split_lines true [] (flat_map (fun r => render_row st0 [vx] r ++ [10]) (c_rows w_F11a)))
    = Some [[(vx, iri_a)]; []; [(vx, iri_a)]].
Proof. vm_compute. split; reflexivity. Qed.

Lemma split_lines_prefix_refuted :
  List.length (split_lines true [] (render_doc st0 [vx] (c_rows w_F11e))) = 3%nat
  /\ List.length (split_lines false [] (render_doc st0 [vx] (c_rows w_F11e))) = 2%nat.
Proof. vm_compute. split; reflexivity. Qed.
