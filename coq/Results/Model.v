(* C16 - SPARQL results through their exchange formats.

   Executable model of
     rdflib/plugins/sparql/results/jsonresults.py  termToJSON, parseJsonTerm,
         JSONResultSerializer.serialize/_bindingToJSON, JSONResult.__init__/_get_bindings
     rdflib/plugins/sparql/results/xmlresults.py   SPARQLXMLWriter, XMLResultSerializer.serialize,
         XMLResult.__init__, parseTerm   (with xml.sax.saxutils.escape / quoteattr at
         character level and the XML 1.0 reader rules: Char production, entity and
         character references, 2.11 end-of-line handling, 3.3.3 attribute-value normalisation)
     rdflib/plugins/sparql/results/tsvresults.py   TSVResultParser.parse, HEADER/ROW/TERM/EMPTY, convertTerm
         (against a writer that is the W3C TSV term grammar, [render_term])
     rdflib/plugins/sparql/results/csvresults.py   CSVResultSerializer.serialize/serializeTerm
   Strings are lists of code points.  No proofs in this file. *)
From RV Require Export Base.ListSet.
From Coq Require Import Ascii String.
Local Open Scope N_scope.

Definition str := list N.
Definition str_eqb : str -> str -> bool := list_eqb N.eqb.

Fixpoint s2l (s : string) : str :=
  match s with EmptyString => [] | String a r => N_of_ascii a :: s2l r end.

(* ------------------------------------------------------------------ *)
(* Terms and result tables                                             *)

Inductive term :=
| IRI (s : str)
| BNode (s : str)
| Lit (lex : str) (dt : option str) (lang : option str).

Definition ostr_eqb : option str -> option str -> bool := opt_eqb str_eqb.

Definition term_eqb (a b : term) : bool :=
  match a, b with
  | IRI x, IRI y => str_eqb x y
  | BNode x, BNode y => str_eqb x y
  | Lit l d g, Lit l' d' g' => str_eqb l l' && ostr_eqb d d' && ostr_eqb g g'
  | _, _ => false
  end.

(* a Python dict Variable -> term-or-None, in insertion order *)
Definition row := list (str * option term).
(* a parsed row: dict Variable -> term *)
Definition prow := list (str * term).

Section Lookup.
  Variable V : Type.
  Fixpoint lookup (k : str) (d : list (str * V)) : option V :=
    match d with
    | [] => None
    | (k', v) :: r => if str_eqb k k' then Some v else lookup k r
    end.
End Lookup.
Arguments lookup {V} k d.

(* the table cell of variable v in row r: the bound term, or unbound *)
Definition cell (v : str) (r : row) : option term :=
  match lookup v r with Some (Some t) => Some t | _ => None end.

(* Python:  Variable(value): the empty string raises, one leading question mark is dropped *)
Definition py_Variable (v : str) : option str :=
  match v with
  | [] => None
  | c :: r => Some (if c =? 63 then r else v)
  end.

(* d[k] = v on an insertion-ordered dict *)
Fixpoint dict_set {V} (k : str) (v : V) (d : list (str * V)) : list (str * V) :=
  match d with
  | [] => [(k, v)]
  | (k', v') :: r => if str_eqb k k' then (k', v) :: r else (k', v') :: dict_set k v r
  end.

(* Python:  Literal(lex, datatype=dt, lang=lang)  for strings lex; None = TypeError.
   Lexical normalisation of recognised datatypes is NOT modelled here (property C09):
   the statement is about the triple (lex, dt, lang). *)
Definition xsd_boolean := s2l "http://www.w3.org/2001/XMLSchema#boolean".
Definition s_false := s2l "false".
Definition py_Literal (lex : str) (dt lang : option str) : option term :=
  let lang' := match lang with Some [] => None | x => x end in
  match dt, lang' with
  | Some _, Some _ => None
  | Some d, None =>
      (* one re-lexicalisation that the XML path of this property runs into:
         Literal("", datatype=XSD.boolean) has the value False and is spelled "false" *)
      if str_eqb d xsd_boolean && str_eqb lex [] then Some (Lit s_false dt None) else Some (Lit lex dt None)
  | _, _ => Some (Lit lex dt lang')
  end.

Definition nonempty (o : option str) : option str :=
  match o with Some [] => None | x => x end.

(* ------------------------------------------------------------------ *)
(* Observations                                                        *)

Inductive obs :=
| OErr                                            (* some exception *)
| ORefused                                        (* the serialiser raised ResultException *)
| OAsk (b : bool)
| OSel (vars : list str) (rows : list prow)
| OCells (cells : list (list str)).               (* CSV: what csv.reader returns *)

Definition keys {V} (d : list (str * V)) : list str := map fst d.

Definition dict_eqb (a b : prow) : bool :=
  forallb (fun k => opt_eqb term_eqb (lookup k a) (lookup k b)) (keys a ++ keys b).

Definition obs_eqb (a b : obs) : bool :=
  match a, b with
  | OErr, OErr => true
  | ORefused, ORefused => true
  | OAsk x, OAsk y => Bool.eqb x y
  | OSel v r, OSel v' r' => list_eqb str_eqb v v' && list_eqb dict_eqb r r'
  | OCells m, OCells m' => list_eqb (list_eqb str_eqb) m m'
  | _, _ => false
  end.

(* ------------------------------------------------------------------ *)
(* JSON                                                                *)

Inductive json :=
| JNull | JBool (b : bool) | JStr (s : str) | JArr (l : list json) | JObj (l : list (str * json)).

Definition k_type := s2l "type".
Definition k_value := s2l "value".
Definition k_datatype := s2l "datatype".
Definition k_lang := s2l "xml:lang".
Definition k_uri := s2l "uri".
Definition k_literal := s2l "literal".
Definition k_typed := s2l "typed-literal".
Definition k_bnode := s2l "bnode".
Definition k_head := s2l "head".
Definition k_vars := s2l "vars".
Definition k_results := s2l "results".
Definition k_bindings := s2l "bindings".
Definition k_boolean := s2l "boolean".

Definition jget (k : str) (j : json) : option json :=
  match j with JObj l => lookup k l | _ => None end.
Definition jget_str (k : str) (j : json) : option str :=
  match jget k j with Some (JStr s) => Some s | _ => None end.

Definition termToJSON (t : option term) : option json :=
  match t with
  | Some (IRI s) => Some (JObj [(k_type, JStr k_uri); (k_value, JStr s)])
  | Some (Lit lex dt lang) =>
      Some (JObj ([(k_type, JStr k_literal); (k_value, JStr lex)]
                  ++ (match dt with Some d => [(k_datatype, JStr d)] | None => [] end)
                  ++ (match lang with Some l => [(k_lang, JStr l)] | None => [] end)))
  | Some (BNode s) => Some (JObj [(k_type, JStr k_bnode); (k_value, JStr s)])
  | None => None
  end.

(* None = KeyError / NotImplementedError / TypeError *)
Definition parseJsonTerm (d : json) : option term :=
  match jget_str k_type d, jget_str k_value d with
  | Some t, Some v =>
      if str_eqb t k_uri then Some (IRI v)
      else if str_eqb t k_literal then py_Literal v (jget_str k_datatype d) (jget_str k_lang d)
      else if str_eqb t k_typed then
        match jget_str k_datatype d with Some dt => py_Literal v (Some dt) None | None => None end
      else if str_eqb t k_bnode then Some (BNode v)
      else None
  | _, _ => None
  end.

Definition bindingToJSON (b : row) : json :=
  JObj (flat_map (fun kv => match termToJSON (snd kv) with
                            | Some j => [(fst kv, j)] | None => [] end) b).

Definition json_serialize (ask : option bool) (vars : list str) (rows : list row) : json :=
  match ask with
  | Some b => JObj [(k_head, JObj []); (k_boolean, JBool b)]
  | None => JObj [(k_results, JObj [(k_bindings, JArr (map bindingToJSON rows))]);
                  (k_head, JObj [(k_vars, JArr (map JStr vars))])]
  end.

Fixpoint all_some {A} (l : list (option A)) : option (list A) :=
  match l with
  | [] => Some []
  | Some x :: r => match all_some r with Some r' => Some (x :: r') | None => None end
  | None :: _ => None
  end.

(* for k, v in row.items(): outRow[Variable(k)] = parseJsonTerm(v) *)
Definition json_row (j : json) : option prow :=
  match j with
  | JObj l => fold_left (fun acc kv => match acc, py_Variable (fst kv), parseJsonTerm (snd kv) with
                                       | Some d, Some k, Some t => Some (dict_set k t d)
                                       | _, _, _ => None
                                       end) l (Some [])
  | _ => None
  end.

Definition json_truthy (j : json) : bool :=
  match j with
  | JNull => false | JBool b => b | JStr s => negb (str_eqb s [])
  | JArr l => match l with [] => false | _ => true end
  | JObj l => match l with [] => false | _ => true end
  end.

(* for x in value: a list gives its items, a dict its keys, a str its characters *)
Definition py_iter (j : json) : option (list json) :=
  match j with
  | JArr l => Some l
  | JObj l => Some (map (fun kv => JStr (fst kv)) l)
  | JStr s => Some (map (fun c => JStr [c]) s)
  | _ => None
  end.

(* JSONResult.__init__ *)
Definition json_parse (j : json) : obs :=
  match jget k_boolean j with
  | Some b => OAsk (json_truthy b)
  | None =>
    match jget k_results j with
    | None => OErr
    | Some res =>
      match match jget k_bindings res with Some b => py_iter b | None => None end with
      | Some rows =>
        match all_some (map json_row rows) with
        | None => OErr
        | Some prows =>
          match jget k_head j with
          | Some h =>
            match match jget k_vars h with Some v => py_iter v | None => None end with
            | Some vs =>
              match all_some (map (fun v => match v with JStr s => py_Variable s | _ => None end) vs) with
              | Some vars => OSel vars prows
              | None => OErr
              end
            | _ => OErr
            end
          | None => OErr
          end
        end
      | _ => OErr
      end
    end
  end.

(* ------------------------------------------------------------------ *)
(* XML                                                                 *)

Definition is_xml_char (c : N) : bool :=
  (c =? 9) || (c =? 10) || (c =? 13) || ((32 <=? c) && (c <=? 55295))
  || ((57344 <=? c) && (c <=? 65533)) || ((65536 <=? c) && (c <=? 1114111)).

(* str.replace(single character, string) *)
Definition replace1 (c : N) (rep : str) (s : str) : str :=
  flat_map (fun x => if x =? c then rep else [x]) s.

Definition e_amp := s2l "&amp;".
Definition e_gt := s2l "&gt;".
Definition e_lt := s2l "&lt;".
Definition e_quot := s2l "&quot;".
Definition e_nl := s2l "&#10;".
Definition e_cr := s2l "&#13;".
Definition e_tab := s2l "&#9;".

(* xml.sax.saxutils.escape(data) *)
Definition sax_escape (s : str) : str :=
  replace1 60 e_lt (replace1 62 e_gt (replace1 38 e_amp s)).

(* xml.sax.saxutils.quoteattr(data) *)
Definition sax_quoteattr (s : str) : str :=
  let d := replace1 9 e_tab (replace1 13 e_cr (replace1 10 e_nl (sax_escape s))) in
  if memb N.eqb 34 d then
    if memb N.eqb 39 d then 34 :: replace1 34 e_quot d ++ [34]
    else 39 :: d ++ [39]
  else 34 :: d ++ [34].

(* reader side: character data / attribute value, one character at a time *)
Inductive xst :=
| XT (out : str) (cr : bool)     (* text; out reversed; cr: previous raw character was CR *)
| XE (out : str) (buf : str)     (* inside a reference, buf reversed *)
| XF.                            (* not well-formed *)

Definition digit_val (c : N) : option N :=
  if (48 <=? c) && (c <=? 57) then Some (c - 48) else None.
Definition hex_val (c : N) : option N :=
  if (48 <=? c) && (c <=? 57) then Some (c - 48)
  else if (97 <=? c) && (c <=? 102) then Some (c - 87)
  else if (65 <=? c) && (c <=? 70) then Some (c - 55) else None.

Fixpoint num_of (base : N) (dv : N -> option N) (acc : N) (s : str) : option N :=
  match s with
  | [] => Some acc
  | c :: r => match dv c with Some d => num_of base dv (acc * base + d) r | None => None end
  end.

Definition ent_value (name : str) : option N :=
  if str_eqb name (s2l "amp") then Some 38
  else if str_eqb name (s2l "lt") then Some 60
  else if str_eqb name (s2l "gt") then Some 62
  else if str_eqb name (s2l "quot") then Some 34
  else if str_eqb name (s2l "apos") then Some 39
  else match name with
       | 35 :: 120 :: (_ :: _) as h => num_of 16 hex_val 0 h
       | 35 :: (_ :: _) as d => num_of 10 digit_val 0 d
       | _ => None
       end.

Definition xstep (attr : bool) (st : xst) (c : N) : xst :=
  match st with
  | XF => XF
  | XE out buf =>
      if c =? 59 then
        match ent_value (rev buf) with
        | Some v => if is_xml_char v then XT (v :: out) false else XF
        | None => XF
        end
      else XE out (c :: buf)
  | XT out cr =>
      if negb (is_xml_char c) then XF
      else if c =? 38 then XE out []
      else if c =? 60 then XF
      else if c =? 13 then XT ((if attr then 32 else 10) :: out) true
      else if c =? 10 then (if cr then XT out false else XT ((if attr then 32 else 10) :: out) false)
      else if attr && (c =? 9) then XT (32 :: out) false
      else XT (c :: out) false
  end.

Definition xml_read (attr : bool) (s : str) : option str :=
  match fold_left (xstep attr) s (XT [] false) with
  | XT out _ => Some (rev out)
  | _ => None
  end.

(* an attribute as written: quote, content, the same quote *)
Definition xml_read_attr (raw : str) : option str :=
  match raw with
  | q :: r =>
      if (q =? 34) || (q =? 39) then
        match rev r with
        | q' :: inner_rev =>
            if (q' =? q) && negb (memb N.eqb q inner_rev) then xml_read true (rev inner_rev) else None
        | [] => None
        end
      else None
  | [] => None
  end.

Inductive xkind := KUri | KBnode | KLiteral.

(* as written (raw, escaped) *)
Record xterm := { xk : xkind; x_dt : option str; x_lang : option str; x_text : str }.
Definition xbind := (str * xterm)%type.          (* raw name attribute, child *)
Inductive xdoc :=
| XAsk (text : str)
| XSel (head : list str) (results : list (list xbind)).

Definition xsd_integer := s2l "http://www.w3.org/2001/XMLSchema#integer".
Definition in_range (lo hi c : N) : bool := (lo <=? c) && (c <=? hi).
Definition is_digit (c : N) : bool := in_range 48 57 c.
Definition canonical_int (s : str) : bool :=
  match s with
  | [] => false
  | [c] => is_digit c
  | c :: r => is_digit c && negb (c =? 48) && forallb is_digit r
  end.

(* the outcome of writing something: done, ResultException, or another exception *)
Inductive wres (A : Type) := WOk (a : A) | WRefuse | WFail.
Arguments WOk {A} a.
Arguments WRefuse {A}.
Arguments WFail {A}.

(* writing the items of a list one after the other: the first exception ends it *)
Fixpoint all_w {A} (l : list (wres A)) : wres (list A) :=
  match l with
  | [] => WOk []
  | WOk x :: r => match all_w r with WOk r' => WOk (x :: r') | WRefuse => WRefuse | WFail => WFail end
  | WRefuse :: _ => WRefuse
  | WFail :: _ => WFail
  end.

(* _check_xml_chars *)
Definition str_xml (s : str) : bool := forallb is_xml_char s.

(* str.split(c): the first piece and the following ones *)
Fixpoint split_on (c : N) (s : str) : str * list str :=
  match s with
  | [] => ([], [])
  | x :: r => let '(h, t) := split_on c r in if x =? c then ([], h :: t) else (x :: h, t)
  end.

(* SPARQLXMLWriter._characters(text), after the check: characters(part) for every piece of
   text.split(CR), the reference &#13; written verbatim in between
   ( characters("") writes nothing = escape("") ) *)
Definition xml_characters (s : str) : str :=
  let '(h, t) := split_on 13 s in
  sax_escape h ++ flat_map (fun p => e_cr ++ sax_escape p) t.

(* the strings write_binding checks for a term *)
Definition written_strings (t : term) : list str :=
  match t with
  | IRI s => [s]
  | BNode s => [s]
  | Lit lex dt lang =>
      match nonempty lang with
      | Some l => [l; lex]
      | None => match dt with Some d => [d; lex] | None => [lex] end
      end
  end.

(* SPARQLXMLWriter.write_binding, the child element; WFail = Exception("Unsupported RDF term") *)
Definition xml_term_elem (t : term) : xterm :=
  match t with
  | IRI s => {| xk := KUri; x_dt := None; x_lang := None; x_text := xml_characters s |}
  | BNode s => {| xk := KBnode; x_dt := None; x_lang := None; x_text := xml_characters s |}
  | Lit lex dt lang =>
      (* if val.language: ... elif val.datatype is not None: ... *)
      match nonempty lang with
      | Some l => {| xk := KLiteral; x_dt := None; x_lang := Some (sax_quoteattr l); x_text := xml_characters lex |}
      | None =>
        match dt with
        | Some d => {| xk := KLiteral; x_dt := Some (sax_quoteattr d); x_lang := None; x_text := xml_characters lex |}
        | None => {| xk := KLiteral; x_dt := None; x_lang := None; x_text := xml_characters lex |}
        end
      end
  end.

Definition xml_write_term (t : option term) : wres xterm :=
  match t with
  | Some t' => if forallb str_xml (written_strings t') then WOk (xml_term_elem t') else WRefuse
  | None => WFail
  end.

Definition xml_write_bind (kv : str * option term) : wres xbind :=
  if str_xml (fst kv) then
    match xml_write_term (snd kv) with
    | WOk x => WOk (sax_quoteattr (fst kv), x)
    | WRefuse => WRefuse
    | WFail => WFail
    end
  else WRefuse.

Definition xml_write_row (r : row) : wres (list xbind) := all_w (map xml_write_bind r).

Definition xml_write_var (v : str) : wres str := if str_xml v then WOk (sax_quoteattr v) else WRefuse.

Definition s_true := s2l "true".

Definition xml_serialize (ask : option bool) (vars : list str) (rows : list row) : wres xdoc :=
  match ask with
  | Some b => WOk (XAsk (sax_escape (if b then s_true else s_false)))
  | None =>
      (* write_header first, then the results *)
      match all_w (map xml_write_var vars) with
      | WOk head => match all_w (map xml_write_row rows) with
                    | WOk rs => WOk (XSel head rs)
                    | WRefuse => WRefuse
                    | WFail => WFail
                    end
      | WRefuse => WRefuse
      | WFail => WFail
      end
  end.

(* the element after the XML parser: decoded text (None when empty) and attributes *)
Record pterm := { pk : xkind; p_dt : option str; p_lang : option str; p_text : option str }.

Definition opt_map_o {A B} (f : A -> option B) (o : option A) : option (option B) :=
  match o with None => Some None | Some a => match f a with Some b => Some (Some b) | None => None end end.

Definition xml_decode_term (x : xterm) : option pterm :=
  match xml_read false (x_text x), opt_map_o xml_read_attr (x_dt x), opt_map_o xml_read_attr (x_lang x) with
  | Some t, Some d, Some l =>
      Some {| pk := xk x; p_dt := d; p_lang := l; p_text := match t with [] => None | _ => Some t end |}
  | _, _, _ => None
  end.

Definition fresh_label : str := [0].   (* stands for the label BNode(None) mints *)

(* xmlresults.parseTerm; None = exception *)
Definition xml_parseTerm (p : pterm) : option term :=
  match pk p with
  | KLiteral =>
      let text := match p_text p with None => [] | Some t => t end in
      match p_dt p with                          (* if element.get("datatype") is not None *)
      | Some d => py_Literal text (Some d) None
      | None => match nonempty (p_lang p) with
                | Some l => py_Literal text None (Some l)
                | None => py_Literal text None None
                end
      end
  | KUri => match p_text p with Some t => Some (IRI t) | None => Some (IRI []) end   (* URIRef(text or "") *)
  | KBnode => match p_text p with Some t => Some (BNode t) | None => Some (BNode fresh_label) end
  end.

Definition xml_parse_bind (b : xbind) : option (str * term) :=
  match xml_read_attr (fst b), xml_decode_term (snd b) with
  | Some n, Some p => match xml_parseTerm p with Some t => Some (n, t) | None => None end
  | _, _ => None
  end.

Definition py_isspace (c : N) : bool :=
  ((9 <=? c) && (c <=? 13)) || ((28 <=? c) && (c <=? 32)) || (c =? 133) || (c =? 160) || (c =? 5760)
  || ((8192 <=? c) && (c <=? 8202)) || (c =? 8232) || (c =? 8233) || (c =? 8239) || (c =? 8287) || (c =? 12288).

Fixpoint lstrip (s : str) : str :=
  match s with c :: r => if py_isspace c then lstrip r else s | [] => [] end.
Definition py_strip (s : str) : str := rev (lstrip (rev (lstrip s))).

Definition ascii_lower (c : N) : N := if (65 <=? c) && (c <=? 90) then c + 32 else c.

(* XMLResult.__init__ on the parsed document *)
Definition xml_parse (d : xdoc) : obs :=
  match d with
  | XAsk text =>
      match xml_read false text with
      | Some [] => OErr                                (* boolean.text is None *)
      | Some t => OAsk (str_eqb (py_strip (map ascii_lower t)) s_true)
      | None => OErr
      end
  | XSel head results =>
      match all_some (map (fun r => all_some (map xml_parse_bind r)) results),
            all_some (map xml_read_attr head) with
      | Some rows, Some vars => OSel vars rows
      | _, _ => OErr
      end
  end.

(* --- the same reader over a generic element tree (the ElementTree view of ANY parsed document, not
   only of those the writer produces): XMLResult.__init__ and parseTerm statement by statement --- *)
Inductive pelem := PE (tag : str) (attrs : list (str * str)) (text : option str) (children : list pelem).
Definition pe_tag (e : pelem) := match e with PE t _ _ _ => t end.
Definition pe_attrs (e : pelem) := match e with PE _ a _ _ => a end.
Definition pe_text (e : pelem) := match e with PE _ _ t _ => t end.
Definition pe_children (e : pelem) := match e with PE _ _ _ c => c end.

Definition ns_sparql := s2l "{http://www.w3.org/2005/sparql-results#}".
Definition t_sparql := ns_sparql ++ s2l "sparql".
Definition t_head := ns_sparql ++ s2l "head".
Definition t_variable := ns_sparql ++ s2l "variable".
Definition t_results := ns_sparql ++ s2l "results".
Definition t_result := ns_sparql ++ s2l "result".
Definition t_binding := ns_sparql ++ s2l "binding".
Definition t_boolean := ns_sparql ++ s2l "boolean".
Definition t_literal := ns_sparql ++ s2l "literal".
Definition t_uri := ns_sparql ++ s2l "uri".
Definition t_bnode := ns_sparql ++ s2l "bnode".
Definition a_name := s2l "name".
Definition a_datatype := s2l "datatype".
Definition a_lang := s2l "{http://www.w3.org/XML/1998/namespace}lang".

(* Element.find(tag) / findall(tag): direct children *)
Fixpoint pe_find (tag : str) (l : list pelem) : option pelem :=
  match l with
  | [] => None
  | e :: r => if str_eqb (pe_tag e) tag then Some e else pe_find tag r
  end.
Definition pe_findall (tag : str) (l : list pelem) : list pelem := filter (fun e => str_eqb (pe_tag e) tag) l.

(* parseTerm(element) *)
Definition xml_parseTerm_e (e : pelem) : option term :=
  if str_eqb (pe_tag e) t_literal then
    let text := match pe_text e with None => [] | Some t => t end in
    match lookup a_datatype (pe_attrs e) with
    | Some d => py_Literal text (Some d) None
    | None => match nonempty (lookup a_lang (pe_attrs e)) with
              | Some l => py_Literal text None (Some l)
              | None => py_Literal text None None
              end
    end
  else if str_eqb (pe_tag e) t_uri then Some (IRI (match pe_text e with Some t => t | None => [] end))
  else if str_eqb (pe_tag e) t_bnode then
    Some (BNode (match pe_text e with Some t => t | None => fresh_label end))
  else None.

(* for binding in result: ... r[Variable(binding.get("name"))] = parseTerm(binding[0]) *)
Definition xml_result_row (result : pelem) : option prow :=
  fold_left (fun acc b =>
               match acc with
               | None => None
               | Some d =>
                   if negb (str_eqb (pe_tag b) t_binding) then Some d
                   else match lookup a_name (pe_attrs b), pe_children b with
                        | Some n, child :: _ =>
                            match py_Variable n, xml_parseTerm_e child with
                            | Some v, Some t => Some (dict_set v t d)
                            | _, _ => None
                            end
                        | _, _ => None
                        end
               end) (pe_children result) (Some []).

Definition xml_reader (root : pelem) : obs :=
  let kids := pe_children root in
  match pe_find t_boolean kids with
  | Some b =>
      match pe_text b with
      | None => OErr
      | Some t => OAsk (str_eqb (py_strip (map ascii_lower t)) s_true)
      end
  | None =>
      match pe_find t_results kids with
      | None => OErr                                  (* ResultException *)
      | Some results =>
          match all_some (map xml_result_row (pe_findall t_result (pe_children results))),
                all_some (map (fun x => match lookup a_name (pe_attrs x) with
                                        | Some n => py_Variable n | None => None end)
                              (flat_map (fun h => pe_findall t_variable (pe_children h)) (pe_findall t_head kids))) with
          | Some rows, Some vars => OSel vars rows
          | _, _ => OErr
          end
      end
  end.

(* the tree the XML parser builds from a written document: every string decoded *)
Definition tree_of_pterm (p : pterm) : pelem :=
  PE (match pk p with KUri => t_uri | KBnode => t_bnode | KLiteral => t_literal end)
     ((match p_dt p with Some d => [(a_datatype, d)] | None => [] end)
      ++ (match p_lang p with Some l => [(a_lang, l)] | None => [] end))
     (p_text p) [].

Definition xml_decode_bind (b : xbind) : option pelem :=
  match xml_read_attr (fst b), xml_decode_term (snd b) with
  | Some n, Some p => Some (PE t_binding [(a_name, n)] None [tree_of_pterm p])
  | _, _ => None
  end.

Definition xml_decode_doc (d : xdoc) : option pelem :=
  match d with
  | XAsk text =>
      match xml_read false text with
      | Some t => Some (PE t_sparql [] None [PE t_head [] None [];
                                            PE t_boolean [] (match t with [] => None | _ => Some t end) []])
      | None => None
      end
  | XSel head results =>
      match all_some (map xml_read_attr head),
            all_some (map (fun r => all_some (map xml_decode_bind r)) results) with
      | Some vars, Some rows =>
          Some (PE t_sparql [] None
                  [PE t_head [] None (map (fun v => PE t_variable [(a_name, v)] None []) vars);
                   PE t_results [] None (map (fun r => PE t_result [] None r) rows)])
      | _, _ => None
      end
  end.

(* XMLResult(source): parse to a tree, then read the tree *)
Definition xml_parse_tree (d : xdoc) : obs :=
  match xml_decode_doc d with Some root => xml_reader root | None => OErr end.

(* documents given to the readers that were not written by rdflib *)
Inductive rcase := RJson (j : json) | RXml (root : pelem).
Definition reader_obs (c : rcase) : obs :=
  match c with RJson j => json_parse j | RXml root => xml_reader root end.
Definition reader_spec (c : rcase) (o : obs) : bool := true.

(* ------------------------------------------------------------------ *)
(* TSV                                                                 *)


(* how the (conformant) writer chooses among the spellings the grammar allows *)
Record style := { st_sq : bool;      (* STRING_LITERAL1 ('...') instead of STRING_LITERAL2 *)
                  st_esc_all : bool; (* also write \b and \f as ECHAR *)
                  st_bare : bool;    (* xsd:integer / xsd:boolean in their bare forms *)
                  st_cross : bool }. (* write the other quote character as ECHAR too *)


Definition pn_chars_base (c : N) : bool :=
  in_range 65 90 c || in_range 97 122 c || in_range 192 214 c || in_range 216 246 c
  || in_range 248 767 c || in_range 880 893 c || in_range 895 8191 c || in_range 8204 8205 c
  || in_range 8304 8591 c || in_range 11264 12271 c || in_range 12289 55295 c
  || in_range 63744 64975 c || in_range 65008 65533 c || in_range 65536 983039 c.
Definition pn_chars_u (c : N) : bool := pn_chars_base c || (c =? 95).
Definition pn_extra (c : N) : bool := (c =? 183) || in_range 768 879 c || in_range 8255 8256 c.
Definition pn_chars (c : N) : bool := pn_chars_u c || (c =? 45) || is_digit c || pn_extra c.
Definition is_alpha (c : N) : bool := in_range 65 90 c || in_range 97 122 c.
Definition is_alnum (c : N) : bool := is_alpha c || is_digit c.

(* IRIREF: between the angle brackets anything but the characters up to space and the nine below *)
Definition iri_char (c : N) : bool :=
  negb (c <=? 32) && negb (memb N.eqb c [60; 62; 34; 123; 125; 124; 94; 96; 92]).

(* VARNAME *)
Definition var_first (c : N) : bool := pn_chars_u c || is_digit c.
Definition var_rest (c : N) : bool := pn_chars_u c || is_digit c || pn_extra c.
Definition varname_ok (s : str) : bool :=
  match s with c :: r => var_first c && forallb var_rest r | [] => false end.

(* BLANK_NODE_LABEL without "_:" : ( PN_CHARS_U | [0-9] ) ((PN_CHARS|'.')* PN_CHARS)? *)
Definition bn_rest (c : N) : bool := pn_chars c || (c =? 46).
Definition bnode_ok (s : str) : bool :=
  match s with
  | c :: r => var_first c && forallb bn_rest r && negb (last r 0 =? 46)
  | [] => false
  end.

(* LANGTAG without "@" : [a-zA-Z]+ ('-' [a-zA-Z0-9]+)* *)
Definition lang_char (c : N) : bool := is_alnum c || (c =? 45).
(* state: are we in the first subtag, how many characters has the current subtag *)
Fixpoint lang_shape (first : bool) (n : N) (s : str) : bool :=
  match s with
  | [] => negb (n =? 0)
  | c :: r => if c =? 45 then negb (n =? 0) && lang_shape false 0 r
              else (if first then is_alpha c else is_alnum c) && lang_shape first (n + 1) r
  end.
Definition lang_ok (s : str) : bool := lang_shape true 0 s.


Definition is_nil {A} (l : list A) : bool := match l with [] => true | _ => false end.

Fixpoint take_while (p : N -> bool) (s : str) : str * str :=
  match s with
  | c :: r => if p c then let '(a, b) := take_while p r in (c :: a, b) else ([], s)
  | [] => ([], [])
  end.

Definition xsd_decimal := s2l "http://www.w3.org/2001/XMLSchema#decimal".

(* the further numeric shorthands of the grammar whose lexical form Literal() keeps: a negative integer
   -d (d canonical, not 0), a decimal i.f and -i.f (i canonical, f digits, at least one).
   Doubles have no such form (Literal() re-spells them from the float), +d and +i.f lose the sign. *)
Definition dec_body (s : str) : bool :=
  let '(ip, r) := take_while is_digit s in
  canonical_int ip && match r with 46 :: fp => forallb is_digit fp && negb (is_nil fp) | _ => false end.
Definition bare_number (lex : str) (dt : option str) : bool :=
  (ostr_eqb dt (Some xsd_integer)
   && match lex with 45 :: d => canonical_int d && negb (str_eqb d [48]) | _ => false end)
  || (ostr_eqb dt (Some xsd_decimal) && match lex with 45 :: b => dec_body b | _ => dec_body lex end).

(* ECHAR spelling of one character of a lexical form inside quotes q *)
Definition esc_char (st : style) (q c : N) : str :=
  if c =? 9 then [92; 116] else if c =? 10 then [92; 110] else if c =? 13 then [92; 114]
  else if c =? 92 then [92; 92] else if c =? q then [92; q]
  else if st_esc_all st && (c =? 8) then [92; 98]
  else if st_esc_all st && (c =? 12) then [92; 102]
  else if st_cross st && ((c =? 34) || (c =? 39)) then [92; c]
  else [c].

Definition quote_of (st : style) : N := if st_sq st then 39 else 34.

Definition render_term (st : style) (t : term) : str :=
  match t with
  | IRI s => 60 :: s ++ [62]
  | BNode s => 95 :: 58 :: s
  | Lit lex dt lang =>
      if st_bare st && ostr_eqb dt (Some xsd_integer) && ostr_eqb lang None && canonical_int lex then lex
      else if st_bare st && ostr_eqb dt (Some xsd_boolean) && ostr_eqb lang None
              && (str_eqb lex s_true || str_eqb lex s_false) then lex
      else if st_bare st && ostr_eqb lang None && bare_number lex dt then lex
      else
        let q := quote_of st in
        q :: flat_map (esc_char st q) lex ++ [q]
          ++ match lang with
             | Some l => 64 :: l
             | None => match dt with Some d => 94 :: 94 :: 60 :: d ++ [62] | None => [] end
             end
  end.

Fixpoint join_tab (l : list str) : str :=
  match l with
  | [] => []
  | [x] => x
  | x :: r => x ++ 9 :: join_tab r
  end.

Definition render_cell (st : style) (o : option term) : str :=
  match o with Some t => render_term st t | None => [] end.

Definition render_row (st : style) (vars : list str) (r : row) : str :=
  join_tab (map (fun v => render_cell st (cell v r)) vars).

Definition render_header (vars : list str) : str := join_tab (map (fun v => 63 :: v) vars).

Definition render_doc (st : style) (vars : list str) (rows : list row) : str :=
  render_header vars ++ 10 :: flat_map (fun r => render_row st vars r ++ [10]) rows.

(* --- reader --- *)


(* line ends of str.splitlines(), which codecs.StreamReader.readline uses (the reader before
   e84c9b4e on byte sources); on a text stream, and now always, only LF ends a line *)
Definition is_break (c : N) : bool :=
  in_range 10 13 c || in_range 28 30 c || (c =? 133) || (c =? 8232) || (c =? 8233).

(* lines as seen after  line.strip("\n") : a terminator other than LF stays on the line *)
Fixpoint split_lines (bytes : bool) (cur : str) (s : str) : list str :=
  match s with
  | [] => match cur with [] => [] | _ => [rev cur] end
  | c :: r =>
      if c =? 10 then rev cur :: split_lines bytes [] r
      else if bytes && is_break c then
        if c =? 13 then
          match r with
          | c2 :: r' => if c2 =? 10 then rev (c :: cur) :: split_lines bytes [] r'
                        else rev (c :: cur) :: split_lines bytes [] r
          | [] => rev (c :: cur) :: split_lines bytes [] r
          end
        else rev (c :: cur) :: split_lines bytes [] r
      else split_lines bytes (c :: cur) r
  end.

(* STRING_LITERAL1/2:  q (?:[^q\n\r\\]|\\[BOTHQUOTES ntbrf\\])* q (?!q) ; returns the raw inside and the rest.
   Since 93b4b6b9 the escape of either quote character is accepted in both forms. *)
Definition echar_ok (e : N) : bool :=
  (e =? 34) || (e =? 39) || (e =? 110) || (e =? 116) || (e =? 98) || (e =? 114) || (e =? 102) || (e =? 92).

Fixpoint scan_string (q : N) (s : str) : option (str * str) :=
  match s with
  | [] => None
  | c :: r =>
      if c =? q then
        match r with
        | c2 :: _ => if c2 =? q then None else Some ([], r)
        | [] => Some ([], r)
        end
      else if c =? 92 then
        match r with
        | e :: r' => if echar_ok e then
                       match scan_string q r' with
                       | Some (raw, rest) => Some (c :: e :: raw, rest)
                       | None => None
                       end
                     else None
        | [] => None
        end
      else if (c =? 10) || (c =? 13) then None
      else match scan_string q r with
           | Some (raw, rest) => Some (c :: raw, rest)
           | None => None
           end
  end.

(* rdflib.compat.decodeUnicodeEscape, ECHAR part ( \uXXXX cannot follow a validated scan ) *)
Definition echar_val (e : N) : option N :=
  if e =? 116 then Some 9 else if e =? 98 then Some 8 else if e =? 110 then Some 10
  else if e =? 114 then Some 13 else if e =? 102 then Some 12 else if e =? 34 then Some 34
  else if e =? 39 then Some 39 else if e =? 92 then Some 92 else None.

Fixpoint decode_echar (s : str) : str :=
  match s with
  | [] => []
  | c :: r =>
      if c =? 92 then
        match r with
        | e :: r' => match echar_val e with
                     | Some v => v :: decode_echar r'
                     | None => c :: decode_echar r
                     end
        | [] => [c]
        end
      else c :: decode_echar r
  end.

(* IRIREF: '<' run '>' *)
Definition scan_iri (s : str) : option (str * str) :=
  match s with
  | c :: r => if c =? 60 then
                let '(a, b) := take_while iri_char r in
                match b with c2 :: b' => if c2 =? 62 then Some (a, b') else None | [] => None end
              else None
  | [] => None
  end.

(* Literal(digits, datatype=XSD.integer) re-lexicalises: leading zeros go *)
Fixpoint strip_zeros (s : str) : str :=
  match s with
  | c :: (_ :: _) as r => if c =? 48 then strip_zeros r else s
  | _ => s
  end.

Definition ident_char (c : N) : bool := is_alnum c || (c =? 95) || (c =? 36).

Fixpoint strip_prefix (p s : str) : option str :=
  match p, s with
  | [], _ => Some s
  | a :: p', b :: s' => if a =? b then strip_prefix p' s' else None
  | _, [] => None
  end.

Definition keyword (kw : str) (s : str) : option str :=
  match strip_prefix kw s with
  | Some rest => match rest with c :: _ => if ident_char c then None else Some rest | [] => Some rest end
  | None => None
  end.

(* NumericLiteral = (DOUBLE | DECIMAL | INTEGER) with an optional sign.  INTEGER [0-9]+, DECIMAL [0-9]*\.[0-9]+ ;
   a DOUBLE (exponent) is recognised and NOT modelled (None): Literal() re-spells it from the float value.
   Some (is_decimal, integer part, fraction, rest) *)
Definition scan_unsigned (s : str) : option (bool * str * str * str) :=
  let '(ip, r1) := take_while is_digit s in
  let is_e := fun (r : str) => match r with c :: _ => (c =? 101) || (c =? 69) | [] => false end in
  match r1 with
  | 46 :: r2 =>
      let '(fp, r3) := take_while is_digit r2 in
      match fp with
      | [] => match ip with [] => None | _ => if is_e r2 then None else Some (false, ip, [], r1) end
      | _ => if is_e r3 then None else Some (true, ip, fp, r3)
      end
  | _ => match ip with [] => None | _ => if is_e r1 then None else Some (false, ip, [], r1) end
  end.

(* the parse actions: Literal(text, datatype=...) re-lexicalises (leading zeros go, ".5" becomes "0.5", a
   plus sign goes); a negative token is neg(Literal) = Literal(-value, datatype): int values, and since
   53a005c9 Decimal values too (-0.0 stays -0.0) *)
Definition scan_number (s : str) : option (term * str) :=
  let '(sign, body) := match s with
                       | c :: r => if c =? 43 then (1, r) else if c =? 45 then (2, r) else (0, s)
                       | [] => (0, s)
                       end in
  match scan_unsigned body with
  | None => None
  | Some (isdec, ip, fp, rest) =>
      if isdec then
        let d := (match ip with [] => [48] | _ => strip_zeros ip end) ++ 46 :: fp in
        Some (Lit (if sign =? 2 then 45 :: d else d) (Some xsd_decimal) None, rest)
      else
        let n := strip_zeros ip in
        Some (Lit (if (sign =? 2) && negb (str_eqb n [48]) then 45 :: n else n) (Some xsd_integer) None, rest)
  end.

(* TERM = RDFLITERAL | IRIREF | BLANK_NODE_LABEL | NumericLiteral | BooleanLiteral, then convertTerm.
   Maximal-run scanners with a shape check stand for the backtracking regular expressions
   of LANGTAG and BLANK_NODE_LABEL: where the expression would match a shorter prefix, the next
   character is of the run's class, hence neither TAB nor end of line, and ROW fails as well.
   Doubles are not modelled (None). *)
Definition scan_term (s : str) : option (term * str) :=
  match s with
  | [] => None
  | c :: r =>
      if (c =? 34) || (c =? 39) then
        match scan_string c r with
        | None => None
        | Some (raw, rest) =>
            let lex := decode_echar raw in
            match rest with
            | 64 :: r1 =>
                let '(l, r2) := take_while lang_char r1 in
                if lang_ok l then match py_Literal lex None (Some l) with Some t => Some (t, r2) | None => None end
                else match py_Literal lex None None with Some t => Some (t, rest) | None => None end
            | 94 :: 94 :: r1 =>
                match scan_iri r1 with
                | Some (d, r2) => match py_Literal lex (Some d) None with Some t => Some (t, r2) | None => None end
                | None => match py_Literal lex None None with Some t => Some (t, rest) | None => None end
                end
            | _ => match py_Literal lex None None with Some t => Some (t, rest) | None => None end
            end
        end
      else if c =? 60 then
        match scan_iri s with Some (i, rest) => Some (IRI i, rest) | None => None end
      else if c =? 95 then
        match r with
        | c2 :: c3 :: r1 =>
            if (c2 =? 58) && var_first c3 then
              let '(a, b) := take_while bn_rest r1 in
              if negb (last a 0 =? 46) then Some (BNode (c3 :: a), b) else None
            else None
        | _ => None
        end
      else if is_digit c || (c =? 46) || (c =? 43) || (c =? 45) then scan_number s
      else match keyword s_true s with
           | Some rest => Some (Lit s_true (Some xsd_boolean) None, rest)
           | None => match keyword s_false s with
                     | Some rest => Some (Lit s_false (Some xsd_boolean) None, rest)
                     | None => None
                     end
           end
  end.

(* EMPTY = FollowedBy(LineEnd()) | FollowedBy("\t") *)
Definition at_empty (s : str) : bool := match s with [] => true | c :: _ => c =? 9 end.

Definition scan_cell (s : str) : option (option term * str) :=
  if at_empty s then Some (None, s)
  else match scan_term s with Some (t, rest) => Some (Some t, rest) | None => None end.

(* ROW = (EMPTY | TERM) + ZeroOrMore(Suppress("\t") + (EMPTY | TERM)), parse_all *)
Fixpoint scan_row (fuel : nat) (s : str) : option (list (option term)) :=
  match fuel with
  | O => None
  | S f =>
      match scan_cell s with
      | None => None
      | Some (x, rest) =>
          match rest with
          | [] => Some [x]
          | c :: r => if c =? 9 then
                        match scan_row f r with Some l => Some (x :: l) | None => None end
                      else None
          end
      end
  end.

(* HEADER = Var + ZeroOrMore(Suppress("\t") + Var), Var = ('?'|'$') VARNAME *)
Fixpoint scan_header (fuel : nat) (s : str) : option (list str) :=
  match fuel with
  | O => None
  | S f =>
      match s with
      | c :: c1 :: r =>
          if ((c =? 63) || (c =? 36)) && var_first c1 then
            let '(a, rest) := take_while var_rest r in
            match rest with
            | [] => Some [c1 :: a]
            | c2 :: r2 => if c2 =? 9 then
                            match scan_header f r2 with Some l => Some ((c1 :: a) :: l) | None => None end
                          else None
            end
          else None
      | _ => None
      end
  end.

(* zip(r.vars, row) with the unbound cells skipped *)
Fixpoint zip_row (vars : list str) (cells : list (option term)) : prow :=
  match vars, cells with
  | v :: vs, Some t :: cs => (v, t) :: zip_row vs cs
  | _ :: vs, None :: cs => zip_row vs cs
  | _, _ => []
  end.


(* the row loop as it was before the repair of F11a: empty lines skipped, rows with nothing bound dropped *)
Fixpoint tsv_rows_prefix (vars : list str) (lines : list str) : option (list prow) :=
  match lines with
  | [] => Some []
  | l :: r =>
      match l with
      | [] => tsv_rows_prefix vars r
      | _ =>
        match scan_row (S (List.length l)) l with
        | None => None
        | Some cells =>
            match tsv_rows_prefix vars r with
            | None => None
            | Some rest => let d := zip_row vars cells in Some (match d with [] => rest | _ => d :: rest end)
            end
        end
      end
  end.

Fixpoint tsv_rows (vars : list str) (lines : list str) : option (list prow) :=
  match lines with
  | [] => Some []
  | l :: r =>
      (* if line == "" and len(r.vars) != 1: continue *)
      if is_nil l && negb (Nat.eqb (List.length vars) 1) then tsv_rows vars r
      else
        match scan_row (S (List.length l)) l with
        | None => None
        | Some cells =>
            match tsv_rows vars r with
            | None => None
            | Some rest => Some (zip_row vars cells :: rest)     (* r.bindings.append(this_row_dict) *)
            end
        end
  end.

(* str.rstrip("\r\n") *)
Fixpoint drop_crlf (s : str) : str :=
  match s with c :: r => if (c =? 13) || (c =? 10) then drop_crlf r else s | [] => [] end.
Definition rstrip_crlf (s : str) : str := rev (drop_crlf (rev s)).

(* TSVResultParser.parse *)
(* since e84c9b4e: the whole source is read and decoded, lines = data.split(LF) with a last empty
   piece dropped - which is [split_lines false]; the kind of source no longer matters *)
Definition tsv_parse (doc : str) : obs :=
  match split_lines false [] doc with
  | [] => OErr                                 (* HEADER cannot match "" *)
  | h :: lines =>
      let h' := rstrip_crlf h in               (* header.rstrip("\r\n"), since 9f983466 *)
      match scan_header (S (List.length h')) h' with
      | None => OErr
      | Some vars => match tsv_rows vars lines with Some rows => OSel vars rows | None => OErr end
      end
  end.

(* ------------------------------------------------------------------ *)
(* CSV                                                                 *)

Fixpoint has_prefix (p s : str) : bool :=
  match p, s with
  | [], _ => true
  | a :: p', b :: s' => (a =? b) && has_prefix p' s'
  | _, [] => false
  end.

(* CSVResultSerializer.serializeTerm followed by csv.writer's str() *)
Definition csv_serializeTerm (t : option term) : str :=
  match t with
  | None => []
  | Some (BNode s) => 95 :: 58 :: s
  | Some (IRI s) => s
  | Some (Lit lex _ _) => lex
  end.

(* row.get(v) *)
Definition py_get (v : str) (r : row) : option term :=
  match lookup v r with Some o => o | None => None end.

Definition csv_serialize (vars : list str) (rows : list row) : list (list str) :=
  vars :: map (fun r => map (fun v => csv_serializeTerm (py_get v r)) vars) rows.

(* --- csv.writer with the dialect the serialiser configures: delimiter comma, quotechar double quote,
   doublequote, lineterminator CRLF, QUOTE_MINIMAL, no escapechar (Modules/_csv.c, join_append_data) --- *)

(* the characters that make a field quoted: delimiter, quotechar, the characters of the lineterminator *)
Definition csv_special (c : N) : bool := (c =? 44) || (c =? 34) || (c =? 13) || (c =? 10).

Definition csv_field_body (s : str) : str := flat_map (fun c => if c =? 34 then [34; 34] else [c]) s.

Definition csv_write_field (s : str) : str :=
  if existsb csv_special s then 34 :: csv_field_body s ++ [34] else s.

Fixpoint join_comma (l : list str) : str :=
  match l with
  | [] => []
  | [x] => x
  | x :: r => x ++ 44 :: join_comma r
  end.

(* writerow: a record that would be empty although it has one (empty) field is written as a quoted empty field *)
Definition csv_writerow (fields : list str) : str :=
  match fields with
  | [ [] ] => [34; 34; 13; 10]
  | _ => join_comma (map csv_write_field fields) ++ [13; 10]
  end.

Definition csv_text (table : list (list str)) : str := flat_map csv_writerow table.

(* --- csv.reader for the same dialect (Modules/_csv.c, parse_process_char / Reader_iternext), fed
   line by line by the iterator it is given --- *)

(* how the source is cut into lines:
   LUniversal  io.StringIO(text, newline=""): after LF, CR, CR LF, line ends kept
   LLf         a text stream with newline LF (io.StringIO(text)): after LF only
   LSplit      codecs.StreamReader (what CSVResultParser wraps a byte source in): str.splitlines *)
Inductive lines := LUniversal | LLf | LSplit.

Definition line_break (k : lines) (c : N) : bool :=
  match k with
  | LUniversal => (c =? 10) || (c =? 13)
  | LLf => c =? 10
  | LSplit => is_break c
  end.

Inductive cstate := CRec | CField | CInField | CInQuoted | CQuoteInQuoted | CEatCrnl.

Record csvst := { cs_st : cstate;
                  cs_buf : str;                  (* current field, reversed *)
                  cs_fields : list str;          (* fields of the current record, reversed *)
                  cs_out : list (list str);      (* finished records, reversed *)
                  cs_cr : bool;                  (* the line iterator has just seen CR *)
                  cs_inline : bool;              (* characters since the last end of line *)
                  cs_err : bool }.               (* _csv.Error *)

Definition cs_set (s : csvst) (st : cstate) (buf : str) (fields : list str) : csvst :=
  {| cs_st := st; cs_buf := buf; cs_fields := fields; cs_out := cs_out s;
     cs_cr := cs_cr s; cs_inline := cs_inline s; cs_err := cs_err s |}.

(* parse_save_field *)
Definition cs_save (s : csvst) (st : cstate) : csvst := cs_set s st [] (rev (cs_buf s) :: cs_fields s).
(* parse_add_char *)
Definition cs_add (s : csvst) (st : cstate) (c : N) : csvst := cs_set s st (c :: cs_buf s) (cs_fields s).
Definition cs_goto (s : csvst) (st : cstate) : csvst := cs_set s st (cs_buf s) (cs_fields s).
Definition cs_fail (s : csvst) : csvst :=
  {| cs_st := cs_st s; cs_buf := cs_buf s; cs_fields := cs_fields s; cs_out := cs_out s;
     cs_cr := cs_cr s; cs_inline := cs_inline s; cs_err := true |}.

Definition is_nl (c : N) : bool := (c =? 10) || (c =? 13).

(* parse_process_char for a character of the line *)
Definition cs_char (s : csvst) (c : N) : csvst :=
  match cs_st s with
  | CRec =>
      if is_nl c then cs_goto s CEatCrnl
      else if c =? 34 then cs_goto s CInQuoted
      else if c =? 44 then cs_save s CField
      else cs_add s CInField c
  | CField =>
      if is_nl c then cs_save s CEatCrnl
      else if c =? 34 then cs_goto s CInQuoted
      else if c =? 44 then cs_save s CField
      else cs_add s CInField c
  | CInField =>
      if is_nl c then cs_save s CEatCrnl
      else if c =? 44 then cs_save s CField
      else cs_add s CInField c
  | CInQuoted =>
      if c =? 34 then cs_goto s CQuoteInQuoted else cs_add s CInQuoted c
  | CQuoteInQuoted =>
      if c =? 34 then cs_add s CInQuoted c
      else if c =? 44 then cs_save s CField
      else if is_nl c then cs_save s CEatCrnl
      else cs_add s CInField c
  | CEatCrnl =>
      if is_nl c then s else cs_fail s
  end.

(* parse_process_char(EOL) at the end of a line, then Reader_iternext returns the record when the
   state is START_RECORD again *)
Definition cs_eol (s : csvst) : csvst :=
  let s1 := match cs_st s with
            | CRec => s
            | CField | CInField | CQuoteInQuoted => cs_save s CRec
            | CInQuoted => s
            | CEatCrnl => cs_goto s CRec
            end in
  match cs_st s1 with
  | CRec => {| cs_st := CRec; cs_buf := []; cs_fields := []; cs_out := rev (cs_fields s1) :: cs_out s1;
               cs_cr := false; cs_inline := false; cs_err := cs_err s1 |}
  | _ => {| cs_st := cs_st s1; cs_buf := cs_buf s1; cs_fields := cs_fields s1; cs_out := cs_out s1;
            cs_cr := false; cs_inline := false; cs_err := cs_err s1 |}
  end.

Definition cs_mark (s : csvst) (cr : bool) : csvst :=
  {| cs_st := cs_st s; cs_buf := cs_buf s; cs_fields := cs_fields s; cs_out := cs_out s;
     cs_cr := cr; cs_inline := true; cs_err := cs_err s |}.

(* one character of the source: the line iterator decides where lines end *)
Definition cs_feed (k : lines) (s : csvst) (c : N) : csvst :=
  let s0 := if cs_cr s && negb (c =? 10) then cs_eol s else s in
  let s1 := cs_char s0 c in
  if (c =? 13) && line_break k 13 then cs_mark s1 true
  else if line_break k c then cs_eol (cs_mark s1 false)
  else cs_mark s1 false.

Definition cs_init : csvst :=
  {| cs_st := CRec; cs_buf := []; cs_fields := []; cs_out := []; cs_cr := false; cs_inline := false; cs_err := false |}.

(* list(csv.reader(lines)); None = _csv.Error *)
Definition csv_read (k : lines) (text : str) : option (list (list str)) :=
  let s := fold_left (cs_feed k) text cs_init in
  let s1 := if cs_inline s then cs_eol s else s in                      (* a last line without line end *)
  let s2 := match cs_st s1 with                                           (* end of input inside a quoted field *)
            | CInQuoted => {| cs_st := CRec; cs_buf := []; cs_fields := [];
                              cs_out := rev (rev (cs_buf s1) :: cs_fields s1) :: cs_out s1;
                              cs_cr := false; cs_inline := false; cs_err := cs_err s1 |}
            | _ => s1
            end in
  if cs_err s2 then None else Some (rev (cs_out s2)).

(* --- CSVResultParser --- *)

(* convertTerm *)
Definition csv_convert (t : str) : option term :=
  match t with
  | [] => None
  | _ => if has_prefix [95; 58] t then Some (BNode t)
         else if has_prefix (s2l "http://") t || has_prefix (s2l "https://") t then Some (IRI t)
         else Some (Lit t None None)
  end.

(* parseRow: dict((var, val) for var, val in zip(v, converted) if val is not None) *)
Fixpoint csv_zip (vars : list str) (cells : list str) : prow :=
  match vars, cells with
  | v :: vs, c :: cs => match csv_convert c with
                        | Some t => (v, t) :: csv_zip vs cs
                        | None => csv_zip vs cs
                        end
  | _, _ => []
  end.

(* CSVResultParser.parse on a source that is cut into lines as k says *)
Definition csv_parse (k : lines) (text : str) : obs :=
  match csv_read k text with
  | None => OErr
  | Some [] => OErr                                   (* next(reader): StopIteration *)
  | Some (h :: rows) => OSel h (map (csv_zip h) rows)
  end.

Definition lines_of_src (src : N) : lines :=
  if src =? 0 then LSplit else if src =? 1 then LUniversal else LLf.

(* the csv module on its own: a table of strings written and read back, or any text read *)
Record csvcase := { ct_src : N; ct_table : list (list str); ct_raw : option str }.
Definition csvt_text (c : csvcase) : str :=
  match ct_raw c with Some t => t | None => csv_text (ct_table c) end.
Definition csvt_model (c : csvcase) : str * option (list (list str)) :=
  (csvt_text c, csv_read (lines_of_src (ct_src c)) (csvt_text c)).
Definition table_eqb : list (list str) -> list (list str) -> bool := list_eqb (list_eqb str_eqb).
Definition csvt_obs_eqb (a b : str * option (list (list str))) : bool :=
  str_eqb (fst a) (fst b) && opt_eqb table_eqb (snd a) (snd b).
(* a field that is written unquoted and contains a character at which the line iterator ends a line *)
Definition csv_field_cut (k : lines) (f : str) : bool :=
  negb (existsb csv_special f) && existsb (line_break k) f.
(* reading what was written gives the table back, unless the line iterator cuts an unquoted field *)
Definition csvt_spec (c : csvcase) (o : str * option (list (list str))) : bool :=
  match ct_raw c with
  | Some _ => true
  | None => if existsb (existsb (csv_field_cut (lines_of_src (ct_src c)))) (ct_table c) then true
            else opt_eqb table_eqb (snd o) (Some (ct_table c))
  end.

(* ------------------------------------------------------------------ *)
(* Cases, model observation                                            *)

(* FCsv: the serialiser's text read by Python's csv.reader; FCsvP: read by rdflib's CSVResultParser *)
Inductive fmt := FJson | FXml | FTsv | FCsv | FCsvP.

Record case := { c_fmt : fmt;
                 c_ask : option bool;        (* Some b: an ASK result *)
                 c_vars : list str;
                 c_rows : list row;
                 c_style : style;            (* TSV only *)
                 c_bytes : bool;             (* TSV only: the source is a byte stream *)
                 c_src : N;                  (* CSV only: 0 byte stream, 1 text newline="", 2 text newline LF *)
                 c_pre : N }.                (* a lazily evaluated result (Graph.query): next() called that many times
                                                on iter(result) before it is serialised *)

(* what a format makes of the rows the Result object holds when it is serialised *)
Definition format_obs (c : case) : obs :=
  match c_fmt c with
  | FJson => json_parse (json_serialize (c_ask c) (c_vars c) (c_rows c))
  | FXml => match xml_serialize (c_ask c) (c_vars c) (c_rows c) with
            | WOk d => xml_parse_tree d
            | WRefuse => ORefused
            | WFail => OErr
            end
  | FTsv => tsv_parse (render_doc (c_style c) (c_vars c) (c_rows c))
  | FCsv => match c_ask c with
            | Some _ => OErr      (* "CSVSerializer can only serialize select query results" *)
            | None => match csv_read (lines_of_src (c_src c)) (csv_text (csv_serialize (c_vars c) (c_rows c))) with
                      | Some m => OCells m
                      | None => OErr
                      end
            end
  | FCsvP => match c_ask c with
             | Some _ => OErr
             (* since 60d20593 the parser reads the whole source, decodes it and hands csv.reader an
                io.StringIO(data, newline=""): the kind of source no longer matters *)
             | None => csv_parse LUniversal (csv_text (csv_serialize (c_vars c) (c_rows c)))
             end
  end.

(* --- the Result object (rdflib/query.py) between evaluation and serialisation ---
   A SELECT result of Graph.query holds a generator (_genbindings) and a list (_bindings, empty at first).
   Result.__iter__ on such a result takes solutions from the generator, appends each to _bindings and yields
   it "if b:" (a solution that binds something); the bindings property - what every serialiser
   reads - then is _bindings + the rest of the generator.  k calls of next(): *)
Fixpoint consume (k : nat) (rows : list row) : list row * list row :=
  match rows with
  | [] => ([], [])
  | r :: rest =>
      match k with
      | O => ([], rows)
      (* since ef926fa5 every solution is kept; one without bindings is just not yielded *)
      | S k' => let '(a, b) := consume (if is_nil r then k else k') rest in (r :: a, b)
      end
  end.

Definition result_rows (c : case) : list row :=
  let '(a, b) := consume (N.to_nat (c_pre c)) (c_rows c) in a ++ b.

(* a solution without bindings was passed by the partial iteration *)
Fixpoint consumed_empty (k : nat) (rows : list row) : bool :=
  match rows with
  | [] => false
  | r :: rest =>
      match k with
      | O => false
      | S k' => if is_nil r then true else consumed_empty k' rest
      end
  end.

Definition with_rows (c : case) (rows : list row) : case :=
  {| c_fmt := c_fmt c; c_ask := c_ask c; c_vars := c_vars c; c_rows := rows; c_style := c_style c;
     c_bytes := c_bytes c; c_src := c_src c; c_pre := c_pre c |}.

Definition model_obs (c : case) : obs := format_obs (with_rows c (result_rows c)).

(* ------------------------------------------------------------------ *)
(* Specification: what the property says about the observation         *)

(* the string value of a term in the CSV form (W3C: IRIs and lexical forms as they are,
   blank nodes as _:label, unbound as the empty field) *)
Definition csv_value (o : option term) : str :=
  match o with
  | None => []
  | Some (IRI s) => s
  | Some (BNode s) => 95 :: 58 :: s
  | Some (Lit lex _ _) => lex
  end.

(* a parsed row agrees with the table row on every variable of the result, and binds nothing else *)
Definition row_ok (vars : list str) (r : row) (p : prow) : bool :=
  forallb (fun v => opt_eqb term_eqb (cell v r) (lookup v p)) vars
  && forallb (fun k => memb str_eqb k vars) (keys p).

Fixpoint rows_ok (vars : list str) (rs : list row) (ps : list prow) : bool :=
  match rs, ps with
  | [], [] => true
  | r :: rs', p :: ps' => row_ok vars r p && rows_ok vars rs' ps'
  | _, _ => false
  end.

(* every string of a term *)
Definition term_strings (t : term) : list str :=
  match t with
  | IRI s => [s] | BNode s => [s]
  | Lit lex dt lang => lex :: (match dt with Some d => [d] | None => [] end)
                           ++ (match lang with Some l => [l] | None => [] end)
  end.

(* SPARQL XML is XML 1.0: a result is expressible when every variable name and every string of every
   bound term consists of characters of the Char production.  The round-trip clause constrains what
   can be written; for the rest the serialiser must refuse (ResultException), not write a document
   that cannot be read or that reads as something else. *)
Definition xml_expressible (c : case) : bool :=
  forallb str_xml (c_vars c)
  && forallb (fun r => forallb (fun kv => str_xml (fst kv)
                                          && match snd kv with
                                             | Some t => forallb str_xml (term_strings t)
                                             | None => true
                                             end) r) (c_rows c).

Definition spec_select (c : case) (o : obs) : bool :=
  match o with
  | OSel vs ps => list_eqb str_eqb vs (c_vars c) && rows_ok (c_vars c) (c_rows c) ps
  | _ => false
  end.

(* the string of a term *)
Definition term_text (t : term) : str :=
  match t with IRI s => s | BNode s => s | Lit lex _ _ => lex end.

(* what rdflib's CSV reader gives for a row: for every variable either nothing - exactly when the
   CSV value of the cell is empty (unbound, or a term with the empty string: CSV cannot tell them
   apart) - or a term whose string is the CSV value of the cell; nothing else is bound *)
Definition csvp_row_ok (vars : list str) (r : row) (p : prow) : bool :=
  forallb (fun v => match lookup v p with
                    | Some t => str_eqb (term_text t) (csv_value (cell v r)) && negb (is_nil (csv_value (cell v r)))
                    | None => is_nil (csv_value (cell v r))
                    end) vars
  && forallb (fun k => memb str_eqb k vars) (keys p).

Fixpoint csvp_rows_ok (vars : list str) (rs : list row) (ps : list prow) : bool :=
  match rs, ps with
  | [], [] => true
  | r :: rs', p :: ps' => csvp_row_ok vars r p && csvp_rows_ok vars rs' ps'
  | _, _ => false
  end.

Definition spec_ok (c : case) (o : obs) : bool :=
  match c_fmt c with
  | FCsv =>
      match o with
      | OCells m => list_eqb (list_eqb str_eqb) m
                      (c_vars c :: map (fun r => map (fun v => csv_value (cell v r)) (c_vars c)) (c_rows c))
      | _ => false
      end
  | FCsvP =>
      match o with
      | OSel vs ps => list_eqb str_eqb vs (c_vars c) && csvp_rows_ok (c_vars c) (c_rows c) ps
      | _ => false
      end
  | _ =>
      match c_ask c with
      | Some b => match o with OAsk b' => Bool.eqb b b' | _ => false end
      | None =>
          match c_fmt c with
          | FXml => if xml_expressible c then spec_select c o
                    else match o with ORefused => true | _ => false end
          | _ => spec_select c o
          end
      end
  end.

(* ------------------------------------------------------------------ *)
(* Well-formed cases                                                   *)

Fixpoint nodup_str (l : list str) : bool :=
  match l with [] => true | x :: r => negb (memb str_eqb x r) && nodup_str r end.

Definition term_wf (t : term) : bool :=
  match t with
  | IRI _ => true
  | BNode s => match s with [] => false | _ => true end
  | Lit lex dt lang =>
      match lang with
      | Some [] => false
      | Some _ => match dt with None => true | Some _ => false end
      | None => negb (ostr_eqb dt (Some xsd_boolean) && str_eqb lex [])   (* not a fixed point of Literal() *)
      end
  end.

Definition row_terms (r : row) : list term :=
  flat_map (fun kv => match snd kv with Some t => [t] | None => [] end) r.

Definition row_wf (vars : list str) (r : row) : bool :=
  nodup_str (keys r) && forallb (fun k => memb str_eqb k vars) (keys r) && forallb term_wf (row_terms r).

(* the term has a rendering in the TSV term grammar *)
Definition term_tsv_ok (t : term) : bool :=
  match t with
  | IRI s => forallb iri_char s
  | BNode s => bnode_ok s
  | Lit _ dt lang =>
      match lang with Some l => lang_ok l | None => true end
      && match dt with Some d => forallb iri_char d | None => true end
  end.

(* a variable name: not empty and not starting with a question mark (what Variable() leaves alone) *)
Definition name_ok (v : str) : bool := match v with [] => false | c :: _ => negb (c =? 63) end.

Definition wf (c : case) : bool :=
  nodup_str (c_vars c) && forallb name_ok (c_vars c) && forallb (row_wf (c_vars c)) (c_rows c)
  && match c_fmt c with
     | FJson => true
     | FXml => forallb (fun r => forallb (fun kv => match snd kv with Some _ => true | None => false end) r) (c_rows c)
     | FTsv => match c_ask c with Some _ => false | None => true end
               && match c_vars c with [] => false | _ => true end
               && forallb varname_ok (c_vars c)
               && forallb (fun r => forallb term_tsv_ok (row_terms r)) (c_rows c)
     | FCsv => match c_ask c with Some _ => false | None => true end
               && ((c_src c =? 1) || (c_src c =? 2))
     | FCsvP => match c_ask c with Some _ => false | None => true end
     end.

Definition raw_break (c : N) : bool := is_break c && negb (c =? 10).

(* F11a-F11i of the earlier revisions of this file are repaired in the code, see notes/C16.md.
   (F11i was: CSVResultParser wrapped a byte source in a codecs StreamReader, [LSplit].) *)
Definition csv_unquoted_break (f : str) : bool := negb (existsb csv_special f) && existsb is_break f.

(* F11j (partial iteration lost solutions without bindings) and F11k (TypeError on a bare negative decimal)
   are repaired as well: no trigger is left *)
