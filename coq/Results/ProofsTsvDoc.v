(* C16 - TSV, document level: the rendering of a table is cut into its lines again, the header
   gives back the variables, every line gives back its row. *)
From RV Require Import Results.Model Results.Proofs Results.ProofsXml Results.ProofsTsv.
Local Open Scope N_scope.

(* ------------------------------------------------------------------ *)
(* line splitting *)

Definition line_char (b : bool) (c : N) : bool := negb (c =? 10) && negb (b && is_break c).

Lemma split_lines_line : forall b l cur rest, forallb (line_char b) l = true ->
  split_lines b cur (l ++ 10 :: rest) = (rev cur ++ l) :: split_lines b [] rest.
Proof.
  intros b. induction l as [|c l IH]; intros cur rest H.
  - cbn [app split_lines]. change (10 =? 10) with true. cbv iota. now rewrite app_nil_r.
  - cbn [forallb] in H. apply andb_true_iff in H. destruct H as [Hc Hl].
    unfold line_char in Hc. apply andb_true_iff in Hc. destruct Hc as [H10 Hb].
    apply negb_true_iff in H10, Hb.
    cbn [app split_lines]. rewrite H10, Hb. rewrite IH by auto.
    cbn [rev]. rewrite <- app_assoc. reflexivity.
Qed.

Lemma split_lines_rows : forall b (A : Type) (R : A -> str) rows,
  (forall r, In r rows -> forallb (line_char b) (R r) = true) ->
  split_lines b [] (flat_map (fun r => R r ++ [10]) rows) = map R rows.
Proof.
  intros b A R. induction rows as [|r rs IH]; intro H; [reflexivity|].
  cbn [flat_map map]. rewrite <- app_assoc. cbn [app].
  rewrite split_lines_line by (apply H; left; auto). cbn [rev app].
  rewrite IH; [reflexivity|]. intros; apply H; right; auto.
Qed.

(* ------------------------------------------------------------------ *)
(* no line feed inside a rendered line *)

Definition nolf (s : str) : bool := forallb (fun c => negb (c =? 10)) s.

Lemma nolf_of : forall (p : N -> bool) s, p 10 = false -> forallb p s = true -> nolf s = true.
Proof.
  intros p s Hp. induction s as [|c r IH]; intro H; [reflexivity|].
  cbn [forallb] in H. apply andb_true_iff in H. destruct H as [Hc Hr].
  unfold nolf. cbn [forallb]. fold (nolf r). rewrite IH by auto.
  destruct (N.eqb_spec c 10); [subst; congruence|reflexivity].
Qed.

Lemma nolf_app : forall a b, nolf (a ++ b) = nolf a && nolf b.
Proof. intros. unfold nolf. apply forallb_app. Qed.

Lemma nolf_esc_char : forall st q c, q = 34 \/ q = 39 -> nolf (esc_char st q c) = true.
Proof.
  intros st q c Hq. unfold esc_char.
  destruct (N.eqb_spec c 9); [reflexivity|].
  destruct (N.eqb_spec c 10); [reflexivity|].
  destruct (N.eqb_spec c 13); [reflexivity|].
  destruct (N.eqb_spec c 92); [reflexivity|].
  assert (Hc : nolf [c] = true) by (unfold nolf; cbn; apply N.eqb_neq in n0; now rewrite n0).
  assert (Hc2 : nolf [92; c] = true) by (unfold nolf; cbn; apply N.eqb_neq in n0; now rewrite n0).
  destruct (N.eqb_spec c q); [destruct Hq; subst; reflexivity|].
  destruct (st_esc_all st && (c =? 8)); [reflexivity|].
  destruct (st_esc_all st && (c =? 12)); [reflexivity|].
  destruct (st_cross st && ((c =? 34) || (c =? 39))); auto.
Qed.

Lemma nolf_esc : forall st q lex, q = 34 \/ q = 39 -> nolf (flat_map (esc_char st q) lex) = true.
Proof.
  intros st q lex Hq. induction lex as [|c r IH]; [reflexivity|].
  cbn [flat_map]. rewrite nolf_app, nolf_esc_char, IH; auto.
Qed.

Lemma varname_nolf : forall v, varname_ok v = true -> nolf v = true.
Proof.
  intros [|c r] H; [discriminate|]. simpl in H. apply andb_true_iff in H. destruct H as [Hc Hr].
  unfold nolf. cbn [forallb]. fold (nolf r). rewrite (nolf_of var_rest r) by auto.
  destruct (N.eqb_spec c 10); [subst; discriminate|reflexivity].
Qed.

Lemma bare_number_nolf : forall lex dt, bare_number lex dt = true -> nolf lex = true.
Proof.
  intros lex dt H. unfold bare_number in H. apply orb_true_iff in H.
  assert (Hdig : forall d, forallb is_digit d = true -> nolf d = true) by (intros; apply (nolf_of is_digit); auto).
  assert (Hdec : forall b, dec_body b = true -> nolf b = true).
  { intros b Hb. destruct (dec_body_shape b Hb) as [ip [fp [Eb [Hcan [Hf _]]]]]. subst b.
    destruct (canonical_digits ip Hcan) as [Hi _].
    change (ip ++ 46 :: fp) with (ip ++ [46] ++ fp). rewrite !nolf_app, (Hdig ip Hi), (Hdig fp Hf). reflexivity. }
  destruct H as [H|H]; apply andb_true_iff in H; destruct H as [_ Hs].
  - destruct lex as [|c d]; [discriminate|]. destruct (N.eqb_spec c 45); [subst c|].
    + apply andb_true_iff in Hs. destruct Hs as [Hcan _]. destruct (canonical_digits d Hcan) as [Hi _].
      change (45 :: d) with ([45] ++ d). rewrite nolf_app, (Hdig d Hi). reflexivity.
    + exfalso. revert Hs. clear -n. destruct c as [|p]; [discriminate|].
      do 6 (destruct p as [p|p|]; try discriminate). congruence.
  - destruct lex as [|c b]; [discriminate|]. destruct (N.eqb_spec c 45); [subst c|].
    + change (45 :: b) with ([45] ++ b). rewrite nolf_app, (Hdec b Hs). reflexivity.
    + apply Hdec. revert Hs. destruct c as [|p]; auto. do 6 (destruct p as [p|p|]; auto); try (exfalso; apply n; reflexivity).
Qed.

Lemma render_term_nolf : forall st t, term_tsv_ok t = true -> nolf (render_term st t) = true.
Proof.
  intros st [s|s|lex dt lang] Hok; simpl in Hok.
  - unfold render_term. change (60 :: s ++ [62]) with ([60] ++ s ++ [62]).
    rewrite !nolf_app. rewrite (nolf_of iri_char s) by auto. reflexivity.
  - destruct s as [|c r]; [discriminate|].
    apply andb_true_iff in Hok. destruct Hok as [Hok _]. apply andb_true_iff in Hok. destruct Hok as [Hc Hr].
    unfold render_term, nolf. cbn [forallb]. fold (nolf r). rewrite (nolf_of bn_rest r) by auto.
    destruct (N.eqb_spec c 10); [subst; discriminate|reflexivity].
  - apply andb_true_iff in Hok. destruct Hok as [Hl Hd]. unfold render_term.
    destruct (st_bare st && ostr_eqb dt (Some xsd_integer) && ostr_eqb lang None && canonical_int lex) eqn:E1.
    + apply andb_true_iff in E1. destruct E1 as [_ Hcan]. destruct (canonical_digits lex Hcan) as [Hdig _].
      apply (nolf_of is_digit); auto.
    + destruct (st_bare st && ostr_eqb dt (Some xsd_boolean) && ostr_eqb lang None
                && (str_eqb lex s_true || str_eqb lex s_false)) eqn:E2.
      * apply andb_true_iff in E2. destruct E2 as [_ Hb]. apply orb_true_iff in Hb.
        destruct Hb as [Hb|Hb]; apply str_eqb_true in Hb; subst lex; reflexivity.
      * destruct (st_bare st && ostr_eqb lang None && bare_number lex dt) eqn:E3.
        { apply andb_true_iff in E3. destruct E3 as [_ Hb]. apply bare_number_nolf with dt. exact Hb. }
        assert (Hq : quote_of st = 34 \/ quote_of st = 39) by (unfold quote_of; destruct (st_sq st); auto).
        change (quote_of st :: flat_map (esc_char st (quote_of st)) lex ++ [quote_of st] ++
                  match lang with Some l => 64 :: l
                  | None => match dt with Some d => 94 :: 94 :: 60 :: d ++ [62] | None => [] end end)
          with ([quote_of st] ++ flat_map (esc_char st (quote_of st)) lex ++ [quote_of st] ++
                  match lang with Some l => 64 :: l
                  | None => match dt with Some d => 94 :: 94 :: 60 :: d ++ [62] | None => [] end end).
        rewrite !nolf_app. rewrite nolf_esc by auto.
        assert (Hqq : nolf [quote_of st] = true) by (destruct Hq as [E|E]; rewrite E; reflexivity).
        rewrite Hqq. cbn [andb].
        destruct lang as [l|].
        -- change (64 :: l) with ([64] ++ l). rewrite nolf_app.
           rewrite (nolf_of lang_char l); [reflexivity|reflexivity|eapply lang_shape_chars; exact Hl].
        -- destruct dt as [d|]; [|reflexivity].
           change (94 :: 94 :: 60 :: d ++ [62]) with ([94; 94; 60] ++ d ++ [62]). rewrite !nolf_app.
           rewrite (nolf_of iri_char d) by auto. reflexivity.
Qed.

Lemma join_tab_nolf : forall l, (forall x, In x l -> nolf x = true) -> nolf (join_tab l) = true.
Proof.
  induction l as [|x [|y r] IH]; intro H; [reflexivity|apply H; left; auto|].
  rewrite join_tab_cons. change (9 :: join_tab (y :: r)) with ([9] ++ join_tab (y :: r)).
  rewrite !nolf_app. rewrite (H x) by (left; auto). rewrite IH by (intros; apply H; right; auto). reflexivity.
Qed.

(* ------------------------------------------------------------------ *)
(* header *)

Lemma rev_last : forall (s : str), s <> [] -> rev s = last s 0 :: rev (removelast s).
Proof.
  intros s H. rewrite (app_removelast_last 0 H) at 1. apply rev_unit.
Qed.

Lemma render_header_cons : forall v y l,
  render_header (v :: y :: l) = (63 :: v) ++ 9 :: render_header (y :: l).
Proof. reflexivity. Qed.

Lemma rstrip_crlf_id : forall s, s <> [] -> (last s 0 =? 13) || (last s 0 =? 10) = false -> rstrip_crlf s = s.
Proof.
  intros s Hne Hl. unfold rstrip_crlf. rewrite (rev_last s Hne). cbn [drop_crlf]. rewrite Hl.
  cbn [rev]. rewrite rev_involutive. symmetry. apply app_removelast_last. exact Hne.
Qed.

Lemma forallb_last : forall (p : N -> bool) s, s <> [] -> forallb p s = true -> p (last s 0) = true.
Proof.
  intros p. induction s as [|c [|c2 r] IH]; intros Hne H; [congruence| |].
  - simpl in H. apply andb_true_iff in H. tauto.
  - cbn [forallb] in H. apply andb_true_iff in H. destruct H as [_ H].
    change (last (c :: c2 :: r) 0) with (last (c2 :: r) 0). apply IH; [discriminate|exact H].
Qed.

(* the characters of a header line *)
Definition hdr_char (c : N) : bool := (c =? 63) || (c =? 9) || var_first c || var_rest c.

Lemma header_chars : forall vars, forallb varname_ok vars = true -> forallb hdr_char (render_header vars) = true.
Proof.
  induction vars as [|v [|y l] IH]; intro H; [reflexivity| |].
  - cbn [forallb] in H. apply andb_true_iff in H. destruct H as [Hv _].
    destruct v as [|c a]; [discriminate|]. simpl in Hv. apply andb_true_iff in Hv. destruct Hv as [Hc Ha].
    unfold render_header. cbn [map join_tab forallb]. unfold hdr_char at 2. rewrite Hc, orb_true_r. cbn [andb].
    apply forallb_forall. intros x Hx. rewrite forallb_forall in Ha. unfold hdr_char. rewrite (Ha x Hx).
    now rewrite !orb_true_r.
  - cbn [forallb] in H. apply andb_true_iff in H. destruct H as [Hv Hr].
    rewrite render_header_cons. rewrite forallb_app. cbn [forallb]. rewrite (IH Hr).
    destruct v as [|c a]; [discriminate|]. simpl in Hv. apply andb_true_iff in Hv. destruct Hv as [Hc Ha].
    cbn [forallb]. unfold hdr_char at 2. rewrite Hc, orb_true_r. cbn [andb].
    assert (Hfa : forallb hdr_char a = true).
    { apply forallb_forall. intros x Hx. rewrite forallb_forall in Ha. unfold hdr_char. rewrite (Ha x Hx).
      now rewrite !orb_true_r. }
    rewrite Hfa. reflexivity.
Qed.

Lemma scan_header_ok : forall vars fuel,
  vars <> [] -> forallb varname_ok vars = true -> (List.length vars <= fuel)%nat ->
  scan_header fuel (render_header vars) = Some vars.
Proof.
  induction vars as [|v rest IH]; intros fuel Hne Hok Hf; [congruence|].
  destruct fuel as [|f]; [simpl in Hf; lia|]. simpl in Hf. apply le_S_n in Hf.
  cbn [forallb] in Hok. apply andb_true_iff in Hok. destruct Hok as [Hv Hrest].
  destruct v as [|c1 a]; [discriminate|]. simpl in Hv. apply andb_true_iff in Hv. destruct Hv as [Hc1 Ha].
  destruct rest as [|y l].
  - unfold render_header. cbn [map join_tab scan_header].
    change ((63 =? 63) || (63 =? 36)) with true. rewrite Hc1. cbn [andb].
    rewrite <- (app_nil_r a). rewrite take_while_app; auto. now rewrite app_nil_r.
  - rewrite render_header_cons. cbn [app scan_header].
    change ((63 =? 63) || (63 =? 36)) with true. rewrite Hc1. cbn [andb].
    rewrite take_while_app; auto. change (9 =? 9) with true. cbv iota.
    rewrite IH; auto. discriminate.
Qed.

Lemma header_length : forall vars, (List.length vars <= List.length (render_header vars))%nat.
Proof.
  induction vars as [|v [|y l] IH]; [simpl; lia|simpl; lia|].
  rewrite render_header_cons. rewrite app_length. cbn [List.length] in *. lia.
Qed.

Lemma header_head : forall vars, vars <> [] -> exists r, render_header vars = 63 :: r.
Proof.
  intros [|v [|y l]] H; [congruence| |]; eexists; reflexivity.
Qed.

(* ------------------------------------------------------------------ *)
(* rows *)

Lemma render_row_not_skipped : forall st vars r, vars <> [] ->
  is_nil (render_row st vars r) && negb (Nat.eqb (List.length vars) 1) = false.
Proof.
  intros st [|v [|y l]] r H; [congruence|apply andb_false_r|].
  unfold render_row.
  change (map (fun v0 => render_cell st (cell v0 r)) (v :: y :: l))
    with (render_cell st (cell v r) :: render_cell st (cell y r) :: map (fun v0 => render_cell st (cell v0 r)) l).
  rewrite join_tab_cons. destruct (render_cell st (cell v r)); reflexivity.
Qed.

Lemma tsv_rows_ok : forall st vars rows,
  vars <> [] -> (forall r, In r rows -> forall v, In v vars -> cell_ok st (cell v r)) ->
  tsv_rows vars (map (render_row st vars) rows)
  = Some (map (fun r => zip_row vars (map (fun v => cell v r) vars)) rows).
Proof.
  intros st vars rows Hne. induction rows as [|r rs IH]; intro H; [reflexivity|].
  cbn [map tsv_rows]. rewrite render_row_not_skipped by auto.
  rewrite (tsv_row_scan st vars r Hne) by (intros v Hv; apply H; [left; reflexivity|exact Hv]).
  rewrite IH by (intros r' Hr' v Hv; apply H; [right; exact Hr'|exact Hv]). reflexivity.
Qed.

Lemma rows_ok_zip : forall vars rows, NoDup vars ->
  rows_ok vars rows (map (fun r => zip_row vars (map (fun v => cell v r) vars)) rows) = true.
Proof.
  intros vars rows Hnd. induction rows as [|r rs IH]; [reflexivity|].
  cbn [map rows_ok]. rewrite zip_row_ok, IH; auto.
Qed.

Lemma cell_In : forall v r t, cell v r = Some t -> In t (row_terms r).
Proof.
  unfold cell. induction r as [|[k o] r IH]; intros t H; simpl in H; [discriminate|].
  destruct (str_eqb v k).
  - destruct o as [t'|]; [|discriminate]. inversion H; subst. unfold row_terms. simpl. auto.
  - unfold row_terms. cbn [flat_map]. apply in_or_app. right. apply IH. exact H.
Qed.

(* ------------------------------------------------------------------ *)
(* the document *)

Theorem tsv_doc_ok : forall st vars rows,
  vars <> [] -> forallb varname_ok vars = true ->
  (forall r, In r rows -> forall v, In v vars -> cell_ok st (cell v r)) ->
  (forall r, In r rows -> forall t, In t (row_terms r) -> term_tsv_ok t = true) ->
  tsv_parse (render_doc st vars rows)
  = OSel vars (map (fun r => zip_row vars (map (fun v => cell v r) vars)) rows).
Proof.
  intros st vars rows Hne Hvn Hcells Htsv.
  (* no line feed in a line *)
  assert (Hh_nolf : nolf (render_header vars) = true).
  { unfold render_header. apply join_tab_nolf. intros x Hx. apply in_map_iff in Hx.
    destruct Hx as [v [E Hv]]. subst x. change (63 :: v) with ([63] ++ v). rewrite nolf_app.
    rewrite forallb_forall in Hvn. rewrite (varname_nolf v) by auto. reflexivity. }
  assert (Hr_nolf : forall r, In r rows -> nolf (render_row st vars r) = true).
  { intros r Hr. unfold render_row. apply join_tab_nolf. intros x Hx. apply in_map_iff in Hx.
    destruct Hx as [v [E Hv]]. subst x. destruct (cell v r) as [t|] eqn:Ec; [|reflexivity].
    cbn [render_cell]. apply render_term_nolf. eapply Htsv; eauto. eapply cell_In; eauto. }
  (* hence the document is cut exactly at the separators *)
  assert (Hline : forall l, nolf l = true -> forallb (line_char false) l = true).
  { intros l Hn. apply forallb_forall. intros c Hc. unfold line_char.
    unfold nolf in Hn. rewrite forallb_forall in Hn. rewrite (Hn c Hc). reflexivity. }
  unfold tsv_parse, render_doc.
  rewrite split_lines_line by (apply Hline; auto).
  rewrite split_lines_rows by (intros r Hr; apply Hline; auto).
  cbn [rev app].
  destruct (header_head vars Hne) as [hr Eh].
  assert (Hstrip : rstrip_crlf (render_header vars) = render_header vars).
  { apply rstrip_crlf_id; [rewrite Eh; discriminate|].
    pose proof (forallb_last hdr_char (render_header vars) ltac:(rewrite Eh; discriminate) (header_chars vars Hvn)) as Hl.
    destruct (N.eqb_spec (last (render_header vars) 0) 13) as [E|_]; [rewrite E in Hl; discriminate|].
    destruct (N.eqb_spec (last (render_header vars) 0) 10) as [E|_]; [rewrite E in Hl; discriminate|].
    reflexivity. }
  rewrite Hstrip. rewrite scan_header_ok; auto.
  - rewrite (tsv_rows_ok st vars rows Hne Hcells). reflexivity.
  - pose proof (header_length vars). lia.
Qed.

Lemma tsv_ok : forall c, wf c = true -> c_fmt c = FTsv -> spec_ok c (format_obs c) = true.
Proof.
  intros c Hwf Hf. unfold spec_ok, format_obs. rewrite Hf.
  unfold wf in Hwf. rewrite Hf in Hwf.
  apply andb_true_iff in Hwf. destruct Hwf as [Hwf Ht]. apply andb_true_iff in Hwf. destruct Hwf as [Hnd Hrows].
  apply andb_true_iff in Hnd. destruct Hnd as [Hnd _].
  apply andb_true_iff in Ht. destruct Ht as [Ht Htsv]. apply andb_true_iff in Ht. destruct Ht as [Ht Hvn].
  apply andb_true_iff in Ht. destruct Ht as [Hask Hne].
  destruct (c_ask c) eqn:Ea; [discriminate|].
  assert (Hne' : c_vars c <> []) by (destruct (c_vars c); [discriminate|discriminate]).
  apply nodup_str_NoDup in Hnd.
  assert (Htsv' : forall r, In r (c_rows c) -> forall t, In t (row_terms r) -> term_tsv_ok t = true).
  { intros r Hr t Hin. rewrite forallb_forall in Htsv. specialize (Htsv r Hr). rewrite forallb_forall in Htsv. auto. }
  rewrite tsv_doc_ok; auto.
  - unfold spec_select. rewrite list_eqb_refl by apply str_eqb_refl. cbn [andb]. apply rows_ok_zip. auto.
  - intros r Hr v Hv. destruct (cell v r) as [t|] eqn:Ec; [|exact I]. cbn [cell_ok].
    pose proof (cell_In v r t Ec) as Hin. split.
    + rewrite forallb_forall in Hrows. specialize (Hrows r Hr). unfold row_wf in Hrows.
      apply andb_true_iff in Hrows. destruct Hrows as [_ Hw]. rewrite forallb_forall in Hw. auto.
    + eauto.
Qed.
