(* C16 - lemmas shared by the formats, and the JSON and CSV round trips. *)
From RV Require Import Results.Model.
Local Open Scope N_scope.

Lemma str_eqb_spec : forall a b : str, reflect (a = b) (str_eqb a b).
Proof. exact (@list_eqb_spec _ _ N.eqb_spec). Qed.
Lemma str_eqb_refl : forall a, str_eqb a a = true.
Proof. intro a. destruct (str_eqb_spec a a); congruence. Qed.
Lemma str_eqb_true : forall a b, str_eqb a b = true -> a = b.
Proof. intros a b H. destruct (str_eqb_spec a b); congruence. Qed.
Lemma ostr_eqb_spec : forall a b, reflect (a = b) (ostr_eqb a b).
Proof. exact (@opt_eqb_spec _ _ str_eqb_spec). Qed.

Lemma term_eqb_spec : forall a b, reflect (a = b) (term_eqb a b).
Proof.
  intros [x|x|l d g] [y|y|l' d' g']; simpl; try (constructor; congruence).
  - destruct (str_eqb_spec x y); constructor; congruence.
  - destruct (str_eqb_spec x y); constructor; congruence.
  - destruct (str_eqb_spec l l'); simpl; [|constructor; congruence].
    destruct (ostr_eqb_spec d d'); simpl; [|constructor; congruence].
    destruct (ostr_eqb_spec g g'); constructor; congruence.
Qed.
Lemma term_eqb_refl : forall a, term_eqb a a = true.
Proof. intro a. destruct (term_eqb_spec a a); congruence. Qed.
Lemma oterm_eqb_refl : forall a, opt_eqb term_eqb a a = true.
Proof. intros [a|]; simpl; auto using term_eqb_refl. Qed.

Lemma memb_str_In : forall x l, memb str_eqb x l = true <-> In x l.
Proof. exact (@memb_In _ _ str_eqb_spec). Qed.

Lemma nodup_str_NoDup : forall l, nodup_str l = true -> NoDup l.
Proof.
  induction l as [|x r IH]; simpl; intro H; [constructor|].
  apply andb_true_iff in H. destruct H as [H1 H2]. constructor; auto.
  intro Hin. apply memb_str_In in Hin. rewrite Hin in H1. discriminate.
Qed.

(* ------------------------------------------------------------------ *)
(* dictionaries *)

Lemma lookup_none : forall V k (d : list (str * V)), ~ In k (keys d) -> lookup k d = None.
Proof.
  induction d as [|[k' v] r IH]; simpl; intro H; auto.
  destruct (str_eqb_spec k k'); [subst; tauto|]. apply IH. tauto.
Qed.

(* the bound entries of a row, in order: what a reader is expected to give back *)
Definition bound_of (r : row) : prow :=
  flat_map (fun kv => match snd kv with Some t => [(fst kv, t)] | None => [] end) r.

Lemma keys_bound_of : forall r k, In k (keys (bound_of r)) -> In k (keys r).
Proof.
  induction r as [|[k' [t|]] r IH]; simpl; intros k H; auto.
  destruct H; auto.
Qed.

Lemma lookup_bound_of : forall r v, NoDup (keys r) -> lookup v (bound_of r) = cell v r.
Proof.
  unfold cell. induction r as [|[k o] r IH]; simpl; intros v Hnd; auto.
  inversion Hnd as [|? ? Hk Hr]; subst.
  destruct o as [t|]; simpl.
  - destruct (str_eqb v k); auto.
  - destruct (str_eqb_spec v k); [subst|auto].
    apply lookup_none. intro H. apply keys_bound_of in H. tauto.
Qed.

Lemma row_ok_bound_of : forall vars r, row_wf vars r = true -> row_ok vars r (bound_of r) = true.
Proof.
  intros vars r H. unfold row_wf in H. apply andb_true_iff in H. destruct H as [H Ht].
  apply andb_true_iff in H. destruct H as [Hnd Hk]. apply nodup_str_NoDup in Hnd.
  unfold row_ok. apply andb_true_iff. split.
  - apply forallb_forall. intros v _. rewrite lookup_bound_of by auto. apply oterm_eqb_refl.
  - apply forallb_forall. intros k Hin. apply keys_bound_of in Hin.
    rewrite forallb_forall in Hk. auto.
Qed.

Lemma rows_ok_bound_of : forall vars rows,
  forallb (row_wf vars) rows = true -> rows_ok vars rows (map bound_of rows) = true.
Proof.
  induction rows as [|r rs IH]; simpl; intro H; auto.
  apply andb_true_iff in H. destruct H. rewrite row_ok_bound_of, IH; auto.
Qed.

Lemma all_some_map : forall A B (f : A -> option B) (g : A -> B) l,
  (forall x, In x l -> f x = Some (g x)) -> all_some (map f l) = Some (map g l).
Proof.
  induction l as [|x r IH]; simpl; intro H; auto.
  rewrite (H x) by auto. rewrite IH; auto.
Qed.

Arguments all_some_map {A B} f g l _.

Lemma all_some_map_id : forall A (f : A -> option A) l,
  (forall x, In x l -> f x = Some x) -> all_some (map f l) = Some l.
Proof. intros. rewrite (all_some_map f (fun x => x)); auto. now rewrite map_id. Qed.

Lemma row_terms_In : forall r k t, In (k, Some t) r -> In t (row_terms r).
Proof.
  intros r k t H. unfold row_terms. apply in_flat_map. exists (k, Some t). simpl; auto.
Qed.

Lemma list_eqb_refl : forall A (e : A -> A -> bool), (forall x, e x x = true) -> forall l, list_eqb e l l = true.
Proof. induction l; simpl; auto. rewrite H, IHl. reflexivity. Qed.

Arguments all_some_map_id {A} f l _.
Arguments lookup_none {V} k d _.

(* ------------------------------------------------------------------ *)
(* JSON *)

Lemma json_term : forall t, term_wf t = true -> exists j, termToJSON (Some t) = Some j /\ parseJsonTerm j = Some t.
Proof.
  intros [s|s|lex dt lang] Hwf; simpl.
  - eexists; split; [reflexivity|reflexivity].
  - eexists; split; [reflexivity|reflexivity].
  - destruct lang as [[|c l]|]; [discriminate| |].
    + destruct dt; [discriminate|]. eexists; split; reflexivity.
    + destruct dt as [d|].
      * eexists; split; [reflexivity|].
        unfold parseJsonTerm, jget_str, jget. cbn -[py_Literal].
        unfold py_Literal. simpl in Hwf.
        change (ostr_eqb (Some d) (Some xsd_boolean)) with (str_eqb d xsd_boolean) in Hwf.
        apply negb_true_iff in Hwf. rewrite Hwf. reflexivity.
      * eexists; split; reflexivity.
Qed.

Lemma py_Variable_ok : forall v, name_ok v = true -> py_Variable v = Some v.
Proof.
  intros [|c r] H; [discriminate|]. simpl in H. apply negb_true_iff in H. simpl. now rewrite H.
Qed.

Lemma dict_set_fresh : forall V k (v : V) d, ~ In k (keys d) -> dict_set k v d = d ++ [(k, v)].
Proof.
  induction d as [|[k' v'] r IH]; simpl; intro H; [reflexivity|].
  destruct (str_eqb_spec k k'); [subst; tauto|]. rewrite IH by tauto. reflexivity.
Qed.

Lemma keys_app : forall V (a b : list (str * V)), keys (a ++ b) = keys a ++ keys b.
Proof. intros. unfold keys. apply map_app. Qed.

Lemma json_row_fold : forall r d,
  NoDup (keys d ++ keys r) -> forallb name_ok (keys r) = true -> forallb term_wf (row_terms r) = true ->
  fold_left (fun acc kv => match acc, py_Variable (fst kv), parseJsonTerm (snd kv) with
                           | Some d0, Some k, Some t => Some (dict_set k t d0)
                           | _, _, _ => None
                           end)
            (flat_map (fun kv => match termToJSON (snd kv) with Some j => [(fst kv, j)] | None => [] end) r)
            (Some d)
  = Some (d ++ bound_of r).
Proof.
  induction r as [|[k [t|]] r IH]; intros d Hnd Hn Ht.
  - simpl. now rewrite app_nil_r.
  - simpl in Hn, Ht. apply andb_true_iff in Hn. destruct Hn as [Hk Hn]. apply andb_true_iff in Ht. destruct Ht as [Htt Ht].
    destruct (json_term t Htt) as [j [Hj Hp]].
    cbn [flat_map snd fst]. rewrite Hj. cbn [app fold_left fst snd]. rewrite (py_Variable_ok k Hk), Hp.
    simpl in Hnd. rewrite dict_set_fresh.
    + rewrite IH; auto.
      * cbn [bound_of flat_map snd fst app]. rewrite <- app_assoc. reflexivity.
      * rewrite keys_app. simpl. rewrite <- app_assoc. exact Hnd.
    + apply NoDup_remove_2 in Hnd. intro Hin. apply Hnd. apply in_or_app. auto.
  - simpl in Hn. apply andb_true_iff in Hn. destruct Hn as [_ Hn].
    cbn [flat_map snd fst termToJSON app]. cbn [bound_of flat_map snd app]. apply IH; auto.
    simpl in Hnd. apply NoDup_remove_1 in Hnd. exact Hnd.
Qed.

Lemma json_row_ok : forall r,
  NoDup (keys r) -> forallb name_ok (keys r) = true -> forallb term_wf (row_terms r) = true ->
  json_row (bindingToJSON r) = Some (bound_of r).
Proof.
  intros r Hnd Hn Ht. unfold bindingToJSON, json_row. rewrite json_row_fold; auto.
Qed.

Lemma row_names_ok : forall vars r, forallb name_ok vars = true -> row_wf vars r = true ->
  NoDup (keys r) /\ forallb name_ok (keys r) = true /\ forallb term_wf (row_terms r) = true.
Proof.
  intros vars r Hv H. unfold row_wf in H. apply andb_true_iff in H. destruct H as [H Ht].
  apply andb_true_iff in H. destruct H as [Hnd Hk]. split; [apply nodup_str_NoDup; auto|]. split; auto.
  apply forallb_forall. intros k Hin. rewrite forallb_forall in Hk, Hv. apply Hv. apply memb_str_In. auto.
Qed.

Section Json.
  (* the json library: serialising and loading gives back the value *)
  Variable text : Type.
  Variable dumps : json -> text.
  Variable loads : text -> json.
  Hypothesis loads_dumps : forall v, loads (dumps v) = v.

  Lemma json_select : forall vars rows,
    forallb name_ok vars = true -> forallb (row_wf vars) rows = true ->
    json_parse (loads (dumps (json_serialize None vars rows))) = OSel vars (map bound_of rows).
  Proof.
    intros vars rows Hv H. rewrite loads_dumps. unfold json_serialize, json_parse.
    change (jget k_boolean (JObj _)) with (@None json).
    cbn -[all_some map json_row bindingToJSON py_Variable].
    rewrite map_map.
    rewrite (all_some_map (fun x => json_row (bindingToJSON x)) bound_of).
    - rewrite map_map. rewrite all_some_map_id; auto.
      intros v Hin. apply py_Variable_ok. rewrite forallb_forall in Hv. auto.
    - intros r Hin. rewrite forallb_forall in H. specialize (H r Hin).
      destruct (row_names_ok vars r Hv H) as [H1 [H2 H3]]. apply json_row_ok; auto.
  Qed.

  Lemma json_ask : forall b vars rows,
    json_parse (loads (dumps (json_serialize (Some b) vars rows))) = OAsk b.
  Proof. intros. rewrite loads_dumps. destruct b; reflexivity. Qed.
End Json.

(* ------------------------------------------------------------------ *)
(* CSV *)

Lemma csv_cell : forall v r, csv_serializeTerm (py_get v r) = csv_value (cell v r).
Proof.
  intros v r. unfold py_get, cell. destruct (lookup v r) as [[[s|s|l d g]|]|]; reflexivity.
Qed.

Lemma csv_ok : forall vars rows,
  list_eqb (list_eqb str_eqb) (csv_serialize vars rows)
    (vars :: map (fun r => map (fun v => csv_value (cell v r)) vars) rows) = true.
Proof.
  intros. unfold csv_serialize.
  replace (map (fun r => map (fun v => csv_serializeTerm (py_get v r)) vars) rows)
    with (map (fun r => map (fun v => csv_value (cell v r)) vars) rows).
  - apply list_eqb_refl. intro. apply list_eqb_refl. apply str_eqb_refl.
  - apply map_ext. intro r. apply map_ext. intro v. symmetry. apply csv_cell.
Qed.
