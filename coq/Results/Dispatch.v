(* C16 - the Result layer shared by the formats: how Result.parse picks the parser (format name, or the
   media type of a content type, or "xml") and Result.serialize the serialiser, over the plugin tables
   reflected from rdflib/plugin.py (Gen/Tables_results.v, regenerated at every run). *)
From Coq Require Import String.
From RV Require Import Results.Model Results.Proofs Gen.Tables_results.
Local Open Scope N_scope.
Local Open Scope list_scope.

(* content_type.split(";", 1)[0] *)
Fixpoint before_semicolon (s : str) : str :=
  match s with
  | [] => []
  | c :: r => if c =? 59 then [] else c :: before_semicolon r
  end.

(* Result.parse:  if format: key = format  elif content_type: key = content_type.split(";", 1)[0]  else "xml" *)
Definition parse_key (format content_type : option str) : str :=
  match nonempty format with
  | Some f => f
  | None => match nonempty content_type with
            | Some ct => before_semicolon ct
            | None => s2l "xml"%string
            end
  end.

(* the class tag of the parser chosen; None = PluginException *)
Definition parse_dispatch (format content_type : option str) : option N :=
  lookup (parse_key format content_type) result_parsers.

(* Result.serialize(format=...) for SELECT/ASK results; the default is "xml" *)
Definition serialize_dispatch (format : option str) : option N :=
  lookup (match format with Some f => f | None => s2l "xml"%string end) result_serializers.

Record dcase := { d_ser : bool; d_format : option str; d_ct : option str }.
Definition dispatch_obs (c : dcase) : option N :=
  if d_ser c then serialize_dispatch (d_format c) else parse_dispatch (d_format c) (d_ct c).
Definition dispatch_eqb (a b : option N) : bool := opt_eqb N.eqb a b.

(* the W3C media types and the short names select the reader / writer of their format *)
Definition media_json := s2l "application/sparql-results+json"%string.
Definition media_xml := s2l "application/sparql-results+xml"%string.
Definition media_csv := s2l "text/csv"%string.
Definition media_tsv := s2l "text/tab-separated-values"%string.

Definition dispatch_spec (c : dcase) (o : option N) : bool :=
  if d_ser c then true
  else match nonempty (d_format c), nonempty (d_ct c) with
       | None, Some ct =>
           let m := before_semicolon ct in
           if str_eqb m media_json then dispatch_eqb o (Some 1)
           else if str_eqb m media_xml then dispatch_eqb o (Some 2)
           else if str_eqb m media_tsv then dispatch_eqb o (Some 3)
           else if str_eqb m media_csv then dispatch_eqb o (Some 4)
           else true
       | None, None => dispatch_eqb o (Some 2)
       | _, _ => true
       end.

Lemma before_semicolon_app : forall m rest, existsb (fun c => c =? 59) m = false ->
  before_semicolon (m ++ 59 :: rest) = m.
Proof.
  induction m as [|c r IH]; intros rest H; [reflexivity|].
  cbn [existsb] in H. apply orb_false_iff in H. destruct H as [Hc Hr].
  cbn [app before_semicolon]. rewrite Hc. now rewrite IH.
Qed.

(* parameters of a content type do not matter *)
Theorem parse_key_params : forall m params, m <> [] -> existsb (fun c => c =? 59) m = false ->
  parse_key None (Some (m ++ 59 :: params)) = m.
Proof.
  intros m params Hne H. unfold parse_key. cbn [nonempty].
  destruct m as [|c r]; [congruence|]. cbn [app nonempty]. apply (before_semicolon_app (c :: r)). exact H.
Qed.

(* against the tables of the tree under test: the media types of the four result formats and their short
   names reach the right classes; no content type at all means XML *)
Theorem dispatch_table_ok :
  (forall params, parse_dispatch None (Some (media_json ++ 59 :: params)) = Some 1)
  /\ (forall params, parse_dispatch None (Some (media_xml ++ 59 :: params)) = Some 2)
  /\ (forall params, parse_dispatch None (Some (media_tsv ++ 59 :: params)) = Some 3)
  /\ (forall params, parse_dispatch None (Some (media_csv ++ 59 :: params)) = Some 4)
  /\ parse_dispatch None None = Some 2
  /\ map (fun n => parse_dispatch (Some (s2l n)) None) ["json"; "xml"; "tsv"; "csv"]%string = [Some 1; Some 2; Some 3; Some 4]
  /\ map (fun n => serialize_dispatch (Some (s2l n))) ["json"; "xml"; "csv"; "txt"]%string = [Some 1; Some 2; Some 4; Some 5]
  /\ serialize_dispatch None = Some 2.
Proof.
  assert (pd : forall m tag params, m <> [] -> existsb (fun c => c =? 59) m = false ->
               lookup m result_parsers = Some tag -> parse_dispatch None (Some (m ++ 59 :: params)) = Some tag).
  { intros m tag params H1 H2 H3. unfold parse_dispatch. rewrite parse_key_params by assumption. exact H3. }
  split; [intro; apply pd; [intro E; vm_compute in E; discriminate|reflexivity|reflexivity]|].
  split; [intro; apply pd; [intro E; vm_compute in E; discriminate|reflexivity|reflexivity]|].
  split; [intro; apply pd; [intro E; vm_compute in E; discriminate|reflexivity|reflexivity]|].
  split; [intro; apply pd; [intro E; vm_compute in E; discriminate|reflexivity|reflexivity]|].
  repeat split; reflexivity.
Qed.

Theorem dispatch_spec_model : forall c, dispatch_spec c (dispatch_obs c) = true.
Proof.
  intros [ser f ct]. unfold dispatch_spec, dispatch_obs. cbn [d_ser d_format d_ct]. destruct ser; [reflexivity|].
  destruct (nonempty f) eqn:Ef; [reflexivity|]. unfold parse_dispatch, parse_key. rewrite Ef.
  destruct (nonempty ct) as [c|] eqn:Ec; [|reflexivity].
  destruct (str_eqb (before_semicolon c) media_json) eqn:E1; [apply str_eqb_true in E1; rewrite E1; reflexivity|].
  destruct (str_eqb (before_semicolon c) media_xml) eqn:E2; [apply str_eqb_true in E2; rewrite E2; reflexivity|].
  destruct (str_eqb (before_semicolon c) media_tsv) eqn:E3; [apply str_eqb_true in E3; rewrite E3; reflexivity|].
  destruct (str_eqb (before_semicolon c) media_csv) eqn:E4; [apply str_eqb_true in E4; rewrite E4; reflexivity|].
  reflexivity.
Qed.
