(* C16 - CSV: csv.reader reads back what csv.writer wrote (dialect of CSVResultSerializer), for every
   table of strings and every way of cutting the text into lines that does not cut an unquoted field;
   then CSVResultParser on the serialiser's output. *)
From Coq Require Import String.
From RV Require Import Results.Model Results.Proofs.
Local Open Scope N_scope.

Definition mk (st : cstate) (buf : str) (fields : list str) (out : list (list str)) (cr inl : bool) : csvst :=
  {| cs_st := st; cs_buf := buf; cs_fields := fields; cs_out := out; cs_cr := cr; cs_inline := inl; cs_err := false |}.

Definition run (k : lines) (text : str) (s : csvst) : csvst := fold_left (cs_feed k) text s.

Lemma run_app : forall k a b s, run k (a ++ b) s = run k b (run k a s).
Proof. intros. unfold run. apply fold_left_app. Qed.

Lemma lb34 : forall k, line_break k 34 = false. Proof. destruct k; reflexivity. Qed.
Lemma lb44 : forall k, line_break k 44 = false. Proof. destruct k; reflexivity. Qed.
Lemma lb10 : forall k, line_break k 10 = true. Proof. destruct k; reflexivity. Qed.

(* --- single steps --- *)

(* an ordinary character of an unquoted field *)
Lemma feed_unquoted : forall k st b fs out inl c,
  (st = CRec /\ b = [] \/ st = CField /\ b = [] \/ st = CInField) ->
  csv_special c = false -> line_break k c = false ->
  cs_feed k (mk st b fs out false inl) c = mk CInField (c :: b) fs out false true.
Proof.
  intros k st b fs out inl c Hst Hsp Hlb.
  unfold csv_special in Hsp. apply orb_false_iff in Hsp. destruct Hsp as [Hsp H10].
  apply orb_false_iff in Hsp. destruct Hsp as [Hsp H13]. apply orb_false_iff in Hsp. destruct Hsp as [H44 H34].
  unfold cs_feed. cbn [cs_cr mk andb]. rewrite H13, Hlb. cbn [andb].
  destruct Hst as [[E1 E2]|[[E1 E2]|E1]]; subst; unfold cs_char, is_nl; cbn [cs_st mk]; rewrite H10, H13, ?H34, H44;
    reflexivity.
Qed.

Lemma feed_comma : forall k st b fs out inl,
  (st = CRec \/ st = CField \/ st = CInField \/ st = CQuoteInQuoted) ->
  cs_feed k (mk st b fs out false inl) 44 = mk CField [] (rev b :: fs) out false true.
Proof.
  intros k st b fs out inl Hst. unfold cs_feed. cbn [cs_cr mk andb]. rewrite lb44.
  change (44 =? 13) with false. cbn [andb].
  destruct Hst as [E|[E|[E|E]]]; subst; reflexivity.
Qed.

(* the record terminator CR LF *)
Lemma feed_crlf : forall k st b fs out inl,
  (st = CField \/ st = CInField \/ st = CQuoteInQuoted) ->
  run k [13; 10] (mk st b fs out false inl) = mk CRec [] [] (rev (rev b :: fs) :: out) false false.
Proof.
  intros k st b fs out inl Hst. unfold run. cbn [fold_left].
  destruct Hst as [E|[E|E]]; subst; destruct k; reflexivity.
Qed.

Lemma feed_crlf_empty : forall k out inl,
  run k [13; 10] (mk CRec [] [] out false inl) = mk CRec [] [] ([] :: out) false false.
Proof. intros k out inl. destruct k; reflexivity. Qed.

Lemma feed_open_quote : forall k st fs out inl,
  (st = CRec \/ st = CField) ->
  cs_feed k (mk st [] fs out false inl) 34 = mk CInQuoted [] fs out false true.
Proof.
  intros k st fs out inl Hst. unfold cs_feed. cbn [cs_cr mk andb]. rewrite lb34.
  change (34 =? 13) with false. cbn [andb]. destruct Hst; subst; reflexivity.
Qed.

Lemma feed_q_quote : forall k b fs out cr inl,
  cs_feed k (mk CInQuoted b fs out cr inl) 34 = mk CQuoteInQuoted b fs out false true.
Proof.
  intros k b fs out cr inl. unfold cs_feed. rewrite lb34. change (34 =? 13) with false. cbn [andb].
  destruct cr; reflexivity.
Qed.

Lemma feed_qq_quote : forall k b fs out,
  cs_feed k (mk CQuoteInQuoted b fs out false true) 34 = mk CInQuoted (34 :: b) fs out false true.
Proof.
  intros. unfold cs_feed. rewrite lb34. change (34 =? 13) with false. reflexivity.
Qed.

Lemma feed_q_other : forall k b fs out cr inl c, (c =? 34) = false ->
  exists cr' inl', cs_feed k (mk CInQuoted b fs out cr inl) c = mk CInQuoted (c :: b) fs out cr' inl'.
Proof.
  intros k b fs out cr inl c H. unfold cs_feed.
  assert (Hpre : exists inl0, (if cs_cr (mk CInQuoted b fs out cr inl) && negb (c =? 10)
                               then cs_eol (mk CInQuoted b fs out cr inl) else mk CInQuoted b fs out cr inl)
                              = mk CInQuoted b fs out (if cr && negb (c =? 10) then false else cr) inl0).
  { cbn [cs_cr mk]. destruct (cr && negb (c =? 10)) eqn:E; eexists; reflexivity. }
  destruct Hpre as [inl0 Hpre]. rewrite Hpre. clear Hpre.
  set (cr0 := if cr && negb (c =? 10) then false else cr).
  unfold cs_char. cbn [cs_st mk]. rewrite H.
  destruct ((c =? 13) && line_break k 13); [eexists; eexists; reflexivity|].
  destruct (line_break k c); eexists; eexists; reflexivity.
Qed.

(* --- the content of a field --- *)

Lemma run_unquoted_tail : forall k f b fs out inl,
  existsb csv_special f = false -> existsb (line_break k) f = false ->
  run k f (mk CInField b fs out false inl) = mk CInField (rev f ++ b) fs out false (match f with [] => inl | _ => true end).
Proof.
  intros k. induction f as [|c r IH]; intros b fs out inl Hs Hl; [reflexivity|].
  cbn [existsb] in Hs, Hl. apply orb_false_iff in Hs. destruct Hs as [Hs1 Hs2].
  apply orb_false_iff in Hl. destruct Hl as [Hl1 Hl2].
  unfold run. cbn [fold_left]. rewrite feed_unquoted by auto. fold (run k r (mk CInField (c :: b) fs out false true)).
  rewrite IH by auto. cbn [rev]. rewrite <- app_assoc. destruct r; reflexivity.
Qed.

Lemma run_quoted_body : forall k f b fs out cr inl,
  exists cr' inl', run k (csv_field_body f) (mk CInQuoted b fs out cr inl) = mk CInQuoted (rev f ++ b) fs out cr' inl'.
Proof.
  intros k. induction f as [|c r IH]; intros b fs out cr inl; [exists cr, inl; reflexivity|].
  unfold csv_field_body. cbn [flat_map]. fold (csv_field_body r). rewrite run_app.
  destruct (c =? 34) eqn:E.
  - apply N.eqb_eq in E. subst c. unfold run at 2. cbn [fold_left]. rewrite feed_q_quote, feed_qq_quote.
    destruct (IH (34 :: b) fs out false true) as [cr' [inl' H]]. exists cr', inl'.
    fold (run k (csv_field_body r) (mk CInQuoted (34 :: b) fs out false true)). rewrite H.
    cbn [rev]. rewrite <- app_assoc. reflexivity.
  - unfold run at 2. cbn [fold_left]. destruct (feed_q_other k b fs out cr inl c E) as [cr1 [inl1 H1]]. rewrite H1.
    destruct (IH (c :: b) fs out cr1 inl1) as [cr' [inl' H]]. exists cr', inl'.
    fold (run k (csv_field_body r) (mk CInQuoted (c :: b) fs out cr1 inl1)). rewrite H.
    cbn [rev]. rewrite <- app_assoc. reflexivity.
Qed.

(* the state reached after the text of a field: ready for the delimiter or the end of the record *)
Definition after_field (st0 : cstate) (f : str) (fs : list str) (out : list (list str)) (s : csvst) : Prop :=
  exists st b inl, s = mk st b fs out false inl /\ rev b = f
                   /\ (st = CInField \/ st = CQuoteInQuoted \/ (st = st0 /\ f = [])).

Definition field_ok (k : lines) (f : str) : Prop := csv_field_cut k f = false.

Lemma run_field : forall k f st fs out inl, (st = CRec \/ st = CField) -> field_ok k f ->
  after_field st f fs out (run k (csv_write_field f) (mk st [] fs out false inl)).
Proof.
  intros k f st fs out inl Hst Hok. unfold csv_write_field. unfold field_ok, csv_field_cut in Hok.
  destruct (existsb csv_special f) eqn:Esp.
  - (* quoted *)
    change (34 :: csv_field_body f ++ [34]) with ([34] ++ csv_field_body f ++ [34]). rewrite !run_app.
    unfold run at 3. cbn [fold_left]. rewrite feed_open_quote by auto.
    destruct (run_quoted_body k f [] fs out false true) as [cr' [inl' H]]. rewrite H.
    unfold run. cbn [fold_left]. rewrite feed_q_quote. rewrite app_nil_r.
    exists CQuoteInQuoted, (rev f), true. repeat split; auto. apply rev_involutive.
  - cbn [negb andb] in Hok. destruct f as [|c r].
    + exists st, [], inl. repeat split; auto.
    + cbn [existsb] in Esp, Hok. apply orb_false_iff in Esp. destruct Esp as [E1 E2].
      apply orb_false_iff in Hok. destruct Hok as [L1 L2].
      unfold run. cbn [fold_left]. rewrite feed_unquoted; auto.
      2:{ destruct Hst; subst; auto. }
      fold (run k r (mk CInField [c] fs out false true)). rewrite run_unquoted_tail by auto.
      eexists CInField, _, _. repeat split; auto.
      rewrite rev_app_distr, rev_involutive. reflexivity.
Qed.

Lemma after_comma : forall k st0 f fs out s, (st0 = CRec \/ st0 = CField) -> after_field st0 f fs out s ->
  cs_feed k s 44 = mk CField [] (f :: fs) out false true.
Proof.
  intros k st0 f fs out s Hst0 [st [b [inl [Es [Eb Hst]]]]]. subst s. rewrite feed_comma.
  - now rewrite Eb.
  - destruct Hst as [E|[E|[E _]]]; subst; auto. destruct Hst0; auto.
Qed.

Lemma after_end : forall k st0 f fs out s, (st0 = CField \/ f <> []) -> after_field st0 f fs out s ->
  run k [13; 10] s = mk CRec [] [] (rev (f :: fs) :: out) false false.
Proof.
  intros k st0 f fs out s H0 [st [b [inl [Es [Eb Hst]]]]]. subst s. rewrite feed_crlf.
  - now rewrite Eb.
  - destruct Hst as [E|[E|[E Ef]]]; subst; auto. destruct H0; [auto|congruence].
Qed.

(* --- a record --- *)

Lemma run_fields : forall k fields st fs out inl,
  fields <> [] -> (st = CRec \/ st = CField) -> (st = CField \/ fields <> [[]]) ->
  (forall f, In f fields -> field_ok k f) ->
  run k (join_comma (map csv_write_field fields) ++ [13; 10]) (mk st [] fs out false inl)
  = mk CRec [] [] ((rev fs ++ fields) :: out) false false.
Proof.
  intros k. induction fields as [|f [|g r] IH]; intros st fs out inl Hne Hst Hsp Hok; [congruence| |].
  - cbn [map join_comma]. rewrite run_app.
    pose proof (run_field k f st fs out inl Hst (Hok f (or_introl eq_refl))) as Ha.
    assert (H' : st = CField \/ f <> []).
    { destruct Hsp as [E|E]; [auto|]. right. intro; subst; congruence. }
    rewrite (after_end k st f fs out _ H' Ha). cbn [rev]. reflexivity.
  - change (map csv_write_field (f :: g :: r)) with (csv_write_field f :: map csv_write_field (g :: r)).
    change (join_comma (csv_write_field f :: map csv_write_field (g :: r)))
      with (csv_write_field f ++ 44 :: join_comma (map csv_write_field (g :: r))).
    rewrite <- app_assoc. rewrite run_app. cbn [app]. unfold run at 1. cbn [fold_left].
    pose proof (run_field k f st fs out inl Hst (Hok f (or_introl eq_refl))) as Ha.
    rewrite (after_comma k st f fs out _ Hst Ha).
    specialize (IH CField (f :: fs) out true ltac:(discriminate) (or_intror eq_refl) (or_introl eq_refl)
                   (fun f0 H => Hok f0 (or_intror H))).
    etransitivity; [exact IH|]. cbn [rev]. rewrite <- app_assoc. reflexivity.
Qed.

Lemma run_row : forall k row out inl,
  (forall f, In f row -> field_ok k f) ->
  run k (csv_writerow row) (mk CRec [] [] out false inl) = mk CRec [] [] (row :: out) false false.
Proof.
  intros k row out inl Hok.
  destruct row as [|[|c f] [|g r]].
  - apply feed_crlf_empty.
  - destruct k; reflexivity.
  - change (csv_writerow ([] :: g :: r)) with (join_comma (map csv_write_field ([] :: g :: r)) ++ [13; 10]).
    rewrite run_fields; auto; [discriminate|right; discriminate].
  - change (csv_writerow [c :: f]) with (join_comma (map csv_write_field [c :: f]) ++ [13; 10]).
    rewrite run_fields; auto; [discriminate|right; discriminate].
  - change (csv_writerow ((c :: f) :: g :: r)) with (join_comma (map csv_write_field ((c :: f) :: g :: r)) ++ [13; 10]).
    rewrite run_fields; auto; [discriminate|right; discriminate].
Qed.

Lemma run_table : forall k table out inl,
  (forall row f, In row table -> In f row -> field_ok k f) ->
  run k (csv_text table) (mk CRec [] [] out false inl)
  = mk CRec [] [] (rev table ++ out) false (match table with [] => inl | _ => false end).
Proof.
  intros k. induction table as [|row rest IH]; intros out inl Hok; [reflexivity|].
  unfold csv_text. cbn [flat_map]. fold (csv_text rest). rewrite run_app.
  rewrite run_row by (intros; eapply Hok; [left; reflexivity|auto]).
  rewrite IH by (intros; eapply Hok; [right; eauto|auto]).
  cbn [rev]. rewrite <- app_assoc. destruct rest; reflexivity.
Qed.

(* csv.reader gives back every table csv.writer wrote, whatever the strings, provided the line iterator
   does not end a line inside a field that is written unquoted *)
Theorem csv_roundtrip : forall k table,
  (forall row f, In row table -> In f row -> csv_field_cut k f = false) ->
  csv_read k (csv_text table) = Some table.
Proof.
  intros k table Hok. unfold csv_read. fold (run k (csv_text table) cs_init).
  change cs_init with (mk CRec [] [] [] false false). rewrite run_table by exact Hok.
  rewrite app_nil_r.
  assert (E : (match table with [] => false | _ :: _ => false end) = false) by (destruct table; reflexivity).
  cbn [cs_inline mk]. rewrite E. cbn [cs_st mk cs_err cs_out]. now rewrite rev_involutive.
Qed.

(* text streams (newline="" or newline LF) never cut an unquoted field: CR and LF make a field quoted *)
Lemma no_cut_text : forall k f, k = LUniversal \/ k = LLf -> csv_field_cut k f = false.
Proof.
  intros k f Hk. unfold csv_field_cut. destruct (existsb csv_special f) eqn:E; [reflexivity|]. cbn [negb andb].
  destruct (existsb (line_break k) f) eqn:E2; [|reflexivity].
  apply existsb_exists in E2. destruct E2 as [c [Hin Hc]].
  assert (existsb csv_special f = true); [|congruence].
  apply existsb_exists. exists c. split; auto. unfold csv_special.
  destruct Hk; subst k; cbn in Hc.
  - apply orb_true_iff in Hc. destruct Hc as [Hc|Hc]; rewrite Hc; rewrite ?orb_true_r; reflexivity.
  - rewrite Hc. rewrite ?orb_true_r. reflexivity.
Qed.

Theorem csv_roundtrip_text : forall k table, k = LUniversal \/ k = LLf -> csv_read k (csv_text table) = Some table.
Proof. intros k table Hk. apply csv_roundtrip. intros. apply no_cut_text. exact Hk. Qed.

(* ------------------------------------------------------------------ *)
(* the CSV form of a result, read by Python's csv module and by CSVResultParser *)

Lemma csv_serialize_cells : forall vars rows,
  csv_serialize vars rows = vars :: map (fun r => map (fun v => csv_value (cell v r)) vars) rows.
Proof.
  intros. unfold csv_serialize. f_equal. apply map_ext. intro r. apply map_ext. intro v. apply csv_cell.
Qed.

Lemma lines_of_src_text : forall src, (src =? 1) || (src =? 2) = true ->
  lines_of_src src = LUniversal \/ lines_of_src src = LLf.
Proof.
  intros src H. unfold lines_of_src. apply orb_true_iff in H. destruct H as [H|H]; apply N.eqb_eq in H; subst; auto.
Qed.

Lemma csv_cells_ok : forall c, wf c = true -> c_fmt c = FCsv -> spec_ok c (format_obs c) = true.
Proof.
  intros c Hwf Hf. unfold spec_ok, format_obs. rewrite Hf.
  unfold wf in Hwf. rewrite Hf in Hwf. apply andb_true_iff in Hwf. destruct Hwf as [_ Ha].
  apply andb_true_iff in Ha. destruct Ha as [Ha Hsrc].
  destruct (c_ask c); [discriminate|].
  rewrite csv_roundtrip_text by (apply lines_of_src_text; exact Hsrc).
  apply csv_ok.
Qed.

Lemma csv_convert_spec : forall s,
  match csv_convert s with
  | Some t => term_text t = s /\ s <> []
  | None => s = []
  end.
Proof.
  intros [|c r]; [reflexivity|]. unfold csv_convert.
  destruct (has_prefix [95; 58] (c :: r)); [split; [reflexivity|discriminate]|].
  destruct (has_prefix (s2l "http://"%string) (c :: r) || has_prefix (s2l "https://"%string) (c :: r));
    split; try reflexivity; discriminate.
Qed.

Lemma lookup_csv_zip : forall (f : str -> str) vs v,
  NoDup vs -> lookup v (csv_zip vs (map f vs)) = if memb str_eqb v vs then csv_convert (f v) else None.
Proof.
  intros f. induction vs as [|x r IH]; intros v Hnd; [reflexivity|].
  inversion Hnd as [|? ? Hx Hr]; subst. cbn [map csv_zip memb].
  destruct (csv_convert (f x)) as [t|] eqn:Ef.
  - cbn [lookup]. destruct (str_eqb_spec v x); [subst; simpl; auto|]. simpl. apply IH; auto.
  - destruct (str_eqb_spec v x); simpl.
    + subst. rewrite IH by auto. rewrite Ef. destruct (memb str_eqb x r); reflexivity.
    + apply IH; auto.
Qed.

Lemma keys_csv_zip : forall cells vs k, In k (keys (csv_zip vs cells)) -> In k vs.
Proof.
  induction cells as [|c cs IH]; intros [|v vs] k H; simpl in *; try tauto.
  destruct (csv_convert c); simpl in H.
  - destruct H; auto.
  - right. eauto.
Qed.

Lemma csvp_row : forall vars r, NoDup vars ->
  csvp_row_ok vars r (csv_zip vars (map (fun v => csv_value (cell v r)) vars)) = true.
Proof.
  intros vars r Hnd. unfold csvp_row_ok. apply andb_true_iff. split.
  - apply forallb_forall. intros v Hv. rewrite (lookup_csv_zip (fun v => csv_value (cell v r))) by auto.
    apply memb_str_In in Hv. rewrite Hv.
    pose proof (csv_convert_spec (csv_value (cell v r))) as Hc.
    destruct (csv_convert (csv_value (cell v r))) as [t|].
    + destruct Hc as [Ht Hne]. rewrite Ht, str_eqb_refl. destruct (csv_value (cell v r)); [congruence|reflexivity].
    + rewrite Hc. reflexivity.
  - apply forallb_forall. intros k Hk. apply memb_str_In. eapply keys_csv_zip; eauto.
Qed.

Lemma csvp_rows : forall vars rows, NoDup vars ->
  csvp_rows_ok vars rows (map (csv_zip vars) (map (fun r => map (fun v => csv_value (cell v r)) vars) rows)) = true.
Proof.
  intros vars rows Hnd. induction rows as [|r rs IH]; [reflexivity|].
  cbn [map csvp_rows_ok]. rewrite csvp_row, IH; auto.
Qed.

(* CSVResultParser on the serialiser's output: the variables, and row by row the CSV values *)
Theorem csv_parse_serialize : forall k vars rows,
  (forall row f, In row (csv_serialize vars rows) -> In f row -> csv_field_cut k f = false) ->
  csv_parse k (csv_text (csv_serialize vars rows))
  = OSel vars (map (csv_zip vars) (map (fun r => map (fun v => csv_value (cell v r)) vars) rows)).
Proof.
  intros k vars rows H. unfold csv_parse. rewrite csv_roundtrip by exact H.
  rewrite csv_serialize_cells. reflexivity.
Qed.

Lemma csvp_ok : forall c, wf c = true -> c_fmt c = FCsvP -> spec_ok c (format_obs c) = true.
Proof.
  intros c Hwf Hf. unfold spec_ok, format_obs. rewrite Hf.
  unfold wf in Hwf. rewrite Hf in Hwf. apply andb_true_iff in Hwf. destruct Hwf as [Hwf Ha].
  apply andb_true_iff in Hwf. destruct Hwf as [Hnd _]. apply andb_true_iff in Hnd. destruct Hnd as [Hnd _].
  apply nodup_str_NoDup in Hnd.
  destruct (c_ask c); [discriminate|].
  rewrite csv_parse_serialize.
  - rewrite list_eqb_refl by apply str_eqb_refl. cbn [andb]. apply csvp_rows. exact Hnd.
  - intros row f _ _. apply no_cut_text. auto.
Qed.
