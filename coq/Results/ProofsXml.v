(* C16 - SPARQL XML: saxutils escaping against the XML reader rules, character by character,
   then the writer/reader pair on terms and documents. *)
From RV Require Import Results.Model Results.Proofs.
Local Open Scope N_scope.

Lemma flat_map_flat_map : forall A B C (f : A -> list B) (g : B -> list C) l,
  flat_map g (flat_map f l) = flat_map (fun x => flat_map g (f x)) l.
Proof. induction l; simpl; auto. rewrite flat_map_app, IHl. reflexivity. Qed.

Lemma replace1_flat_map : forall c rep A (f : A -> str) l,
  replace1 c rep (flat_map f l) = flat_map (fun x => replace1 c rep (f x)) l.
Proof. intros. unfold replace1. apply flat_map_flat_map. Qed.

Lemma replace1_single : forall c rep s, replace1 c rep s = flat_map (fun x => replace1 c rep [x]) s.
Proof.
  intros. unfold replace1. apply flat_map_ext. intro x. simpl. now rewrite app_nil_r.
Qed.

Lemma replace1_other : forall c rep x, x <> c -> replace1 c rep [x] = [x].
Proof. intros c rep x H. unfold replace1. simpl. apply N.eqb_neq in H. now rewrite H. Qed.

(* what the writer does to one character *)
Definition esc_text (x : N) : str := sax_escape [x].
Definition esc_attr (x : N) : str := replace1 9 e_tab (replace1 13 e_cr (replace1 10 e_nl (sax_escape [x]))).
Definition esc_attr_q (x : N) : str := replace1 34 e_quot (esc_attr x).

Lemma sax_escape_map : forall s, sax_escape s = flat_map esc_text s.
Proof.
  intro s. unfold sax_escape. rewrite (replace1_single 38 e_amp s).
  rewrite !replace1_flat_map. reflexivity.
Qed.

Lemma quoteattr_body : forall s,
  replace1 9 e_tab (replace1 13 e_cr (replace1 10 e_nl (sax_escape s))) = flat_map esc_attr s.
Proof.
  intro s. unfold sax_escape. rewrite (replace1_single 38 e_amp s).
  rewrite !replace1_flat_map. reflexivity.
Qed.

Definition rd (a : bool) (s : str) (st : xst) : xst := fold_left (xstep a) s st.

Lemma rd_flat_map : forall a (P : N -> bool) (e : N -> str),
  (forall c out, P c = true -> rd a (e c) (XT out false) = XT (c :: out) false) ->
  forall s out, forallb P s = true -> rd a (flat_map e s) (XT out false) = XT (rev s ++ out) false.
Proof.
  intros a P e He. induction s as [|c r IH]; simpl; intros out H; [reflexivity|].
  apply andb_true_iff in H. destruct H as [Hc Hr].
  unfold rd. rewrite fold_left_app. fold (rd a (e c) (XT out false)). rewrite He by auto.
  fold (rd a (flat_map e r) (XT (c :: out) false)). rewrite IH by auto.
  rewrite <- app_assoc. reflexivity.
Qed.

Definition text_char (c : N) : bool := is_xml_char c && negb (c =? 13).

Lemma esc_text_other : forall c, c <> 38 -> c <> 62 -> c <> 60 -> esc_text c = [c].
Proof.
  intros. unfold esc_text, sax_escape. rewrite !replace1_other; auto.
Qed.

Lemma esc_attr_other : forall c, c <> 38 -> c <> 62 -> c <> 60 -> c <> 10 -> c <> 13 -> c <> 9 -> esc_attr c = [c].
Proof.
  intros. unfold esc_attr, sax_escape. rewrite !replace1_other; auto.
Qed.

Lemma rd_text_char : forall c out, text_char c = true -> rd false (esc_text c) (XT out false) = XT (c :: out) false.
Proof.
  intros c out H. unfold text_char in H. apply andb_true_iff in H. destruct H as [Hx H13].
  apply negb_true_iff in H13.
  destruct (N.eqb_spec c 38); [subst; reflexivity|].
  destruct (N.eqb_spec c 62); [subst; reflexivity|].
  destruct (N.eqb_spec c 60); [subst; reflexivity|].
  rewrite esc_text_other by auto. unfold rd. simpl. rewrite Hx. simpl.
  apply N.eqb_neq in n, n1. rewrite n, n1, H13.
  destruct (N.eqb_spec c 10); [subst; reflexivity|reflexivity].
Qed.

Lemma rd_attr_char : forall c out, is_xml_char c = true -> rd true (esc_attr c) (XT out false) = XT (c :: out) false.
Proof.
  intros c out Hx.
  destruct (N.eqb_spec c 38); [subst; reflexivity|].
  destruct (N.eqb_spec c 62); [subst; reflexivity|].
  destruct (N.eqb_spec c 60); [subst; reflexivity|].
  destruct (N.eqb_spec c 10); [subst; reflexivity|].
  destruct (N.eqb_spec c 13); [subst; reflexivity|].
  destruct (N.eqb_spec c 9); [subst; reflexivity|].
  rewrite esc_attr_other by auto. unfold rd. simpl. rewrite Hx. simpl.
  apply N.eqb_neq in n, n1, n2, n3, n4. rewrite n, n1, n2, n3, n4. reflexivity.
Qed.

Lemma rd_attr_q_char : forall c out, is_xml_char c = true -> rd true (esc_attr_q c) (XT out false) = XT (c :: out) false.
Proof.
  intros c out Hx.
  destruct (N.eqb_spec c 38); [subst; reflexivity|].
  destruct (N.eqb_spec c 62); [subst; reflexivity|].
  destruct (N.eqb_spec c 60); [subst; reflexivity|].
  destruct (N.eqb_spec c 10); [subst; reflexivity|].
  destruct (N.eqb_spec c 13); [subst; reflexivity|].
  destruct (N.eqb_spec c 9); [subst; reflexivity|].
  destruct (N.eqb_spec c 34); [subst; reflexivity|].
  unfold esc_attr_q. rewrite esc_attr_other by auto. rewrite replace1_other by auto.
  unfold rd. simpl. rewrite Hx. simpl.
  apply N.eqb_neq in n, n1, n2, n3, n4. rewrite n, n1, n2, n3, n4. reflexivity.
Qed.

(* character data written by XMLGenerator.characters is read back unchanged, provided it
   consists of XML Chars other than CR *)
Lemma xml_read_text : forall s, forallb text_char s = true -> xml_read false (sax_escape s) = Some s.
Proof.
  intros s H. unfold xml_read. rewrite sax_escape_map. fold (rd false (flat_map esc_text s) (XT [] false)).
  rewrite (rd_flat_map false text_char esc_text rd_text_char) by auto.
  rewrite app_nil_r, rev_involutive. reflexivity.
Qed.

Lemma memb_rev_false : forall c l, memb N.eqb c l = false -> memb N.eqb c (rev l) = false.
Proof.
  intros c l H. destruct (memb N.eqb c (rev l)) eqn:E; auto.
  apply (@memb_In _ _ N.eqb_spec) in E. apply in_rev in E. apply (@memb_In _ _ N.eqb_spec) in E. congruence.
Qed.

Lemma memb_replace1 : forall c rep l, memb N.eqb c rep = false -> memb N.eqb c (replace1 c rep l) = false.
Proof.
  intros c rep l H. destruct (memb N.eqb c (replace1 c rep l)) eqn:E; auto.
  apply (@memb_In _ _ N.eqb_spec) in E. unfold replace1 in E. apply in_flat_map in E.
  destruct E as [x [_ Hx]]. destruct (N.eqb_spec x c).
  - apply (@memb_In _ _ N.eqb_spec) in Hx. congruence.
  - destruct Hx as [Hx|[]]. congruence.
Qed.

(* an attribute value written by quoteattr is read back unchanged when it consists of XML Chars
   (CR, LF and TAB included: they travel as character references) *)
Lemma xml_read_attr_ok : forall s, forallb is_xml_char s = true -> xml_read_attr (sax_quoteattr s) = Some s.
Proof.
  intros s H. unfold sax_quoteattr. rewrite quoteattr_body.
  destruct (memb N.eqb 34 (flat_map esc_attr s)) eqn:E1; [destruct (memb N.eqb 39 (flat_map esc_attr s)) eqn:E2|].
  - unfold xml_read_attr. change ((34 =? 34) || (34 =? 39)) with true. cbv iota.
    rewrite rev_unit. change (34 =? 34) with true.
    rewrite memb_rev_false by (apply memb_replace1; reflexivity). simpl negb. cbv iota. simpl andb. cbv iota.
    rewrite rev_involutive. rewrite replace1_flat_map.
    unfold xml_read. fold (rd true (flat_map (fun x => replace1 34 e_quot (esc_attr x)) s) (XT [] false)).
    rewrite (rd_flat_map true is_xml_char _ rd_attr_q_char) by auto.
    rewrite app_nil_r, rev_involutive. reflexivity.
  - unfold xml_read_attr. change ((39 =? 34) || (39 =? 39)) with true. cbv iota.
    rewrite rev_unit. change (39 =? 39) with true.
    rewrite memb_rev_false by auto. simpl negb. simpl andb. cbv iota.
    rewrite rev_involutive.
    unfold xml_read. fold (rd true (flat_map esc_attr s) (XT [] false)).
    rewrite (rd_flat_map true is_xml_char _ rd_attr_char) by auto.
    rewrite app_nil_r, rev_involutive. reflexivity.
  - unfold xml_read_attr. change ((34 =? 34) || (34 =? 39)) with true. cbv iota.
    rewrite rev_unit. change (34 =? 34) with true.
    rewrite memb_rev_false by auto. simpl negb. simpl andb. cbv iota.
    rewrite rev_involutive.
    unfold xml_read. fold (rd true (flat_map esc_attr s) (XT [] false)).
    rewrite (rd_flat_map true is_xml_char _ rd_attr_char) by auto.
    rewrite app_nil_r, rev_involutive. reflexivity.
Qed.

Lemma text_char_of : forall s, forallb is_xml_char s = true -> memb N.eqb 13 s = false -> forallb text_char s = true.
Proof.
  induction s as [|c r IH]; intros H M; [reflexivity|].
  cbn [forallb] in H. cbn [memb] in M. cbn [forallb].
  apply andb_true_iff in H. destruct H as [Hc Hr]. apply orb_false_iff in M. destruct M as [M1 M2].
  unfold text_char at 1. rewrite Hc, (N.eqb_sym c 13), M1. simpl. auto.
Qed.

(* ------------------------------------------------------------------ *)
(* SPARQLXMLWriter._characters: CR travels as a character reference *)

Definition esc_text2 (c : N) : str := if c =? 13 then e_cr else esc_text c.

Lemma xml_characters_map : forall s, xml_characters s = flat_map esc_text2 s.
Proof.
  unfold xml_characters. induction s as [|x r IH]; [reflexivity|].
  cbn [split_on flat_map]. destruct (split_on 13 r) as [h t]. unfold esc_text2 at 1.
  destruct (x =? 13).
  - cbn [flat_map]. rewrite <- IH. change (sax_escape []) with (@nil N). cbn [app].
    rewrite <- app_assoc. reflexivity.
  - rewrite <- IH. rewrite (sax_escape_map (x :: h)). cbn [flat_map]. rewrite <- sax_escape_map.
    rewrite <- app_assoc. reflexivity.
Qed.

Lemma rd_text2_char : forall c out, is_xml_char c = true -> rd false (esc_text2 c) (XT out false) = XT (c :: out) false.
Proof.
  intros c out H. unfold esc_text2. destruct (N.eqb_spec c 13); [subst; reflexivity|].
  apply rd_text_char. unfold text_char. rewrite H. apply N.eqb_neq in n. now rewrite n.
Qed.

(* what _characters writes is read back unchanged, for every string of XML Chars - CR included *)
Lemma xml_read_characters : forall s, str_xml s = true -> xml_read false (xml_characters s) = Some s.
Proof.
  intros s H. unfold xml_read. rewrite xml_characters_map. fold (rd false (flat_map esc_text2 s) (XT [] false)).
  rewrite (rd_flat_map false is_xml_char esc_text2 rd_text2_char) by exact H.
  rewrite app_nil_r, rev_involutive. reflexivity.
Qed.

(* ------------------------------------------------------------------ *)
(* one term through write_binding, the XML reader, parseTerm *)

Definition xml_elem_roundtrip (t : term) : option term :=
  match xml_decode_term (xml_term_elem t) with Some p => xml_parseTerm p | None => None end.

Lemma xml_term_ok : forall t,
  term_wf t = true -> forallb str_xml (term_strings t) = true -> xml_elem_roundtrip t = Some t.
Proof.
  intros t Hwf Hch. unfold xml_elem_roundtrip.
  destruct t as [s|s|lex dt lang]; simpl in Hch.
  - apply andb_true_iff in Hch. destruct Hch as [Hs _].
    unfold xml_term_elem, xml_decode_term. cbn [x_text x_dt x_lang xk opt_map_o].
    rewrite xml_read_characters by auto. destruct s; reflexivity.
  - apply andb_true_iff in Hch. destruct Hch as [Hs _].
    unfold xml_term_elem, xml_decode_term. cbn [x_text x_dt x_lang xk opt_map_o].
    rewrite xml_read_characters by auto. destruct s; [discriminate|reflexivity].
  - apply andb_true_iff in Hch. destruct Hch as [Hlex Hrest].
    pose proof (xml_read_characters lex Hlex) as Htext.
    destruct lang as [[|c l]|]; [discriminate| |].
    + destruct dt; [discriminate|]. simpl in Hrest. apply andb_true_iff in Hrest. destruct Hrest as [Hl _].
      unfold xml_term_elem. cbn [nonempty]. unfold xml_decode_term. cbn [x_text x_dt x_lang xk].
      rewrite Htext. cbn [opt_map_o]. rewrite (xml_read_attr_ok (c :: l) Hl).
      destruct lex as [|c0 lex']; reflexivity.
    + destruct dt as [d|].
      * simpl in Hrest. apply andb_true_iff in Hrest. destruct Hrest as [Hd _].
        assert (Hwf' : str_eqb d xsd_boolean && str_eqb lex [] = false) by (apply negb_true_iff; exact Hwf).
        unfold xml_term_elem. cbn [nonempty]. unfold xml_decode_term. cbn [x_text x_dt x_lang xk].
        rewrite Htext. cbn [opt_map_o]. rewrite (xml_read_attr_ok d Hd).
        unfold xml_parseTerm. cbn [pk p_dt p_lang p_text].
        destruct lex as [|c0 lex']; cbv iota.
        -- unfold py_Literal. rewrite Hwf'. reflexivity.
        -- unfold py_Literal. replace (str_eqb (c0 :: lex') []) with false by reflexivity.
           rewrite andb_false_r. reflexivity.
      * unfold xml_term_elem. cbn [nonempty]. unfold xml_decode_term. cbn [x_text x_dt x_lang xk].
        rewrite Htext. cbn [opt_map_o]. destruct lex as [|c0 lex']; reflexivity.
Qed.

Lemma written_strings_ok : forall t, term_wf t = true ->
  forallb str_xml (written_strings t) = forallb str_xml (term_strings t).
Proof.
  intros [s|s|lex dt lang] H; try reflexivity.
  destruct lang as [[|c l]|]; [discriminate| |].
  - destruct dt; [discriminate|]. cbn. rewrite !andb_true_r. apply andb_comm.
  - destruct dt as [d|]; cbn; rewrite ?andb_true_r; [apply andb_comm|reflexivity].
Qed.

(* ------------------------------------------------------------------ *)
(* documents *)

Lemma all_w_chk : forall A B (ok : A -> bool) (g : A -> B) l,
  all_w (map (fun x => if ok x then WOk (g x) else WRefuse) l)
  = if forallb ok l then WOk (map g l) else WRefuse.
Proof.
  induction l as [|x r IH]; [reflexivity|]. cbn [map all_w forallb].
  destruct (ok x); [|reflexivity]. rewrite IH. cbn [andb]. destruct (forallb ok r); reflexivity.
Qed.

Lemma forallb_ext_in : forall A (f g : A -> bool) l, (forall x, In x l -> f x = g x) -> forallb f l = forallb g l.
Proof.
  induction l as [|x r IH]; intro H; [reflexivity|]. cbn [forallb].
  rewrite (H x) by (left; auto). rewrite IH; auto. intros; apply H; right; auto.
Qed.

(* per binding: what is checked, and what is written when the check passes *)
Definition bind_okw (kv : str * option term) : bool :=
  str_xml (fst kv) && match snd kv with Some t => forallb str_xml (written_strings t) | None => true end.
Definition bind_ok (kv : str * option term) : bool :=
  str_xml (fst kv) && match snd kv with Some t => forallb str_xml (term_strings t) | None => true end.
Definition bind_g (kv : str * option term) : xbind :=
  (sax_quoteattr (fst kv), xml_term_elem (match snd kv with Some t => t | None => IRI [] end)).

Definition all_bound (r : row) : bool := forallb (fun kv => match snd kv with Some _ => true | None => false end) r.

Lemma xml_write_bind_chk : forall kv, (match snd kv with Some _ => true | None => false end) = true ->
  xml_write_bind kv = if bind_okw kv then WOk (bind_g kv) else WRefuse.
Proof.
  intros [k [t|]] H; [|discriminate]. unfold xml_write_bind, bind_okw, bind_g, xml_write_term. cbn [fst snd].
  destruct (str_xml k); [|reflexivity]. cbn [andb]. destruct (forallb str_xml (written_strings t)); reflexivity.
Qed.

Lemma xml_write_row_chk : forall r, all_bound r = true ->
  xml_write_row r = if forallb bind_okw r then WOk (map bind_g r) else WRefuse.
Proof.
  intros r H. unfold xml_write_row. rewrite <- all_w_chk. f_equal. apply map_ext_in.
  intros kv Hin. apply xml_write_bind_chk. unfold all_bound in H. rewrite forallb_forall in H. auto.
Qed.

Lemma xml_serialize_chk : forall vars rows, forallb all_bound rows = true ->
  xml_serialize None vars rows
  = if forallb str_xml vars && forallb (forallb bind_okw) rows
    then WOk (XSel (map sax_quoteattr vars) (map (map bind_g) rows)) else WRefuse.
Proof.
  intros vars rows H. unfold xml_serialize.
  change (map xml_write_var vars) with (map (fun v => if str_xml v then WOk (sax_quoteattr v) else WRefuse) vars).
  rewrite all_w_chk. destruct (forallb str_xml vars); [|reflexivity]. cbn [andb].
  replace (map xml_write_row rows)
    with (map (fun r => if forallb bind_okw r then WOk (map bind_g r) else WRefuse) rows).
  - rewrite all_w_chk. destruct (forallb (forallb bind_okw) rows); reflexivity.
  - apply map_ext_in. intros r Hr. symmetry. apply xml_write_row_chk. rewrite forallb_forall in H. auto.
Qed.

(* parseTerm on the tree node of a decoded term is parseTerm on the decoded term *)
Lemma parseTerm_tree : forall p, xml_parseTerm_e (tree_of_pterm p) = xml_parseTerm p.
Proof.
  intros [k dt lang text]. destruct k; unfold xml_parseTerm_e, tree_of_pterm, xml_parseTerm; cbn [pk p_dt p_lang p_text pe_tag pe_attrs pe_text].
  - change (str_eqb t_uri t_literal) with false. change (str_eqb t_uri t_uri) with true. cbv iota.
    destruct text; reflexivity.
  - change (str_eqb t_bnode t_literal) with false. change (str_eqb t_bnode t_uri) with false.
    change (str_eqb t_bnode t_bnode) with true. cbv iota. destruct text; reflexivity.
  - change (str_eqb t_literal t_literal) with true. cbv iota.
    destruct dt as [d|]; destruct lang as [l|]; reflexivity.
Qed.

Definition dbind (kv : str * option term) : option pelem := xml_decode_bind (bind_g kv).

Lemma xml_row_tree : forall r d,
  NoDup (keys d ++ keys r) ->
  (forall kv, In kv r -> exists t, snd kv = Some t /\ str_xml (fst kv) = true /\ name_ok (fst kv) = true
                                   /\ xml_elem_roundtrip t = Some t) ->
  exists bs, all_some (map xml_decode_bind (map bind_g r)) = Some bs
             /\ fold_left (fun acc b =>
                   match acc with
                   | None => None
                   | Some d0 =>
                       if negb (str_eqb (pe_tag b) t_binding) then Some d0
                       else match lookup a_name (pe_attrs b), pe_children b with
                            | Some n, child :: _ =>
                                match py_Variable n, xml_parseTerm_e child with
                                | Some v, Some t => Some (dict_set v t d0)
                                | _, _ => None
                                end
                            | _, _ => None
                            end
                   end) bs (Some d) = Some (d ++ bound_of r).
Proof.
  induction r as [|[k o] r IH]; intros d Hnd H.
  - exists []. split; [reflexivity|]. simpl. now rewrite app_nil_r.
  - destruct (H (k, o) (or_introl eq_refl)) as [t [Ho [Hk [Hn Hrt]]]]. simpl in Ho, Hk, Hn. subst o.
    unfold xml_elem_roundtrip in Hrt.
    destruct (xml_decode_term (xml_term_elem t)) as [p|] eqn:Ep; [|discriminate].
    simpl in Hnd.
    assert (Hfresh : ~ In k (keys d)).
    { apply NoDup_remove_2 in Hnd. intro Hin. apply Hnd. apply in_or_app. auto. }
    destruct (IH (d ++ [(k, t)])) as [bs [Hbs Hfold]].
    + rewrite keys_app. simpl. rewrite <- app_assoc. exact Hnd.
    + intros; apply H; right; auto.
    + exists (PE t_binding [(a_name, k)] None [tree_of_pterm p] :: bs). split.
      * cbn [map all_some]. unfold xml_decode_bind at 1.
        change (fst (bind_g (k, Some t))) with (sax_quoteattr k).
        change (snd (bind_g (k, Some t))) with (xml_term_elem t).
        rewrite (xml_read_attr_ok k Hk), Ep. rewrite Hbs. reflexivity.
      * cbn [fold_left pe_tag pe_attrs pe_children].
        change (str_eqb t_binding t_binding) with true. cbn [negb].
        change (lookup a_name [(a_name, k)]) with (Some k). cbv iota.
        rewrite (py_Variable_ok k Hn), parseTerm_tree, Hrt. rewrite dict_set_fresh by exact Hfresh.
        rewrite Hfold. cbn [bound_of flat_map snd fst app]. rewrite <- app_assoc. reflexivity.
Qed.

Lemma filter_all : forall A (f : A -> bool) l, (forall x, In x l -> f x = true) -> filter f l = l.
Proof.
  induction l as [|x r IH]; intro H; [reflexivity|]. cbn [filter]. rewrite (H x) by (left; auto).
  rewrite IH; auto. intros; apply H; right; auto.
Qed.

Lemma xml_rows_tree : forall rows,
  (forall r, In r rows -> NoDup (keys r)) ->
  (forall r, In r rows -> forall kv, In kv r ->
     exists t, snd kv = Some t /\ str_xml (fst kv) = true /\ name_ok (fst kv) = true /\ xml_elem_roundtrip t = Some t) ->
  exists bss, all_some (map (fun r => all_some (map xml_decode_bind r)) (map (map bind_g) rows)) = Some bss
              /\ all_some (map xml_result_row (map (fun r => PE t_result [] None r) bss)) = Some (map bound_of rows).
Proof.
  induction rows as [|r rs IH]; intros Hnd H.
  - exists []. split; reflexivity.
  - destruct (xml_row_tree r []) as [bs [Hbs Hfold]].
    + simpl. apply Hnd. left; auto.
    + apply H. left; auto.
    + destruct IH as [bss [Hbss Hrows]]; [intros; apply Hnd; right; auto|intros r' Hr'; apply H; right; auto|].
      exists (bs :: bss). split.
      * cbn [map all_some]. rewrite Hbs, Hbss. reflexivity.
      * cbn [map all_some]. unfold xml_result_row at 1. cbn [pe_children]. rewrite Hfold. cbn [app].
        rewrite Hrows. reflexivity.
Qed.

Lemma xml_ask : forall b vars rows,
  match xml_serialize (Some b) vars rows with WOk d => xml_parse_tree d | WRefuse => ORefused | WFail => OErr end = OAsk b.
Proof. intros [|] vars rows; reflexivity. Qed.

Lemma existsb_false : forall A (f : A -> bool) l, existsb f l = false -> forall x, In x l -> f x = false.
Proof.
  intros A f l H x Hin. destruct (f x) eqn:E; auto.
  assert (existsb f l = true) by (apply existsb_exists; eauto). congruence.
Qed.

(* a SELECT result: written and read back when it is expressible, refused when it is not *)
Lemma xml_select : forall c, wf c = true -> c_fmt c = FXml -> c_ask c = None ->
  format_obs c = if xml_expressible c then OSel (c_vars c) (map bound_of (c_rows c)) else ORefused.
Proof.
  intros c Hwf Hf Ha. unfold format_obs. rewrite Hf, Ha.
  unfold wf in Hwf. rewrite Hf in Hwf. apply andb_true_iff in Hwf. destruct Hwf as [Hwf Hsome].
  apply andb_true_iff in Hwf. destruct Hwf as [Hnd Hrows]. apply andb_true_iff in Hnd. destruct Hnd as [Hnd Hnm].
  pose proof Hrows as Hrows0.
  assert (Hterm : forall r, In r (c_rows c) -> forall k t, In (k, Some t) r -> term_wf t = true).
  { intros r Hr k t Hin. rewrite forallb_forall in Hrows. specialize (Hrows r Hr). unfold row_wf in Hrows.
    apply andb_true_iff in Hrows. destruct Hrows as [_ Ht]. rewrite forallb_forall in Ht.
    apply Ht. eapply row_terms_In; eauto. }
  rewrite xml_serialize_chk by exact Hsome.
  assert (Hexp : forallb str_xml (c_vars c) && forallb (forallb bind_okw) (c_rows c) = xml_expressible c).
  { unfold xml_expressible. f_equal. apply forallb_ext_in. intros r Hr. apply forallb_ext_in.
    intros [k [t|]] Hin; [|reflexivity]. unfold bind_okw. cbn [fst snd]. f_equal.
    apply written_strings_ok. eapply Hterm; eauto. }
  rewrite Hexp. destruct (xml_expressible c) eqn:Ex; [|reflexivity].
  unfold xml_expressible in Ex. apply andb_true_iff in Ex. destruct Ex as [Hv Hb].
  assert (Hnames : forallb name_ok (c_vars c) = true) by exact Hnm.
  destruct (xml_rows_tree (c_rows c)) as [bss [Hbss Hrt]].
  { intros r Hr. rewrite forallb_forall in Hrows0. specialize (Hrows0 r Hr).
    destruct (row_names_ok (c_vars c) r Hnames Hrows0) as [H1 _]. exact H1. }
  { intros r Hr [k o] Hin.
    rewrite forallb_forall in Hsome. specialize (Hsome r Hr). unfold all_bound in Hsome. rewrite forallb_forall in Hsome.
    specialize (Hsome (k, o) Hin). cbn [snd] in Hsome. destruct o as [t|]; [|discriminate].
    rewrite forallb_forall in Hb. specialize (Hb r Hr). rewrite forallb_forall in Hb. specialize (Hb (k, Some t) Hin).
    cbn [fst snd] in Hb. apply andb_true_iff in Hb. destruct Hb as [Hk Hs].
    exists t. repeat split; auto.
    - rewrite forallb_forall in Hrows0. specialize (Hrows0 r Hr).
      destruct (row_names_ok (c_vars c) r Hnames Hrows0) as [_ [H2 _]]. rewrite forallb_forall in H2. apply H2.
      unfold keys. apply in_map_iff. exists (k, Some t). auto.
    - apply xml_term_ok; auto. eapply Hterm; eauto. }
  unfold xml_parse_tree, xml_decode_doc.
  rewrite (map_map sax_quoteattr xml_read_attr). rewrite (all_some_map_id (fun x => xml_read_attr (sax_quoteattr x))).
  2:{ intros v Hin. apply xml_read_attr_ok. rewrite forallb_forall in Hv. apply Hv. exact Hin. }
  rewrite Hbss. unfold xml_reader. cbn [pe_children].
  change (pe_find t_boolean _) with (@None pelem).
  change (pe_find t_results [PE t_head [] None (map (fun v => PE t_variable [(a_name, v)] None []) (c_vars c));
                             PE t_results [] None (map (fun r => PE t_result [] None r) bss)])
    with (Some (PE t_results [] None (map (fun r => PE t_result [] None r) bss))).
  cbn [pe_children]. unfold pe_findall at 1.
  rewrite (filter_all _ (fun e => str_eqb (pe_tag e) t_result)).
  2:{ intros x Hx. apply in_map_iff in Hx. destruct Hx as [r [E _]]. subst x. reflexivity. }
  rewrite Hrt.
  change (pe_findall t_head [PE t_head [] None (map (fun v => PE t_variable [(a_name, v)] None []) (c_vars c));
                             PE t_results [] None (map (fun r => PE t_result [] None r) bss)])
    with [PE t_head [] None (map (fun v => PE t_variable [(a_name, v)] None []) (c_vars c))].
  cbn [flat_map pe_children]. rewrite app_nil_r. unfold pe_findall.
  rewrite (filter_all _ (fun e => str_eqb (pe_tag e) t_variable)).
  2:{ intros x Hx. apply in_map_iff in Hx. destruct Hx as [v [E _]]. subst x. reflexivity. }
  rewrite map_map. cbn [pe_attrs].
  rewrite (all_some_map_id (fun x => match lookup a_name [(a_name, x)] with Some n => py_Variable n | None => None end));
    [reflexivity|].
  intros v Hin. change (lookup a_name [(a_name, v)]) with (Some v). apply py_Variable_ok.
  rewrite forallb_forall in Hnames. auto.
Qed.

Lemma xml_ok : forall c, wf c = true -> c_fmt c = FXml -> spec_ok c (format_obs c) = true.
Proof.
  intros c Hwf Hf. unfold spec_ok. rewrite Hf.
  destruct (c_ask c) as [b|] eqn:Ea.
  - unfold format_obs. rewrite Hf, Ea. rewrite xml_ask. apply eqb_reflx.
  - rewrite (xml_select c Hwf Hf Ea). destruct (xml_expressible c); [|reflexivity].
    unfold spec_select. rewrite list_eqb_refl by apply str_eqb_refl. cbn [andb]. apply rows_ok_bound_of.
    unfold wf in Hwf. apply andb_true_iff in Hwf. destruct Hwf as [Hwf _].
    apply andb_true_iff in Hwf. tauto.
Qed.
