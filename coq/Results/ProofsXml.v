(* C16 - SPARQL XML: saxutils escaping against the XML reader rules, character by character,
   then the writer/reader pair on terms and documents. *)
From RV Require Import Results.Model Results.Proofs.
Local Open Scope N_scope.

Lemma flat_map_flat_map : forall A B C (f : A -> list B) (g : B -> list C) l,
  flat_map g (flat_map f l) = flat_map (fun x => flat_map g (f x)) l.
Proof. induction l; simpl; auto. rewrite flat_map_app, IHl. reflexivity. Qed.

Lemma replace1_flat_map : forall c rep A (f : A -> str) l,
  replace1 c rep (flat_map f l) = flat_map (fun x => replace1 c rep (f x)) l.
Proof. intros. unfold replace1. apply flat_map_flat_map. Qed.

Lemma replace1_single : forall c rep s, replace1 c rep s = flat_map (fun x => replace1 c rep [x]) s.
Proof.
  intros. unfold replace1. apply flat_map_ext. intro x. simpl. now rewrite app_nil_r.
Qed.

Lemma replace1_other : forall c rep x, x <> c -> replace1 c rep [x] = [x].
Proof. intros c rep x H. unfold replace1. simpl. apply N.eqb_neq in H. now rewrite H. Qed.

(* what the writer does to one character *)
Definition esc_text (x : N) : str := sax_escape [x].
Definition esc_attr (x : N) : str := replace1 9 e_tab (replace1 13 e_cr (replace1 10 e_nl (sax_escape [x]))).
Definition esc_attr_q (x : N) : str := replace1 34 e_quot (esc_attr x).

Lemma sax_escape_map : forall s, sax_escape s = flat_map esc_text s.
Proof.
  intro s. unfold sax_escape. rewrite (replace1_single 38 e_amp s).
  rewrite !replace1_flat_map. reflexivity.
Qed.

Lemma quoteattr_body : forall s,
  replace1 9 e_tab (replace1 13 e_cr (replace1 10 e_nl (sax_escape s))) = flat_map esc_attr s.
Proof.
  intro s. unfold sax_escape. rewrite (replace1_single 38 e_amp s).
  rewrite !replace1_flat_map. reflexivity.
Qed.

Definition rd (a : bool) (s : str) (st : xst) : xst := fold_left (xstep a) s st.

Lemma rd_flat_map : forall a (P : N -> bool) (e : N -> str),
  (forall c out, P c = true -> rd a (e c) (XT out false) = XT (c :: out) false) ->
  forall s out, forallb P s = true -> rd a (flat_map e s) (XT out false) = XT (rev s ++ out) false.
Proof.
  intros a P e He. induction s as [|c r IH]; simpl; intros out H; [reflexivity|].
  apply andb_true_iff in H. destruct H as [Hc Hr].
  unfold rd. rewrite fold_left_app. fold (rd a (e c) (XT out false)). rewrite He by auto.
  fold (rd a (flat_map e r) (XT (c :: out) false)). rewrite IH by auto.
  rewrite <- app_assoc. reflexivity.
Qed.

Definition text_char (c : N) : bool := is_xml_char c && negb (c =? 13).

Lemma esc_text_other : forall c, c <> 38 -> c <> 62 -> c <> 60 -> esc_text c = [c].
Proof.
  intros. unfold esc_text, sax_escape. rewrite !replace1_other; auto.
Qed.

Lemma esc_attr_other : forall c, c <> 38 -> c <> 62 -> c <> 60 -> c <> 10 -> c <> 13 -> c <> 9 -> esc_attr c = [c].
Proof.
  intros. unfold esc_attr, sax_escape. rewrite !replace1_other; auto.
Qed.

Lemma rd_text_char : forall c out, text_char c = true -> rd false (esc_text c) (XT out false) = XT (c :: out) false.
Proof.
  intros c out H. unfold text_char in H. apply andb_true_iff in H. destruct H as [Hx H13].
  apply negb_true_iff in H13.
  destruct (N.eqb_spec c 38); [subst; reflexivity|].
  destruct (N.eqb_spec c 62); [subst; reflexivity|].
  destruct (N.eqb_spec c 60); [subst; reflexivity|].
  rewrite esc_text_other by auto. unfold rd. simpl. rewrite Hx. simpl.
  apply N.eqb_neq in n, n1. rewrite n, n1, H13.
  destruct (N.eqb_spec c 10); [subst; reflexivity|reflexivity].
Qed.

Lemma rd_attr_char : forall c out, is_xml_char c = true -> rd true (esc_attr c) (XT out false) = XT (c :: out) false.
Proof.
  intros c out Hx.
  destruct (N.eqb_spec c 38); [subst; reflexivity|].
  destruct (N.eqb_spec c 62); [subst; reflexivity|].
  destruct (N.eqb_spec c 60); [subst; reflexivity|].
  destruct (N.eqb_spec c 10); [subst; reflexivity|].
  destruct (N.eqb_spec c 13); [subst; reflexivity|].
  destruct (N.eqb_spec c 9); [subst; reflexivity|].
  rewrite esc_attr_other by auto. unfold rd. simpl. rewrite Hx. simpl.
  apply N.eqb_neq in n, n1, n2, n3, n4. rewrite n, n1, n2, n3, n4. reflexivity.
Qed.

Lemma rd_attr_q_char : forall c out, is_xml_char c = true -> rd true (esc_attr_q c) (XT out false) = XT (c :: out) false.
Proof.
  intros c out Hx.
  destruct (N.eqb_spec c 38); [subst; reflexivity|].
  destruct (N.eqb_spec c 62); [subst; reflexivity|].
  destruct (N.eqb_spec c 60); [subst; reflexivity|].
  destruct (N.eqb_spec c 10); [subst; reflexivity|].
  destruct (N.eqb_spec c 13); [subst; reflexivity|].
  destruct (N.eqb_spec c 9); [subst; reflexivity|].
  destruct (N.eqb_spec c 34); [subst; reflexivity|].
  unfold esc_attr_q. rewrite esc_attr_other by auto. rewrite replace1_other by auto.
  unfold rd. simpl. rewrite Hx. simpl.
  apply N.eqb_neq in n, n1, n2, n3, n4. rewrite n, n1, n2, n3, n4. reflexivity.
Qed.

(* character data written by XMLGenerator.characters is read back unchanged, provided it
   consists of XML Chars other than CR *)
Lemma xml_read_text : forall s, forallb text_char s = true -> xml_read false (sax_escape s) = Some s.
Proof.
  intros s H. unfold xml_read. rewrite sax_escape_map. fold (rd false (flat_map esc_text s) (XT [] false)).
  rewrite (rd_flat_map false text_char esc_text rd_text_char) by auto.
  rewrite app_nil_r, rev_involutive. reflexivity.
Qed.

Lemma memb_rev_false : forall c l, memb N.eqb c l = false -> memb N.eqb c (rev l) = false.
Proof.
  intros c l H. destruct (memb N.eqb c (rev l)) eqn:E; auto.
  apply (@memb_In _ _ N.eqb_spec) in E. apply in_rev in E. apply (@memb_In _ _ N.eqb_spec) in E. congruence.
Qed.

Lemma memb_replace1 : forall c rep l, memb N.eqb c rep = false -> memb N.eqb c (replace1 c rep l) = false.
Proof.
  intros c rep l H. destruct (memb N.eqb c (replace1 c rep l)) eqn:E; auto.
  apply (@memb_In _ _ N.eqb_spec) in E. unfold replace1 in E. apply in_flat_map in E.
  destruct E as [x [_ Hx]]. destruct (N.eqb_spec x c).
  - apply (@memb_In _ _ N.eqb_spec) in Hx. congruence.
  - destruct Hx as [Hx|[]]. congruence.
Qed.

(* an attribute value written by quoteattr is read back unchanged when it consists of XML Chars
   (CR, LF and TAB included: they travel as character references) *)
Lemma xml_read_attr_ok : forall s, forallb is_xml_char s = true -> xml_read_attr (sax_quoteattr s) = Some s.
Proof.
  intros s H. unfold sax_quoteattr. rewrite quoteattr_body.
  destruct (memb N.eqb 34 (flat_map esc_attr s)) eqn:E1; [destruct (memb N.eqb 39 (flat_map esc_attr s)) eqn:E2|].
  - unfold xml_read_attr. change ((34 =? 34) || (34 =? 39)) with true. cbv iota.
    rewrite rev_unit. change (34 =? 34) with true.
    rewrite memb_rev_false by (apply memb_replace1; reflexivity). simpl negb. cbv iota. simpl andb. cbv iota.
    rewrite rev_involutive. rewrite replace1_flat_map.
    unfold xml_read. fold (rd true (flat_map (fun x => replace1 34 e_quot (esc_attr x)) s) (XT [] false)).
    rewrite (rd_flat_map true is_xml_char _ rd_attr_q_char) by auto.
    rewrite app_nil_r, rev_involutive. reflexivity.
  - unfold xml_read_attr. change ((39 =? 34) || (39 =? 39)) with true. cbv iota.
    rewrite rev_unit. change (39 =? 39) with true.
    rewrite memb_rev_false by auto. simpl negb. simpl andb. cbv iota.
    rewrite rev_involutive.
    unfold xml_read. fold (rd true (flat_map esc_attr s) (XT [] false)).
    rewrite (rd_flat_map true is_xml_char _ rd_attr_char) by auto.
    rewrite app_nil_r, rev_involutive. reflexivity.
  - unfold xml_read_attr. change ((34 =? 34) || (34 =? 39)) with true. cbv iota.
    rewrite rev_unit. change (34 =? 34) with true.
    rewrite memb_rev_false by auto. simpl negb. simpl andb. cbv iota.
    rewrite rev_involutive.
    unfold xml_read. fold (rd true (flat_map esc_attr s) (XT [] false)).
    rewrite (rd_flat_map true is_xml_char _ rd_attr_char) by auto.
    rewrite app_nil_r, rev_involutive. reflexivity.
Qed.

Lemma text_char_of : forall s, forallb is_xml_char s = true -> memb N.eqb 13 s = false -> forallb text_char s = true.
Proof.
  induction s as [|c r IH]; intros H M; [reflexivity|].
  cbn [forallb] in H. cbn [memb] in M. cbn [forallb].
  apply andb_true_iff in H. destruct H as [Hc Hr]. apply orb_false_iff in M. destruct M as [M1 M2].
  unfold text_char at 1. rewrite Hc, (N.eqb_sym c 13), M1. simpl. auto.
Qed.

(* ------------------------------------------------------------------ *)
(* one term through write_binding, the XML reader, parseTerm *)

Definition xml_term_roundtrip (t : term) : option term :=
  match xml_write_term (Some t) with
  | Some x => match xml_decode_term x with Some p => xml_parseTerm p | None => None end
  | None => None
  end.

Lemma decode_nonempty : forall k s, forallb text_char s = true -> s <> [] ->
  xml_decode_term {| xk := k; x_dt := None; x_lang := None; x_text := sax_escape s |}
  = Some {| pk := k; p_dt := None; p_lang := None; p_text := Some s |}.
Proof.
  intros k s H Hne. unfold xml_decode_term. simpl. rewrite xml_read_text by auto.
  destruct s; [congruence|reflexivity].
Qed.

Lemma xml_term_ok : forall t,
  term_wf t = true -> forallb (forallb is_xml_char) (term_strings t) = true ->
  memb N.eqb 13 (term_text t) = false -> empty_iri t = false ->
  xml_term_roundtrip t = Some t.
Proof.
  intros t Hwf Hch Hcr Hemp. unfold xml_term_roundtrip.
  destruct t as [s|s|lex dt lang]; simpl in Hch, Hcr.
  - apply andb_true_iff in Hch. destruct Hch as [Hs _].
    destruct s as [|c r]; [reflexivity|].
    simpl xml_write_term. cbv iota. rewrite decode_nonempty; [reflexivity|apply text_char_of; auto|discriminate].
  - apply andb_true_iff in Hch. destruct Hch as [Hs _].
    destruct s as [|c r]; [discriminate|].
    simpl xml_write_term. cbv iota. rewrite decode_nonempty; [reflexivity|apply text_char_of; auto|discriminate].
  - apply andb_true_iff in Hch. destruct Hch as [Hlex Hrest].
    assert (Htext : xml_read false (sax_escape lex) = Some lex) by (apply xml_read_text; apply text_char_of; auto).
    destruct lang as [[|c l]|]; [discriminate| |].
    + (* language-tagged *)
      destruct dt; [discriminate|]. simpl in Hrest. apply andb_true_iff in Hrest. destruct Hrest as [Hl _].
      simpl xml_write_term. cbv iota. unfold xml_decode_term. simpl x_text. simpl x_dt. simpl x_lang. simpl xk.
      rewrite Htext. simpl opt_map_o. rewrite (xml_read_attr_ok (c :: l) Hl).
      destruct lex as [|c0 lex']; reflexivity.
    + destruct dt as [d|].
      * simpl in Hrest. apply andb_true_iff in Hrest. destruct Hrest as [Hd _].
        assert (Hdne : nonempty (Some d) = Some d) by (destruct d; [discriminate|reflexivity]).
        assert (Hwf' : str_eqb d xsd_boolean && str_eqb lex [] = false) by (apply negb_true_iff; exact Hwf).
        clear Hwf Hemp.
        unfold xml_write_term. change (nonempty (@None str)) with (@None str). cbv iota. rewrite Hdne.
        unfold xml_decode_term. cbn [x_text x_dt x_lang xk]. rewrite Htext. cbn [opt_map_o].
        rewrite (xml_read_attr_ok d Hd).
        unfold xml_parseTerm. cbn [pk p_dt p_lang p_text]. rewrite Hdne.
        destruct lex as [|c0 lex']; cbv iota.
        -- unfold py_Literal. rewrite Hwf'. reflexivity.
        -- unfold py_Literal. replace (str_eqb (c0 :: lex') []) with false by reflexivity.
           rewrite andb_false_r. reflexivity.
      * simpl xml_write_term. cbv iota. unfold xml_decode_term. simpl x_text. simpl x_dt. simpl x_lang. simpl xk.
        rewrite Htext. simpl opt_map_o. destruct lex as [|c0 lex']; reflexivity.
Qed.

(* ------------------------------------------------------------------ *)
(* documents *)

Definition entry_ok (kv : str * option term) : Prop :=
  forallb is_xml_char (fst kv) = true /\ exists t, snd kv = Some t /\ xml_term_roundtrip t = Some t.

Lemma xml_row_ok : forall r, (forall kv, In kv r -> entry_ok kv) ->
  exists xr, xml_write_row r = Some xr /\ all_some (map xml_parse_bind xr) = Some (bound_of r).
Proof.
  unfold xml_write_row. induction r as [|[k o] r IH]; intro H.
  - exists []. split; reflexivity.
  - destruct (H (k, o) (or_introl eq_refl)) as [Hk [t [Ho Hrt]]]. simpl in Hk, Ho. subst o.
    destruct IH as [xr [Hw Hp]]; [intros; apply H; right; auto|].
    unfold xml_term_roundtrip in Hrt.
    destruct (xml_write_term (Some t)) as [x|] eqn:Ex; [|discriminate].
    destruct (xml_decode_term x) as [p|] eqn:Ep; [|discriminate].
    exists ((sax_quoteattr k, x) :: xr). split.
    + cbn [map all_some fst snd]. rewrite Ex. cbn [all_some].
      change (all_some (map (fun kv => match xml_write_term (snd kv) with
                                       | Some x0 => Some (sax_quoteattr (fst kv), x0) | None => None end) r))
        with (all_some (map (fun kv => match xml_write_term (snd kv) with
                                       | Some x0 => Some (sax_quoteattr (fst kv), x0) | None => None end) r)).
      rewrite Hw. reflexivity.
    + cbn [map all_some]. unfold xml_parse_bind at 1. cbn [fst snd].
      rewrite (xml_read_attr_ok k Hk), Ep, Hrt. rewrite Hp. reflexivity.
Qed.

Lemma xml_rows_ok : forall rows, (forall r, In r rows -> forall kv, In kv r -> entry_ok kv) ->
  exists xrs, all_some (map xml_write_row rows) = Some xrs
              /\ all_some (map (fun r => all_some (map xml_parse_bind r)) xrs) = Some (map bound_of rows).
Proof.
  induction rows as [|r rs IH]; intro H.
  - exists []. split; reflexivity.
  - destruct (xml_row_ok r (H r (or_introl eq_refl))) as [xr [Hw Hp]].
    destruct IH as [xrs [Hws Hps]]; [intros; eapply H; [right|]; eauto|].
    exists (xr :: xrs). split.
    + cbn [map all_some]. rewrite Hw, Hws. reflexivity.
    + cbn [map all_some]. rewrite Hp, Hps. reflexivity.
Qed.

Lemma xml_select : forall vars rows,
  forallb (forallb is_xml_char) vars = true ->
  (forall r, In r rows -> forall kv, In kv r -> entry_ok kv) ->
  match xml_serialize None vars rows with Some d => xml_parse d | None => OErr end
  = OSel vars (map bound_of rows).
Proof.
  intros vars rows Hv H. destruct (xml_rows_ok rows H) as [xrs [Hw Hp]].
  unfold xml_serialize. rewrite Hw. unfold xml_parse. rewrite Hp.
  rewrite map_map. rewrite all_some_map_id; [reflexivity|].
  intros v Hin. apply xml_read_attr_ok. rewrite forallb_forall in Hv. auto.
Qed.

Lemma xml_ask : forall b vars rows,
  match xml_serialize (Some b) vars rows with Some d => xml_parse d | None => OErr end = OAsk b.
Proof. intros [|] vars rows; reflexivity. Qed.

Lemma existsb_false : forall A (f : A -> bool) l, existsb f l = false -> forall x, In x l -> f x = false.
Proof.
  intros A f l H x Hin. destruct (f x) eqn:E; auto.
  assert (existsb f l = true) by (apply existsb_exists; eauto). congruence.
Qed.

Lemma xml_ok : forall c, wf c = true -> kf c = 0 -> c_fmt c = FXml -> spec_ok c (model_obs c) = true.
Proof.
  intros c Hwf Hkf Hf. unfold spec_ok, model_obs. rewrite Hf.
  destruct (c_ask c) as [b|] eqn:Ea.
  - rewrite xml_ask. apply eqb_reflx.
  - unfold kf in Hkf. rewrite Hf, Ea in Hkf.
    destruct (negb (forallb (forallb is_xml_char)
               (c_vars c ++ flat_map keys (c_rows c) ++ flat_map term_strings (case_terms c)))) eqn:E1; [discriminate|].
    destruct (existsb (fun t => memb N.eqb 13 (term_text t)) (case_terms c)) eqn:E2; [discriminate|].
    destruct (existsb empty_iri (case_terms c)) eqn:E3; [discriminate|].
    apply negb_false_iff in E1. rewrite !forallb_app in E1.
    apply andb_true_iff in E1. destruct E1 as [Hv E1]. apply andb_true_iff in E1. destruct E1 as [Hk Hs].
    unfold wf in Hwf. rewrite Hf in Hwf. apply andb_true_iff in Hwf. destruct Hwf as [Hwf Hx].
    apply andb_true_iff in Hwf. destruct Hwf as [Hnd Hrows].
    rename Hx into Hsome.
    rewrite xml_select; auto.
    + rewrite list_eqb_refl by apply str_eqb_refl. simpl. apply rows_ok_bound_of. auto.
    + intros r Hr [k o] Hkv. split.
      * simpl. rewrite forallb_forall in Hk. apply Hk. apply in_flat_map. exists r. split; auto.
        unfold keys. apply in_map_iff. exists (k, o). auto.
      * rewrite forallb_forall in Hsome. specialize (Hsome r Hr). rewrite forallb_forall in Hsome.
        specialize (Hsome (k, o) Hkv). simpl in Hsome. destruct o as [t|]; [|discriminate].
        exists t. split; [reflexivity|].
        assert (Hin : In t (case_terms c)).
        { unfold case_terms. apply in_flat_map. exists r. split; auto. eapply row_terms_In; eauto. }
        apply xml_term_ok.
        -- rewrite forallb_forall in Hrows. specialize (Hrows r Hr). unfold row_wf in Hrows.
           apply andb_true_iff in Hrows. destruct Hrows as [_ Ht]. rewrite forallb_forall in Ht.
           apply Ht. eapply row_terms_In; eauto.
        -- apply forallb_forall. intros s Hs'. rewrite forallb_forall in Hs. apply Hs.
           apply in_flat_map. exists t. auto.
        -- apply (existsb_false _ _ _ E2 t Hin).
        -- apply (existsb_false _ _ _ E3 t Hin).
Qed.
