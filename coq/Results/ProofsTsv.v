(* C16 - TSV: the reader's TERM scanner recovers the term from every rendering the
   writer-spec [render_term] can produce (any style), in any cell position. *)
From RV Require Import Results.Model Results.Proofs.
Local Open Scope N_scope.

Lemma take_while_app : forall p a b,
  forallb p a = true -> (match b with [] => true | c :: _ => negb (p c) end) = true ->
  take_while p (a ++ b) = (a, b).
Proof.
  induction a as [|x r IH]; simpl; intros b Ha Hb.
  - destruct b as [|c b']; simpl; auto. apply negb_true_iff in Hb. now rewrite Hb.
  - apply andb_true_iff in Ha. destruct Ha as [Hx Hr]. rewrite Hx, IH; auto.
Qed.

(* what may follow a cell: end of line or TAB *)
Lemma at_empty_cases : forall rest, at_empty rest = true -> rest = [] \/ exists r, rest = 9 :: r.
Proof.
  intros [|c r] H; auto. simpl in H. apply N.eqb_eq in H. subst. eauto.
Qed.

Lemma scan_iri_ok : forall s rest, forallb iri_char s = true ->
  scan_iri (60 :: s ++ 62 :: rest) = Some (s, rest).
Proof.
  intros s rest H. unfold scan_iri. change (60 =? 60) with true. cbv iota.
  rewrite take_while_app; auto.
Qed.

(* --- quoted strings --- *)

Lemma esc_char_cases : forall st q c, q = 34 \/ q = 39 ->
  (esc_char st q c = [c] /\ c <> q /\ c <> 92 /\ c <> 10 /\ c <> 13)
  \/ (exists e, esc_char st q c = [92; e] /\ echar_ok e = true /\ echar_val e = Some c).
Proof.
  intros st q c Hq. unfold esc_char.
  destruct (N.eqb_spec c 9); [subst; right; exists 116; repeat split; reflexivity|].
  destruct (N.eqb_spec c 10); [subst; right; exists 110; repeat split; reflexivity|].
  destruct (N.eqb_spec c 13); [subst; right; exists 114; repeat split; reflexivity|].
  destruct (N.eqb_spec c 92); [subst; right; exists 92; repeat split; reflexivity|].
  destruct (N.eqb_spec c q); [subst c; right; exists q; repeat split; destruct Hq; subst; reflexivity|].
  assert (Hcross : forall b : bool,
            ((if b && ((c =? 34) || (c =? 39)) then [92; c] else [c]) = [c] /\ c <> q /\ c <> 92 /\ c <> 10 /\ c <> 13)
            \/ (exists e, (if b && ((c =? 34) || (c =? 39)) then [92; c] else [c]) = [92; e]
                          /\ echar_ok e = true /\ echar_val e = Some c)).
  { intros [|]; cbn [andb]; [|left; auto].
    destruct (N.eqb_spec c 34); [subst; right; exists 34; repeat split; reflexivity|].
    destruct (N.eqb_spec c 39); [subst; right; exists 39; repeat split; reflexivity|].
    left; auto. }
  destruct (st_esc_all st); cbn [andb].
  - destruct (N.eqb_spec c 8); [subst; right; exists 98; repeat split; reflexivity|].
    destruct (N.eqb_spec c 12); [subst; right; exists 102; repeat split; reflexivity|].
    apply Hcross.
  - apply Hcross.
Qed.

Lemma scan_string_esc : forall st q lex tail, q = 34 \/ q = 39 ->
  (match tail with [] => true | c :: _ => negb (c =? q) end) = true ->
  scan_string q (flat_map (esc_char st q) lex ++ q :: tail) = Some (flat_map (esc_char st q) lex, tail).
Proof.
  intros st q lex tail Hq. induction lex as [|c r IH]; intros Ht.
  - simpl. rewrite N.eqb_refl. destruct tail as [|c2 t]; auto.
    apply negb_true_iff in Ht. now rewrite Ht.
  - cbn [flat_map]. rewrite <- app_assoc.
    destruct (esc_char_cases st q c Hq) as [[E [N1 [N2 [N3 N4]]]]|[e [E [E1 E2]]]]; rewrite E.
    + cbn [app scan_string]. apply N.eqb_neq in N1, N2, N3, N4. rewrite N1, N2, N3, N4. simpl orb. cbv iota.
      rewrite IH; auto.
    + cbn [app scan_string].
      assert (Hq92 : (92 =? q) = false) by (destruct Hq; subst; reflexivity).
      rewrite Hq92. change (92 =? 92) with true. cbv iota. rewrite E1. rewrite IH; auto.
Qed.

Lemma decode_esc : forall st q lex, q = 34 \/ q = 39 ->
  decode_echar (flat_map (esc_char st q) lex) = lex.
Proof.
  intros st q lex Hq. induction lex as [|c r IH]; [reflexivity|].
  cbn [flat_map].
  destruct (esc_char_cases st q c Hq) as [[E [N1 [N2 _]]]|[e [E [E1 E2]]]]; rewrite E.
  - cbn [app decode_echar]. apply N.eqb_neq in N2. rewrite N2. rewrite IH; auto.
  - cbn [app decode_echar]. change (92 =? 92) with true. cbv iota. rewrite E2. rewrite IH; auto.
Qed.

(* --- shapes --- *)

Lemma lang_shape_chars : forall s f n, lang_shape f n s = true -> forallb lang_char s = true.
Proof.
  induction s as [|c r IH]; simpl; intros f n H; auto.
  unfold lang_char at 1. destruct (N.eqb_spec c 45).
  - apply andb_true_iff in H. destruct H as [_ H]. rewrite orb_true_r. simpl. eauto.
  - apply andb_true_iff in H. destruct H as [Hc H]. rewrite (IH _ _ H), andb_true_r.
    rewrite orb_false_r. destruct f; auto. unfold is_alnum. now rewrite Hc.
Qed.

Lemma canonical_digits : forall s, canonical_int s = true -> forallb is_digit s = true /\ strip_zeros s = s /\ s <> [].
Proof.
  intros [|c [|c2 r]] H; simpl in *; try discriminate.
  - rewrite H. repeat split; auto. discriminate.
  - apply andb_true_iff in H. destruct H as [H Hr]. apply andb_true_iff in H. destruct H as [Hc Hz].
    apply andb_true_iff in Hr. destruct Hr as [Hc2 Hr]. rewrite Hc, Hc2, Hr.
    apply negb_true_iff in Hz. rewrite Hz. repeat split; auto. discriminate.
Qed.

Lemma digit_range : forall c, is_digit c = true -> 48 <= c <= 57.
Proof. intros c H. unfold is_digit, in_range in H. apply andb_true_iff in H. destruct H. split; apply N.leb_le; auto. Qed.

(* ------------------------------------------------------------------ *)

Lemma take_while_split : forall p s a b, take_while p s = (a, b) -> s = a ++ b /\ forallb p a = true.
Proof.
  intros p. induction s as [|c r IH]; intros a b H; simpl in H.
  - inversion H. auto.
  - destruct (p c) eqn:E.
    + destruct (take_while p r) as [a' b'] eqn:Et. inversion H; subst. destruct (IH a' b eq_refl) as [H1 H2].
      simpl. rewrite E, H2. subst r. auto.
    + inversion H. auto.
Qed.

Lemma not_digit_tail : forall rest, at_empty rest = true ->
  (match rest with [] => true | c :: _ => negb (is_digit c) end) = true.
Proof. intros rest H. destruct (at_empty_cases rest H) as [E|[r E]]; subst; reflexivity. Qed.

Lemma scan_unsigned_int : forall d rest, d <> [] -> forallb is_digit d = true -> at_empty rest = true ->
  scan_unsigned (d ++ rest) = Some (false, d, [], rest).
Proof.
  intros d rest Hne Hd Hrest. unfold scan_unsigned. rewrite take_while_app by (auto using not_digit_tail).
  destruct d as [|c r]; [congruence|].
  destruct (at_empty_cases rest Hrest) as [E|[r' E]]; subst; reflexivity.
Qed.

Lemma scan_unsigned_dec : forall ip fp rest,
  forallb is_digit ip = true -> forallb is_digit fp = true -> fp <> [] -> at_empty rest = true ->
  scan_unsigned ((ip ++ 46 :: fp) ++ rest) = Some (true, ip, fp, rest).
Proof.
  intros ip fp rest Hi Hf Hne Hrest. unfold scan_unsigned. rewrite <- app_assoc. cbn [app].
  rewrite take_while_app by auto. cbv iota beta.
  rewrite take_while_app by (auto using not_digit_tail).
  destruct fp as [|c r]; [congruence|].
  destruct (at_empty_cases rest Hrest) as [E|[r' E]]; subst; reflexivity.
Qed.

Lemma dec_body_shape : forall b, dec_body b = true ->
  exists ip fp, b = ip ++ 46 :: fp /\ canonical_int ip = true /\ forallb is_digit fp = true /\ fp <> [].
Proof.
  intros b H. unfold dec_body in H. destruct (take_while is_digit b) as [ip r] eqn:Et.
  apply andb_true_iff in H. destruct H as [Hc Hr]. destruct (take_while_split _ _ _ _ Et) as [Eb _].
  destruct r as [|c fp]; [discriminate|]. destruct (N.eqb_spec c 46); [subst c|].
  - apply andb_true_iff in Hr. destruct Hr as [Hf Hn]. exists ip, fp. repeat split; auto.
    intro; subst; discriminate.
  - exfalso. revert Hr. clear -n. destruct c as [|p]; [discriminate|].
    do 6 (destruct p as [p|p|]; try discriminate). congruence.
Qed.

(* the numeric shorthands: the scanner gives back the lexical form *)
Lemma scan_number_forms : forall lex dt rest, at_empty rest = true ->
  ((ostr_eqb dt (Some xsd_integer) && canonical_int lex) || bare_number lex dt) = true ->
  scan_number (lex ++ rest) = Some (Lit lex dt None, rest)
  /\ exists c r, lex = c :: r /\ (is_digit c || (c =? 45)) = true.
Proof.
  intros lex dt rest Hrest H. apply orb_true_iff in H. destruct H as [H|H].
  - apply andb_true_iff in H. destruct H as [Hd Hcan].
    destruct (ostr_eqb_spec dt (Some xsd_integer)); [subst dt|discriminate].
    destruct (canonical_digits lex Hcan) as [Hdig [Hstrip Hne]]. destruct lex as [|c r]; [congruence|].
    assert (Hc : is_digit c = true) by (simpl in Hdig; apply andb_true_iff in Hdig; tauto).
    pose proof (digit_range c Hc) as Hr. split; [|exists c, r; rewrite Hc; auto].
    unfold scan_number. cbn [app].
    assert (H43 : (c =? 43) = false) by (apply N.eqb_neq; lia).
    assert (H45 : (c =? 45) = false) by (apply N.eqb_neq; lia). rewrite H43, H45.
    change (c :: r ++ rest) with ((c :: r) ++ rest). rewrite scan_unsigned_int by (auto; discriminate).
    rewrite Hstrip. reflexivity.
  - unfold bare_number in H. apply orb_true_iff in H. destruct H as [H|H]; apply andb_true_iff in H; destruct H as [Hd Hs].
    + destruct (ostr_eqb_spec dt (Some xsd_integer)); [subst dt|discriminate].
      destruct lex as [|c d]; [discriminate|]. destruct (N.eqb_spec c 45); [subst c|].
      2:{ exfalso. revert Hs. clear -n. destruct c as [|p]; [discriminate|].
          do 6 (destruct p as [p|p|]; try discriminate). congruence. }
      apply andb_true_iff in Hs. destruct Hs as [Hcan Hnz].
      destruct (canonical_digits d Hcan) as [Hdig [Hstrip Hne]].
      split; [|exists 45, d; auto].
      unfold scan_number. cbn [app]. change (45 =? 43) with false. change (45 =? 45) with true. cbv iota.
      rewrite scan_unsigned_int by auto. rewrite Hstrip. change (2 =? 2) with true. rewrite Hnz. reflexivity.
    + destruct (ostr_eqb_spec dt (Some xsd_decimal)); [subst dt|discriminate].
      assert (Hpos : forall b, dec_body b = true -> forall sg, sg = 0 \/ sg = 2 ->
                match scan_unsigned (b ++ rest) with
                | Some (isdec, ip, fp, rest0) =>
                    if isdec then Some (Lit (if sg =? 2 then 45 :: ((match ip with [] => [48] | _ => strip_zeros ip end) ++ 46 :: fp)
                                             else (match ip with [] => [48] | _ => strip_zeros ip end) ++ 46 :: fp) (Some xsd_decimal) None, rest0)
                    else None
                | None => None
                end = Some (Lit (if sg =? 2 then 45 :: b else b) (Some xsd_decimal) None, rest)
                /\ exists c r, b = c :: r /\ is_digit c = true).
      { intros b Hb sg Hsg. destruct (dec_body_shape b Hb) as [ip [fp [Eb [Hcan [Hf Hne]]]]]. subst b.
        destruct (canonical_digits ip Hcan) as [Hdig [Hstrip Hine]].
        rewrite scan_unsigned_dec by auto. cbv iota. rewrite Hstrip.
        destruct ip as [|c r]; [congruence|]. split; [reflexivity|].
        exists c, (r ++ 46 :: fp). split; [reflexivity|]. simpl in Hdig. apply andb_true_iff in Hdig. tauto. }
      destruct lex as [|c b]; [discriminate|]. destruct (N.eqb_spec c 45); [subst c|].
      * destruct (Hpos b Hs 2 (or_intror eq_refl)) as [E _]. split; [|exists 45, b; auto].
        unfold scan_number. cbn [app]. change (45 =? 43) with false. change (45 =? 45) with true. cbv iota.
        destruct (scan_unsigned (b ++ rest)) as [[[[isdec ip] fp] r0]|]; [|discriminate].
        destruct isdec; [|discriminate]. exact E.
      * assert (Hs' : dec_body (c :: b) = true).
        { revert Hs. destruct c as [|p]; auto. do 6 (destruct p as [p|p|]; auto); try (exfalso; apply n; reflexivity). }
        destruct (Hpos (c :: b) Hs' 0 (or_introl eq_refl)) as [E [c' [r' [Ec Hc']]]]. inversion Ec; subst c' r'.
        pose proof (digit_range c Hc') as Hr. split; [|exists c, b; rewrite Hc'; auto].
        unfold scan_number. cbn [app].
        assert (H43 : (c =? 43) = false) by (apply N.eqb_neq; lia). rewrite H43.
        apply N.eqb_neq in n. rewrite n. change (c :: b ++ rest) with ((c :: b) ++ rest).
        destruct (scan_unsigned ((c :: b) ++ rest)) as [[[[isdec ip] fp] r0]|]; [|discriminate].
        destruct isdec; [|discriminate]. exact E.
Qed.

Lemma scan_quoted : forall st lex dt lang rest,
  term_wf (Lit lex dt lang) = true -> term_tsv_ok (Lit lex dt lang) = true -> at_empty rest = true ->
  scan_term ((quote_of st :: flat_map (esc_char st (quote_of st)) lex ++ [quote_of st]
              ++ match lang with
                 | Some l => 64 :: l
                 | None => match dt with Some d => 94 :: 94 :: 60 :: d ++ [62] | None => [] end
                 end) ++ rest) = Some (Lit lex dt lang, rest).
Proof.
  intros st lex dt lang rest Hwf Hok Hrest.
  set (q := quote_of st) in *.
  assert (Hq : q = 34 \/ q = 39) by (unfold q, quote_of; destruct (st_sq st); auto).
  assert (Hqq : ((q =? 34) || (q =? 39)) = true) by (destruct Hq as [E|E]; rewrite E; reflexivity).
  cbn [app]. unfold scan_term. rewrite Hqq. cbv iota.
  rewrite <- !app_assoc. cbn [app].
  destruct lang as [l|].
  - (* language tag *)
    destruct dt; [destruct l; discriminate|].
    simpl in Hok. rewrite andb_true_r in Hok.
    assert (Hl : l <> []) by (destruct l; [discriminate|discriminate]).
    cbn [app].
    rewrite (scan_string_esc st q lex (64 :: l ++ rest) Hq)
      by (destruct Hq as [E|E]; rewrite E; reflexivity).
    rewrite (decode_esc st q lex Hq).
    rewrite take_while_app.
    + rewrite Hok. destruct l; [congruence|reflexivity].
    + eapply lang_shape_chars; exact Hok.
    + destruct (at_empty_cases rest Hrest) as [E|[r E]]; subst; reflexivity.
  - destruct dt as [d|].
    + simpl in Hok.
      cbn [app]. rewrite <- app_assoc. cbn [app].
      rewrite (scan_string_esc st q lex (94 :: 94 :: 60 :: d ++ 62 :: rest) Hq)
        by (destruct Hq as [E|E]; rewrite E; reflexivity).
      rewrite (decode_esc st q lex Hq).
      rewrite scan_iri_ok by auto.
      unfold py_Literal. simpl in Hwf.
      change (ostr_eqb (Some d) (Some xsd_boolean)) with (str_eqb d xsd_boolean) in Hwf.
      apply negb_true_iff in Hwf. rewrite Hwf. reflexivity.
    + cbn [app].
      rewrite (scan_string_esc st q lex rest Hq)
        by (destruct (at_empty_cases rest Hrest) as [E|[r E]]; subst; [reflexivity|destruct Hq as [E|E]; rewrite E; reflexivity]).
      rewrite (decode_esc st q lex Hq).
      destruct (at_empty_cases rest Hrest) as [E|[r E]]; subst; reflexivity.
Qed.

Lemma scan_term_number : forall c r rest, (is_digit c || (c =? 45)) = true ->
  scan_term ((c :: r) ++ rest) = scan_number ((c :: r) ++ rest).
Proof.
  intros c r rest H. apply orb_true_iff in H. destruct H as [H|H].
  - pose proof (digit_range c H) as Hr. unfold scan_term. cbn [app].
    assert (H34 : (c =? 34) = false) by (apply N.eqb_neq; lia).
    assert (H39 : (c =? 39) = false) by (apply N.eqb_neq; lia).
    assert (H60 : (c =? 60) = false) by (apply N.eqb_neq; lia).
    assert (H95 : (c =? 95) = false) by (apply N.eqb_neq; lia).
    rewrite H34, H39, H60, H95, H. reflexivity.
  - apply N.eqb_eq in H. subst c. reflexivity.
Qed.

(* every term of a conformant rendering is recovered, whatever the style and the cell position *)
Theorem scan_term_render : forall st t rest,
  term_wf t = true -> term_tsv_ok t = true -> at_empty rest = true ->
  scan_term (render_term st t ++ rest) = Some (t, rest).
Proof.
  intros st t rest Hwf Hok Hrest.
  destruct t as [s|s|lex dt lang].
  - simpl in Hok. unfold render_term. cbn [app]. rewrite <- app_assoc. cbn [app].
    unfold scan_term. change ((60 =? 34) || (60 =? 39)) with false. change (60 =? 60) with true. cbv iota.
    rewrite scan_iri_ok by auto. reflexivity.
  - simpl in Hok. destruct s as [|c3 r1]; [discriminate|].
    apply andb_true_iff in Hok. destruct Hok as [Hok Hlast]. apply andb_true_iff in Hok. destruct Hok as [Hf Hr].
    unfold render_term. cbn [app]. unfold scan_term.
    change ((95 =? 34) || (95 =? 39)) with false. change (95 =? 60) with false. change (95 =? 95) with true.
    cbv iota. change (58 =? 58) with true. rewrite Hf. simpl andb. cbv iota.
    rewrite take_while_app; auto.
    + rewrite Hlast. reflexivity.
    + destruct (at_empty_cases rest Hrest) as [E|[r E]]; subst; reflexivity.
  - unfold render_term.
    assert (Hnum : forall dt', dt' = dt -> lang = None ->
              ((ostr_eqb dt (Some xsd_integer) && canonical_int lex) || bare_number lex dt) = true ->
              scan_term (lex ++ rest) = Some (Lit lex dt lang, rest)).
    { intros dt' _ El H. subst lang. destruct (scan_number_forms lex dt rest Hrest H) as [Hs [c [r [Ec Hc]]]].
      subst lex. rewrite <- Hs. apply scan_term_number. exact Hc. }
    destruct (st_bare st && ostr_eqb dt (Some xsd_integer) && ostr_eqb lang None && canonical_int lex) eqn:E1.
    + apply andb_true_iff in E1. destruct E1 as [E1 Hcan]. apply andb_true_iff in E1. destruct E1 as [E1 Hl].
      apply andb_true_iff in E1. destruct E1 as [_ Hd].
      destruct (ostr_eqb_spec lang None); [|discriminate].
      apply (Hnum dt eq_refl); auto. rewrite Hd, Hcan. reflexivity.
    + destruct (st_bare st && ostr_eqb dt (Some xsd_boolean) && ostr_eqb lang None
                && (str_eqb lex s_true || str_eqb lex s_false)) eqn:E2.
      * apply andb_true_iff in E2. destruct E2 as [E2 Hb]. apply andb_true_iff in E2. destruct E2 as [E2 Hl].
        apply andb_true_iff in E2. destruct E2 as [_ Hd].
        destruct (ostr_eqb_spec dt (Some xsd_boolean)); [subst dt|discriminate].
        destruct (ostr_eqb_spec lang None); [subst lang|discriminate].
        apply orb_true_iff in Hb. destruct Hb as [Hb|Hb]; apply str_eqb_true in Hb; subst lex;
          destruct (at_empty_cases rest Hrest) as [E|[r' E]]; subst; reflexivity.
      * destruct (st_bare st && ostr_eqb lang None && bare_number lex dt) eqn:E3.
        -- apply andb_true_iff in E3. destruct E3 as [E3 Hb]. apply andb_true_iff in E3. destruct E3 as [_ Hl].
           destruct (ostr_eqb_spec lang None); [|discriminate].
           apply (Hnum dt eq_refl); auto. rewrite Hb. apply orb_true_r.
        -- apply scan_quoted; auto.
Qed.

(* ------------------------------------------------------------------ *)
(* a whole row: ROW recovers the cells of a rendered row, bound or unbound, in order *)

Lemma render_term_head : forall st t, term_wf t = true -> term_tsv_ok t = true ->
  exists c r, render_term st t = c :: r /\ (c =? 9) = false.
Proof.
  intros st [s|s|lex dt lang] Hwf Hok.
  - exists 60, (s ++ [62]). split; reflexivity.
  - exists 95, (58 :: s). split; reflexivity.
  - unfold render_term.
    destruct (st_bare st && ostr_eqb dt (Some xsd_integer) && ostr_eqb lang None && canonical_int lex) eqn:E1.
    + apply andb_true_iff in E1. destruct E1 as [_ Hcan].
      destruct (canonical_digits lex Hcan) as [Hdig [_ Hne]]. destruct lex as [|c r]; [congruence|].
      exists c, r. split; auto. simpl in Hdig. apply andb_true_iff in Hdig. destruct Hdig as [Hc _].
      pose proof (digit_range c Hc). apply N.eqb_neq. lia.
    + destruct (st_bare st && ostr_eqb dt (Some xsd_boolean) && ostr_eqb lang None
                && (str_eqb lex s_true || str_eqb lex s_false)) eqn:E2.
      * apply andb_true_iff in E2. destruct E2 as [_ Hb]. apply orb_true_iff in Hb.
        destruct Hb as [Hb|Hb]; apply str_eqb_true in Hb; subst lex; eexists; eexists; split; reflexivity.
      * destruct (st_bare st && ostr_eqb lang None && bare_number lex dt) eqn:E3.
        -- apply andb_true_iff in E3. destruct E3 as [_ Hb].
           assert (H : (ostr_eqb dt (Some xsd_integer) && canonical_int lex) || bare_number lex dt = true)
             by (rewrite Hb; apply orb_true_r).
           destruct (scan_number_forms lex dt [] eq_refl H) as [_ [c [r [Ec Hc]]]].
           exists c, r. split; auto. apply orb_true_iff in Hc. destruct Hc as [Hc|Hc].
           ++ pose proof (digit_range c Hc). apply N.eqb_neq. lia.
           ++ apply N.eqb_eq in Hc. subst c. reflexivity.
        -- eexists; eexists; split; [reflexivity|]. unfold quote_of. destruct (st_sq st); reflexivity.
Qed.

Lemma join_tab_cons : forall x y l, join_tab (x :: y :: l) = x ++ 9 :: join_tab (y :: l).
Proof. reflexivity. Qed.

Definition cell_ok (st : style) (o : option term) : Prop :=
  match o with
  | Some t => term_wf t = true /\ term_tsv_ok t = true
  | None => True
  end.

Lemma scan_row_render : forall st cells fuel,
  (List.length cells <= fuel)%nat -> cells <> [] -> (forall o, In o cells -> cell_ok st o) ->
  scan_row fuel (join_tab (map (render_cell st) cells)) = Some cells.
Proof.
  intros st. induction cells as [|x rest IH]; intros fuel Hf Hne Hok; [congruence|].
  destruct fuel as [|f]; [simpl in Hf; lia|]. simpl in Hf. apply le_S_n in Hf.
  assert (Hx : cell_ok st x) by (apply Hok; left; auto).
  assert (Hrest : forall o, In o rest -> cell_ok st o) by (intros; apply Hok; right; auto).
  destruct rest as [|y rest'].
  - (* last cell *)
    cbn [map join_tab]. destruct x as [t|]; cbn [render_cell].
    + destruct Hx as [Hwf Htsv].
      destruct (render_term_head st t Hwf Htsv) as [c [r [E E9]]].
      cbn [scan_row]. unfold scan_cell. rewrite E. cbn [at_empty]. rewrite E9. rewrite <- E.
      rewrite <- (app_nil_r (render_term st t)). rewrite scan_term_render; auto.
    + reflexivity.
  - change (map (render_cell st) (x :: y :: rest'))
      with (render_cell st x :: render_cell st y :: map (render_cell st) rest').
    rewrite join_tab_cons.
    change (render_cell st y :: map (render_cell st) rest') with (map (render_cell st) (y :: rest')).
    specialize (IH f Hf ltac:(discriminate) Hrest).
    destruct x as [t|]; cbn [render_cell].
    + destruct Hx as [Hwf Htsv].
      destruct (render_term_head st t Hwf Htsv) as [c [r [E E9]]].
      cbn [scan_row]. unfold scan_cell.
      assert (Hae : at_empty (render_term st t ++ 9 :: join_tab (map (render_cell st) (y :: rest'))) = false)
        by (rewrite E; cbn [app at_empty]; exact E9).
      rewrite Hae. rewrite scan_term_render; auto. change (9 =? 9) with true. cbv iota. rewrite IH. reflexivity.
    + cbn [app scan_row]. unfold scan_cell. cbn [at_empty]. change (9 =? 9) with true. cbv iota.
      rewrite IH. reflexivity.
Qed.

(* zip(vars, cells) restricted to the bound cells agrees with the table row on every variable *)
Lemma lookup_zip_row : forall (f : str -> option term) vs v,
  NoDup vs -> lookup v (zip_row vs (map f vs)) = if memb str_eqb v vs then f v else None.
Proof.
  intros f. induction vs as [|x r IH]; intros v Hnd; [reflexivity|].
  inversion Hnd as [|? ? Hx Hr]; subst. cbn [map zip_row memb].
  destruct (f x) as [t|] eqn:Ef.
  - cbn [lookup]. destruct (str_eqb_spec v x); [subst; simpl; auto|]. simpl. apply IH; auto.
  - destruct (str_eqb_spec v x); simpl.
    + subst. rewrite IH by auto. rewrite Ef. destruct (memb str_eqb x r); reflexivity.
    + apply IH; auto.
Qed.

Lemma keys_zip_row : forall cells vs k, In k (keys (zip_row vs cells)) -> In k vs.
Proof.
  induction cells as [|[t|] cs IH]; intros [|v vs] k H; simpl in *; try tauto.
  - destruct H; auto.
  - right. eauto.
Qed.

(* ROW on the rendering of a table row gives its cells *)
Lemma tsv_row_scan : forall st vars r,
  vars <> [] -> (forall v, In v vars -> cell_ok st (cell v r)) ->
  scan_row (S (List.length (render_row st vars r))) (render_row st vars r) = Some (map (fun v => cell v r) vars).
Proof.
  intros st vars r Hne Hok.
  unfold render_row. rewrite <- map_map with (g := render_cell st) (f := fun v => cell v r).
  (* fuel: a row has at most one more cell than characters *)
  assert (Hlen : forall cells, cells <> [] ->
             (List.length cells <= S (List.length (join_tab (map (render_cell st) cells))))%nat).
  { induction cells as [|x [|y rest] IH]; intro H; [congruence|simpl; lia|].
    change (map (render_cell st) (x :: y :: rest))
      with (render_cell st x :: render_cell st y :: map (render_cell st) rest).
    rewrite join_tab_cons.
    change (render_cell st y :: map (render_cell st) rest) with (map (render_cell st) (y :: rest)).
    rewrite app_length. cbn [List.length]. specialize (IH ltac:(discriminate)). cbn [List.length] in IH. lia. }
  apply scan_row_render.
  - apply Hlen. destruct vars; [congruence|discriminate].
  - destruct vars; [congruence|discriminate].
  - intros o Ho. apply in_map_iff in Ho. destruct Ho as [v [E Hv]]. subst o. auto.
Qed.

Lemma zip_row_ok : forall vars r, NoDup vars -> row_ok vars r (zip_row vars (map (fun v => cell v r) vars)) = true.
Proof.
  intros vars r Hnd. unfold row_ok. apply andb_true_iff. split.
  - apply forallb_forall. intros v Hv. rewrite lookup_zip_row by auto.
    apply memb_str_In in Hv. rewrite Hv. apply oterm_eqb_refl.
  - apply forallb_forall. intros k Hk. apply memb_str_In. eapply keys_zip_row; eauto.
Qed.

(* ROW + zip on the rendering of a table row gives a dictionary that agrees with the row *)
Theorem tsv_row_ok : forall st vars r,
  vars <> [] -> NoDup vars -> (forall v, In v vars -> cell_ok st (cell v r)) ->
  exists cells, scan_row (S (List.length (render_row st vars r))) (render_row st vars r) = Some cells
                /\ row_ok vars r (zip_row vars cells) = true.
Proof.
  intros st vars r Hne Hnd Hok. exists (map (fun v => cell v r) vars). split.
  - apply tsv_row_scan; auto.
  - apply zip_row_ok; auto.
Qed.
