(* The definitions of Collection.__getitem__ / __setitem__ / __delitem__ / index /
   __iadd__ as they were BEFORE the repairs 6f3b46c5 (F3c), 2134a9f3 (F3e, F3d for
   reads and deletes), 96e75001 (F3b), 6814bca0 (F3g), kept so that the refutations
   of the property on the historical code stay checkable. *)
From RV Require Import Collection.Model.

Definition old_getitem (g : graph) (head : term) (i : Z) : res :=
  match get_container g head i with
  | Some c =>
      if truthy c then
        match g_value g c FIRST with Some v => RTerm v | None => RExc KeyError end
      else RExc IndexError
  | None => RExc IndexError
  end.

Definition old_setitem (g : graph) (head : term) (i : Z) (v : term) : graph * res :=
  match get_container g head i with
  | Some c => if truthy c then (g_set c FIRST v g, RNone) else (g, RExc IndexError)
  | None => (g, RExc IndexError)
  end.

Fixpoint old_index_f (fuel : nat) (g : graph) (listname item : term) (idx : N) : res :=
  match fuel with
  | O => RHang
  | S f =>
      if g_has (Some listname, Some FIRST, Some item) g then RNat idx
      else match g_objects g listname REST with
           | [] => RExc OtherError                    (* raise Exception("Malformed ...") *)
           | [x] => if N.eqb x NIL then RExc ValueError else old_index_f f g x item (N.succ idx)
           | _ :: _ :: _ => RExc AssertionError       (* assert len(newlink) == 1 *)
           end
  end.
Definition old_index (g : graph) (head item : term) : res := old_index_f (fuel_of g) g head item 0%N.

Definition old_delitem (g : graph) (head : term) (key : Z) : graph * res :=
  match old_getitem g head key with                      (* self[key] *)
  | RExc e => (g, RExc e)
  | _ =>
      match get_container g head key with
      | None => (g, RExc AssertionError)
      | Some current =>
          if negb (truthy current) then (g, RExc AssertionError) else
          match c_len g head with
          | RNat n =>
              if N.eqb n 1 && (0 <? key)%Z then (g, RNone)
              else if (key =? Z.of_N n - 1)%Z then
                match get_container g head (key - 1) with
                | Some prior => (g_remove (Some current, None, None) (g_set prior REST NIL g), RNone)
                | None => (g, RExc AssertionError)      (* Graph.set asserts the subject *)
                end
              else
                match get_container g head (key + 1), get_container g head (key - 1) with
                | Some next, Some prior =>
                    if truthy next && truthy prior
                    then (g_set prior REST next (g_remove (Some current, None, None) g), RNone)
                    else (g, RExc AssertionError)
                | _, _ => (g, RExc AssertionError)
                end
          | r => (g, r)                                 (* len(self) raised (or hangs) *)
          end
      end
  end.


Definition old_iadd (s : st) (head : term) (items : list term) : st * res :=
  match c_end (gr s) head with
  | None => (s, RHang)
  | Some e =>
      if N.eqb e NIL then (s, RExc ValueError) else
      let '(g1, e1, f1) :=
        fold_left iadd_step items (g_remove (Some e, Some REST, None) (gr s), e, fresh s) in
      ({| gr := g_add (e1, REST, NIL) g1; fresh := f1 |}, RNone)
  end.

(* the chain of a list over cells HEAD, 100, 101, ... *)
Definition graph_of (xs : list term) : graph :=
  init_graph {| c_init := xs; c_noise := []; c_ops := [] |}.

(* F3b: del c[0] on [1, 6] left a head cell without rdf:first *)
Lemma old_del_head :
  let g' := fst (old_delitem (graph_of [1; 6]%N) HEAD 0) in
  snd (old_delitem (graph_of [1; 6]%N) HEAD 0) = RNone /\ wf_check HEAD [6%N] g' = false
  /\ old_getitem g' HEAD 0 = RExc KeyError.
Proof. repeat split; vm_compute; reflexivity. Qed.

(* F3d (read / delete part) and F3e: c[len] raised KeyError, c[-1] was c[0],
   del c[-1] linked the head to itself *)
Lemma old_indices :
  old_getitem (graph_of [1; 6]%N) HEAD 2 = RExc KeyError /\
  old_getitem (graph_of [1; 6; 5]%N) HEAD (-1) = RTerm 1%N /\
  memb triple_eqb (HEAD, REST, HEAD) (fst (old_delitem (graph_of [1; 6; 5]%N) HEAD (-1))) = true.
Proof. repeat split; vm_compute; reflexivity. Qed.

(* F3g: += [] on the empty collection left (head rest nil) *)
Lemma old_iadd_empty :
  gr (fst (old_iadd {| gr := []; fresh := 100%N |} HEAD [])) = [(HEAD, REST, NIL)].
Proof. vm_compute. reflexivity. Qed.

(* F3c: index() of an absent item on (h first 1) (h rest h) exhausted every amount of fuel *)
Definition loop_graph : graph := [(30, 21, 1); (30, 22, 30)]%N.
Lemma old_index_loops : forall fuel idx, old_index_f fuel loop_graph HEAD 12%N idx = RHang.
Proof. induction fuel as [|f IH]; intros idx; [reflexivity|]. cbn. apply IH. Qed.

(* F3h (fixed 3075b467): c += c before the repair.  The for loop of __iadd__ pulled its items from graph.items(self.uri),
   a generator over the very chain the loop body extends: one turn of the
   generator (up to its next yield, or its end) alternates with one turn of the
   body.  None = out of fuel. *)
Fixpoint old_iadd_self_f (fuel : nat) (a : graph * term * N) (lst : option term)
         (chain : list (option term)) : option ((graph * term * N) * istop) :=
  match fuel with
  | O => None
  | S fu =>
      match lst with
      | None => Some (a, IOk)
      | Some l =>
          if truthy l then
            let a1 := match g_value (fst (fst a)) l FIRST with
                      | Some v => iadd_step a v           (* yield v; loop body *)
                      | None => a
                      end in
            let nxt := g_value (fst (fst a1)) l REST in    (* the generator resumes on the new graph *)
            if memb (opt_eqb N.eqb) nxt chain then Some (a1, ICycle)
            else old_iadd_self_f fu a1 nxt (nxt :: chain)
          else Some (a, IOk)
      end
  end.

Definition old_iadd_self (s : st) (head : term) : st * res :=
  match c_end (gr s) head with
  | None => (s, RHang)
  | Some e =>
      if N.eqb e NIL then (s, RExc ValueError) else
      match old_iadd_self_f (fuel_of (gr s)) (g_remove (Some e, Some REST, None) (gr s), e, fresh s)
                        (Some head) [Some head] with
      | None => (s, RHang)
      | Some ((g1, e1, f1), IOk) =>
          ({| gr := if g_has (Some e1, Some FIRST, None) g1 then g_add (e1, REST, NIL) g1 else g1;
              fresh := f1 |}, RNone)
      | Some ((g1, e1, f1), _) => ({| gr := g1; fresh := f1 |}, RExc ValueError)
      end
  end.


(* on the one-element list [1] the old c += c runs out of the model's fuel
   (on rdflib: it never returned and the graph grew without bound) *)
Lemma old_iadd_self_hangs :
  snd (old_iadd_self {| gr := graph_of [1%N]; fresh := 100%N |} HEAD) = RHang /\
  snd (old_iadd_self {| gr := graph_of [1; 6; 5]%N; fresh := 102%N |} HEAD) = RHang.
Proof. split; vm_compute; reflexivity. Qed.
