(* Model of rdflib/collection.py (Collection) and of the Graph methods it uses
   (Graph.value / objects / __contains__ / add / remove / set / items) over a
   graph modelled as an insertion-ordered duplicate-free list of triples: the
   default store iterates spo[s][p] in insertion order, so "Graph.value = first
   match" is what the list gives.  The code is mirrored statement by statement,
   including Python truthiness ([if c:], [while list:]) and the loops without a
   cycle guard ([_end], [index]), which take fuel; running out of fuel is the
   distinguished result [RHang] (a hang of the real code, observed by the
   harness through a per-operation time limit).  No proofs in this file. *)
From RV Require Export Base.Quads.
From Coq Require Export ZArith.

Definition graph := list triple.

(* fixed numbering shared with harness/c19.py *)
Definition NIL : term := 20%N.     (* rdf:nil *)
Definition FIRST : term := 21%N.   (* rdf:first *)
Definition REST : term := 22%N.    (* rdf:rest *)
Definition HEAD : term := 30%N.    (* the collection's uri (a blank node) *)

(* bool(term): of the terms that cross the boundary exactly Literal(""),
   Literal(0), Literal(False), Literal(0.0) are falsy (ids 5 6 7 14; the
   harness asserts this table against the real terms at import time) *)
Definition truthy (t : term) : bool :=
  negb (N.eqb t 5 || N.eqb t 6 || N.eqb t 7 || N.eqb t 14).

(* ---------------------------------------------------------------- Graph *)
Definition subj (t : triple) : term := fst (fst t).
Definition pred (t : triple) : term := snd (fst t).
Definition obj (t : triple) : term := snd t.

Definition g_add (t : triple) (g : graph) : graph := sadd triple_eqb t g.
Definition g_remove (p : pat) (g : graph) : graph := filter (fun t => negb (matches p t)) g.
Definition g_has (p : pat) (g : graph) : bool := existsb (matches p) g.
(* list(graph.objects(s, p)): insertion order *)
Definition g_objects (g : graph) (s p : term) : list term :=
  map obj (filter (matches (Some s, Some p, None)) g).
(* Graph.value(s, p): next(objects) or None *)
Definition g_value (g : graph) (s p : term) : option term := hd_error (g_objects g s p).
(* Graph.set: remove (s, p, None) then add *)
Definition g_set (s p o : term) (g : graph) : graph :=
  g_add (s, p, o) (g_remove (Some s, Some p, None) g).

(* ---------------------------------------------------------------- results *)
Inductive exc := IndexError | KeyError | ValueError | AssertionError | OtherError.
Inductive res :=
| RNone | RTerm (t : term) | RNat (n : N) | RBool (b : bool) | RList (l : list term)
| RExc (e : exc) | RHang.

Definition exc_eqb (a b : exc) : bool :=
  match a, b with
  | IndexError, IndexError | KeyError, KeyError | ValueError, ValueError
  | AssertionError, AssertionError | OtherError, OtherError => true
  | _, _ => false
  end.

Definition res_eqb (a b : res) : bool :=
  match a, b with
  | RNone, RNone => true
  | RTerm x, RTerm y => N.eqb x y
  | RNat x, RNat y => N.eqb x y
  | RBool x, RBool y => Bool.eqb x y
  | RList x, RList y => list_eqb N.eqb x y
  | RExc x, RExc y => exc_eqb x y
  | RHang, RHang => true
  | _, _ => false
  end.

(* ---------------------------------------------------------------- Graph.items *)
Inductive istop := IOk | ICycle | IHang.

(* the generator: the items yielded, and how the walk ended.  [chain] is the
   Python set of visited nodes (None can get into it). *)
Fixpoint items_f (fuel : nat) (g : graph) (lst : option term) (chain : list (option term))
  : list term * istop :=
  match fuel with
  | O => ([], IHang)
  | S f =>
      match lst with
      | None => ([], IOk)                                  (* while list: *)
      | Some l =>
          if truthy l then
            let nxt := g_value g l REST in
            let '(ys, e) :=
              if memb (opt_eqb N.eqb) nxt chain then ([], ICycle)
              else items_f f g nxt (nxt :: chain) in
            (match g_value g l FIRST with Some v => v :: ys | None => ys end, e)
          else ([], IOk)
      end
  end.

Definition fuel_of (g : graph) : nat := S (S (S (length g))).

Definition c_items (g : graph) (head : term) : list term * istop :=
  items_f (fuel_of g) g (Some head) [Some head].

Definition stop_res (e : istop) (ok : res) : res :=
  match e with IOk => ok | ICycle => RExc ValueError | IHang => RHang end.

(* list(c) *)
Definition c_iter (g : graph) (head : term) : res :=
  let '(ys, e) := c_items g head in stop_res e (RList ys).
(* len(c) = len(list(graph.items(uri))) *)
Definition c_len (g : graph) (head : term) : res :=
  let '(ys, e) := c_items g head in stop_res e (RNat (N.of_nat (length ys))).
(* x in c: no __contains__, Python iterates the generator lazily *)
Definition c_contains (g : graph) (head v : term) : res :=
  let '(ys, e) := c_items g head in
  if memb N.eqb v ys then RBool true else stop_res e (RBool false).

(* ---------------------------------------------------------------- Collection *)
(* _get_container: at most [index] steps, so no fuel is needed *)
Fixpoint container_n (g : graph) (c : term) (k : nat) : option term :=
  match k with
  | O => Some c
  | S k' => match g_value g c REST with Some r => container_n g r k' | None => None end
  end.
Definition get_container (g : graph) (head : term) (i : Z) : option term :=
  container_n g head (Z.to_nat i).

(* key normalisation shared by __getitem__ / __setitem__ / __delitem__:
   if key < 0: key += len(self); if key < 0: raise IndexError.
   inl = the key to go on with, inr = the call ends with this result *)
Definition c_norm (g : graph) (head : term) (key : Z) : Z + res :=
  if (key <? 0)%Z then
    match c_len g head with
    | RNat n => let k := (key + Z.of_N n)%Z in
                if (k <? 0)%Z then inr (RExc IndexError) else inl k
    | r => inr r                                       (* len(self) raised *)
    end
  else inl key.

Definition c_getitem (g : graph) (head : term) (i : Z) : res :=
  match c_norm g head i with
  | inr r => r
  | inl key =>
      match get_container g head key with
      | Some c =>
          (* c is not None and c != RDF.nil and (c, RDF.first, None) in graph *)
          if negb (N.eqb c NIL) && g_has (Some c, Some FIRST, None) g then
            match g_value g c FIRST with Some v => RTerm v | None => RExc KeyError end
          else RExc IndexError
      | None => RExc IndexError
      end
  end.

(* __setitem__ still tests "if c:" (pinned by test_owlrdfproxylist), finding F3d *)
Definition c_setitem (g : graph) (head : term) (i : Z) (v : term) : graph * res :=
  match c_norm g head i with
  | inr r => (g, r)
  | inl key =>
      match get_container g head key with
      | Some c => if truthy c then (g_set c FIRST v g, RNone) else (g, RExc IndexError)
      | None => (g, RExc IndexError)
      end
  end.

(* index() with its [seen] set *)
Fixpoint index_f (fuel : nat) (g : graph) (listname item : term) (idx : N) (seen : list term) : res :=
  match fuel with
  | O => RHang
  | S f =>
      if g_has (Some listname, Some FIRST, Some item) g then RNat idx
      else match g_objects g listname REST with
           | [] => RExc OtherError                    (* raise Exception("Malformed ...") *)
           | [x] => if N.eqb x NIL then RExc ValueError
                    else if memb N.eqb x seen then RExc ValueError   (* recursive rdf:rest *)
                    else index_f f g x item (N.succ idx) (x :: seen)
           | _ :: _ :: _ => RExc AssertionError       (* assert len(newlink) == 1 *)
           end
  end.
Definition c_index (g : graph) (head item : term) : res :=
  index_f (fuel_of g) g head item 0%N [head].

Definition c_delitem (g : graph) (head : term) (key0 : Z) : graph * res :=
  match c_norm g head key0 with
  | inr r => (g, r)
  | inl key =>
  match c_getitem g head key with                      (* self[key] *)
  | RExc e => (g, RExc e)
  | RHang => (g, RHang)
  | _ =>
      match get_container g head key with
      | None => (g, RExc AssertionError)
      | Some current =>
          if negb (truthy current) then (g, RExc AssertionError) else
          match c_len g head with
          | RNat n =>
              if N.eqb n 1 && (0 <? key)%Z then (g, RNone)
              else if (key =? Z.of_N n - 1)%Z then
                match get_container g head (key - 1) with
                | Some prior => (g_remove (Some current, None, None) (g_set prior REST NIL g), RNone)
                | None => (g, RExc AssertionError)      (* Graph.set asserts the subject *)
                end
              else if (key =? 0)%Z then
                (* move the second cell's content into the head, drop the second cell *)
                match get_container g head 1 with
                | None => ([], RExc AssertionError)     (* remove((None, None, None)), then set(.., None) asserts *)
                | Some nxt =>
                    let g1 := g_remove (Some nxt, None, None) g in
                    match g_value g nxt FIRST with
                    | None => (g_remove (Some current, Some FIRST, None) g1, RExc AssertionError)
                    | Some fi =>
                        let g2 := g_set current FIRST fi g1 in
                        match g_value g nxt REST with
                        | None => (g_remove (Some current, Some REST, None) g2, RExc AssertionError)
                        | Some re => (g_set current REST re g2, RNone)
                        end
                    end
                end
              else
                match get_container g head (key + 1), get_container g head (key - 1) with
                | Some next, Some prior =>
                    if truthy next && truthy prior
                    then (g_set prior REST next (g_remove (Some current, None, None) g), RNone)
                    else (g, RExc AssertionError)
                | _, _ => (g, RExc AssertionError)
                end
          | r => (g, r)                                 (* len(self) raised (or hangs) *)
          end
      end
  end
  end.

(* _end: None = out of fuel *)
Fixpoint end_f (fuel : nat) (g : graph) (container : term) : option term :=
  match fuel with
  | O => None
  | S f =>
      match g_value g container REST with
      | None => Some container
      | Some r => if N.eqb r NIL then Some container else end_f f g r
      end
  end.
Definition c_end (g : graph) (head : term) : option term := end_f (fuel_of g) g head.

Record st := { gr : graph; fresh : N }.   (* fresh: the next BNode() *)

Definition c_append (s : st) (head item : term) : st * res :=
  match c_end (gr s) head with
  | None => (s, RHang)
  | Some e =>
      if N.eqb e NIL then (s, RExc ValueError) else
      let '(g1, e1, f1) :=
        if g_has (Some e, Some FIRST, None) (gr s)
        then (g_set e REST (fresh s) (gr s), fresh s, N.succ (fresh s))
        else (gr s, e, fresh s) in
      ({| gr := g_add (e1, REST, NIL) (g_add (e1, FIRST, item) g1); fresh := f1 |}, RNone)
  end.

(* one turn of the loop of __iadd__ *)
Definition iadd_step (a : graph * term * N) (item : term) : graph * term * N :=
  let '(g, e, f) := a in
  let '(g1, e1, f1) :=
    if g_has (Some e, Some FIRST, None) g then (g_add (e, REST, f) g, f, N.succ f) else (g, e, f) in
  (g_add (e1, FIRST, item) g1, e1, f1).

Definition c_iadd (s : st) (head : term) (items : list term) : st * res :=
  match c_end (gr s) head with
  | None => (s, RHang)
  | Some e =>
      if N.eqb e NIL then (s, RExc ValueError) else
      let '(g1, e1, f1) :=
        fold_left iadd_step items (g_remove (Some e, Some REST, None) (gr s), e, fresh s) in
      ({| gr := if g_has (Some e1, Some FIRST, None) g1 then g_add (e1, REST, NIL) g1 else g1;
          fresh := f1 |}, RNone)
  end.

(* c += c (also c += iter(c), c += Collection(g, c.uri)): since 3075b467 __iadd__
   starts with "other = list(other)", so the argument - here list(graph.items(uri)) -
   is evaluated completely (and may raise ValueError on a cyclic chain) before
   the chain is opened *)
Definition c_iadd_self (s : st) (head : term) : st * res :=
  match c_iter (gr s) head with
  | RList ys => c_iadd s head ys
  | r => (s, r)
  end.

(* clear: every turn with a rest link removes a triple, so length g + 1 turns
   are always enough; fuel only makes the recursion structural *)
Fixpoint clear_f (fuel : nat) (g : graph) (container : option term) : option graph :=
  match fuel with
  | O => None
  | S f =>
      match container with
      | None => Some g
      | Some c =>
          let rest := g_value g c REST in
          clear_f f (g_remove (Some c, Some REST, None) (g_remove (Some c, Some FIRST, None) g)) rest
      end
  end.
Definition c_clear (g : graph) (head : term) : graph * res :=
  match clear_f (fuel_of g) g (Some head) with Some g' => (g', RNone) | None => (g, RHang) end.

(* ---------------------------------------------------------------- histories *)
Inductive op :=
| OGet (i : Z) | OSet (i : Z) (v : term) | ODel (i : Z)
| OAppend (v : term) | OIadd (vs : list term) | OClear
| OLen | OIter | OIndex (v : term) | OContains (v : term)
| OInit (vs : list term)     (* Collection(graph, uri, vs) on the node that already heads the list *)
| ON3                        (* c.n3(): the members in the order of iteration *)
| OIaddSelf.                 (* c += c *)

Definition with_g (s : st) (gr' : graph * res) : st * res :=
  ({| gr := fst gr'; fresh := fresh s |}, snd gr').

Definition c_step (head : term) (s : st) (o : op) : st * res :=
  match o with
  | OGet i => (s, c_getitem (gr s) head i)
  | OSet i v => with_g s (c_setitem (gr s) head i v)
  | ODel i => with_g s (c_delitem (gr s) head i)
  | OAppend v => c_append s head v
  | OIadd vs => c_iadd s head vs
  | OClear => with_g s (c_clear (gr s) head)
  | OLen => (s, c_len (gr s) head)
  | OIter => (s, c_iter (gr s) head)
  | OIndex v => (s, c_index (gr s) head v)
  | OContains v => (s, c_contains (gr s) head v)
  | OInit vs => match vs with [] => (s, RNone) | _ => c_iadd s head vs end   (* if seq: self += seq *)
  | ON3 => (s, c_iter (gr s) head)
  | OIaddSelf => c_iadd_self s head
  end.

Definition is_exc (r : res) : bool := match r with RExc _ => true | _ => false end.
Definition is_hang (r : res) : bool := match r with RHang => true | _ => false end.

(* what the harness looks at after every operation *)
Record snap := {
  s_res : res;               (* the operation's own result *)
  s_items : res;             (* list(c) *)
  s_len : res;               (* len(c) *)
  s_gets : list res;         (* c[i] for i in range(len(c)) *)
  s_triples : list triple    (* every triple of the graph *)
}.

Definition gets_of (g : graph) (head : term) : list res :=
  match c_len g head with
  | RNat n => map (fun k => c_getitem g head (Z.of_nat k)) (seq 0 (N.to_nat n))
  | _ => []
  end.

Definition snap_of (head : term) (s : st) (r : res) : snap :=
  {| s_res := r; s_items := c_iter (gr s) head; s_len := c_len (gr s) head;
     s_gets := gets_of (gr s) head; s_triples := gr s |}.

Definition hang_snap : snap :=
  {| s_res := RHang; s_items := RHang; s_len := RHang; s_gets := []; s_triples := [] |}.

Fixpoint c_run (head : term) (s : st) (ops : list op) : list snap :=
  match ops with
  | [] => []
  | o :: r => let '(s', x) := c_step head s o in
              if is_hang x then [hang_snap]     (* nothing can be observed after a hang; the history ends *)
              else snap_of head s' x :: c_run head s' r
  end.

(* the rdf:first / rdf:rest triples of a list whose cells and members are
   [pairs], the last cell pointing to [tl] *)
Definition hd_cell (l : list (term * term)) (tl : term) : term :=
  match l with [] => tl | (c, _) :: _ => c end.
Fixpoint chainT (l : list (term * term)) (tl : term) : list triple :=
  match l with
  | [] => []
  | (c, x) :: r => (c, FIRST, x) :: (c, REST, hd_cell r tl) :: chainT r tl
  end.

(* initial cells: the head, then 100, 101, ... *)
Definition CELL0 : N := 100%N.
Fixpoint cells_from (k : N) (n : nat) : list term :=
  match n with O => [] | S n' => k :: cells_from (N.succ k) n' end.
Definition init_cells (n : nat) : list term :=
  match n with O => [] | S n' => HEAD :: cells_from CELL0 n' end.

Record case := { c_init : list term; c_noise : list triple; c_ops : list op }.

Definition init_graph (c : case) : graph :=
  fold_left (fun g t => g_add t g)
            (chainT (combine (init_cells (length (c_init c))) (c_init c)) NIL)
            (fold_left (fun g t => g_add t g) (c_noise c) []).
Definition init_st (c : case) : st :=
  {| gr := init_graph c; fresh := (CELL0 + N.of_nat (length (c_init c)))%N |}.

Definition model_obs (c : case) : list snap := c_run HEAD (init_st c) (c_ops c).

Definition tseteqb := seteqb triple_eqb.
Definition snap_eqb (a b : snap) : bool :=
  res_eqb (s_res a) (s_res b) && res_eqb (s_items a) (s_items b) && res_eqb (s_len a) (s_len b)
  && list_eqb res_eqb (s_gets a) (s_gets b) && tseteqb (s_triples a) (s_triples b).
Definition obs_eqb (a b : list snap) : bool := list_eqb snap_eqb a b.

(* ------------------------------------------------------------------ *)
(* Specification: a Python list, and well-formedness of the chain.     *)

(* Python index normalisation for a list of length n *)
Definition norm_index (n : nat) (i : Z) : option nat :=
  if (i <? 0)%Z then
    (if (- Z.of_nat n <=? i)%Z then Some (Z.to_nat (Z.of_nat n + i)) else None)
  else if (i <? Z.of_nat n)%Z then Some (Z.to_nat i) else None.

Fixpoint set_nth (k : nat) (v : term) (l : list term) : list term :=
  match l, k with
  | [], _ => []
  | _ :: r, O => v :: r
  | x :: r, S k' => x :: set_nth k' v r
  end.
Fixpoint remove_nth (k : nat) (l : list term) : list term :=
  match l, k with
  | [], _ => []
  | _ :: r, O => r
  | x :: r, S k' => x :: remove_nth k' r
  end.
Fixpoint index_of (v : term) (l : list term) : option N :=
  match l with
  | [] => None
  | x :: r => if N.eqb x v then Some 0%N
              else match index_of v r with Some k => Some (N.succ k) | None => None end
  end.

(* what a Python list does *)
Definition lstep (xs : list term) (o : op) : list term * res :=
  match o with
  | OGet i => (xs, match norm_index (length xs) i with
                   | Some k => RTerm (nth k xs 0%N) | None => RExc IndexError end)
  | OSet i v => match norm_index (length xs) i with
                | Some k => (set_nth k v xs, RNone) | None => (xs, RExc IndexError) end
  | ODel i => match norm_index (length xs) i with
              | Some k => (remove_nth k xs, RNone) | None => (xs, RExc IndexError) end
  | OAppend v => (xs ++ [v], RNone)
  | OIadd vs => (xs ++ vs, RNone)
  | OClear => ([], RNone)
  | OLen => (xs, RNat (N.of_nat (length xs)))
  | OIter => (xs, RList xs)
  | OIndex v => (xs, match index_of v xs with
                     | Some k => RNat k
                     | None => RExc (match xs with [] => OtherError | _ => ValueError end)
                       (* list.index raises ValueError; so does rdflib, except on an EMPTY collection,
                          where it raises a bare Exception("Malformed RDF Collection") - deviation D1,
                          in the class of the exception only, demanded here exactly as it is *)
                     end)
  | OContains v => (xs, RBool (memb N.eqb v xs))
  | OInit vs => (xs ++ vs, RNone)
  | ON3 => (xs, RList xs)
  | OIaddSelf => (xs ++ xs, RNone)
  end.

(* the result demanded of an operation: exactly the one [lstep] gives, exception class included *)
Definition res_ok (o : op) (expected got : res) : bool := res_eqb expected got.

Definition is_fr (t : triple) : bool := N.eqb (pred t) FIRST || N.eqb (pred t) REST.

(* find the cells of a list of [length xs] members by following rest links *)
Fixpoint walk (T : list triple) (c : term) (xs : list term) : option (list (term * term)) :=
  match xs with
  | [] => Some []
  | x :: r =>
      match r with
      | [] => Some [(c, x)]
      | _ => match g_value T c REST with
             | Some nx => match walk T nx r with Some l => Some ((c, x) :: l) | None => None end
             | None => None
             end
      end
  end.

(* T's first/rest triples are exactly a chain head -> ... -> nil carrying xs,
   its cells distinct and different from nil; for the empty list: no first/rest
   triple at all (so no orphan cell either) *)
Definition wf_check (head : term) (xs : list term) (T : list triple) : bool :=
  match xs with
  | [] => forallb (fun t => negb (is_fr t)) T
  | _ => match walk T head xs with
         | Some pairs =>
             nodupb N.eqb (map fst pairs) && negb (memb N.eqb NIL (map fst pairs))
             && tseteqb (filter is_fr T) (chainT pairs NIL)
         | None => false
         end
  end.

(* Subjects that can never be a cell of the collection under test: everything
   below CELL0 except the head (and rdf:nil, which must stay without first/rest
   triples).  The graph may hold any triples with such subjects - other
   collections (also with a tail leading into this one), nested lists used as
   members, unrelated statements; they are the FRAME: no operation may touch them. *)
Definition frozen (s : term) : bool :=
  negb (N.eqb s HEAD) && negb (N.eqb s NIL) && N.ltb s CELL0.
Definition own_part (fz : term -> bool) (T : list triple) : list triple :=
  filter (fun t => negb (fz (subj t))) T.
Definition frame_part (fz : term -> bool) (T : list triple) : list triple :=
  filter (fun t => fz (subj t)) T.

(* after an operation: list(c), len(c), every c[i]; the triples whose subject is
   not frozen, restricted to first/rest, are exactly the chain of xs; the triples
   with a frozen subject are those the graph started with *)
Definition snap_ok (noise : list triple) (head : term) (xs : list term) (sn : snap) : bool :=
  res_eqb (s_items sn) (RList xs) && res_eqb (s_len sn) (RNat (N.of_nat (length xs)))
  && list_eqb res_eqb (s_gets sn) (map RTerm xs)
  && wf_check head xs (own_part frozen (s_triples sn))
  && tseteqb (frame_part frozen (s_triples sn)) (frame_part frozen noise).

Fixpoint spec_run (noise : list triple) (head : term) (xs : list term) (ops : list op) (obs : list snap) : bool :=
  match ops, obs with
  | [], [] => true
  | o :: r, sn :: obs' =>
      let '(xs', e) := lstep xs o in
      res_ok o e (s_res sn) && snap_ok noise head xs' sn && spec_run noise head xs' r obs'
  | _, _ => false
  end.

Definition spec_ok (c : case) (obs : list snap) : bool :=
  spec_run (c_noise c) HEAD (c_init c) (c_ops c) obs.

(* cases in scope: a noise triple whose subject is not frozen (the head, rdf:nil, a
   cell) does not use rdf:first / rdf:rest *)
Definition wfb (c : case) : bool :=
  forallb (fun t => frozen (subj t) || negb (is_fr t)) (c_noise c).

(* ---------------------------------------------------------------- known findings *)
(* the one remaining trigger region, stated on the Python list the history produces:
   2 (F3d) c[i] = v with i = len(c) *)
Definition kf_op (xs : list term) (o : op) : N :=
  match o with
  | OSet i _ => if (i =? Z.of_nat (length xs))%Z then 2%N else 0%N
  | _ => 0%N
  end.
Fixpoint kf_run (xs : list term) (ops : list op) : N :=
  match ops with
  | [] => 0%N
  | o :: r => if N.eqb (kf_op xs o) 0 then kf_run (fst (lstep xs o)) r else kf_op xs o
  end.
Definition kf (c : case) : N := kf_run (c_init c) (c_ops c).

(* ------------------------------------------------------------------ *)
(* Reads on arbitrary (cyclic, broken, forked) chains.                 *)

Record rcase := { r_graph : list triple; r_ops : list op }.

Definition is_read (o : op) : bool :=
  match o with OGet _ | OLen | OIter | OIndex _ | OContains _ | ON3 => true | _ => false end.

Definition r_model (c : rcase) : list res :=
  map (fun o => snd (c_step HEAD {| gr := r_graph c; fresh := 1000%N |} o)) (r_ops c).

Definition r_obs_eqb (a b : list res) : bool := list_eqb res_eqb a b.

(* following the first rest link from the head comes back to a node already
   visited.  [stop_falsy]: the walk ends at a falsy node (Python's "while list:"
   in Graph.items); None = out of fuel ([length g + 3] turns are always enough,
   see Proofs). *)
Fixpoint cyclic_f (stop_falsy : bool) (fuel : nat) (g : graph) (c : term) (seen : list term)
  : option bool :=
  match fuel with
  | O => None
  | S f =>
      if stop_falsy && negb (truthy c) then Some false else
      match g_value g c REST with
      | None => Some false
      | Some r => if memb N.eqb r seen then Some true else cyclic_f stop_falsy f g r (r :: seen)
      end
  end.
(* the chain Graph.items walks (it stops at a falsy node) is cyclic *)
Definition cyclic_iter (g : graph) (head : term) : bool :=
  match cyclic_f true (fuel_of g) g head [head] with Some b => b | None => false end.
(* the node at which following the first rest link from the head stops (no rest
   link, or a falsy node, where "while list:" ends); None = the walk is cyclic *)
Fixpoint end_of (fuel : nat) (g : graph) (c : term) (seen : list term) : option term :=
  match fuel with
  | O => None
  | S f =>
      if negb (truthy c) then Some c else
      match g_value g c REST with
      | None => Some c
      | Some r => if memb N.eqb r seen then None else end_of f g r (r :: seen)
      end
  end.
(* BROKEN chain: the walk stops at a node that is not rdf:nil (and the collection is
   not simply empty, i.e. a head without rdf:first and rdf:rest) *)
Definition broken (g : graph) (head : term) : bool :=
  match end_of (fuel_of g) g head [head] with
  | Some e => negb (N.eqb e NIL) && (negb (N.eqb e head) || g_has (Some head, Some FIRST, None) g)
  | None => false
  end.

(* no read hangs (index() included); on a cyclic chain list(c), len(c), n3() raise;
   on a broken chain list(c), len(c), n3() raise, and "x in c" raises unless it finds x *)
Definition r_ok (g : graph) (o : op) (r : res) : bool :=
  negb (is_hang r)
  && match o with
     | OIter | OLen | ON3 => if cyclic_iter g HEAD || broken g HEAD then is_exc r else true
     | OContains _ => if broken g HEAD then is_exc r || res_eqb r (RBool true) else true
     | _ => true
     end.
Fixpoint r_run (g : graph) (ops : list op) (obs : list res) : bool :=
  match ops, obs with
  | [], [] => true
  | o :: r, x :: obs' => r_ok g o x && r_run g r obs'
  | _, _ => false
  end.
Definition r_spec (c : rcase) (obs : list res) : bool := r_run (r_graph c) (r_ops c) obs.

Definition r_wfb (c : rcase) : bool := forallb is_read (r_ops c).

(* trigger 1 (F3i): iteration / len / n3 / an unsuccessful membership test on a BROKEN
   chain end silently (truncated list, False) instead of raising *)
Definition r_kf (c : rcase) : N :=
  if broken (r_graph c) HEAD
     && existsb (fun o => match o with OIter | OLen | ON3 | OContains _ => true | _ => false end) (r_ops c)
  then 1%N else 0%N.
