(* Reads on arbitrary graphs (cyclic, broken, forked chains): Graph.items
   always terminates thanks to its [chain] set, raises on a cyclic chain, and
   index() terminates whenever the rest links do not loop. *)
From RV Require Import Collection.Model.
From Coq Require Import Lia.

Lemma value_in g s p r : g_value g s p = Some r -> exists t, In t g /\ obj t = r.
Proof.
  unfold g_value, g_objects.
  destruct (filter (matches (Some s, Some p, None)) g) as [|t l] eqn:E; simpl; [discriminate|].
  intros H. inversion H; subst. exists t. split; auto.
  assert (Hin : In t (filter (matches (Some s, Some p, None)) g)) by (rewrite E; now left).
  apply filter_In in Hin. tauto.
Qed.

(* everything that can ever enter the [chain] set of Graph.items *)
Definition dom (g : graph) (head : term) : list (option term) :=
  None :: Some head :: map (fun t => Some (obj t)) g.

Lemma value_dom g head s p : In (g_value g s p) (dom g head).
Proof.
  destruct (g_value g s p) as [r|] eqn:E; [|now left].
  apply value_in in E. destruct E as [t [Ht <-]]. right. right.
  apply in_map_iff. exists t. auto.
Qed.

(* pigeonhole: the visited set is duplicate-free and drawn from [dom] *)
Lemma items_no_hang g head : forall fuel lst chain,
  NoDup chain -> incl chain (dom g head) -> (length (dom g head) < fuel + length chain)%nat ->
  snd (items_f fuel g lst chain) <> IHang.
Proof.
  induction fuel as [|f IH]; intros lst chain Hn Hi Hl.
  - exfalso. apply NoDup_incl_length in Hi; auto. lia.
  - cbn [items_f]. destruct lst as [l|]; [|simpl; discriminate].
    destruct (truthy l); [|simpl; discriminate].
    destruct (memb (opt_eqb N.eqb) (g_value g l REST) chain) eqn:Em.
    + destruct (g_value g l FIRST); simpl; discriminate.
    + assert (H : snd (items_f f g (g_value g l REST) (g_value g l REST :: chain)) <> IHang).
      { apply IH.
        - constructor; auto. now apply (memb_false _ (opt_eqb_spec _ N.eqb_spec)).
        - intros o [<-|Ho]; [apply value_dom|auto].
        - cbn [length]. lia. }
      destruct (items_f f g (g_value g l REST) (g_value g l REST :: chain)) as [ys e].
      destruct (g_value g l FIRST); simpl in *; auto.
Qed.

Lemma c_items_total g head : snd (c_items g head) <> IHang.
Proof.
  unfold c_items. apply (items_no_hang g head).
  - constructor; [simpl; tauto|constructor].
  - intros o [<-|[]]. right. now left.
  - unfold dom, fuel_of. simpl. rewrite map_length. lia.
Qed.

Lemma stop_res_hang e r : e <> IHang -> r <> RHang -> stop_res e r <> RHang.
Proof. destruct e; simpl; congruence. Qed.

Lemma iter_total g head : c_iter g head <> RHang.
Proof.
  unfold c_iter. pose proof (c_items_total g head) as H. destruct (c_items g head) as [ys e].
  apply stop_res_hang; [exact H|discriminate].
Qed.
Lemma len_total g head : c_len g head <> RHang.
Proof.
  unfold c_len. pose proof (c_items_total g head) as H. destruct (c_items g head) as [ys e].
  apply stop_res_hang; [exact H|discriminate].
Qed.
Lemma contains_total g head v : c_contains g head v <> RHang.
Proof.
  unfold c_contains. pose proof (c_items_total g head) as H. destruct (c_items g head) as [ys e].
  destruct (memb N.eqb v ys); [discriminate|]. apply stop_res_hang; [exact H|discriminate].
Qed.
Lemma getitem_total g head i : c_getitem g head i <> RHang.
Proof.
  unfold c_getitem. destruct (get_container g head i) as [c|]; [|discriminate].
  destruct (truthy c); [|discriminate]. destruct (g_value g c FIRST); discriminate.
Qed.

(* a cyclic chain makes the generator raise *)
Lemma memb_some r seen : memb (opt_eqb N.eqb) (Some r) (map Some seen) = memb N.eqb r seen.
Proof. induction seen as [|a l IH]; simpl; auto. now rewrite IH. Qed.

Lemma cyc_items g : forall fuel c seen,
  cyclic_f true fuel g c seen = Some true ->
  snd (items_f fuel g (Some c) (map Some seen)) = ICycle.
Proof.
  induction fuel as [|f IH]; intros c seen; [discriminate|].
  cbn [cyclic_f items_f]. destruct (truthy c); cbn [negb andb]; [|discriminate].
  destruct (g_value g c REST) as [r|] eqn:Er; [|discriminate].
  rewrite memb_some. destruct (memb N.eqb r seen).
  - intros _. destruct (g_value g c FIRST); reflexivity.
  - intros H. apply IH in H. change (Some r :: map Some seen) with (map Some (r :: seen)).
    destruct (items_f f g (Some r) (map Some (r :: seen))) as [ys e].
    destruct (g_value g c FIRST); simpl in *; auto.
Qed.

(* index() terminates when the rest links do not loop *)
Lemma acyclic_index g v : forall fuel c seen idx,
  cyclic_f false fuel g c seen = Some false -> index_f fuel g c v idx <> RHang.
Proof.
  induction fuel as [|f IH]; intros c seen idx; [discriminate|].
  cbn [cyclic_f index_f andb]. destruct (g_has (Some c, Some FIRST, Some v) g); [discriminate|].
  unfold g_value. destruct (g_objects g c REST) as [|x [|y r]]; simpl; try discriminate.
  destruct (memb N.eqb x seen); [discriminate|].
  intros H. destruct (N.eqb x NIL); [discriminate|]. now apply (IH _ _ (N.succ idx)) in H.
Qed.

(* ------------------------------------------------------------------ *)
(* the reads suite: what the conformance check evaluates               *)

Lemma r_ok_model g ops o :
  In o ops -> is_read o = true ->
  (cyclic_rest g HEAD = false \/ existsb (fun o => match o with OIndex _ => true | _ => false end) ops = false) ->
  r_ok g o (snd (c_step HEAD {| gr := g; fresh := 1000%N |} o)) = true.
Proof.
  intros Hin Hr Hk. unfold r_ok.
  assert (Hc : cyclic_iter g HEAD = true -> snd (c_items g HEAD) = ICycle).
  { unfold cyclic_iter, c_items. intros H.
    destruct (cyclic_f true (fuel_of g) g HEAD [HEAD]) as [[|]|] eqn:E; try discriminate.
    apply (cyc_items g _ _ [HEAD] E). }
  destruct o; try discriminate; cbn [c_step snd gr].
  - (* c[i] *) rewrite andb_true_r. apply negb_true_iff.
    pose proof (getitem_total g HEAD i). destruct (c_getitem g HEAD i); auto; congruence.
  - (* len *) pose proof (len_total g HEAD) as Ht. unfold c_len in *.
    destruct (cyclic_iter g HEAD).
    + rewrite (surjective_pairing (c_items g HEAD)), (Hc eq_refl). reflexivity.
    + rewrite andb_true_r. apply negb_true_iff.
      destruct (c_items g HEAD) as [ys e]. destruct e; simpl in *; congruence.
  - (* list(c) *) pose proof (iter_total g HEAD) as Ht. unfold c_iter in *.
    destruct (cyclic_iter g HEAD).
    + rewrite (surjective_pairing (c_items g HEAD)), (Hc eq_refl). reflexivity.
    + rewrite andb_true_r. apply negb_true_iff.
      destruct (c_items g HEAD) as [ys e]. destruct e; simpl in *; congruence.
  - (* index *) rewrite andb_true_r. apply negb_true_iff.
    destruct Hk as [Hk|Hk].
    + unfold cyclic_rest in Hk.
      destruct (cyclic_f false (fuel_of g) g HEAD [HEAD]) as [[|]|] eqn:E; try discriminate.
      pose proof (acyclic_index g v _ _ _ 0%N E) as Hi. unfold c_index.
      destruct (index_f (fuel_of g) g HEAD v 0); auto; congruence.
    + exfalso. assert (Hx : existsb (fun o => match o with OIndex _ => true | _ => false end) ops = true).
      { apply existsb_exists. exists (OIndex v). auto. }
      congruence.
  - (* x in c *) rewrite andb_true_r. apply negb_true_iff.
    pose proof (contains_total g HEAD v). destruct (c_contains g HEAD v); auto; congruence.
Qed.

Lemma r_run_model g ops0 : forall ops, incl ops ops0 -> forallb is_read ops = true ->
  (cyclic_rest g HEAD = false \/ existsb (fun o => match o with OIndex _ => true | _ => false end) ops0 = false) ->
  r_run g ops (map (fun o => snd (c_step HEAD {| gr := g; fresh := 1000%N |} o)) ops) = true.
Proof.
  induction ops as [|o r IH]; intros Hi Hr Hk; [reflexivity|].
  cbn [map r_run]. cbn [forallb] in Hr. apply andb_true_iff in Hr. destruct Hr as [R1 R2].
  rewrite (r_ok_model g ops0 o); auto.
  - apply IH; auto. intros x Hx. apply Hi. now right.
  - apply Hi. now left.
Qed.

Lemma r_spec_model c : r_wfb c = true -> r_kf c = 0%N -> r_spec c (r_model c) = true.
Proof.
  intros Hw Hk. unfold r_spec, r_model. apply r_run_model with (ops0 := r_ops c); auto.
  - apply incl_refl.
  - unfold r_kf in Hk. destruct (cyclic_rest (r_graph c) HEAD); [|now left].
    destruct (existsb _ (r_ops c)); [discriminate|now right].
Qed.

Lemma cyclic_reads_raise g head : cyclic_iter g head = true ->
  c_iter g head = RExc ValueError /\ c_len g head = RExc ValueError.
Proof.
  unfold cyclic_iter. intros H.
  destruct (cyclic_f true (fuel_of g) g head [head]) as [[|]|] eqn:E; try discriminate.
  assert (Hc : snd (c_items g head) = ICycle) by exact (cyc_items g _ _ [head] E).
  unfold c_iter, c_len. destruct (c_items g head) as [ys e]. cbn [snd] in Hc. rewrite Hc. auto.
Qed.

Lemma index_terminates g head v : cyclic_rest g head = false -> c_index g head v <> RHang.
Proof.
  unfold cyclic_rest, c_index. intros H.
  destruct (cyclic_f false (fuel_of g) g head [head]) as [[|]|] eqn:E; try discriminate.
  apply (acyclic_index g v _ _ _ 0%N E).
Qed.

(* F3c: on the one-cell chain whose rest is the cell itself, index() of an
   absent item exhausts every amount of fuel *)
Definition loop_graph : graph := [(30, 21, 1); (30, 22, 30)]%N.
Lemma index_loops : forall fuel idx, index_f fuel loop_graph HEAD 12%N idx = RHang.
Proof. induction fuel as [|f IH]; intros idx; [reflexivity|]. cbn. apply IH. Qed.
