(* Reads on arbitrary graphs (cyclic, broken, forked chains): Graph.items
   always terminates thanks to its [chain] set and raises on a cyclic chain;
   index() always terminates thanks to its [seen] set (repair 6f3b46c5). *)
From RV Require Import Collection.Model Collection.Proofs.
From Coq Require Import Lia.

Lemma value_in g s p r : g_value g s p = Some r -> exists t, In t g /\ obj t = r.
Proof.
  unfold g_value, g_objects.
  destruct (filter (matches (Some s, Some p, None)) g) as [|t l] eqn:E; simpl; [discriminate|].
  intros H. inversion H; subst. exists t. split; auto.
  assert (Hin : In t (filter (matches (Some s, Some p, None)) g)) by (rewrite E; now left).
  apply filter_In in Hin. tauto.
Qed.

(* everything that can ever enter the [chain] set of Graph.items *)
Definition dom (g : graph) (head : term) : list (option term) :=
  None :: Some head :: map (fun t => Some (obj t)) g.

Lemma value_dom g head s p : In (g_value g s p) (dom g head).
Proof.
  destruct (g_value g s p) as [r|] eqn:E; [|now left].
  apply value_in in E. destruct E as [t [Ht <-]]. right. right.
  apply in_map_iff. exists t. auto.
Qed.

(* pigeonhole: the visited set is duplicate-free and drawn from [dom] *)
Lemma items_no_hang g head : forall fuel lst chain,
  NoDup chain -> incl chain (dom g head) -> (length (dom g head) < fuel + length chain)%nat ->
  snd (items_f fuel g lst chain) <> IHang.
Proof.
  induction fuel as [|f IH]; intros lst chain Hn Hi Hl.
  - exfalso. apply NoDup_incl_length in Hi; auto. lia.
  - cbn [items_f]. destruct lst as [l|]; [|simpl; discriminate].
    destruct (truthy l); [|simpl; discriminate].
    destruct (memb (opt_eqb N.eqb) (g_value g l REST) chain) eqn:Em.
    + destruct (g_value g l FIRST); simpl; discriminate.
    + assert (H : snd (items_f f g (g_value g l REST) (g_value g l REST :: chain)) <> IHang).
      { apply IH.
        - constructor; auto. now apply (memb_false _ (opt_eqb_spec _ N.eqb_spec)).
        - intros o [<-|Ho]; [apply value_dom|auto].
        - cbn [length]. lia. }
      destruct (items_f f g (g_value g l REST) (g_value g l REST :: chain)) as [ys e].
      destruct (g_value g l FIRST); simpl in *; auto.
Qed.

Lemma c_items_total g head : snd (c_items g head) <> IHang.
Proof.
  unfold c_items. apply (items_no_hang g head).
  - constructor; [simpl; tauto|constructor].
  - intros o [<-|[]]. right. now left.
  - unfold dom, fuel_of. simpl. rewrite map_length. lia.
Qed.

Lemma stop_res_hang e r : e <> IHang -> r <> RHang -> stop_res e r <> RHang.
Proof. destruct e; simpl; congruence. Qed.

Lemma iter_total g head : c_iter g head <> RHang.
Proof.
  unfold c_iter. pose proof (c_items_total g head) as H. destruct (c_items g head) as [ys e].
  apply stop_res_hang; [exact H|discriminate].
Qed.
Lemma len_total g head : c_len g head <> RHang.
Proof.
  unfold c_len. pose proof (c_items_total g head) as H. destruct (c_items g head) as [ys e].
  apply stop_res_hang; [exact H|discriminate].
Qed.
Lemma contains_total g head v : c_contains g head v <> RHang.
Proof.
  unfold c_contains. pose proof (c_items_total g head) as H. destruct (c_items g head) as [ys e].
  destruct (memb N.eqb v ys); [discriminate|]. apply stop_res_hang; [exact H|discriminate].
Qed.
Lemma norm_total g head i r : c_norm g head i = inr r -> r <> RHang.
Proof.
  unfold c_norm. destruct (i <? 0)%Z; [|discriminate].
  pose proof (len_total g head) as Ht.
  destruct (c_len g head) as [| | n | | | |] eqn:E; intros H; inversion H; subst; try discriminate; auto.
  destruct (i + Z.of_N n <? 0)%Z; inversion H1. discriminate.
Qed.

Lemma getitem_total g head i : c_getitem g head i <> RHang.
Proof.
  unfold c_getitem. destruct (c_norm g head i) as [key|r] eqn:En; [|now apply (norm_total g head i)].
  destruct (get_container g head key) as [c|]; [|discriminate].
  destruct (negb (N.eqb c NIL) && g_has (Some c, Some FIRST, None) g); [|discriminate].
  destruct (g_value g c FIRST); discriminate.
Qed.

(* a cyclic chain makes the generator raise *)
Lemma memb_some r seen : memb (opt_eqb N.eqb) (Some r) (map Some seen) = memb N.eqb r seen.
Proof. induction seen as [|a l IH]; simpl; auto. now rewrite IH. Qed.

Lemma cyc_items g : forall fuel c seen,
  cyclic_f true fuel g c seen = Some true ->
  snd (items_f fuel g (Some c) (map Some seen)) = ICycle.
Proof.
  induction fuel as [|f IH]; intros c seen; [discriminate|].
  cbn [cyclic_f items_f]. destruct (truthy c); cbn [negb andb]; [|discriminate].
  destruct (g_value g c REST) as [r|] eqn:Er; [|discriminate].
  rewrite memb_some. destruct (memb N.eqb r seen).
  - intros _. destruct (g_value g c FIRST); reflexivity.
  - intros H. apply IH in H. change (Some r :: map Some seen) with (map Some (r :: seen)).
    destruct (items_f f g (Some r) (map Some (r :: seen))) as [ys e].
    destruct (g_value g c FIRST); simpl in *; auto.
Qed.

(* index() terminates on every graph: pigeonhole on its [seen] set *)
Lemma objects_in g s p x : In x (g_objects g s p) -> In x (map obj g).
Proof.
  unfold g_objects. intros H. apply in_map_iff in H. destruct H as [t [<- Ht]].
  apply filter_In in Ht. apply in_map. tauto.
Qed.

Lemma index_no_hang g head v : forall fuel c idx seen,
  NoDup seen -> incl seen (head :: map obj g) ->
  (length (head :: map obj g) < fuel + length seen)%nat ->
  index_f fuel g c v idx seen <> RHang.
Proof.
  induction fuel as [|f IH]; intros c idx seen Hn Hi Hl.
  - exfalso. apply NoDup_incl_length in Hi; auto. lia.
  - cbn [index_f]. destruct (g_has (Some c, Some FIRST, Some v) g); [discriminate|].
    destruct (g_objects g c REST) as [|x [|y r]] eqn:E; try discriminate.
    destruct (N.eqb x NIL); [discriminate|].
    destruct (memb N.eqb x seen) eqn:Em; [discriminate|].
    apply IH.
    + constructor; auto. now apply (memb_false _ N.eqb_spec).
    + intros y [<-|Hy]; [|auto]. right. apply (objects_in g c REST). rewrite E. now left.
    + cbn [length] in *. lia.
Qed.

Lemma index_total g head v : c_index g head v <> RHang.
Proof.
  unfold c_index. apply (index_no_hang g head).
  - constructor; [simpl; tauto|constructor].
  - intros y [<-|[]]. now left.
  - unfold fuel_of. cbn [length]. rewrite map_length. lia.
Qed.

(* index() answers a position only if it saw the item: an item that is no
   rdf:first object anywhere makes it raise - in particular on looping chains *)
Lemma index_absent g v : g_has (None, Some FIRST, Some v) g = false ->
  forall fuel c idx seen, index_f fuel g c v idx seen = RHang \/ is_exc (index_f fuel g c v idx seen) = true.
Proof.
  intros Habs. induction fuel as [|f IH]; intros c idx seen; [now left|].
  cbn [index_f].
  assert (Hc : g_has (Some c, Some FIRST, Some v) g = false).
  { apply not_true_false. intros H. apply g_has_spo in H.
    assert (Hx : g_has (None, Some FIRST, Some v) g = true).
    { unfold g_has. apply existsb_exists. exists (c, FIRST, v). split; auto.
      simpl. now rewrite !N.eqb_refl. }
    congruence. }
  rewrite Hc. destruct (g_objects g c REST) as [|x [|y r]]; try (right; reflexivity).
  destruct (N.eqb x NIL); [right; reflexivity|].
  destruct (memb N.eqb x seen); [right; reflexivity|]. apply IH.
Qed.

Lemma index_absent_raises g head v : g_has (None, Some FIRST, Some v) g = false ->
  is_exc (c_index g head v) = true.
Proof.
  intros H. destruct (index_absent g v H (fuel_of g) head 0%N [head]) as [E|E]; [|exact E].
  exfalso. exact (index_total g head v E).
Qed.

(* ------------------------------------------------------------------ *)
(* the reads suite: what the conformance check evaluates               *)

Definition whole_read (o : op) : bool :=
  match o with OIter | OLen | ON3 | OContains _ => true | _ => false end.

Lemma r_ok_model g o : is_read o = true ->
  (broken g HEAD = true -> whole_read o = false) ->
  r_ok g o (snd (c_step HEAD {| gr := g; fresh := 1000%N |} o)) = true.
Proof.
  intros Hr Hb. unfold r_ok.
  assert (Hc : cyclic_iter g HEAD = true -> snd (c_items g HEAD) = ICycle).
  { unfold cyclic_iter, c_items. intros H.
    destruct (cyclic_f true (fuel_of g) g HEAD [HEAD]) as [[|]|] eqn:E; try discriminate.
    apply (cyc_items g _ _ [HEAD] E). }
  assert (Hnb : whole_read o = true -> broken g HEAD = false).
  { intros H. destruct (broken g HEAD); auto. specialize (Hb eq_refl). congruence. }
  destruct o; try discriminate; cbn [c_step snd gr].
  - (* c[i] *) rewrite andb_true_r. apply negb_true_iff.
    pose proof (getitem_total g HEAD i). destruct (c_getitem g HEAD i); auto; congruence.
  - (* len *) rewrite (Hnb eq_refl), orb_false_r. pose proof (len_total g HEAD) as Ht. unfold c_len in *.
    destruct (cyclic_iter g HEAD).
    + rewrite (surjective_pairing (c_items g HEAD)), (Hc eq_refl). reflexivity.
    + rewrite andb_true_r. apply negb_true_iff.
      destruct (c_items g HEAD) as [ys e]. destruct e; simpl in *; congruence.
  - (* list(c) *) rewrite (Hnb eq_refl), orb_false_r. pose proof (iter_total g HEAD) as Ht. unfold c_iter in *.
    destruct (cyclic_iter g HEAD).
    + rewrite (surjective_pairing (c_items g HEAD)), (Hc eq_refl). reflexivity.
    + rewrite andb_true_r. apply negb_true_iff.
      destruct (c_items g HEAD) as [ys e]. destruct e; simpl in *; congruence.
  - (* index *) rewrite andb_true_r. apply negb_true_iff.
    pose proof (index_total g HEAD v). destruct (c_index g HEAD v); auto; congruence.
  - (* x in c *) rewrite (Hnb eq_refl), andb_true_r. apply negb_true_iff.
    pose proof (contains_total g HEAD v). destruct (c_contains g HEAD v); auto; congruence.
  - (* n3() *) rewrite (Hnb eq_refl), orb_false_r. pose proof (iter_total g HEAD) as Ht. unfold c_iter in *.
    destruct (cyclic_iter g HEAD).
    + rewrite (surjective_pairing (c_items g HEAD)), (Hc eq_refl). reflexivity.
    + rewrite andb_true_r. apply negb_true_iff.
      destruct (c_items g HEAD) as [ys e]. destruct e; simpl in *; congruence.
Qed.

Lemma r_run_model g ops0 : forall ops, incl ops ops0 -> forallb is_read ops = true ->
  (broken g HEAD = true -> existsb whole_read ops0 = false) ->
  r_run g ops (map (fun o => snd (c_step HEAD {| gr := g; fresh := 1000%N |} o)) ops) = true.
Proof.
  induction ops as [|o r IH]; intros Hi Hr Hk; [reflexivity|].
  cbn [map r_run]. cbn [forallb] in Hr. apply andb_true_iff in Hr. destruct Hr as [R1 R2].
  rewrite (r_ok_model g o R1).
  - apply IH; auto. intros x Hx. apply Hi. now right.
  - intros Hb. specialize (Hk Hb). destruct (whole_read o) eqn:E; auto.
    assert (Hx : existsb whole_read ops0 = true).
    { apply existsb_exists. exists o. split; auto. apply Hi. now left. }
    congruence.
Qed.

Lemma r_spec_model c : r_wfb c = true -> r_kf c = 0%N -> r_spec c (r_model c) = true.
Proof.
  intros Hw Hk. unfold r_spec, r_model. apply r_run_model with (ops0 := r_ops c); auto.
  - apply incl_refl.
  - intros Hb. unfold r_kf in Hk. rewrite Hb in Hk. cbn [andb] in Hk.
    change (existsb (fun o => match o with OIter | OLen | ON3 | OContains _ => true | _ => false end) (r_ops c))
      with (existsb whole_read (r_ops c)) in Hk.
    destruct (existsb whole_read (r_ops c)); [discriminate|reflexivity].
Qed.

(* which reads raise on a cyclic chain: the ones that have to walk the whole chain *)
Lemma cyclic_reads_exact g head : cyclic_iter g head = true ->
  c_iter g head = RExc ValueError /\ c_len g head = RExc ValueError /\
  (forall v, c_contains g head v = RBool true \/ c_contains g head v = RExc ValueError) /\
  (forall i, (i < 0)%Z -> c_getitem g head i = RExc ValueError) /\
  (forall v, g_has (None, Some FIRST, Some v) g = false -> is_exc (c_index g head v) = true).
Proof.
  intros H. unfold cyclic_iter in H.
  destruct (cyclic_f true (fuel_of g) g head [head]) as [[|]|] eqn:E; try discriminate.
  assert (Hc : snd (c_items g head) = ICycle) by exact (cyc_items g _ _ [head] E).
  assert (Hl : c_len g head = RExc ValueError).
  { unfold c_len. destruct (c_items g head) as [ys e]. cbn [snd] in Hc. now rewrite Hc. }
  split; [|split; [exact Hl|split; [|split]]].
  - unfold c_iter. destruct (c_items g head) as [ys e]. cbn [snd] in Hc. now rewrite Hc.
  - intros v. unfold c_contains. destruct (c_items g head) as [ys e]. cbn [snd] in Hc. rewrite Hc.
    destruct (memb N.eqb v ys); auto.
  - intros i Hi. unfold c_getitem, c_norm. destruct (Z.ltb_spec i 0); [|lia]. now rewrite Hl.
  - intros v Hv. now apply index_absent_raises.
Qed.

Lemma cyclic_reads_raise g head : cyclic_iter g head = true ->
  c_iter g head = RExc ValueError /\ c_len g head = RExc ValueError.
Proof.
  unfold cyclic_iter. intros H.
  destruct (cyclic_f true (fuel_of g) g head [head]) as [[|]|] eqn:E; try discriminate.
  assert (Hc : snd (c_items g head) = ICycle) by exact (cyc_items g _ _ [head] E).
  unfold c_iter, c_len. destruct (c_items g head) as [ys e]. cbn [snd] in Hc. rewrite Hc. auto.
Qed.

(* the cycle test of the specification itself never runs out of fuel *)
Lemma cyclic_no_hang stop g head : forall fuel c seen,
  NoDup seen -> incl seen (head :: map obj g) ->
  (length (head :: map obj g) < fuel + length seen)%nat ->
  cyclic_f stop fuel g c seen <> None.
Proof.
  induction fuel as [|f IH]; intros c seen Hn Hi Hl.
  - exfalso. apply NoDup_incl_length in Hi; auto. lia.
  - cbn [cyclic_f]. destruct (stop && negb (truthy c)); [discriminate|].
    destruct (g_value g c REST) as [r|] eqn:E; [|discriminate].
    destruct (memb N.eqb r seen) eqn:Em; [discriminate|].
    apply IH.
    + constructor; auto. now apply (memb_false _ N.eqb_spec).
    + intros y [<-|Hy]; [|auto]. right. apply value_in in E. destruct E as [t [Ht <-]]. now apply in_map.
    + cbn [length] in *. lia.
Qed.

Lemma cyclic_f_total stop g head : cyclic_f stop (fuel_of g) g head [head] <> None.
Proof.
  apply (cyclic_no_hang stop g head).
  - constructor; [simpl; tauto|constructor].
  - intros y [<-|[]]. now left.
  - unfold fuel_of. cbn [length]. rewrite map_length. lia.
Qed.

(* list(c) / len(c) raise exactly when the walk revisits a node *)
Lemma iter_raises_iff_cyclic g head :
  cyclic_iter g head = true <-> c_iter g head = RExc ValueError.
Proof.
  split; [intros H; apply (cyclic_reads_raise g head H)|].
  unfold cyclic_iter, c_iter, c_items. pose proof (cyclic_f_total true g head) as Ht.
  destruct (cyclic_f true (fuel_of g) g head [head]) as [[|]|] eqn:E;
    [intros _; reflexivity| |exfalso; apply Ht; reflexivity].
  intros H. exfalso.
  assert (Hn : forall fuel c seen, cyclic_f true fuel g c seen = Some false ->
               snd (items_f fuel g (Some c) (map Some seen)) <> ICycle).
  { clear. induction fuel as [|f IH]; intros c seen; [discriminate|].
    cbn [cyclic_f items_f]. destruct (truthy c); cbn [negb andb]; [|simpl; discriminate].
    destruct (g_value g c REST) as [r|] eqn:Er.
    - rewrite memb_some. destruct (memb N.eqb r seen); [discriminate|].
      intros H. apply IH in H. change (Some r :: map Some seen) with (map Some (r :: seen)).
      destruct (items_f f g (Some r) (map Some (r :: seen))) as [ys e].
      destruct (g_value g c FIRST); simpl in *; auto.
    - intros _. assert (Hm : memb (opt_eqb N.eqb) (@None term) (map (@Some term) seen) = false).
      { clear. induction seen; simpl; auto. }
      rewrite Hm. destruct f; simpl; destruct (g_value g c FIRST); simpl; discriminate. }
  specialize (Hn _ _ _ E). change (map Some [head]) with [Some head] in Hn.
  destruct (items_f (fuel_of g) g (Some head) [Some head]) as [ys e]. cbn [snd] in Hn.
  destruct e; simpl in H; try discriminate. congruence.
Qed.
