(* Proofs about the model of rdflib.collection.Collection. *)
From RV Require Import Collection.Model.
From Coq Require Import Lia.

Local Open Scope N_scope.

(* ------------------------------------------------------------------ *)
(* Graph operations, membership characterisations                      *)

Lemma g_add_In t u g : In t (g_add u g) <-> t = u \/ In t g.
Proof. apply sadd_In, triple_eqb_spec. Qed.
Lemma g_add_NoDup u g : NoDup g -> NoDup (g_add u g).
Proof. apply sadd_NoDup, triple_eqb_spec. Qed.
Lemma g_remove_NoDup p g : NoDup g -> NoDup (g_remove p g).
Proof. apply filter_NoDup. Qed.
Lemma g_remove_In p t g : In t (g_remove p g) <-> In t g /\ matches p t = false.
Proof. unfold g_remove. now rewrite filter_In, negb_true_iff. Qed.

Lemma matches_sp s p t : matches (Some s, Some p, None) t = true <-> subj t = s /\ pred t = p.
Proof.
  destruct t as [[a b] c]. unfold subj, pred; simpl.
  rewrite andb_true_r, andb_true_iff, !N.eqb_eq. intuition congruence.
Qed.
Lemma matches_s s t : matches (Some s, None, None) t = true <-> subj t = s.
Proof.
  destruct t as [[a b] c]. unfold subj; simpl.
  rewrite !andb_true_r, N.eqb_eq. intuition congruence.
Qed.
Lemma matches_spo s p o t : matches (Some s, Some p, Some o) t = true <-> t = (s, p, o).
Proof. rewrite (matches_pat_of (s, p, o) t). intuition congruence. Qed.

Lemma not_true_false b : b = false <-> ~ b = true.
Proof. destruct b; intuition congruence. Qed.

Lemma g_remove_sp_In s p t g :
  In t (g_remove (Some s, Some p, None) g) <-> In t g /\ ~ (subj t = s /\ pred t = p).
Proof. now rewrite g_remove_In, not_true_false, matches_sp. Qed.
Lemma g_remove_s_In s t g :
  In t (g_remove (Some s, None, None) g) <-> In t g /\ subj t <> s.
Proof. now rewrite g_remove_In, not_true_false, matches_s. Qed.
Lemma g_set_In s p o t g :
  In t (g_set s p o g) <-> t = (s, p, o) \/ (In t g /\ ~ (subj t = s /\ pred t = p)).
Proof. unfold g_set. now rewrite g_add_In, g_remove_sp_In. Qed.
Lemma g_set_NoDup s p o g : NoDup g -> NoDup (g_set s p o g).
Proof. intros H. apply g_add_NoDup, g_remove_NoDup, H. Qed.

Lemma g_has_spo s p o g : g_has (Some s, Some p, Some o) g = true <-> In (s, p, o) g.
Proof.
  unfold g_has. rewrite existsb_exists. split.
  - intros [t [Ht Hm]]. apply matches_spo in Hm. now subst.
  - intros H. exists (s, p, o). split; [auto|now apply matches_spo].
Qed.
Lemma g_has_sp s p g : g_has (Some s, Some p, None) g = true <-> exists o, In (s, p, o) g.
Proof.
  unfold g_has. rewrite existsb_exists. split.
  - intros [[[a b] c] [Ht Hm]]. apply matches_sp in Hm. unfold subj, pred in Hm; simpl in Hm.
    destruct Hm; subst. now exists c.
  - intros [o H]. exists (s, p, o). split; [auto|now apply matches_sp].
Qed.

(* (s, p) has exactly the object o *)
Definition only (g : graph) (s p o : term) : Prop :=
  In (s, p, o) g /\ forall o', In (s, p, o') g -> o' = o.

Lemma single_list (A : Type) (l : list A) a :
  NoDup l -> In a l -> (forall x, In x l -> x = a) -> l = [a].
Proof.
  intros Hn Hin Hall. destruct l as [|x r]; [destruct Hin|].
  assert (x = a) by (apply Hall; now left). subst x.
  destruct r as [|y r]; auto.
  assert (y = a) by (apply Hall; right; now left). subst y.
  inversion Hn; subst. exfalso. apply H1. now left.
Qed.

Arguments single_list {A} l a _ _ _.

Lemma objects_only g s p o : NoDup g -> only g s p o -> g_objects g s p = [o].
Proof.
  intros Hn [Hin Hu]. unfold g_objects.
  rewrite (single_list (filter (matches (Some s, Some p, None)) g) (s, p, o)); auto.
  - now apply filter_NoDup.
  - apply filter_In. split; auto. now apply matches_sp.
  - intros [[a b] c] Hx. apply filter_In in Hx. destruct Hx as [Hx Hm].
    apply matches_sp in Hm. unfold subj, pred in Hm; simpl in Hm. destruct Hm; subst.
    now rewrite (Hu c Hx).
Qed.
Lemma value_only g s p o : NoDup g -> only g s p o -> g_value g s p = Some o.
Proof. intros Hn H. unfold g_value. now rewrite (objects_only _ _ _ _ Hn H). Qed.

Lemma value_only_nd g s p o : only g s p o -> g_value g s p = Some o.
Proof.
  intros [Hin Hu]. unfold g_value, g_objects.
  destruct (filter (matches (Some s, Some p, None)) g) as [|[[a b] c] r] eqn:E.
  - exfalso. assert (H : In (s, p, o) (filter (matches (Some s, Some p, None)) g)).
    { apply filter_In. split; auto. now apply matches_sp. }
    rewrite E in H. destruct H.
  - assert (H : In (a, b, c) (filter (matches (Some s, Some p, None)) g)) by (rewrite E; now left).
    apply filter_In in H. destruct H as [H Hm]. apply matches_sp in Hm.
    unfold subj, pred in Hm; simpl in Hm. destruct Hm; subst. simpl. now rewrite (Hu c H).
Qed.

Lemma objects_none g s p : (forall o, ~ In (s, p, o) g) -> g_objects g s p = [].
Proof.
  intros H. unfold g_objects.
  destruct (filter (matches (Some s, Some p, None)) g) as [|[[a b] c] r] eqn:E; auto.
  exfalso. assert (Hx : In (a, b, c) (filter (matches (Some s, Some p, None)) g)) by (rewrite E; now left).
  apply filter_In in Hx. destruct Hx as [Hx Hm]. apply matches_sp in Hm.
  unfold subj, pred in Hm; simpl in Hm. destruct Hm; subst. exact (H c Hx).
Qed.
Lemma value_none g s p : (forall o, ~ In (s, p, o) g) -> g_value g s p = None.
Proof. intros H. unfold g_value. now rewrite (objects_none _ _ _ H). Qed.

(* ------------------------------------------------------------------ *)
(* Chains                                                              *)

Definition cells (l : list (term * term)) : list term := map fst l.

Lemma hd_cell_app l1 l2 tl : hd_cell (l1 ++ l2) tl = hd_cell l1 (hd_cell l2 tl).
Proof. destruct l1 as [|[c x] r]; auto. Qed.

Lemma chainT_app l1 l2 tl : chainT (l1 ++ l2) tl = chainT l1 (hd_cell l2 tl) ++ chainT l2 tl.
Proof.
  induction l1 as [|[c x] r IH]; simpl; auto.
  rewrite IH, hd_cell_app. reflexivity.
Qed.

Lemma In_chainT_subj t l tl : In t (chainT l tl) -> In (subj t) (cells l).
Proof.
  induction l as [|[c x] r IH]; simpl; [tauto|].
  intros [H|[H|H]]; try (subst t; now left). right; auto.
Qed.

Lemma In_chainT_fr t l tl : In t (chainT l tl) -> is_fr t = true.
Proof.
  induction l as [|[c x] r IH]; simpl; [tauto|].
  intros [H|[H|H]]; try (subst t; reflexivity). auto.
Qed.

Lemma cells_app l1 l2 : cells (l1 ++ l2) = cells l1 ++ cells l2.
Proof. apply map_app. Qed.

(* Everything from here to the end of the section is relative to a set [fz] of
   "frozen" subjects - subjects that are never a cell of the collection under
   test.  Nothing is assumed about the triples with a frozen subject: they may
   form other collections, lead into this one, be members of it.  rdf:nil and
   the head are not frozen. *)
Section Frame.
Variable fz : term -> bool.
Hypothesis fz_nil : fz NIL = false.
Hypothesis fz_head : fz HEAD = false.
Hint Resolve fz_nil fz_head : core.

Definition notfz (l : list (term * term)) : Prop := forall c, In c (cells l) -> fz c = false.

(* the graph's first/rest triples with a non-frozen subject are exactly the
   chain of [l] (to nil) *)
Definition Rep (g : graph) (l : list (term * term)) : Prop :=
  NoDup (cells l) /\ ~ In NIL (cells l) /\ notfz l /\
  forall t, is_fr t = true -> fz (subj t) = false -> (In t g <-> In t (chainT l NIL)).

Lemma notfz_app l1 l2 : notfz (l1 ++ l2) <-> notfz l1 /\ notfz l2.
Proof.
  unfold notfz. split.
  - intros H. split; intros c Hc; apply H; rewrite cells_app, in_app_iff; auto.
  - intros [H1 H2] c Hc. rewrite cells_app, in_app_iff in Hc. destruct Hc; auto.
Qed.

Lemma NoDup_app_parts (A : Type) (l1 l2 : list A) :
  NoDup (l1 ++ l2) -> NoDup l1 /\ NoDup l2 /\ forall x, In x l1 -> ~ In x l2.
Proof.
  induction l1 as [|a r IH]; simpl; intros H.
  - split; [constructor|split; auto].
  - inversion H; subst. destruct (IH H3) as [A1 [A2 A3]]. split; [|split; auto].
    + constructor; auto. intros Hin. apply H2. apply in_app_iff; now left.
    + intros x [->|Hx]; [|now apply A3]. intros Hin. apply H2. apply in_app_iff; now right.
Qed.

Arguments NoDup_app_parts {A} l1 l2 _.

(* membership in the chain for the cell in the middle of a decomposition *)
Lemma chain_at l1 c x l2 tl p o :
  NoDup (cells (l1 ++ (c, x) :: l2)) ->
  (In (c, p, o) (chainT (l1 ++ (c, x) :: l2) tl)
   <-> (p = FIRST /\ o = x) \/ (p = REST /\ o = hd_cell l2 tl)).
Proof.
  intros Hn. rewrite cells_app in Hn. apply NoDup_app_parts in Hn. destruct Hn as [N1 [N2 N3]].
  simpl in N2. inversion N2; subst.
  rewrite chainT_app, in_app_iff. simpl. split.
  - intros [H|[H|[H|H]]].
    + apply In_chainT_subj in H. exfalso. apply (N3 c H). now left.
    + inversion H; subst. now left.
    + inversion H; subst. now right.
    + apply In_chainT_subj in H. tauto.
  - intros [[-> ->]|[-> ->]]; right; [now left|right; now left].
Qed.

Lemma cell_mid l1 c x l2 : In c (cells (l1 ++ (c, x) :: l2)).
Proof. rewrite cells_app, in_app_iff. right. now left. Qed.

Lemma Rep_only_first g l1 c x l2 :
  Rep g (l1 ++ (c, x) :: l2) -> only g c FIRST x.
Proof.
  intros [Hn [_ [Hz Hi]]]. assert (Hc : fz c = false) by (apply Hz, cell_mid). split.
  - apply Hi; [reflexivity|exact Hc|]. apply chain_at; auto.
  - intros o' H. apply Hi in H; [|reflexivity|exact Hc]. apply chain_at in H; auto.
    destruct H as [[_ ->]|[H _]]; [auto|discriminate].
Qed.
Lemma Rep_only_rest g l1 c x l2 :
  Rep g (l1 ++ (c, x) :: l2) -> only g c REST (hd_cell l2 NIL).
Proof.
  intros [Hn [_ [Hz Hi]]]. assert (Hc : fz c = false) by (apply Hz, cell_mid). split.
  - apply Hi; [reflexivity|exact Hc|]. apply chain_at; auto.
  - intros o' H. apply Hi in H; [|reflexivity|exact Hc]. apply chain_at in H; auto.
    destruct H as [[H _]|[_ ->]]; [discriminate|auto].
Qed.

(* a non-frozen node that is no cell has no first/rest triple *)
Lemma Rep_no_subject g l s p o :
  Rep g l -> ~ In s (cells l) -> fz s = false -> (p = FIRST \/ p = REST) -> ~ In (s, p, o) g.
Proof.
  intros [_ [_ [_ Hi]]] Hs Hf Hp Hin. apply Hi in Hin; [| |exact Hf].
  - apply In_chainT_subj in Hin. auto.
  - unfold is_fr, pred; simpl. destruct Hp; subst; reflexivity.
Qed.


(* ------------------------------------------------------------------ *)
(* Reads on a represented list                                         *)

Lemma truthy_big c : 14 < c -> truthy c = true.
Proof.
  intros H. unfold truthy.
  rewrite !(proj2 (N.eqb_neq _ _)) by lia. reflexivity.
Qed.
Lemma truthy_NIL : truthy NIL = true. Proof. reflexivity. Qed.
Lemma truthy_HEAD : truthy HEAD = true. Proof. reflexivity. Qed.

Definition big (l : list (term * term)) : Prop := forall c, In c (cells l) -> NIL < c.

Lemma big_truthy l c : big l -> In c (cells l) -> truthy c = true.
Proof. intros H Hc. apply truthy_big. specialize (H c Hc). unfold NIL in H. lia. Qed.

Lemma container_n_add g c a b :
  container_n g c (a + b) =
  match container_n g c a with Some c' => container_n g c' b | None => None end.
Proof.
  revert c; induction a as [|a IH]; simpl; intros c; auto.
  destruct (g_value g c REST); auto.
Qed.

Lemma container_prefix g l1 : forall l0 l2, NoDup g -> Rep g (l0 ++ l1 ++ l2) ->
  container_n g (hd_cell (l1 ++ l2) NIL) (length l1) = Some (hd_cell l2 NIL).
Proof.
  induction l1 as [|[c x] r IH]; intros l0 l2 Hn HR; simpl; auto.
  simpl in HR.
  rewrite (value_only _ _ _ _ Hn (Rep_only_rest _ _ _ _ _ HR)).
  apply (IH (l0 ++ [(c, x)])); auto. rewrite <- app_assoc. exact HR.
Qed.

Lemma Rep_value_none g l s p : Rep g l -> ~ In s (cells l) -> fz s = false -> (p = FIRST \/ p = REST) ->
  g_value g s p = None.
Proof. intros HR Hs Hf Hp. apply value_none. intros o. apply (Rep_no_subject _ _ _ _ o HR Hs Hf Hp). Qed.

Lemma container_beyond g l : NoDup g -> Rep g l -> forall k, (length l < k)%nat ->
  container_n g (hd_cell l NIL) k = None.
Proof.
  intros Hn HR k Hk. replace k with (length l + S (k - length l - 1))%nat by lia.
  rewrite container_n_add.
  generalize (container_prefix g l [] [] Hn). rewrite !app_nil_r. simpl. intros E. rewrite (E HR).
  simpl. rewrite (Rep_value_none _ _ NIL REST HR); auto. apply HR.
Qed.

Lemma container_empty g c k : Rep g [] -> fz c = false -> container_n g c (S k) = None.
Proof. intros HR Hc. simpl. rewrite (Rep_value_none _ _ c REST HR); auto. Qed.

Lemma memb_none_chain (chain : list (option term)) :
  (forall o, In o chain -> o <> None) -> memb (opt_eqb N.eqb) None chain = false.
Proof.
  intros H. apply (memb_false _ (opt_eqb_spec _ N.eqb_spec)). intros Hin. exact (H _ Hin eq_refl).
Qed.

Lemma next_fresh l1 c x r :
  NoDup (cells (l1 ++ (c, x) :: r)) -> ~ In NIL (cells (l1 ++ (c, x) :: r)) ->
  ~ In (hd_cell r NIL) (cells l1) /\ hd_cell r NIL <> c.
Proof.
  rewrite cells_app. intros Hn Hnil. rewrite in_app_iff in Hnil. simpl in Hnil.
  apply NoDup_app_parts in Hn. destruct Hn as [N1 [N2 N3]]. simpl in N2.
  destruct r as [|[c2 x2] r2]; simpl.
  - split; [tauto|]. intros E. apply Hnil. right. left. auto.
  - split.
    + intros Hin. apply (N3 _ Hin). simpl. right. now left.
    + inversion N2; subst. intros E. apply H1. simpl. left. auto.
Qed.

Lemma items_chain g : NoDup g -> forall l2 l1 fuel chain,
  Rep g (l1 ++ l2) -> big l2 ->
  (length l2 + 2 <= fuel)%nat ->
  (forall o, In o chain -> exists c, o = Some c /\ (In c (cells l1) \/ c = hd_cell l2 NIL)) ->
  items_f fuel g (Some (hd_cell l2 NIL)) chain = (map snd l2, IOk).
Proof.
  intros Hn. induction l2 as [|[c x] r IH]; intros l1 fuel chain HR Hb Hf Hc.
  - destruct fuel as [|[|f]]; try (simpl in Hf; lia).
    rewrite app_nil_r in HR.
    cbn [hd_cell items_f]. rewrite truthy_NIL.
    rewrite (Rep_value_none _ _ NIL REST HR), (Rep_value_none _ _ NIL FIRST HR); auto; try apply HR.
    rewrite memb_none_chain; [reflexivity|].
    intros o Ho. destruct (Hc o Ho) as [c [-> _]]. discriminate.
  - destruct fuel as [|f]; [simpl in Hf; lia|].
    cbn [hd_cell items_f map snd].
    rewrite (big_truthy _ c Hb) by (now left).
    rewrite (value_only _ _ _ _ Hn (Rep_only_rest _ _ _ _ _ HR)).
    rewrite (value_only _ _ _ _ Hn (Rep_only_first _ _ _ _ _ HR)).
    destruct HR as [HR1 [HR2 [HRz HR3]]].
    destruct (next_fresh _ _ _ _ HR1 HR2) as [F1 F2].
    assert (Hm : memb (opt_eqb N.eqb) (Some (hd_cell r NIL)) chain = false).
    { apply (memb_false _ (opt_eqb_spec _ N.eqb_spec)). intros Hin.
      destruct (Hc _ Hin) as [c' [E Hd]]. injection E as <-.
      destruct Hd as [Hd|Hd]; simpl in Hd; auto. }
    rewrite Hm.
    rewrite (IH (l1 ++ [(c, x)])).
    + reflexivity.
    + rewrite <- app_assoc. simpl. split; [|split; [|split]]; auto.
    + intros c' Hc'. apply Hb. now right.
    + simpl in Hf. lia.
    + intros o [<-|Ho].
      * eexists; split; [reflexivity|]. now right.
      * destruct (Hc o Ho) as [c' [-> [H|H]]]; eexists; (split; [reflexivity|]); left;
          rewrite cells_app, in_app_iff; [now left|right; simpl in H; subst; now left].
Qed.

Lemma In_chainT_first c x l tl : In (c, x) l -> In (c, FIRST, x) (chainT l tl).
Proof.
  induction l as [|[c' x'] r IH]; simpl; [tauto|].
  intros [E|H]; [inversion E; now left|right; right; auto].
Qed.

Lemma Rep_length g l : Rep g l -> (length l <= length g)%nat.
Proof.
  intros [Hn [_ [Hz Hi]]].
  rewrite <- (map_length (fun cx : term * term => (fst cx, FIRST, snd cx)) l).
  apply NoDup_incl_length.
  - apply (NoDup_map_inv subj). rewrite map_map. simpl. exact Hn.
  - intros t Ht. apply in_map_iff in Ht. destruct Ht as [[c x] [<- Hcx]]. simpl.
    apply Hi; [reflexivity| |now apply In_chainT_first].
    apply Hz. unfold cells. apply in_map_iff. exists (c, x). auto.
Qed.

(* the collection whose uri is HEAD holds the list [l] *)
Definition headed (l : list (term * term)) : Prop := l <> [] -> hd_cell l NIL = HEAD.

Lemma c_items_Rep g l : NoDup g -> Rep g l -> big l -> headed l ->
  c_items g HEAD = (map snd l, IOk).
Proof.
  intros Hn HR Hb Hh. destruct l as [|[c x] r].
  - unfold c_items, fuel_of. cbn [items_f]. rewrite truthy_HEAD.
    rewrite (Rep_value_none _ _ HEAD REST HR), (Rep_value_none _ _ HEAD FIRST HR); auto.
  - assert (E : hd_cell ((c, x) :: r) NIL = HEAD) by (apply Hh; discriminate).
    unfold c_items. rewrite <- E.
    apply (items_chain g Hn ((c, x) :: r) []); auto.
    + apply Rep_length in HR. unfold fuel_of. lia.
    + intros o [<-|[]]. eexists; split; [reflexivity|]. now right.
Qed.

Lemma c_norm_nonneg g h i : (0 <= i)%Z -> c_norm g h i = inl i.
Proof. intros H. unfold c_norm. destruct (Z.ltb_spec i 0); [lia|reflexivity]. Qed.

Lemma getitem_norm g h i j : c_norm g h i = inl j -> (0 <= j)%Z -> c_getitem g h i = c_getitem g h j.
Proof. intros H Hj. unfold c_getitem. now rewrite H, (c_norm_nonneg g h j Hj). Qed.
Lemma setitem_norm g h i j v : c_norm g h i = inl j -> (0 <= j)%Z -> c_setitem g h i v = c_setitem g h j v.
Proof. intros H Hj. unfold c_setitem. now rewrite H, (c_norm_nonneg g h j Hj). Qed.
Lemma delitem_norm g h i j : c_norm g h i = inl j -> (0 <= j)%Z -> c_delitem g h i = c_delitem g h j.
Proof. intros H Hj. unfold c_delitem. now rewrite H, (c_norm_nonneg g h j Hj). Qed.

Lemma getitem_at g l1 c x l2 : NoDup g -> Rep g (l1 ++ (c, x) :: l2) ->
  big (l1 ++ (c, x) :: l2) -> headed (l1 ++ (c, x) :: l2) ->
  get_container g HEAD (Z.of_nat (length l1)) = Some c /\
  c_getitem g HEAD (Z.of_nat (length l1)) = RTerm x.
Proof.
  intros Hn HR Hb Hh.
  assert (E : get_container g HEAD (Z.of_nat (length l1)) = Some c).
  { unfold get_container. rewrite Nat2Z.id. rewrite <- Hh by (destruct l1; discriminate).
    apply (container_prefix g l1 [] ((c, x) :: l2)); auto. }
  split; auto. unfold c_getitem. rewrite c_norm_nonneg by lia. rewrite E.
  assert (Hc : N.eqb c NIL = false).
  { apply N.eqb_neq. intros ->. destruct HR as [_ [HR2 _]]. apply HR2. apply cell_mid. }
  pose proof (Rep_only_first _ _ _ _ _ HR) as Hf.
  assert (Hh2 : g_has (Some c, Some FIRST, None) g = true).
  { apply g_has_sp. exists x. apply Hf. }
  rewrite Hc, Hh2. cbn [negb andb].
  now rewrite (value_only _ _ _ _ Hn Hf).
Qed.

Lemma getitem_beyond g l k : NoDup g -> Rep g l -> headed l -> (length l < k)%nat ->
  get_container g HEAD (Z.of_nat k) = None.
Proof.
  intros Hn HR Hh Hk. unfold get_container. rewrite Nat2Z.id.
  destruct l as [|[c x] r].
  - destruct k; [simpl in Hk; lia|]. now apply container_empty.
  - rewrite <- Hh by discriminate. now apply container_beyond.
Qed.

(* every index >= len(c): IndexError (index == len(c) reaches rdf:nil, or the
   triple-less head of an empty collection) *)
Lemma getitem_out g l k : NoDup g -> Rep g l -> headed l -> (length l <= k)%nat ->
  c_getitem g HEAD (Z.of_nat k) = RExc IndexError.
Proof.
  intros Hn HR Hh Hk. unfold c_getitem. rewrite c_norm_nonneg by lia.
  destruct (Nat.eq_dec k (length l)) as [->|Hne].
  2:{ rewrite (getitem_beyond g l k); auto. lia. }
  unfold get_container. rewrite Nat2Z.id. destruct l as [|[c x] r].
  - simpl.
    assert (Hh2 : g_has (Some HEAD, Some FIRST, None) g = false).
    { apply not_true_false. rewrite g_has_sp. intros [o H].
      apply (Rep_no_subject _ _ HEAD FIRST o HR); auto. }
    rewrite Hh2. reflexivity.
  - rewrite <- Hh by discriminate.
    generalize (container_prefix g ((c, x) :: r) [] [] Hn). rewrite !app_nil_r. simpl app.
    intros E. rewrite (E HR). reflexivity.
Qed.

Lemma index_chain g : NoDup g -> forall l2 l1 fuel v idx seen,
  Rep g (l1 ++ l2) -> l2 <> [] -> (length l2 <= fuel)%nat ->
  (forall y, In y seen -> In y (cells l1) \/ y = hd_cell l2 NIL) ->
  index_f fuel g (hd_cell l2 NIL) v idx seen =
  match index_of v (map snd l2) with Some k => RNat (idx + k) | None => RExc ValueError end.
Proof.
  intros Hn. induction l2 as [|[c x] r IH]; intros l1 fuel v idx seen HR Hne Hf Hs; [congruence|].
  destruct fuel as [|f]; [simpl in Hf; lia|].
  cbn [hd_cell index_f map snd index_of].
  pose proof (Rep_only_first _ _ _ _ _ HR) as [F1 F2].
  destruct (N.eqb x v) eqn:E.
  - apply N.eqb_eq in E. subst v.
    rewrite (proj2 (g_has_spo c FIRST x g) F1). now rewrite N.add_0_r.
  - assert (Hh : g_has (Some c, Some FIRST, Some v) g = false).
    { apply not_true_false. rewrite g_has_spo. intros H. apply F2 in H. subst. now rewrite N.eqb_refl in E. }
    rewrite Hh. rewrite (objects_only _ _ _ _ Hn (Rep_only_rest _ _ _ _ _ HR)).
    destruct r as [|[c2 x2] r2].
    + simpl. reflexivity.
    + assert (Hc2 : N.eqb c2 NIL = false).
      { apply N.eqb_neq. intros ->. destruct HR as [_ [HR2 _]]. apply HR2.
        rewrite cells_app, in_app_iff. right. simpl. right. now left. }
      cbn [hd_cell]. rewrite Hc2.
      destruct HR as [HR1 [HR2 [HRz HR3]]].
      destruct (next_fresh _ _ _ _ HR1 HR2) as [N1 N2]. cbn [hd_cell] in N1, N2.
      assert (Hm : memb N.eqb c2 seen = false).
      { apply (memb_false _ N.eqb_spec). intros Hin. destruct (Hs _ Hin) as [H|H]; auto. }
      rewrite Hm.
      assert (IH' := IH (l1 ++ [(c, x)]) f v (N.succ idx) (c2 :: seen)).
      cbn [hd_cell] in IH'. rewrite IH'.
      * destruct (index_of v (map snd ((c2, x2) :: r2))); auto. f_equal. lia.
      * rewrite <- app_assoc. split; [|split]; auto.
      * discriminate.
      * simpl in Hf. simpl. lia.
      * intros y [<-|Hy]; [now right|]. left. rewrite cells_app, in_app_iff.
        destruct (Hs _ Hy) as [H|H]; [now left|right; simpl; now left].
Qed.

(* ------------------------------------------------------------------ *)
(* Writes                                                              *)

Lemma subj_not_in t l tl c : In t (chainT l tl) -> ~ In c (cells l) -> subj t <> c.
Proof. intros H Hc E. apply In_chainT_subj in H. now subst. Qed.

Lemma mid_parts l1 c (x : term) l2 :
  NoDup (cells (l1 ++ (c, x) :: l2)) -> ~ In c (cells l1) /\ ~ In c (cells l2).
Proof.
  rewrite cells_app. intros Hn. apply NoDup_app_parts in Hn. destruct Hn as [N1 [N2 N3]].
  simpl in N2. inversion N2; subst. split; auto.
  intros H. apply (N3 _ H). now left.
Qed.

Ltac fr_solve :=
  repeat match goal with
         | H : _ /\ _ |- _ => destruct H
         | H : _ \/ _ |- _ => destruct H
         | H : (_, _, _) = (_, _, _) |- _ => inversion H; clear H; subst
         end;
  subst; simpl in *; unfold subj, pred in *; simpl in *;
  try congruence; try tauto.

Lemma Rep_set g l1 c x l2 v :
  Rep g (l1 ++ (c, x) :: l2) -> Rep (g_set c FIRST v g) (l1 ++ (c, v) :: l2).
Proof.
  intros [Hn [Hnil [Hz Hi]]].
  assert (Ec : cells (l1 ++ (c, v) :: l2) = cells (l1 ++ (c, x) :: l2)) by (now rewrite !cells_app).
  split; [now rewrite Ec|split; [now rewrite Ec|split; [unfold notfz; now rewrite Ec|]]].
  destruct (mid_parts _ _ _ _ Hn) as [P1 P2].
  intros t Ht Hf. rewrite g_set_In, (Hi t Ht Hf), !chainT_app, !in_app_iff. cbn [chainT hd_cell In].
  split.
  - intros [->|[[H|[H|[H|H]]] Hne]]; auto.
    + subst t. exfalso. apply Hne. split; reflexivity.
  - intros [H|[H|[H|H]]]; auto.
    + right. split; auto. intros [E _]. exact (subj_not_in _ _ _ _ H P1 E).
    + right. split; auto. subst t. intros [_ E]. discriminate.
    + right. split; auto. intros [E _]. exact (subj_not_in _ _ _ _ H P2 E).
Qed.

Lemma Rep_del_only g c x :
  Rep g [(c, x)] -> Rep (g_remove (Some c, None, None) (g_set c REST NIL g)) [].
Proof.
  intros [Hn [Hnil [Hz Hi]]]. split; [constructor|split; [simpl; tauto|split; [intros ? []|]]].
  intros t Ht Hf. rewrite g_remove_s_In, g_set_In, (Hi t Ht Hf). simpl. split; [|tauto].
  intros [[->|[[H|[H|[]]] _]] Hs]; apply Hs; try subst t; reflexivity.
Qed.

Lemma pair_parts l1 p (xp : term) c (x : term) l2 :
  NoDup (cells (l1 ++ (p, xp) :: (c, x) :: l2)) ->
  ~ In p (cells l1) /\ ~ In c (cells l1) /\ p <> c /\ ~ In p (cells l2) /\ ~ In c (cells l2).
Proof.
  rewrite cells_app. intros Hn. apply NoDup_app_parts in Hn. destruct Hn as [N1 [N2 N3]].
  simpl in N2. inversion N2 as [|? ? A1 A2]; subst. inversion A2 as [|? ? B1 B2]; subst.
  simpl in A1. repeat split.
  - intros H. apply (N3 _ H). now left.
  - intros H. apply (N3 _ H). right. now left.
  - intros E. apply A1. now left.
  - intros H. apply A1. now right.
  - exact B1.
Qed.

Lemma cells_drop l1 p (xp : term) c (x : term) l2 :
  let old := cells (l1 ++ (p, xp) :: (c, x) :: l2) in
  let new := cells (l1 ++ (p, xp) :: l2) in
  (NoDup old -> NoDup new) /\ (forall y, In y new -> In y old).
Proof.
  simpl. rewrite !cells_app. simpl. split.
  - intros H. replace (cells l1 ++ p :: c :: cells l2) with ((cells l1 ++ [p]) ++ c :: cells l2) in H
      by (now rewrite <- app_assoc).
    apply NoDup_remove_1 in H. now rewrite <- app_assoc in H.
  - intros y. rewrite !in_app_iff. simpl. tauto.
Qed.

(* the two deletion branches differ only in the order of remove and set *)
Lemma Rep_del_iff g l1 p xp c x l2 t :
  Rep g (l1 ++ (p, xp) :: (c, x) :: l2) -> is_fr t = true -> fz (subj t) = false ->
  ((t = (p, REST, hd_cell l2 NIL) \/ (In t g /\ ~ (subj t = p /\ pred t = REST))) /\ subj t <> c
   <-> In t (chainT (l1 ++ (p, xp) :: l2) NIL)) /\
  ((t = (p, REST, hd_cell l2 NIL) \/ ((In t g /\ subj t <> c) /\ ~ (subj t = p /\ pred t = REST)))
   <-> In t (chainT (l1 ++ (p, xp) :: l2) NIL)).
Proof.
  intros [Hn [Hnil [Hz Hi]]] Ht Hf.
  destruct (pair_parts _ _ _ _ _ _ Hn) as [P1 [P2 [P3 [P4 P5]]]].
  rewrite (Hi t Ht Hf), !chainT_app, !in_app_iff. cbn [chainT hd_cell In].
  assert (A1 : In t (chainT l1 p) -> subj t <> p /\ subj t <> c).
  { intros H. split; eapply subj_not_in; eauto. }
  assert (A2 : In t (chainT l2 NIL) -> subj t <> p /\ subj t <> c).
  { intros H. split; eapply subj_not_in; eauto. }
  split; split.
  - intros [[->|[[H|[H|[H|[H|[H|H]]]]] Hne]] Hs]; auto.
    + subst t. exfalso. apply Hne. split; reflexivity.
    + subst t. exfalso. apply Hs. reflexivity.
    + subst t. exfalso. apply Hs. reflexivity.
  - intros [H|[H|[H|H]]].
    + destruct (A1 H). split; auto. right. split; auto. tauto.
    + subst t. split; [|exact P3]. right. split; auto. intros [_ E]. discriminate.
    + subst t. split; [|exact P3]. now left.
    + destruct (A2 H). split; auto. right. split; [auto 10|tauto].
  - intros [->|[[[H|[H|[H|[H|[H|H]]]]] Hs] Hne]]; auto.
    + subst t. exfalso. apply Hne. split; reflexivity.
    + subst t. exfalso. apply Hs. reflexivity.
    + subst t. exfalso. apply Hs. reflexivity.
  - intros [H|[H|[H|H]]].
    + destruct (A1 H). right. split; [split; auto|tauto].
    + subst t. right. split; [split; [auto|exact P3]|]. intros [_ E]. discriminate.
    + subst t. now left.
    + destruct (A2 H). right. split; [split; auto 10|tauto].
Qed.

Lemma Rep_del_cells g l1 p xp c x l2 :
  Rep g (l1 ++ (p, xp) :: (c, x) :: l2) ->
  NoDup (cells (l1 ++ (p, xp) :: l2)) /\ ~ In NIL (cells (l1 ++ (p, xp) :: l2)) /\ notfz (l1 ++ (p, xp) :: l2).
Proof.
  intros [Hn [Hnil [Hz _]]]. destruct (cells_drop l1 p xp c x l2) as [D1 D2]. split; [auto|split; [auto|]].
  intros y Hy. apply Hz. auto.
Qed.

Lemma Rep_del_tail g l1 p xp c x l2 :
  Rep g (l1 ++ (p, xp) :: (c, x) :: l2) ->
  Rep (g_remove (Some c, None, None) (g_set p REST (hd_cell l2 NIL) g)) (l1 ++ (p, xp) :: l2).
Proof.
  intros HR. destruct (Rep_del_cells _ _ _ _ _ _ _ HR) as [C1 [C2 C3]]. split; [|split; [|split]]; auto.
  intros t Ht Hf. rewrite g_remove_s_In, g_set_In. apply (Rep_del_iff _ _ _ _ _ _ _ _ HR Ht Hf).
Qed.

Lemma Rep_del_middle g l1 p xp c x l2 :
  Rep g (l1 ++ (p, xp) :: (c, x) :: l2) ->
  Rep (g_set p REST (hd_cell l2 NIL) (g_remove (Some c, None, None) g)) (l1 ++ (p, xp) :: l2).
Proof.
  intros HR. destruct (Rep_del_cells _ _ _ _ _ _ _ HR) as [C1 [C2 C3]]. split; [|split; [|split]]; auto.
  intros t Ht Hf. rewrite g_set_In, g_remove_s_In. apply (Rep_del_iff _ _ _ _ _ _ _ _ HR Ht Hf).
Qed.

(* del c[0] on a longer list: the second cell's content moves into the head *)
Lemma Rep_del_head g c x n xn l2 :
  Rep g ((c, x) :: (n, xn) :: l2) ->
  Rep (g_set c REST (hd_cell l2 NIL) (g_set c FIRST xn (g_remove (Some n, None, None) g)))
      ((c, xn) :: l2).
Proof.
  intros [Hn [Hnil [Hz Hi]]].
  destruct (pair_parts [] c x n xn l2 Hn) as [_ [_ [P3 [P4 P5]]]].
  simpl in Hn, Hnil. inversion Hn as [|? ? A1 A2]; subst. inversion A2 as [|? ? B1 B2]; subst.
  split; [|split; [|split]].
  - simpl. constructor; auto.
  - simpl. tauto.
  - intros y Hy. apply Hz. simpl in Hy |- *. tauto.
  - intros t Ht Hf. rewrite !g_set_In, g_remove_s_In, (Hi t Ht Hf). cbn [chainT hd_cell In].
    assert (A : In t (chainT l2 NIL) -> subj t <> c /\ subj t <> n).
    { intros H. split; eapply subj_not_in; eauto. }
    split.
    + intros [->|[[->|[[[H|[H|[H|[H|H]]]] Hs] Hne1]] Hne2]]; auto.
      * subst t. exfalso. apply Hne1. split; reflexivity.
      * subst t. exfalso. apply Hne2. split; reflexivity.
      * subst t. exfalso. apply Hs. reflexivity.
      * subst t. exfalso. apply Hs. reflexivity.
    + intros [H|[H|H]].
      * subst t. right. split; [now left|]. intros [_ E]. discriminate.
      * subst t. now left.
      * destruct (A H). right. split; [|tauto]. right. split; [|tauto]. split; auto 10.
Qed.

(* ---- the frame: triples with a frozen subject ---- *)
Definition Frame (g g' : graph) : Prop := forall t, fz (subj t) = true -> (In t g' <-> In t g).

Lemma Frame_refl g : Frame g g.
Proof. intros t _. tauto. Qed.
Lemma Frame_trans g1 g2 g3 : Frame g1 g2 -> Frame g2 g3 -> Frame g1 g3.
Proof. intros A B t Ht. rewrite (B t Ht). apply (A t Ht). Qed.
Lemma Frame_add t0 g : fz (subj t0) = false -> Frame g (g_add t0 g).
Proof. intros H t Ht. rewrite g_add_In. split; [intros [->|]; [congruence|auto]|auto]. Qed.
Lemma matches_subj s p o t : matches (Some s, p, o) t = true -> subj t = s.
Proof.
  destruct t as [[a b] c]. unfold subj. simpl. rewrite !andb_true_iff, N.eqb_eq. intros [[E _] _]. auto.
Qed.
Lemma Frame_remove s p o g : fz s = false -> Frame g (g_remove (Some s, p, o) g).
Proof.
  intros H t Ht. rewrite g_remove_In. split; [tauto|]. intros Hin. split; auto.
  apply not_true_false. intros Hm. apply matches_subj in Hm. congruence.
Qed.
Lemma Frame_set s p o g : fz s = false -> Frame g (g_set s p o g).
Proof.
  intros H. unfold g_set. eapply Frame_trans; [apply (Frame_remove s (Some p) None g H)|].
  apply Frame_add. exact H.
Qed.

(* ---- append / += : the chain whose last cell has no rdf:rest yet ---- *)

Definition OpenFR (g : graph) (l : list (term * term)) (e : term) : Prop :=
  (l = [] /\ forall t, is_fr t = true -> fz (subj t) = false -> ~ In t g) \/
  (exists l0 x, l = l0 ++ [(e, x)] /\
     forall t, is_fr t = true -> fz (subj t) = false ->
               (In t g <-> In t (chainT l0 e ++ [(e, FIRST, x)]))).

Definition Open (g : graph) (l : list (term * term)) (e : term) : Prop :=
  NoDup (cells l) /\ ~ In NIL (cells l) /\ (notfz l /\ fz e = false) /\ OpenFR g l e.

Definition bounded (l : list (term * term)) (f : N) : Prop :=
  forall c, In c (cells l) -> NIL < c < f.

(* BNode() never returns a frozen node *)
Definition fresh_ok (f : N) : Prop := forall y, f <= y -> fz y = false.

Lemma hd_cell_ne l a b : l <> [] -> hd_cell l a = hd_cell l b.
Proof. destruct l as [|[c x] r]; [congruence|auto]. Qed.

Lemma app_single_inj (A : Type) (l1 l2 : list A) a b : l1 ++ [a] = l2 ++ [b] -> l1 = l2 /\ a = b.
Proof. intros H. apply app_inj_tail in H. exact H. Qed.

Ltac ors := repeat match goal with H : _ \/ _ |- _ => destruct H end; subst; try tauto; auto 12.
Ltac nlia := unfold NIL, HEAD in *; simpl in *; lia.

Lemma iadd_step_spec g l e f v :
  Open g l e -> NoDup g -> bounded l f -> NIL < e < f -> hd_cell l e = HEAD -> fresh_ok f ->
  let '(g', e', f') := iadd_step (g, e, f) v in
  Open g' (l ++ [(e', v)]) e' /\ NoDup g' /\ bounded (l ++ [(e', v)]) f' /\ NIL < e' < f'
  /\ hd_cell (l ++ [(e', v)]) e' = HEAD /\ f <= f' /\ fresh_ok f' /\ Frame g g'.
Proof.
  intros [Hn [Hnil [[Hz Hze] Ho]]] Hg Hb He Hh Hfr. unfold iadd_step.
  destruct Ho as [[-> Ho]|[l0 [x [-> Ho]]]].
  - assert (Hhas : g_has (Some e, Some FIRST, None) g = false).
    { apply not_true_false. rewrite g_has_sp. intros [o H]. exact (Ho (e, FIRST, o) eq_refl Hze H). }
    rewrite Hhas. simpl app.
    refine (conj _ (conj _ (conj _ (conj _ (conj _ (conj _ (conj _ _))))))).
    + split; [simpl; constructor; [tauto|constructor]|split; [|split]].
      * simpl. intros [E|[]]. rewrite <- E in He. nlia.
      * split; [|exact Hze]. intros y [<-|[]]. exact Hze.
      * right. exists [], v. split; auto. intros t Ht Hft. rewrite g_add_In. simpl.
        split; [intros [->|H]; [auto|exfalso; exact (Ho t Ht Hft H)]|intros [<-|[]]; auto].
    + now apply g_add_NoDup.
    + intros c [<-|[]]. simpl. nlia.
    + nlia.
    + simpl in *. exact Hh.
    + nlia.
    + exact Hfr.
    + now apply Frame_add.
  - assert (Hhas : g_has (Some e, Some FIRST, None) g = true).
    { rewrite g_has_sp. exists x. apply Ho; [reflexivity|exact Hze|]. apply in_app_iff. right. now left. }
    rewrite Hhas.
    assert (Hf : ~ In f (cells (l0 ++ [(e, x)]))).
    { intros H. apply Hb in H. nlia. }
    assert (Hzf : fz f = false) by (apply Hfr; lia).
    refine (conj _ (conj _ (conj _ (conj _ (conj _ (conj _ (conj _ _))))))).
    + split; [|split; [|split]].
      * rewrite cells_app. simpl. apply NoDup_app_single; auto.
      * rewrite cells_app, in_app_iff. simpl. intros [H|[E|[]]]; [auto|]. rewrite <- E in He. nlia.
      * split; [|exact Hzf]. apply notfz_app. split; auto. intros y [<-|[]]. exact Hzf.
      * right. exists (l0 ++ [(e, x)]), v. split; auto. intros t Ht Hft.
        rewrite !g_add_In, (Ho t Ht Hft), chainT_app, !in_app_iff. simpl. split; intros Hx; ors.
    + now apply g_add_NoDup, g_add_NoDup.
    + intros c H. rewrite cells_app, in_app_iff in H. simpl in H.
      destruct H as [H|[<-|[]]]; [apply Hb in H|]; nlia.
    + nlia.
    + rewrite hd_cell_app. simpl. rewrite <- Hh. apply hd_cell_ne. destruct l0; discriminate.
    + nlia.
    + intros y Hy. apply Hfr. lia.
    + eapply Frame_trans; apply Frame_add; auto.
Qed.

Lemma iadd_fold_spec items : forall g l e f,
  Open g l e -> NoDup g -> bounded l f -> NIL < e < f -> hd_cell l e = HEAD -> fresh_ok f ->
  let '(g', e', f') := fold_left iadd_step items (g, e, f) in
  exists l', Open g' l' e' /\ NoDup g' /\ bounded l' f' /\ NIL < e' < f' /\ hd_cell l' e' = HEAD
             /\ f <= f' /\ fresh_ok f' /\ Frame g g' /\ map snd l' = map snd l ++ items.
Proof.
  induction items as [|v r IH]; intros g l e f Ho Hg Hb He Hh Hfr.
  - simpl. exists l. rewrite app_nil_r.
    refine (conj Ho (conj Hg (conj Hb (conj He (conj Hh (conj _ (conj Hfr (conj (Frame_refl g) eq_refl)))))))). nlia.
  - change (fold_left iadd_step (v :: r) (g, e, f)) with (fold_left iadd_step r (iadd_step (g, e, f) v)).
    generalize (iadd_step_spec g l e f v Ho Hg Hb He Hh Hfr).
    destruct (iadd_step (g, e, f) v) as [[g1 e1] f1]. intros [A1 [A2 [A3 [A4 [A5 [A6 [A7 A8]]]]]]].
    generalize (IH g1 _ e1 f1 A1 A2 A3 A4 A5 A7).
    destruct (fold_left iadd_step r (g1, e1, f1)) as [[g2 e2] f2].
    intros [l' [B1 [B2 [B3 [B4 [B5 [B6 [B8 [B9 B7]]]]]]]]]. exists l'.
    refine (conj B1 (conj B2 (conj B3 (conj B4 (conj B5 (conj _ (conj B8 (conj (Frame_trans _ _ _ A8 B9) _))))))));
      [nlia|].
    rewrite B7, map_app. simpl. now rewrite <- app_assoc.
Qed.

Lemma Open_close g l e : Open g l e -> l <> [] -> Rep (g_add (e, REST, NIL) g) l.
Proof.
  intros [Hn [Hnil [[Hz Hze] Ho]]] Hne. destruct Ho as [[-> _]|[l0 [x [-> Ho]]]]; [congruence|].
  split; [|split; [|split]]; auto. intros t Ht Hf.
  rewrite g_add_In, (Ho t Ht Hf), chainT_app, !in_app_iff. simpl. split; intros Hx; ors.
Qed.

Lemma Rep_open g l0 e x :
  Rep g (l0 ++ [(e, x)]) -> Open (g_remove (Some e, Some REST, None) g) (l0 ++ [(e, x)]) e.
Proof.
  intros [Hn [Hnil [Hz Hi]]]. split; [|split; [|split]]; auto.
  { split; auto. apply Hz, cell_mid. }
  right. exists l0, x. split; auto.
  destruct (mid_parts _ _ _ _ Hn) as [P1 _].
  intros t Ht Hf. rewrite g_remove_sp_In, (Hi t Ht Hf), chainT_app, !in_app_iff. simpl. split.
  - intros [[H|[H|[H|[]]]] Hne]; auto. subst t. exfalso. apply Hne. split; reflexivity.
  - intros [H|[H|[]]].
    + split; auto. intros [E _]. exact (subj_not_in _ _ _ _ H P1 E).
    + split; auto. subst t. intros [_ E]. discriminate.
Qed.

Lemma Rep_open_empty g p : Rep g [] -> Open (g_remove p g) [] HEAD.
Proof.
  intros [_ [_ [_ Hi]]]. split; [constructor|split; [simpl; tauto|split]].
  { split; auto. intros ? []. }
  left. split; auto.
  intros t Ht Hf H. apply g_remove_In in H. destruct H as [H _]. now apply (Hi t Ht Hf) in H.
Qed.

Lemma end_chain g e x : NoDup g -> forall l2 l1 fuel,
  Rep g (l1 ++ l2 ++ [(e, x)]) -> (length l2 < fuel)%nat ->
  end_f fuel g (hd_cell (l2 ++ [(e, x)]) NIL) = Some e.
Proof.
  intros Hn. induction l2 as [|[c y] r IH]; intros l1 fuel HR Hf;
    (destruct fuel as [|f]; [simpl in Hf; lia|]).
  - simpl. simpl in HR. rewrite (value_only _ _ _ _ Hn (Rep_only_rest _ _ _ _ _ HR)). reflexivity.
  - cbn [app hd_cell end_f]. simpl in HR.
    rewrite (value_only _ _ _ _ Hn (Rep_only_rest _ _ _ _ _ HR)).
    assert (Hc : N.eqb (hd_cell (r ++ [(e, x)]) NIL) NIL = false).
    { apply N.eqb_neq. intros E. destruct HR as [_ [HR2 _]]. apply HR2.
      rewrite cells_app, in_app_iff. right. simpl. right.
      destruct r as [|[c2 y2] r2]; simpl in E |- *; left; auto. }
    rewrite Hc. apply (IH (l1 ++ [(c, y)])).
    + rewrite <- app_assoc. exact HR.
    + simpl in Hf. lia.
Qed.

Lemma c_end_Rep g l0 e x : NoDup g -> Rep g (l0 ++ [(e, x)]) -> headed (l0 ++ [(e, x)]) ->
  c_end g HEAD = Some e.
Proof.
  intros Hn HR Hh. unfold c_end. rewrite <- Hh by (destruct l0; discriminate).
  apply (end_chain g e x Hn l0 []); auto.
  apply Rep_length in HR. rewrite app_length in HR. simpl in HR. unfold fuel_of. lia.
Qed.

Lemma c_end_empty g : Rep g [] -> c_end g HEAD = Some HEAD.
Proof.
  intros HR. unfold c_end, fuel_of. simpl. now rewrite (Rep_value_none _ _ HEAD REST HR) by auto.
Qed.

(* ---- clear ---- *)
Lemma Rep_clear_cell g c x l :
  Rep g ((c, x) :: l) ->
  Rep (g_remove (Some c, Some REST, None) (g_remove (Some c, Some FIRST, None) g)) l.
Proof.
  intros [Hn [Hnil [Hz Hi]]]. simpl in Hn, Hnil. inversion Hn; subst.
  split; [auto|split; [tauto|split]].
  { intros y Hy. apply Hz. now right. }
  intros t Ht Hf. rewrite !g_remove_sp_In, (Hi t Ht Hf). simpl. split.
  - intros [[[H|[H|H]] N1] N2]; auto.
    + subst t. exfalso. apply N1. split; reflexivity.
    + subst t. exfalso. apply N2. split; reflexivity.
  - intros H. assert (subj t <> c) by (eapply subj_not_in; eauto). tauto.
Qed.

Lemma Rep_nil_remove g p : Rep g [] -> Rep (g_remove p g) [].
Proof.
  intros [A [B [Hz Hi]]]. split; [auto|split; [auto|split; [auto|]]].
  intros t Ht Hf. rewrite g_remove_In, (Hi t Ht Hf). simpl. tauto.
Qed.

Lemma clear_nil g c f : NoDup g -> Rep g [] -> fz c = false ->
  exists g', clear_f (S (S f)) g (Some c) = Some g' /\ NoDup g' /\ Rep g' [] /\ Frame g g'.
Proof.
  intros Hn HR Hc. cbn [clear_f]. rewrite (Rep_value_none _ _ c REST HR) by auto.
  eexists. split; [reflexivity|]. split; [|split].
  - now apply g_remove_NoDup, g_remove_NoDup.
  - now apply Rep_nil_remove, Rep_nil_remove.
  - eapply Frame_trans; apply Frame_remove; exact Hc.
Qed.

Lemma clear_chain : forall l fuel g, NoDup g -> Rep g l -> (length l + 2 <= fuel)%nat ->
  exists g', clear_f fuel g (Some (hd_cell l NIL)) = Some g' /\ NoDup g' /\ Rep g' [] /\ Frame g g'.
Proof.
  induction l as [|[c x] r IH]; intros fuel g Hn HR Hf.
  - destruct fuel as [|[|f]]; try (simpl in Hf; lia). now apply clear_nil.
  - destruct fuel as [|f]; [simpl in Hf; lia|].
    cbn [hd_cell clear_f].
    rewrite (value_only _ _ _ _ Hn (Rep_only_rest _ [] _ _ _ HR)).
    assert (Hc : fz c = false) by (destruct HR as [_ [_ [Hz _]]]; apply Hz; now left).
    destruct (IH f (g_remove (Some c, Some REST, None) (g_remove (Some c, Some FIRST, None) g)))
      as [g' [E [A [B C]]]].
    + now apply g_remove_NoDup, g_remove_NoDup.
    + eapply Rep_clear_cell; eauto.
    + simpl in Hf. lia.
    + exists g'. split; [exact E|split; [exact A|split; [exact B|]]].
      eapply Frame_trans; [|exact C]. eapply Frame_trans; apply Frame_remove; exact Hc.
Qed.

Lemma c_clear_Rep g l : NoDup g -> Rep g l -> headed l ->
  exists g', c_clear g HEAD = (g', RNone) /\ NoDup g' /\ Rep g' [] /\ Frame g g'.
Proof.
  intros Hn HR Hh. unfold c_clear.
  assert (H : exists g', clear_f (fuel_of g) g (Some HEAD) = Some g' /\ NoDup g' /\ Rep g' [] /\ Frame g g').
  { destruct l as [|[c x] r].
    - unfold fuel_of. now apply clear_nil.
    - rewrite <- Hh by discriminate. apply clear_chain; auto.
      apply Rep_length in HR. unfold fuel_of. lia. }
  destruct H as [g' [E [A B]]]. rewrite E. exists g'. auto.
Qed.

(* ------------------------------------------------------------------ *)
(* The representation invariant of a history                           *)

Definition Inv (s : st) (xs : list term) : Prop :=
  NoDup (gr s) /\ exists l, map snd l = xs /\ Rep (gr s) l /\ headed l
                            /\ bounded l (fresh s) /\ HEAD < fresh s /\ fresh_ok (fresh s).

Lemma bounded_big l f : bounded l f -> big l.
Proof. intros H c Hc. apply (H c Hc). Qed.

Lemma res_eqb_refl r : res_eqb r r = true.
Proof.
  destruct r; simpl; auto; try apply N.eqb_refl.
  - apply Bool.eqb_reflx.
  - destruct (list_eqb_spec _ N.eqb_spec l l); congruence.
  - destruct e; reflexivity.
Qed.
Lemma res_ok_refl o r : res_ok o r r = true.
Proof. apply res_eqb_refl. Qed.

Lemma split_at (l : list (term * term)) k : (k < length l)%nat ->
  exists l1 c x l2, l = l1 ++ (c, x) :: l2 /\ length l1 = k.
Proof.
  intros H. destruct (nth_split l (NIL, NIL) H) as [l1 [l2 [E L]]].
  destruct (nth k l (NIL, NIL)) as [c x]. exists l1, c, x, l2. auto.
Qed.

Lemma nth_mid (l1 : list (term * term)) c x l2 d :
  nth (length l1) (map snd (l1 ++ (c, x) :: l2)) d = x.
Proof. induction l1 as [|a r IH]; simpl; auto. Qed.
Lemma set_nth_mid (l1 : list (term * term)) c x l2 v :
  set_nth (length l1) v (map snd (l1 ++ (c, x) :: l2)) = map snd (l1 ++ (c, v) :: l2).
Proof. induction l1 as [|a r IH]; simpl; auto. now rewrite IH. Qed.
Lemma remove_nth_mid (l1 : list (term * term)) c x l2 :
  remove_nth (length l1) (map snd (l1 ++ (c, x) :: l2)) = map snd (l1 ++ l2).
Proof. induction l1 as [|a r IH]; simpl; auto. now rewrite IH. Qed.

Lemma norm_cases g n i : c_len g HEAD = RNat (N.of_nat n) ->
  (exists k, (k < n)%nat /\ norm_index n i = Some k /\ c_norm g HEAD i = inl (Z.of_nat k)) \/
  (norm_index n i = None /\
   (c_norm g HEAD i = inr (RExc IndexError) \/
    exists k, (n <= k)%nat /\ i = Z.of_nat k /\ c_norm g HEAD i = inl (Z.of_nat k))).
Proof.
  intros Hl. unfold norm_index, c_norm. rewrite Hl, nat_N_Z. destruct (Z.ltb_spec i 0).
  - destruct (Z.leb_spec (- Z.of_nat n) i).
    + left. exists (Z.to_nat (Z.of_nat n + i)). split; [lia|]. split; auto.
      destruct (Z.ltb_spec (i + Z.of_nat n) 0); [lia|]. f_equal. lia.
    + right. split; auto. left. destruct (Z.ltb_spec (i + Z.of_nat n) 0); [auto|lia].
  - destruct (Z.ltb_spec i (Z.of_nat n)).
    + left. exists (Z.to_nat i). split; [lia|]. split; auto. f_equal. lia.
    + right. split; auto. right. exists (Z.to_nat i). split; [lia|]. split; [lia|]. f_equal. lia.
Qed.

Lemma Inv_len s xs : Inv s xs ->
  c_items (gr s) HEAD = (xs, IOk).
Proof.
  intros [Hn [l [<- [HR [Hh [Hb _]]]]]]. apply c_items_Rep; auto. eapply bounded_big; eauto.
Qed.

Lemma c_len_Inv s xs : Inv s xs -> c_len (gr s) HEAD = RNat (N.of_nat (length xs)).
Proof. intros H. unfold c_len. now rewrite (Inv_len _ _ H). Qed.
Lemma c_iter_Inv s xs : Inv s xs -> c_iter (gr s) HEAD = RList xs.
Proof. intros H. unfold c_iter. now rewrite (Inv_len _ _ H). Qed.

(* ---- reads ---- *)
Lemma step_get s xs i : Inv s xs ->
  c_getitem (gr s) HEAD i = snd (lstep xs (OGet i)).
Proof.
  intros HI. pose proof (c_len_Inv _ _ HI) as Hlen.
  destruct HI as [Hn [l [<- [HR [Hh [Hb _]]]]]]. simpl. rewrite map_length in *.
  destruct (norm_cases _ _ i Hlen) as [[k [Hlt [-> Ec]]]|[-> [Ec|[k [Hge [-> Ec]]]]]].
  - rewrite (getitem_norm _ _ _ _ Ec) by lia.
    destruct (split_at l k Hlt) as [l1 [c [x [l2 [-> <-]]]]].
    rewrite nth_mid. apply (getitem_at _ _ _ _ _ Hn HR (bounded_big _ _ Hb) Hh).
  - unfold c_getitem. now rewrite Ec.
  - now apply getitem_out with (l := l).
Qed.

Ltac fzc HR := let Hz := fresh "Hz" in
  destruct HR as [_ [_ [Hz _]]]; apply Hz; rewrite ?cells_app, ?in_app_iff; simpl; tauto.

Lemma step_set s xs i v : Inv s xs -> kf_op xs (OSet i v) = 0 ->
  Inv {| gr := fst (c_setitem (gr s) HEAD i v); fresh := fresh s |} (fst (lstep xs (OSet i v)))
  /\ Frame (gr s) (fst (c_setitem (gr s) HEAD i v))
  /\ snd (c_setitem (gr s) HEAD i v) = snd (lstep xs (OSet i v)).
Proof.
  intros HI Hk. pose proof (c_len_Inv _ _ HI) as Hlen. pose proof HI as HI0.
  destruct HI as [Hn [l [<- [HR [Hh [Hb Hf]]]]]]. cbn [kf_op] in Hk. simpl. rewrite map_length in *.
  destruct (norm_cases _ _ i Hlen) as [[k [Hlt [-> Ec]]]|[-> [Ec|[k [Hge [-> Ec]]]]]].
  - rewrite (setitem_norm _ _ _ _ v Ec) by lia.
    destruct (split_at l k Hlt) as [l1 [c [x [l2 [-> <-]]]]].
    unfold c_setitem. rewrite c_norm_nonneg by lia.
    destruct (getitem_at _ _ _ _ _ Hn HR (bounded_big _ _ Hb) Hh) as [E _]. rewrite E.
    rewrite (big_truthy _ c (bounded_big _ _ Hb)) by apply cell_mid.
    assert (Hzc : fz c = false) by fzc HR.
    simpl. split; [|split; [now apply Frame_set|reflexivity]]. split; [now apply g_set_NoDup|].
    exists (l1 ++ (c, v) :: l2). rewrite set_nth_mid.
    split; [auto|split; [now apply Rep_set with (x := x)|split; [|split; auto]]].
    + intros _. rewrite <- Hh by (destruct l1; discriminate). rewrite !hd_cell_app. reflexivity.
    + intros c'. rewrite cells_app. simpl. intros H. apply Hb. now rewrite cells_app.
  - unfold c_setitem. rewrite Ec. simpl. split; [auto|split; [apply Frame_refl|reflexivity]].
  - destruct (Z.eqb_spec (Z.of_nat k) (Z.of_nat (length l))); [discriminate|].
    unfold c_setitem. rewrite Ec, (getitem_beyond _ l k Hn HR Hh) by lia. simpl.
    split; [auto|split; [apply Frame_refl|reflexivity]].
Qed.

Lemma headed_drop l1 p (xp : term) c (x : term) l2 :
  headed (l1 ++ (p, xp) :: (c, x) :: l2) -> headed (l1 ++ (p, xp) :: l2).
Proof.
  intros H _. rewrite <- H by (destruct l1; discriminate). rewrite !hd_cell_app. reflexivity.
Qed.
Lemma bounded_drop l1 p (xp : term) c (x : term) l2 f :
  bounded (l1 ++ (p, xp) :: (c, x) :: l2) f -> bounded (l1 ++ (p, xp) :: l2) f.
Proof. intros H y Hy. apply H. now apply (proj2 (cells_drop l1 p xp c x l2)). Qed.

(* deletion at a normalised in-range key *)
Lemma del_at s l1 c x l2 :
  NoDup (gr s) -> Rep (gr s) (l1 ++ (c, x) :: l2) -> headed (l1 ++ (c, x) :: l2) ->
  bounded (l1 ++ (c, x) :: l2) (fresh s) -> HEAD < fresh s /\ fresh_ok (fresh s) ->
  c_len (gr s) HEAD = RNat (N.of_nat (length (l1 ++ (c, x) :: l2))) ->
  Inv {| gr := fst (c_delitem (gr s) HEAD (Z.of_nat (length l1))); fresh := fresh s |}
      (map snd (l1 ++ l2))
  /\ Frame (gr s) (fst (c_delitem (gr s) HEAD (Z.of_nat (length l1))))
  /\ snd (c_delitem (gr s) HEAD (Z.of_nat (length l1))) = RNone.
Proof.
  intros Hn HR Hh Hb Hf Hlen.
  pose proof (bounded_big _ _ Hb) as Hbig.
  destruct (getitem_at _ _ _ _ _ Hn HR Hbig Hh) as [E1 E2].
  unfold c_delitem. rewrite c_norm_nonneg by lia. rewrite E2, E1, Hlen.
  rewrite (big_truthy _ c Hbig) by apply cell_mid. cbn [negb].
  destruct l1 as [|[p xp] l1' _] using rev_ind.
  - (* key = 0 *)
    assert (c = HEAD) by (apply Hh; discriminate). subst c.
    destruct l2 as [|[nx xn] l2'].
    + (* the only element *)
      simpl. split; [|split; [eapply Frame_trans; [apply Frame_set|apply Frame_remove]; auto|reflexivity]].
      split; [now apply g_remove_NoDup, g_set_NoDup|].
      exists []. split; auto. split; [now apply Rep_del_only with (x := x)|].
      split; [intros H; congruence|split; auto]. intros y [].
    + (* the head of a longer list *)
      assert (Hn1 : N.eqb (N.of_nat (length ([] ++ (HEAD, x) :: (nx, xn) :: l2'))) 1 = false).
      { apply N.eqb_neq. simpl. lia. }
      assert (Et : (Z.of_nat (length (@nil (term * term))) =?
                    Z.of_N (N.of_nat (length ([] ++ (HEAD, x) :: (nx, xn) :: l2'))) - 1)%Z = false).
      { apply Z.eqb_neq. simpl length. lia. }
      rewrite Hn1, Et. cbn [andb length Z.of_nat Z.eqb].
      destruct (getitem_at (gr s) [(HEAD, x)] nx xn l2' Hn HR Hbig Hh) as [N1 _].
      change (Z.of_nat (length [(HEAD, x)])) with 1%Z in N1. rewrite N1.
      rewrite (value_only _ _ _ _ Hn (Rep_only_first _ [(HEAD, x)] _ _ _ HR)).
      rewrite (value_only _ _ _ _ Hn (Rep_only_rest _ [(HEAD, x)] _ _ _ HR)).
      assert (Hznx : fz nx = false) by fzc HR.
      cbn [fst snd app].
      split; [|split; [eapply Frame_trans; [apply Frame_remove|eapply Frame_trans; apply Frame_set]; auto|reflexivity]].
      split; [now apply g_set_NoDup, g_set_NoDup, g_remove_NoDup|].
      exists ((HEAD, xn) :: l2'). split; [reflexivity|].
      split; [now apply Rep_del_head with (x := x)|].
      split; [intros _; reflexivity|split; auto].
      intros y Hy. apply Hb. simpl in Hy |- *. tauto.
  - (* there is a prior cell *)
    rewrite <- app_assoc in HR, Hb, Hh, Hbig. simpl app in HR, Hb, Hh, Hbig.
    assert (Ek : (Z.of_nat (length (l1' ++ [(p, xp)])) - 1 = Z.of_nat (length l1'))%Z)
      by (rewrite app_length; simpl; lia).
    destruct (getitem_at _ _ _ _ _ Hn HR Hbig Hh) as [P1 _].
    assert (Hn1 : N.eqb (N.of_nat (length ((l1' ++ [(p, xp)]) ++ (c, x) :: l2))) 1 = false).
    { apply N.eqb_neq. rewrite !app_length. simpl. lia. }
    rewrite Hn1. cbn [andb]. rewrite Ek, P1.
    destruct l2 as [|[nx xn] l2'].
    + assert (Et : (Z.of_nat (length (l1' ++ [(p, xp)])) =?
                    Z.of_N (N.of_nat (length ((l1' ++ [(p, xp)]) ++ [(c, x)]))) - 1)%Z = true).
      { apply Z.eqb_eq. rewrite !app_length. simpl. lia. }
      assert (Hzc : fz c = false) by fzc HR. assert (Hzp : fz p = false) by fzc HR.
      rewrite Et. cbn [fst snd].
      split; [|split; [eapply Frame_trans; [apply Frame_set|apply Frame_remove]; auto|reflexivity]].
      split; [now apply g_remove_NoDup, g_set_NoDup|].
      exists (l1' ++ [(p, xp)]). rewrite app_nil_r.
      split; auto. split; [apply (Rep_del_tail _ _ _ _ _ _ [] HR)|].
      split; [eapply headed_drop; eauto|split; auto]. eapply bounded_drop; eauto.
    + assert (Et : (Z.of_nat (length (l1' ++ [(p, xp)])) =?
                    Z.of_N (N.of_nat (length ((l1' ++ [(p, xp)]) ++ (c, x) :: (nx, xn) :: l2'))) - 1)%Z = false).
      { apply Z.eqb_neq. rewrite !app_length. simpl. lia. }
      assert (Ez : (Z.of_nat (length (l1' ++ [(p, xp)])) =? 0)%Z = false).
      { apply Z.eqb_neq. rewrite app_length. simpl. lia. }
      rewrite Et, Ez.
      assert (HR' : Rep (gr s) ((l1' ++ [(p, xp); (c, x)]) ++ (nx, xn) :: l2'))
        by (rewrite <- app_assoc; exact HR).
      assert (Hb' : big ((l1' ++ [(p, xp); (c, x)]) ++ (nx, xn) :: l2'))
        by (rewrite <- app_assoc; exact Hbig).
      assert (Hh' : headed ((l1' ++ [(p, xp); (c, x)]) ++ (nx, xn) :: l2'))
        by (rewrite <- app_assoc; exact Hh).
      destruct (getitem_at _ _ _ _ _ Hn HR' Hb' Hh') as [N1 _].
      assert (Ek' : (Z.of_nat (length (l1' ++ [(p, xp)])) + 1 = Z.of_nat (length (l1' ++ [(p, xp); (c, x)])))%Z)
        by (rewrite !app_length; simpl; lia).
      rewrite Ek', N1.
      rewrite (big_truthy _ nx Hb') by apply cell_mid.
      rewrite (big_truthy _ p Hbig) by apply cell_mid.
      assert (Hzc : fz c = false) by fzc HR. assert (Hzp : fz p = false) by fzc HR.
      cbn [andb fst snd].
      split; [|split; [eapply Frame_trans; [apply Frame_remove|apply Frame_set]; auto|reflexivity]].
      split; [now apply g_set_NoDup, g_remove_NoDup|].
      exists (l1' ++ (p, xp) :: (nx, xn) :: l2'). rewrite <- app_assoc. simpl app.
      split; auto. split; [apply (Rep_del_middle _ _ _ _ _ _ ((nx, xn) :: l2') HR)|].
      split; [eapply headed_drop; eauto|split; auto]. eapply bounded_drop; eauto.
Qed.

Lemma step_del s xs i : Inv s xs ->
  Inv {| gr := fst (c_delitem (gr s) HEAD i); fresh := fresh s |} (fst (lstep xs (ODel i)))
  /\ Frame (gr s) (fst (c_delitem (gr s) HEAD i))
  /\ snd (c_delitem (gr s) HEAD i) = snd (lstep xs (ODel i)).
Proof.
  intros HI. pose proof (c_len_Inv _ _ HI) as Hlen. pose proof HI as HI0.
  destruct HI as [Hn [l [<- [HR [Hh [Hb Hf]]]]]]. cbn [lstep]. rewrite map_length in *.
  destruct (norm_cases _ _ i Hlen) as [[k [Hlt [-> Ec]]]|[-> [Ec|[k [Hge [-> Ec]]]]]].
  - rewrite (delitem_norm _ _ _ _ Ec) by lia.
    destruct (split_at l k Hlt) as [l1 [c [x [l2 [-> <-]]]]].
    rewrite remove_nth_mid. cbn [fst snd]. now apply (del_at s l1 c x l2).
  - unfold c_delitem. rewrite Ec. cbn [fst snd]. split; [auto|split; [apply Frame_refl|reflexivity]].
  - unfold c_delitem. rewrite Ec. rewrite (getitem_out _ l k Hn HR Hh Hge). cbn [fst snd].
    split; [auto|split; [apply Frame_refl|reflexivity]].
Qed.

(* ---- append, += ---- *)
Lemma Rep_nil_open g : Rep g [] -> Open g [] HEAD.
Proof.
  intros [A [B [Hz Hi]]]. split; [auto|split; [auto|split; [split; auto|]]]. left. split; auto.
  intros t Ht Hf H. now apply (Hi t Ht Hf) in H.
Qed.

Lemma Open_has_first g l0 e x : Open g (l0 ++ [(e, x)]) e ->
  g_has (Some e, Some FIRST, None) g = true.
Proof.
  intros [_ [_ [[_ Hze] [[E _]|[l0' [x' [E Ho]]]]]]]; [destruct l0; discriminate|].
  apply g_has_sp. exists x'. apply Ho; [reflexivity|exact Hze|]. apply in_app_iff. right. now left.
Qed.

Lemma close_Inv g' l' e' f' :
  Open g' l' e' -> NoDup g' -> bounded l' f' -> hd_cell l' e' = HEAD -> HEAD < f' -> fresh_ok f' ->
  l' <> [] ->
  Inv {| gr := g_add (e', REST, NIL) g'; fresh := f' |} (map snd l').
Proof.
  intros Ho Hn Hb Hh Hf Hfr Hne. split; [now apply g_add_NoDup|].
  exists l'. split; auto. split; [now apply Open_close|].
  split; [|split; auto]. intros _. rewrite <- Hh. now apply hd_cell_ne.
Qed.

Lemma Inv_end s xs : Inv s xs ->
  exists l e, map snd l = xs /\ c_end (gr s) HEAD = Some e /\ N.eqb e NIL = false
              /\ Open (g_remove (Some e, Some REST, None) (gr s)) l e
              /\ bounded l (fresh s) /\ NIL < e < fresh s /\ hd_cell l e = HEAD
              /\ (l = [] -> Rep (gr s) [] /\ e = HEAD)
              /\ (l <> [] -> g_has (Some e, Some FIRST, None) (gr s) = true)
              /\ fz e = false.
Proof.
  intros [Hn [l [<- [HR [Hh [Hb [Hf Hfr]]]]]]].
  destruct l as [|[e x] l0 _] using rev_ind.
  - exists [], HEAD.
    refine (conj eq_refl (conj (c_end_empty _ HR) (conj eq_refl (conj (Rep_open_empty _ _ HR)
             (conj Hb (conj _ (conj eq_refl (conj _ (conj _ fz_head))))))))).
    + nlia.
    + auto.
    + congruence.
  - exists (l0 ++ [(e, x)]), e. split; auto. split; [now apply c_end_Rep with (l0 := l0) (x := x)|].
    assert (He : NIL < e < fresh s) by (apply Hb; apply cell_mid).
    split; [apply N.eqb_neq; lia|]. split; [now apply Rep_open|].
    split; auto. split; auto. split.
    { rewrite <- Hh by (destruct l0; discriminate). apply hd_cell_ne. destruct l0; discriminate. }
    split; [intros E; destruct l0; discriminate|]. split.
    + intros _. apply g_has_sp. exists x. apply (Rep_only_first _ _ _ _ _ HR).
    + fzc HR.
Qed.

Lemma Open_nil g e : Open g [] e ->
  Rep g [] /\ g_has (Some e, Some FIRST, None) g = false.
Proof.
  intros [A [B [[Hz Hze] [[_ Ho]|[l0 [x [E _]]]]]]]; [|destruct l0; discriminate].
  split.
  - split; [auto|split; [auto|split; [auto|]]]. intros t Ht Hf. simpl.
    split; [intros H; exact (Ho t Ht Hf H)|tauto].
  - apply not_true_false. rewrite g_has_sp. intros [o H]. exact (Ho (e, FIRST, o) eq_refl Hze H).
Qed.

Lemma Open_cons_has g l e : Open g l e -> l <> [] -> g_has (Some e, Some FIRST, None) g = true.
Proof.
  intros Ho Hne. pose proof Ho as [_ [_ [_ [[E _]|[l0 [x [E _]]]]]]]; [congruence|].
  subst l. now apply Open_has_first with (l0 := l0) (x := x).
Qed.

Lemma step_iadd s xs items : Inv s xs ->
  Inv (fst (c_iadd s HEAD items)) (xs ++ items) /\ Frame (gr s) (gr (fst (c_iadd s HEAD items)))
  /\ snd (c_iadd s HEAD items) = RNone.
Proof.
  intros HI. pose proof HI as [Hn [_ [_ [_ [_ [_ [Hf Hfr]]]]]]].
  destruct (Inv_end _ _ HI) as [l [e [<- [E1 [E2 [Ho [Hb [He [Hh [Hem [_ Hze]]]]]]]]]]].
  unfold c_iadd. rewrite E1, E2.
  generalize (iadd_fold_spec items _ l e (fresh s) Ho (g_remove_NoDup _ _ Hn) Hb He Hh Hfr).
  destruct (fold_left iadd_step items _) as [[g1 e1] f1].
  intros [l' [B1 [B2 [B3 [B4 [B5 [B6 [B8 [B9 B7]]]]]]]]]. cbn [fst snd gr].
  assert (Fr : Frame (gr s) g1).
  { eapply Frame_trans; [apply (Frame_remove e (Some REST) None (gr s) Hze)|exact B9]. }
  assert (Hze1 : fz e1 = false) by (destruct B1 as [_ [_ [[_ H] _]]]; exact H).
  rewrite <- B7. destruct l' as [|a l''].
  - destruct (Open_nil _ _ B1) as [HR Hhas]. rewrite Hhas.
    split; [|split; [exact Fr|reflexivity]].
    split; auto. exists []. cbn [gr fresh]. split; auto. split; auto.
    split; [intros H; congruence|]. split; [intros y []|split; [lia|exact B8]].
  - rewrite (Open_cons_has _ _ _ B1) by discriminate.
    split; [|split; [eapply Frame_trans; [exact Fr|now apply Frame_add]|reflexivity]].
    apply close_Inv; auto; [lia|discriminate].
Qed.

Lemma step_append s xs v : Inv s xs ->
  Inv (fst (c_append s HEAD v)) (xs ++ [v]) /\ Frame (gr s) (gr (fst (c_append s HEAD v)))
  /\ snd (c_append s HEAD v) = RNone.
Proof.
  intros HI. pose proof HI as [Hn [_ [_ [_ [_ [_ [Hf Hfr]]]]]]].
  destruct (Inv_end _ _ HI) as [l [e [<- [E1 [E2 [Ho [Hb [He [Hh [Hem [Hne Hze]]]]]]]]]]].
  unfold c_append. rewrite E1, E2.
  destruct l as [|[e' x] l0 _] using rev_ind.
  - destruct (Hem eq_refl) as [HR ->].
    assert (Hhas : g_has (Some HEAD, Some FIRST, None) (gr s) = false).
    { apply not_true_false. rewrite g_has_sp. intros [o H].
      apply (Rep_no_subject _ _ HEAD FIRST o HR); auto. }
    rewrite Hhas. cbn [fst snd gr].
    generalize (iadd_step_spec (gr s) [] HEAD (fresh s) v (Rep_nil_open _ HR) Hn Hb He Hh Hfr).
    unfold iadd_step. rewrite Hhas. intros [A1 [A2 [A3 [A4 [A5 [A6 [A7 A8]]]]]]].
    split; [|split; [eapply Frame_trans; [exact A8|now apply Frame_add]|reflexivity]].
    apply (close_Inv _ _ _ _ A1 A2 A3 A5); [lia|exact A7|discriminate].
  - rewrite Hne by (destruct l0; discriminate). cbn [fst snd gr].
    assert (e' = e).
    { destruct Ho as [_ [_ [_ [[E _]|[l0' [x' [E _]]]]]]]; [destruct l0; discriminate|].
      apply app_inj_tail in E. destruct E as [_ E]. congruence. }
    subst e'.
    generalize (iadd_step_spec _ _ e (fresh s) v Ho (g_remove_NoDup _ _ Hn) Hb He Hh Hfr).
    unfold iadd_step. rewrite (Open_has_first _ _ _ _ Ho). intros [A1 [A2 [A3 [A4 [A5 [A6 [A7 A8]]]]]]].
    assert (Hzf : fz (fresh s) = false) by (apply Hfr; lia).
    split; [|split; [|reflexivity]].
    + replace (map snd (l0 ++ [(e, x)]) ++ [v]) with (map snd ((l0 ++ [(e, x)]) ++ [(fresh s, v)]))
        by (now rewrite (map_app snd (l0 ++ [(e, x)]))).
      unfold g_set. apply (close_Inv _ _ _ _ A1 A2 A3 A5); [lia|exact A7|].
      intros E. apply app_eq_nil in E. destruct E; discriminate.
    + unfold g_set. eapply Frame_trans; [|now apply Frame_add].
      eapply Frame_trans; [apply (Frame_remove e (Some REST) None (gr s) Hze)|exact A8].
Qed.

Lemma step_clear s xs : Inv s xs ->
  Inv {| gr := fst (c_clear (gr s) HEAD); fresh := fresh s |} []
  /\ Frame (gr s) (fst (c_clear (gr s) HEAD)) /\ snd (c_clear (gr s) HEAD) = RNone.
Proof.
  intros [Hn [l [<- [HR [Hh [Hb Hf]]]]]].
  destruct (c_clear_Rep _ _ Hn HR Hh) as [g' [E [A [B C]]]]. rewrite E. simpl.
  split; [|split; [exact C|reflexivity]].
  split; auto. exists []. split; auto. split; auto. split; [intros H; congruence|].
  split; auto. intros y [].
Qed.

Lemma step_index s xs v : Inv s xs ->
  res_ok (OIndex v) (snd (lstep xs (OIndex v))) (c_index (gr s) HEAD v) = true.
Proof.
  intros [Hn [l [<- [HR [Hh [Hb Hf]]]]]]. cbn [lstep snd]. unfold c_index.
  destruct l as [|[c x] r].
  - unfold fuel_of. cbn [index_f].
    assert (Hhas : g_has (Some HEAD, Some FIRST, Some v) (gr s) = false).
    { apply not_true_false. rewrite g_has_spo. apply (Rep_no_subject _ _ HEAD FIRST v HR); auto. }
    rewrite Hhas. rewrite objects_none; [reflexivity|].
    intros o. apply (Rep_no_subject _ _ HEAD REST o HR); auto.
  - rewrite <- Hh by discriminate.
    rewrite (index_chain _ Hn ((c, x) :: r) [] (fuel_of (gr s)) v 0 [hd_cell ((c, x) :: r) NIL]); auto.
    + destruct (index_of v (map snd ((c, x) :: r))); apply res_ok_refl.
    + discriminate.
    + apply Rep_length in HR. unfold fuel_of. lia.
    + intros y [<-|[]]. now right.
Qed.

Lemma step_contains s xs v : Inv s xs ->
  c_contains (gr s) HEAD v = RBool (memb N.eqb v xs).
Proof.
  intros H. unfold c_contains. rewrite (Inv_len _ _ H).
  destruct (memb N.eqb v xs); reflexivity.
Qed.

(* ------------------------------------------------------------------ *)
(* The well-formedness checker                                         *)

Lemma walk_Rep g : forall l l0, Rep g (l0 ++ l) -> l <> [] ->
  walk g (hd_cell l NIL) (map snd l) = Some l.
Proof.
  induction l as [|[c x] r IH]; intros l0 HR Hne; [congruence|].
  destruct r as [|[c2 x2] r2]; [reflexivity|].
  change (map snd ((c, x) :: (c2, x2) :: r2)) with (x :: map snd ((c2, x2) :: r2)).
  cbn [walk hd_cell]. cbn [map snd].
  rewrite (value_only_nd _ _ _ _ (Rep_only_rest _ _ _ _ _ HR)). cbn [hd_cell].
  assert (IH' := IH (l0 ++ [(c, x)])). cbn [hd_cell map snd] in IH'. rewrite IH'; auto.
  - rewrite <- app_assoc. exact HR.
  - discriminate.
Qed.

(* on a graph without frozen subjects the checker accepts a represented list *)
Lemma wf_check_Rep g l : (forall t, In t g -> fz (subj t) = false) -> Rep g l -> headed l ->
  wf_check HEAD (map snd l) g = true.
Proof.
  intros Hall HR Hh. destruct l as [|[c x] r].
  - simpl. apply forallb_forall. intros t Ht. destruct (is_fr t) eqn:E; auto.
    destruct HR as [_ [_ [_ Hi]]]. now apply (Hi t E (Hall t Ht)) in Ht.
  - assert (E : walk g HEAD (map snd ((c, x) :: r)) = Some ((c, x) :: r)).
    { rewrite <- Hh by discriminate. apply (walk_Rep g _ []); auto. discriminate. }
    unfold wf_check. cbn [map snd] in *. rewrite E.
    destruct HR as [H1 [H2 [Hz Hi]]]. unfold cells in H1, H2.
    rewrite (proj2 (nodupb_spec _ N.eqb_spec _) H1).
    rewrite (proj2 (memb_false _ N.eqb_spec _ _) H2).
    cbn [negb andb]. apply (seteqb_spec _ triple_eqb_spec). intros t.
    rewrite filter_In. split.
    + intros [A B]. now apply (Hi t B (Hall t A)).
    + intros A. pose proof (In_chainT_fr _ _ _ A) as B.
      assert (Hft : fz (subj t) = false) by (apply Hz; unfold cells; now apply In_chainT_subj in A).
      split; auto. now apply (Hi t B Hft).
Qed.

(* Prop-level reading of the checker *)
Definition WF (T : list triple) (head : term) (xs : list term) : Prop :=
  match xs with
  | [] => forall t, In t T -> is_fr t = false
  | _ => exists cs, length cs = length xs /\ NoDup cs /\ ~ In NIL cs /\ hd NIL cs = head /\
                    seteq (filter is_fr T) (chainT (combine cs xs) NIL)
  end.

Lemma walk_cons2 T c x x2 r2 :
  walk T c (x :: x2 :: r2) =
  match g_value T c REST with
  | Some nx => match walk T nx (x2 :: r2) with Some l => Some ((c, x) :: l) | None => None end
  | None => None
  end.
Proof. reflexivity. Qed.

Lemma walk_shape T : forall xs c l, walk T c xs = Some l -> xs <> [] ->
  map snd l = xs /\ hd_cell l NIL = c.
Proof.
  induction xs as [|x r IH]; intros c l H Hne; [congruence|].
  destruct r as [|x2 r2].
  - simpl in H. inversion H; subst. auto.
  - rewrite walk_cons2 in H. destruct (g_value T c REST) as [nx|]; [|discriminate].
    destruct (walk T nx (x2 :: r2)) as [l'|] eqn:E; [|discriminate].
    inversion H; subst. destruct (IH _ _ E) as [A B]; [discriminate|].
    simpl. rewrite A. auto.
Qed.

Lemma combine_fst_snd (l : list (term * term)) : combine (map fst l) (map snd l) = l.
Proof. induction l as [|[a b] r IH]; simpl; congruence. Qed.

Lemma wf_check_sound head xs T : wf_check head xs T = true -> WF T head xs.
Proof.
  unfold wf_check, WF. destruct xs as [|x r].
  - intros H t Ht. rewrite forallb_forall in H. apply negb_true_iff. auto.
  - destruct (walk T head (x :: r)) as [l|] eqn:E; [|discriminate].
    rewrite !andb_true_iff, negb_true_iff. intros [[H1 H2] H3].
    destruct (walk_shape _ _ _ _ E) as [A B]; [discriminate|].
    exists (map fst l). rewrite <- A, combine_fst_snd, !map_length.
    split; auto. split; [now apply (nodupb_spec _ N.eqb_spec)|].
    split; [now apply (memb_false _ N.eqb_spec)|].
    split; [|now apply (seteqb_spec _ triple_eqb_spec)].
    destruct l as [|[c y] l']; [discriminate|]. exact B.
Qed.

(* ------------------------------------------------------------------ *)
(* Histories                                                           *)

Lemma list_eqb_refl (l : list res) : list_eqb res_eqb l l = true.
Proof. induction l; simpl; auto. now rewrite res_eqb_refl. Qed.

Lemma map_seq_nth (A : Type) (xs : list A) d : map (fun k => nth k xs d) (seq 0 (length xs)) = xs.
Proof. induction xs; simpl; auto. f_equal. rewrite <- seq_shift, map_map. exact IHxs. Qed.

Lemma gets_Inv s xs : Inv s xs -> gets_of (gr s) HEAD = map RTerm xs.
Proof.
  intros HI. unfold gets_of. rewrite (c_len_Inv _ _ HI), Nat2N.id.
  rewrite <- (map_seq_nth _ xs 0) at 2. rewrite map_map. apply map_ext_in.
  intros k Hk. apply in_seq in Hk.
  rewrite (step_get s xs (Z.of_nat k) HI).
  simpl. unfold norm_index.
  destruct (Z.ltb_spec (Z.of_nat k) 0); [lia|].
  destruct (Z.ltb_spec (Z.of_nat k) (Z.of_nat (length xs))); [|lia]. now rewrite Nat2Z.id.
Qed.

(* c += c: the argument is evaluated first, the list doubles *)
Lemma step_iadd_self s xs : Inv s xs ->
  Inv (fst (c_iadd_self s HEAD)) (xs ++ xs) /\ Frame (gr s) (gr (fst (c_iadd_self s HEAD)))
  /\ snd (c_iadd_self s HEAD) = RNone.
Proof.
  intros HI. unfold c_iadd_self. rewrite (c_iter_Inv _ _ HI). now apply step_iadd.
Qed.

Lemma step_ok s xs o : Inv s xs -> kf_op xs o = 0 ->
  Inv (fst (c_step HEAD s o)) (fst (lstep xs o)) /\
  Frame (gr s) (gr (fst (c_step HEAD s o))) /\
  res_ok o (snd (lstep xs o)) (snd (c_step HEAD s o)) = true.
Proof.
  intros HI Hk. destruct o; cbn [c_step].
  - rewrite (step_get _ _ _ HI). split; [exact HI|split; [apply Frame_refl|apply res_ok_refl]].
  - destruct (step_set _ _ i v HI Hk) as [A [C B]].
    unfold with_g. cbn [fst snd gr]. rewrite B. split; [exact A|split; [exact C|apply res_ok_refl]].
  - destruct (step_del _ _ i HI) as [A [C B]].
    unfold with_g. cbn [fst snd gr]. rewrite B. split; [exact A|split; [exact C|apply res_ok_refl]].
  - destruct (step_append _ _ v HI) as [A [C B]]. rewrite B. split; [exact A|split; [exact C|reflexivity]].
  - destruct (step_iadd _ _ vs HI) as [A [C B]]. rewrite B. split; [exact A|split; [exact C|reflexivity]].
  - destruct (step_clear _ _ HI) as [A [C B]].
    unfold with_g. cbn [fst snd gr]. rewrite B. split; [exact A|split; [exact C|reflexivity]].
  - cbn [fst snd lstep]. rewrite (c_len_Inv _ _ HI). split; [exact HI|split; [apply Frame_refl|apply res_ok_refl]].
  - cbn [fst snd lstep]. rewrite (c_iter_Inv _ _ HI). split; [exact HI|split; [apply Frame_refl|apply res_ok_refl]].
  - split; [exact HI|split; [apply Frame_refl|]]. cbn [snd c_step]. apply (step_index _ _ v HI).
  - cbn [fst snd lstep]. rewrite (step_contains _ _ v HI). split; [exact HI|split; [apply Frame_refl|apply res_ok_refl]].
  - (* Collection(graph, uri, vs) *)
    destruct vs as [|v0 vs'].
    + cbn [fst snd lstep]. rewrite app_nil_r. split; [exact HI|split; [apply Frame_refl|reflexivity]].
    + destruct (step_iadd _ _ (v0 :: vs') HI) as [A [C B]]. cbn [lstep fst snd]. rewrite B.
      split; [exact A|split; [exact C|reflexivity]].
  - (* n3() *)
    cbn [fst snd lstep]. rewrite (c_iter_Inv _ _ HI). split; [exact HI|split; [apply Frame_refl|apply res_ok_refl]].
  - (* c += c *)
    destruct (step_iadd_self _ _ HI) as [A [C B]]. cbn [lstep fst snd]. rewrite B.
    split; [exact A|split; [exact C|reflexivity]].
Qed.

Lemma exc_eqb_true a b : exc_eqb a b = true -> a = b.
Proof. destruct a, b; simpl; congruence. Qed.

Lemma res_eqb_true a b : res_eqb a b = true -> a = b.
Proof.
  destruct a, b; simpl; try discriminate; intros H; auto.
  - apply N.eqb_eq in H. congruence.
  - apply N.eqb_eq in H. congruence.
  - apply Bool.eqb_prop in H. congruence.
  - destruct (list_eqb_spec _ N.eqb_spec l l0); congruence.
  - apply exc_eqb_true in H. congruence.
Qed.

Lemma list_res_eqb_true : forall a b, list_eqb res_eqb a b = true -> a = b.
Proof.
  induction a as [|x r IH]; intros [|y s]; simpl; try discriminate; auto.
  rewrite andb_true_iff. intros [A B]. apply res_eqb_true in A. apply IH in B. congruence.
Qed.

Lemma index_error s xs i : Inv s xs -> norm_index (length xs) i = None ->
  c_getitem (gr s) HEAD i = RExc IndexError /\
  c_delitem (gr s) HEAD i = (gr s, RExc IndexError) /\
  (i <> Z.of_nat (length xs) -> forall v, c_setitem (gr s) HEAD i v = (gr s, RExc IndexError)).
Proof.
  intros HI Hnone. pose proof (c_len_Inv _ _ HI) as Hlen.
  destruct HI as [Hn [l [<- [HR [Hh _]]]]]. rewrite map_length in *.
  destruct (norm_cases _ _ i Hlen) as [[k [Hlt [E _]]]|[_ [Ec|[k [Hge [-> Ec]]]]]]; [congruence| |].
  - unfold c_getitem, c_delitem, c_setitem. rewrite Ec. auto.
  - pose proof (getitem_out _ l k Hn HR Hh Hge) as Hg.
    split; [exact Hg|]. split.
    + unfold c_delitem. rewrite Ec, Hg. reflexivity.
    + intros Hne v. unfold c_setitem. rewrite Ec, (getitem_beyond _ l k Hn HR Hh) by lia. reflexivity.
Qed.

(* every operation outside the one trigger region (c[len] = v), Prop-level *)
Lemma refines_step s xs o : Inv s xs -> kf_op xs o = 0 ->
  let '(s', r) := c_step HEAD s o in
  let '(xs', e) := lstep xs o in
  Inv s' xs' /\ Frame (gr s) (gr s') /\ c_iter (gr s') HEAD = RList xs' /\ r = e.
Proof.
  intros HI Hk. destruct (step_ok s xs o HI Hk) as [A [C B]].
  destruct (c_step HEAD s o) as [s' r]. destruct (lstep xs o) as [xs' e]. cbn [fst snd] in *.
  split; auto. split; auto. split; [now apply c_iter_Inv|].
  unfold res_ok in B. apply res_eqb_true in B. congruence.
Qed.

End Frame.

(* ------------------------------------------------------------------ *)
(* Instances: no frozen subject at all, and the [frozen] set of the checker *)

Definition nofz : term -> bool := fun _ => false.

(* a represented list stays represented when the triples with a frozen subject
   are taken away - and then nothing is frozen any more *)
Lemma Rep_own fz g l : Rep fz g l -> Rep nofz (own_part fz g) l.
Proof.
  intros [H1 [H2 [Hz Hi]]]. split; [auto|split; [auto|split; [intros c _; reflexivity|]]].
  intros t Ht _. unfold own_part. rewrite filter_In, negb_true_iff. split.
  - intros [A B]. now apply (Hi t Ht B).
  - intros A. assert (B : fz (subj t) = false) by (apply Hz; now apply In_chainT_subj in A).
    split; auto. now apply (Hi t Ht B).
Qed.

Lemma frozen_nil : frozen NIL = false. Proof. reflexivity. Qed.
Lemma frozen_head : frozen HEAD = false. Proof. reflexivity. Qed.

(* the run invariant for the frame: the frozen part of the graph is the frozen part of the noise *)
Definition FrameInv (noise : list triple) (g : graph) : Prop :=
  forall t, frozen (subj t) = true -> (In t g <-> In t noise).

Lemma frame_check noise g : FrameInv noise g ->
  tseteqb (frame_part frozen g) (frame_part frozen noise) = true.
Proof.
  intros H. apply (seteqb_spec _ triple_eqb_spec). intros t. unfold frame_part.
  rewrite !filter_In. split; intros [A B]; split; auto; now apply (H t B).
Qed.

Lemma snap_Inv noise s xs r : Inv frozen s xs -> FrameInv noise (gr s) ->
  snap_ok noise HEAD xs (snap_of HEAD s r) = true.
Proof.
  intros HI HF. unfold snap_ok, snap_of. cbn [s_items s_len s_gets s_triples].
  rewrite (c_iter_Inv frozen frozen_nil frozen_head _ _ HI), (c_len_Inv frozen frozen_nil frozen_head _ _ HI),
    (gets_Inv frozen frozen_nil frozen_head _ _ HI).
  rewrite !res_eqb_refl, list_eqb_refl, (frame_check _ _ HF). cbn [andb]. rewrite andb_true_r.
  destruct HI as [Hn [l [<- [HR [Hh _]]]]].
  apply (wf_check_Rep nofz); auto. now apply Rep_own.
Qed.

Lemma lstep_not_hang xs o : snd (lstep xs o) <> RHang.
Proof.
  destruct o; simpl; try discriminate.
  - destruct (norm_index (length xs) i); discriminate.
  - destruct (norm_index (length xs) i); discriminate.
  - destruct (norm_index (length xs) i); discriminate.
  - destruct (index_of v xs); discriminate.
Qed.

Lemma res_ok_not_hang o e x : res_ok o e x = true -> e <> RHang -> is_hang x = false.
Proof.
  intros H He. unfold res_ok in H. apply res_eqb_true in H. subst x. destruct e; auto. congruence.
Qed.

Lemma run_ok noise : forall ops s xs, Inv frozen s xs -> FrameInv noise (gr s) -> kf_run xs ops = 0 ->
  spec_run noise HEAD xs ops (c_run HEAD s ops) = true.
Proof.
  induction ops as [|o r IH]; intros s xs HI HF Hk; [reflexivity|].
  cbn [kf_run] in Hk. destruct (N.eqb_spec (kf_op xs o) 0) as [E|E]; [|congruence].
  destruct (step_ok frozen frozen_nil frozen_head s xs o HI E) as [A [C B]].
  pose proof (lstep_not_hang xs o) as Hnh.
  cbn [c_run spec_run]. destruct (c_step HEAD s o) as [s' x]. destruct (lstep xs o) as [xs' e].
  cbn [fst snd] in *. rewrite (res_ok_not_hang _ _ _ B Hnh).
  change (s_res (snap_of HEAD s' x)) with x.
  assert (HF' : FrameInv noise (gr s')).
  { intros t Ht. rewrite (C t Ht). apply (HF t Ht). }
  rewrite B, (snap_Inv noise _ _ x A HF'). cbn [andb]. apply IH; auto.
Qed.

(* ------------------------------------------------------------------ *)
(* The initial state                                                   *)

Lemma fold_add_In l : forall g t,
  In t (fold_left (fun g t => g_add t g) l g) <-> In t l \/ In t g.
Proof.
  induction l as [|a r IH]; intros g t; simpl; [tauto|].
  rewrite IH, g_add_In. intuition.
Qed.
Lemma fold_add_NoDup l : forall g, NoDup g -> NoDup (fold_left (fun g t => g_add t g) l g).
Proof. induction l as [|a r IH]; intros g H; simpl; auto. apply IH. now apply g_add_NoDup. Qed.

Lemma cells_from_In n : forall k c, In c (cells_from k n) <-> k <= c < k + N.of_nat n.
Proof.
  induction n as [|n IH]; intros k c.
  - simpl. lia.
  - cbn [cells_from In]. rewrite IH. lia.
Qed.
Lemma cells_from_NoDup n : forall k, NoDup (cells_from k n).
Proof.
  induction n as [|n IH]; intros k; simpl; constructor; auto.
  rewrite cells_from_In. lia.
Qed.
Lemma cells_from_length n : forall k, length (cells_from k n) = n.
Proof. induction n; intros k; simpl; auto. Qed.

Lemma init_cells_In n c : In c (init_cells n) -> NIL < c < CELL0 + N.of_nat n.
Proof.
  destruct n as [|n]; [simpl; tauto|]. cbn [init_cells In]. intros [<-|H].
  - unfold NIL, HEAD, CELL0. lia.
  - apply cells_from_In in H. unfold NIL, CELL0 in *. lia.
Qed.
Lemma init_cells_NoDup n : NoDup (init_cells n).
Proof.
  destruct n as [|n]; simpl; constructor; [|apply cells_from_NoDup].
  rewrite cells_from_In. unfold HEAD, CELL0. lia.
Qed.
Lemma init_cells_length n : length (init_cells n) = n.
Proof. destruct n; simpl; auto. now rewrite cells_from_length. Qed.

Lemma combine_maps (cs : list term) : forall xs : list term, length cs = length xs ->
  map fst (combine cs xs) = cs /\ map snd (combine cs xs) = xs.
Proof.
  induction cs as [|c r IH]; intros [|x xs] H; simpl in *; try discriminate; auto.
  destruct (IH xs) as [A B]; [lia|]. now rewrite A, B.
Qed.

Lemma frozen_cell c : NIL < c -> (c = HEAD \/ CELL0 <= c) -> frozen c = false.
Proof.
  intros H [->|H2]; [reflexivity|]. unfold frozen.
  rewrite (proj2 (N.ltb_ge c CELL0) H2). now rewrite andb_false_r.
Qed.

Lemma init_cells_shape n c : In c (init_cells n) -> c = HEAD \/ CELL0 <= c.
Proof.
  destruct n as [|n]; [simpl; tauto|]. cbn [init_cells In]. intros [<-|H]; [now left|].
  apply cells_from_In in H. right. lia.
Qed.

Lemma init_Inv c : wfb c = true ->
  Inv frozen (init_st c) (c_init c) /\ FrameInv (c_noise c) (gr (init_st c)).
Proof.
  intros Hw. unfold init_st, init_graph.
  set (xs := c_init c). set (l := combine (init_cells (length xs)) xs).
  destruct (combine_maps (init_cells (length xs)) xs (init_cells_length _)) as [Ec Es].
  assert (Hcz : forall y, In y (cells l) -> frozen y = false).
  { intros y Hy. unfold cells, l in Hy. rewrite Ec in Hy.
    apply frozen_cell; [apply init_cells_In in Hy; lia|now apply init_cells_shape in Hy]. }
  unfold wfb in Hw. rewrite forallb_forall in Hw.
  split.
  - split; [apply fold_add_NoDup, fold_add_NoDup; constructor|].
    exists l. cbn [gr fresh]. split; [exact Es|].
    split; [|split; [|split; [|split]]].
    + split; [|split; [|split]].
      * unfold cells, l. rewrite Ec. apply init_cells_NoDup.
      * unfold cells, l. rewrite Ec. intros H. apply init_cells_In in H. lia.
      * exact Hcz.
      * intros t Ht Hf. rewrite !fold_add_In. simpl. split; [|auto].
        intros [H|[H|[]]]; auto. apply Hw in H. rewrite Ht, Hf in H. discriminate.
    + intros Hne. unfold l in *. destruct xs as [|x r]; [exfalso; apply Hne|]; reflexivity.
    + intros y Hy. unfold cells, l in Hy. rewrite Ec in Hy. now apply init_cells_In.
    + unfold HEAD, CELL0. lia.
    + intros y Hy. apply frozen_cell; unfold NIL, CELL0 in *; [lia|right; lia].
  - intros t Ht. cbn [gr]. rewrite !fold_add_In. simpl. split; [|auto].
    intros [H|[H|[]]]; auto. apply In_chainT_subj in H. apply Hcz in H. congruence.
Qed.

Lemma spec_ok_model c : wfb c = true -> kf c = 0 -> spec_ok c (model_obs c) = true.
Proof.
  intros Hw Hk. destruct (init_Inv c Hw) as [A B]. now apply run_ok.
Qed.

(* ------------------------------------------------------------------ *)
(* Readings and corollaries                                            *)

Lemma snap_ok_reading noise head xs sn : snap_ok noise head xs sn = true ->
  s_items sn = RList xs /\ s_len sn = RNat (N.of_nat (length xs)) /\
  s_gets sn = map RTerm xs /\ WF (own_part frozen (s_triples sn)) head xs /\
  (forall t, frozen (subj t) = true -> (In t (s_triples sn) <-> In t noise)).
Proof.
  unfold snap_ok. rewrite !andb_true_iff. intros [[[[A B] C] D] E].
  apply res_eqb_true in A, B. apply list_res_eqb_true in C. apply wf_check_sound in D.
  split; [auto|split; [auto|split; [auto|split; [auto|]]]].
  apply (seteqb_spec _ triple_eqb_spec) in E. intros t Hft. split.
  - intros Hin. assert (Hx : In t (frame_part frozen (s_triples sn))) by (apply filter_In; auto).
    apply E in Hx. apply filter_In in Hx. tauto.
  - intros Hin. assert (Hx : In t (frame_part frozen noise)) by (apply filter_In; auto).
    apply E in Hx. apply filter_In in Hx. tauto.
Qed.

Lemma Inv_WF fz s xs : Inv fz s xs -> WF (own_part fz (gr s)) HEAD xs.
Proof.
  intros [Hn [l [<- [HR [Hh _]]]]]. apply wf_check_sound.
  apply (wf_check_Rep nofz); auto. now apply Rep_own.
Qed.

(* the checker is complete: a Prop-level well-formed chain is accepted, whatever
   the order and multiplicity of the triples in T - wf_check decides WF *)
Lemma wf_check_complete head xs T : WF T head xs -> wf_check head xs T = true.
Proof.
  unfold WF. destruct xs as [|x r].
  - intros H. simpl. apply forallb_forall. intros t Ht. now rewrite (H t Ht).
  - intros [cs [Hl [Hn [Hnil [Hh Hs]]]]].
    destruct (combine_maps cs (x :: r) Hl) as [Ec Es].
    set (l := combine cs (x :: r)) in *.
    assert (Hne : l <> []) by (destruct cs; [discriminate|unfold l; simpl; discriminate]).
    assert (HR : Rep nofz T ([] ++ l)).
    { simpl. split; [unfold cells; now rewrite Ec|split; [unfold cells; now rewrite Ec|split]].
      - intros c _. reflexivity.
      - intros t Ht _. rewrite <- (Hs t), filter_In. tauto. }
    assert (Hw : walk T head (x :: r) = Some l).
    { rewrite <- Es. replace head with (hd_cell l NIL).
      - apply (walk_Rep nofz T l [] HR Hne).
      - rewrite <- Hh. unfold l. destruct cs as [|c cs']; [discriminate|reflexivity]. }
    unfold wf_check. rewrite Hw. fold l. rewrite Ec.
    rewrite (proj2 (nodupb_spec _ N.eqb_spec _) Hn), (proj2 (memb_false _ N.eqb_spec _ _) Hnil).
    cbn [negb andb]. now apply (seteqb_spec _ triple_eqb_spec).
Qed.
