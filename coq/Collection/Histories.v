(* C19 - the one-step refinement of Collection/Proofs.v lifted to whole histories
   in Prop form: the state reached by ANY trigger-free sequence of operations
   represents the Python list reached by the same sequence, every answer on the
   way is the list's answer, and no triple with a frozen subject has changed.
   (spec_ok_model is the boolean form the conformance check evaluates; this is the
   statement about every reachable state, by induction over the operations.) *)
From RV Require Import Collection.Model Collection.Proofs.

Definition c_steps (s : st) (ops : list op) : st :=
  fold_left (fun s o => fst (c_step HEAD s o)) ops s.
Definition lsteps (xs : list term) (ops : list op) : list term :=
  fold_left (fun xs o => fst (lstep xs o)) ops xs.

Fixpoint c_trace (s : st) (ops : list op) : list res :=
  match ops with
  | [] => []
  | o :: r => snd (c_step HEAD s o) :: c_trace (fst (c_step HEAD s o)) r
  end.
Fixpoint l_trace (xs : list term) (ops : list op) : list res :=
  match ops with
  | [] => []
  | o :: r => snd (lstep xs o) :: l_trace (fst (lstep xs o)) r
  end.

Section Hist.
Variable fz : term -> bool.
Hypothesis fz_nil : fz NIL = false.
Hypothesis fz_head : fz HEAD = false.

Lemma kf_run_cons xs o r : kf_run xs (o :: r) = 0%N ->
  kf_op xs o = 0%N /\ kf_run (fst (lstep xs o)) r = 0%N.
Proof.
  cbn [kf_run]. destruct (N.eqb_spec (kf_op xs o) 0) as [E|E]; [auto|intros H; congruence].
Qed.

Lemma refines_history : forall ops s xs, Inv fz s xs -> kf_run xs ops = 0%N ->
  Inv fz (c_steps s ops) (lsteps xs ops) /\
  Frame fz (gr s) (gr (c_steps s ops)) /\
  c_iter (gr (c_steps s ops)) HEAD = RList (lsteps xs ops) /\
  c_trace s ops = l_trace xs ops.
Proof.
  induction ops as [|o r IH]; intros s xs HI Hk.
  - cbn [c_steps lsteps fold_left c_trace l_trace].
    split; [exact HI|]. split; [apply Frame_refl|]. split; [|reflexivity].
    exact (c_iter_Inv fz fz_nil fz_head s xs HI).
  - destruct (kf_run_cons xs o r Hk) as [Ho Hr].
    pose proof (refines_step fz fz_nil fz_head s xs o HI Ho) as St.
    unfold c_steps, lsteps. cbn [fold_left c_trace l_trace].
    destruct (c_step HEAD s o) as [s' r0]. destruct (lstep xs o) as [xs' e].
    cbn [fst snd] in *. destruct St as [HI' [Fr [_ Er]]].
    destruct (IH s' xs' HI' Hr) as [A [B [C D]]].
    split; [exact A|]. split; [exact (Frame_trans fz _ _ _ Fr B)|]. split; [exact C|].
    rewrite Er. f_equal. exact D.
Qed.

(* corollaries a user reads directly: after any trigger-free history, len(c),
   list(c) and every c[i] are those of the list the history produces *)
Lemma history_len ops s xs : Inv fz s xs -> kf_run xs ops = 0%N ->
  c_len (gr (c_steps s ops)) HEAD = RNat (N.of_nat (length (lsteps xs ops))).
Proof.
  intros HI Hk. destruct (refines_history ops s xs HI Hk) as [A _].
  exact (c_len_Inv fz fz_nil fz_head _ _ A).
Qed.

Lemma history_getitem ops s xs i : Inv fz s xs -> kf_run xs ops = 0%N ->
  c_getitem (gr (c_steps s ops)) HEAD i = snd (lstep (lsteps xs ops) (OGet i)).
Proof.
  intros HI Hk. destruct (refines_history ops s xs HI Hk) as [A _].
  exact (step_get fz fz_nil fz_head _ _ i A).
Qed.

End Hist.

(* histories compose: running ops1 then ops2 is running ops1 ++ ops2 *)
Lemma c_steps_app s a b : c_steps s (a ++ b) = c_steps (c_steps s a) b.
Proof. unfold c_steps. apply fold_left_app. Qed.
Lemma lsteps_app xs a b : lsteps xs (a ++ b) = lsteps (lsteps xs a) b.
Proof. unfold lsteps. apply fold_left_app. Qed.

(* trigger-freeness and the answers of a concatenated history split at the seam, so
   refines_history can be applied piecewise *)
Lemma kf_run_app : forall a xs b,
  kf_run xs (a ++ b) = 0%N <-> kf_run xs a = 0%N /\ kf_run (lsteps xs a) b = 0%N.
Proof.
  induction a as [|o a IH]; intros xs b.
  - cbn [app kf_run lsteps fold_left]. tauto.
  - cbn [app kf_run]. unfold lsteps. cbn [fold_left].
    destruct (N.eqb_spec (kf_op xs o) 0) as [E|E].
    + apply IH.
    + split; [intros H; congruence|intros [H _]; congruence].
Qed.
Lemma c_trace_app : forall a s b, c_trace s (a ++ b) = c_trace s a ++ c_trace (c_steps s a) b.
Proof.
  induction a as [|o a IH]; intros s b; [reflexivity|].
  cbn [app c_trace]. unfold c_steps. cbn [fold_left]. f_equal. apply IH.
Qed.
