(* C03, K4 statement layer: read_doc (write_doc ns q plan) = the triples of the plan, for every plan without blank
   nodes, every prefix table and every prefixed-name decision that is consistent with it. *)
From Coq Require Import List NArith Bool Lia.
From RV Require Import Codec.Model Codec.Proofs Codec.TurtleProofs Codec.TurtleStmt.
Import ListNotations.
Open Scope N_scope.

(* ------------------------------------------------------------ well-formedness of the input *)
Definition pfx_char (c : N) : bool := word_char c && negb (c =? 58) && negb (c =? 60) && negb (c =? 34).
Definition pfx_ok (p : str) : bool := forallb pfx_char p.
Definition no_us (p : str) : bool := negb (match p with c :: _ => c =? 95 | [] => false end).   (* no prefix starts with '_' *)
Definition iri_ok (u : str) : bool := forallb (fun c => negb (c =? 62)) u.
Definition word_ok (w : str) : bool :=
  match w with c :: _ => negb (c =? 60) && negb (c =? 34) | [] => false end && forallb word_char w.

(* a prefixed-name decision is usable: the prefix is declared and namespace ++ local is the IRI *)
Definition qent_ok (ns : nstab) (e : (bool * str) * (str * str)) : bool :=
  let '((_, u), (p, l)) := e in
  pfx_ok p && no_us p && forallb word_char l &&
  match ns_lookup (rev ns) p with Some n => str_eqb (n ++ unescape_local l) u | None => false end.
Definition q_ok (ns : nstab) (q : qtab) : bool := forallb (qent_ok ns) q.
Definition ns_ok (ns : nstab) : bool := forallb (fun pn => pfx_ok (fst pn) && iri_ok (snd pn)) ns.

Definition nonempty_s (s : str) : bool := match s with [] => false | _ => true end.
Definition term_ok (t : tterm) : bool :=
  match t with
  | TIri u => iri_ok u
  | TBn l => forallb word_char l
  | TLit _ None None => true
  | TLit _ (Some l) None => nonempty_s l && forallb word_char l
  | TLit _ None (Some d) => nonempty_s d && iri_ok d
  | TLit _ (Some _) (Some _) => false
  end.
Definition po_okg (okp : tterm -> bool) (po : str * list tterm) : bool :=
  iri_ok (fst po) && negb (match snd po with [] => true | _ => false end) && forallb okp (snd po).
Definition po_ok := po_okg term_ok.
(* an object of a top-level statement: a nested node's own statements are one level deep *)
Definition okp_outer (n : nesttab) (t : tterm) : bool :=
  match t with
  | TBn l => match nlookup n l with Some ps => forallb po_ok ps | None => term_ok t end
  | _ => term_ok t
  end.
Definition subj_ok (t : tterm) : bool := match t with TLit _ _ _ => false | _ => term_ok t end.
Definition sp_ok (n : nesttab) (sp : tterm * list (str * list tterm)) : bool :=
  subj_ok (fst sp) && negb (match snd sp with [] => true | _ => false end) && forallb (po_okg (okp_outer n)) (snd sp).
Definition plan_ok (n : nesttab) (pl : plan) : bool := forallb (sp_ok n) pl.
Definition ts_wf (c : ts_case) : bool :=
  ns_ok (ts_ns c) && q_ok (ts_ns c) (ts_q c) && plan_ok (ts_nest c) (ts_plan c).

(* ------------------------------------------------------------ the token image of the writer *)
Definition s_semi : str := [59].
Definition s_dot : str := [46].
Definition s_a : str := [97].
Definition tok_name (q : qtab) (verb : bool) (u : str) : token :=
  match qlookup q verb u with Some (p, l) => KWord (p ++ [58] ++ l) | None => KIri u end.
Definition tok_iri (q : qtab) (verb : bool) (u : str) : token :=
  if str_eqb u rdf_nil_s then KWord s_nil_word
  else if verb && str_eqb u rdf_type_s then KWord s_a
  else tok_name q verb u.
Definition tok_quoted (q : qtab) (lex : str) (lang dt : option str) : list token :=
  KStr lex :: match truthy lang with
              | Some l => [KLang l]
              | None => match truthy dt with Some d => [KDt; tok_name q false d] | None => [] end
              end.
Definition tok_term (q : qtab) (t : tterm) : list token :=
  match t with
  | TIri u => [tok_iri q false u]
  | TBn l => [KWord ([95; 58] ++ l)]
  | TLit lex lang dt =>
    match dt with
    | Some d => if str_eqb d xsd_integer_s && is_int_lex lex then [KWord lex]
                else if str_eqb d xsd_boolean_s && (str_eqb lex s_true || str_eqb lex s_false) then [KWord lex]
                else tok_quoted q lex lang dt
    | None => tok_quoted q lex lang dt
    end
  end.
Section TokLayer.
  Variable q : qtab.
  Variable tt : tterm -> list token.
  Definition tobj_more (x : tterm) : list token := KComma :: tt x.
  Definition toks_objs (os : list tterm) : list token :=
    match os with
    | [] => []
    | o :: r => tt o ++ flat_map tobj_more r
    end.
  Definition tpred_more (po : str * list tterm) : list token :=
    KWord s_semi :: tok_iri q true (fst po) :: toks_objs (snd po).
  Definition toks_preds (ps : list (str * list tterm)) : list token :=
    match ps with
    | [] => []
    | (p, os) :: r => tok_iri q true p :: toks_objs os ++ flat_map tpred_more r
    end.
End TokLayer.
Definition tt_outer (q : qtab) (n : nesttab) (t : tterm) : list token :=
  match t with
  | TBn l => match nlookup n l with
             | Some ps => KWord s_open :: toks_preds q (tok_term q) ps ++ [KWord s_close]
             | None => tok_term q t
             end
  | _ => tok_term q t
  end.
Definition toks_stmt (q : qtab) (n : nesttab) (sp : tterm * list (str * list tterm)) : list token :=
  tok_term q (fst sp) ++ toks_preds q (tt_outer q n) (snd sp) ++ [KWord s_dot].
Definition tprefix_line (pn : str * str) : list token :=
  [KWord s_prefix_word; KWord (fst pn ++ [58]); KIri (snd pn); KWord s_dot].
Definition toks_header (ns : nstab) : list token := flat_map tprefix_line ns.
Definition toks_doc (ns : nstab) (q : qtab) (n : nesttab) (pl : plan) : list token :=
  toks_header ns ++ flat_map (toks_stmt q n) pl.

(* ------------------------------------------------------------ (A) lexing *)
(* what follows a term in the writer's text: a blank or a comma *)
Definition dl (z : str) : bool := match z with c :: _ => (c =? 32) || (c =? 44) | [] => false end.

Lemma dl_not_word : forall z, dl z = true -> exists c r, z = c :: r /\ word_char c = false.
Proof.
  intros [|c r] H; [discriminate|]. exists c, r. split; [reflexivity|]. simpl in H. unfold word_char, is_ws.
  apply orb_true_iff in H as [H|H]; apply N.eqb_eq in H; subst; reflexivity.
Qed.

Lemma dl_no_quote : forall z, dl z = true -> no_quote_head z = true.
Proof.
  intros [|c r] H; [discriminate|]. simpl in *. apply orb_true_iff in H as [H|H]; apply N.eqb_eq in H; subst; reflexivity.
Qed.

Lemma lexs_skip : forall a b, lexs (length a) (a ++ b) = lexs 0 b.
Proof. induction a as [|x a IH]; intros b; [destruct b; reflexivity|]. cbn [length app lexs]. apply IH. Qed.

Lemma lexs_ws : forall c r, is_ws c = true -> lexs 0 (c :: r) = lexs 0 r.
Proof. intros c r H. cbn [lexs]. now rewrite H. Qed.

Lemma lexs_piece : forall c P rest T, is_ws c = false -> scan ((c :: P) ++ rest) = (T, rest) ->
  lexs 0 ((c :: P) ++ rest) = T ++ lexs 0 rest.
Proof.
  intros c P rest T Hc Hs. cbn [app] in *. cbn [lexs]. rewrite Hc. cbn [app] in Hs. rewrite Hs.
  rewrite app_length. replace (length P + length rest - length rest)%nat with (length P) by lia.
  now rewrite lexs_skip.
Qed.

Lemma word_char_not_ws : forall c, word_char c = true -> is_ws c = false /\ (c =? 44) = false.
Proof. intros c H. unfold word_char in H. apply negb_true_iff, orb_false_iff in H. exact H. Qed.

Lemma scan_word : forall w z, word_ok w = true -> dl z = true -> scan (w ++ z) = ([KWord w], z).
Proof.
  intros w z Hw Hz. unfold word_ok in Hw. destruct w as [|c w']; [discriminate|].
  apply andb_true_iff in Hw as [Hh Hall]. apply andb_true_iff in Hh as [H60 H34].
  apply negb_true_iff in H60, H34.
  assert (Hc : word_char c = true) by (simpl in Hall; now apply andb_true_iff in Hall as [? _]).
  destruct (word_char_not_ws c Hc) as [_ H44].
  destruct (dl_not_word z Hz) as (d & r & -> & Hd).
  cbn [app scan]. rewrite H44, H60, H34.
  change (c :: w' ++ d :: r) with ((c :: w') ++ d :: r). now rewrite (span_app_stop _ _ d r Hall Hd).
Qed.

Lemma lex_word : forall w z, word_ok w = true -> dl z = true -> lexs 0 (w ++ z) = KWord w :: lexs 0 z.
Proof.
  intros w z Hw Hz. pose proof (scan_word w z Hw Hz) as Hs. destruct w as [|c w']; [discriminate|].
  unfold word_ok in Hw. apply andb_true_iff in Hw as [_ Hall]. simpl in Hall. apply andb_true_iff in Hall as [Hc _].
  destruct (word_char_not_ws c Hc) as [Hws _]. now rewrite (lexs_piece c w' z _ Hws Hs).
Qed.

Lemma lex_iri : forall u z, iri_ok u = true -> lexs 0 ([60] ++ u ++ [62] ++ z) = KIri u :: lexs 0 z.
Proof.
  intros u z Hu.
  replace ([60] ++ u ++ [62] ++ z) with ((60 :: u ++ [62]) ++ z) by (cbn [app]; now rewrite <- app_assoc).
  change (KIri u :: lexs 0 z) with ([KIri u] ++ lexs 0 z).
  apply lexs_piece; [reflexivity|]. cbn [app scan]. rewrite <- app_assoc. cbn [app].
  replace (60 =? 44) with false by reflexivity. rewrite N.eqb_refl.
  now rewrite (span_app_stop _ _ 62 z Hu) by reflexivity.
Qed.

Lemma lex_comma : forall z, lexs 0 (44 :: z) = KComma :: lexs 0 z.
Proof. intros z. change (44 :: z) with ((44 :: []) ++ z). now rewrite (lexs_piece 44 [] z [KComma]). Qed.

(* reading a quoted string the writer produced *)
Lemma quote_read : forall lex z, no_quote_head z = true ->
  exists r, ttl_quote_encode lex ++ z = 34 :: r /\
    (match strip_prefix [34; 34] r with Some body => strconst true body | None => strconst false r end) = Some (lex, z).
Proof.
  intros lex z Hz. unfold ttl_quote_encode. destruct (mem 10 lex) eqn:Hnl.
  - rewrite (ttl_long_body_is_Fq lex). cbn [app]. eexists. split; [reflexivity|].
    cbn [strip_prefix]. rewrite !N.eqb_refl. rewrite <- app_assoc.
    change ([34; 34; 34] ++ z) with (QQQ ++ z). now apply strconst_Fq.
  - change (replace1 13 [92; 114] (replace1 34 [92; 34] (replace1 92 [92; 92] (replace1 10 [92; 110] lex))))
      with (ttl_short_body lex). rewrite ttl_short_body_flat. cbn [app]. eexists. split; [reflexivity|].
    rewrite <- app_assoc. cbn [app].
    assert (Hp : strip_prefix [34; 34] (flat_map ttl_esc_short lex ++ 34 :: z) = None).
    { destruct lex as [|x lex'].
      - cbn [flat_map app strip_prefix]. rewrite N.eqb_refl. destruct z as [|c z']; [reflexivity|].
        simpl in Hz. apply negb_true_iff in Hz. cbn [strip_prefix]. rewrite N.eqb_sym. now rewrite Hz.
      - destruct (esc_short_head x lex') as (c & q & -> & Hc). cbn [app strip_prefix]. rewrite N.eqb_sym. now rewrite Hc. }
    rewrite Hp. now apply strconst_short.
Qed.

Lemma quote_head : forall lex, exists r, ttl_quote_encode lex = 34 :: r.
Proof. intros lex. unfold ttl_quote_encode. destruct (mem 10 lex); cbn [app]; eauto. Qed.

(* labels *)
Lemma qlookup_in : forall q v u p l, qlookup q v u = Some (p, l) -> exists v' u', In ((v', u'), (p, l)) q /\ u' = u.
Proof.
  induction q as [|[[v0 u0] r0] q IH]; intros v u p l H; [discriminate|].
  cbn [qlookup] in H. destruct (Bool.eqb v0 v && str_eqb u0 u) eqn:E.
  - inversion H; subst. apply andb_true_iff in E as [_ E]. apply str_eqb_eq in E. exists v0, u0. split; [now left|exact E].
  - destruct (IH v u p l H) as (v' & u' & Hin & Hu). exists v', u'. split; [now right|exact Hu].
Qed.

Lemma q_ok_lookup : forall ns q v u p l, q_ok ns q = true -> qlookup q v u = Some (p, l) ->
  pfx_ok p = true /\ forallb word_char l = true /\ (exists n, ns_lookup (rev ns) p = Some n /\ n ++ unescape_local l = u)
  /\ no_us p = true.
Proof.
  intros ns q v u p l Hq H. destruct (qlookup_in _ _ _ _ _ H) as (v' & u' & Hin & ->).
  unfold q_ok in Hq. rewrite forallb_forall in Hq. specialize (Hq _ Hin). cbn [qent_ok] in Hq.
  apply andb_true_iff in Hq as [Hq H3]. apply andb_true_iff in Hq as [Hq H2]. apply andb_true_iff in Hq as [H1 Hus].
  split; [exact H1|]. split; [exact H2|]. split; [|exact Hus].
  destruct (ns_lookup (rev ns) p) as [n|]; [|discriminate]. exists n. split; [reflexivity|now apply str_eqb_eq].
Qed.

Lemma pname_word_ok : forall p l, pfx_ok p = true -> forallb word_char l = true -> word_ok (p ++ [58] ++ l) = true.
Proof.
  intros p l Hp Hl. unfold word_ok. apply andb_true_iff. split.
  - destruct p as [|c p']; [reflexivity|]. cbn [app]. simpl in Hp. apply andb_true_iff in Hp as [Hc _].
    unfold pfx_char in Hc. apply andb_true_iff in Hc as [Hc H34]. apply andb_true_iff in Hc as [_ H60]. now rewrite H60, H34.
  - rewrite forallb_app. apply andb_true_iff. split.
    + unfold pfx_ok in Hp. rewrite forallb_forall in *. intros c Hc. specialize (Hp c Hc). unfold pfx_char in Hp.
      apply andb_true_iff in Hp as [Hp _]. apply andb_true_iff in Hp as [Hp _]. now apply andb_true_iff in Hp as [Hp _].
    + cbn [app forallb]. now rewrite Hl.
Qed.

Lemma lex_name : forall ns q v u z, q_ok ns q = true -> iri_ok u = true -> dl z = true ->
  lexs 0 (match qlookup q v u with Some (p, l) => p ++ [58] ++ l | None => [60] ++ u ++ [62] end ++ z)
  = tok_name q v u :: lexs 0 z.
Proof.
  intros ns q v u z Hq Hu Hz. unfold tok_name. destruct (qlookup q v u) as [[p l]|] eqn:E.
  - destruct (q_ok_lookup _ _ _ _ _ _ Hq E) as (Hp & Hl & _). apply lex_word; [now apply pname_word_ok|exact Hz].
  - rewrite <- ?app_assoc. now apply lex_iri.
Qed.

Lemma lex_label_iri : forall ns q v u z, q_ok ns q = true -> iri_ok u = true -> dl z = true ->
  lexs 0 (label_iri q v u ++ z) = tok_iri q v u :: lexs 0 z.
Proof.
  intros ns q v u z Hq Hu Hz. unfold label_iri, tok_iri.
  destruct (str_eqb u rdf_nil_s); [now apply lex_word|].
  destruct (v && str_eqb u rdf_type_s); [now apply lex_word|].
  now apply (lex_name ns).
Qed.

Lemma is_int_word_ok : forall w, is_int_lex w = true -> word_ok w = true.
Proof.
  intros w H. unfold is_int_lex in H. destruct w as [|c r]; [discriminate|].
  assert (Hd : forall x, is_digit x = true -> word_char x = true /\ (x =? 60) = false /\ (x =? 34) = false).
  { intros x Hx. unfold is_digit, between in Hx. apply andb_true_iff in Hx as [H1 H2].
    apply N.leb_le in H1, H2. unfold word_char, is_ws.
    repeat split; try (apply N.eqb_neq; lia).
    apply negb_true_iff. repeat (apply orb_false_iff; split); apply N.eqb_neq; lia. }
  unfold word_ok. destruct (N.eqb_spec c 45) as [->|Hne].
  - apply andb_true_iff in H as [_ Hr]. cbn [forallb]. change (word_char 45) with true. cbn.
    rewrite forallb_forall in *. intros x Hx. now apply Hd, Hr.
  - cbn [forallb] in H. apply andb_true_iff in H as [Hc Hr]. destruct (Hd c Hc) as (H1 & H2 & H3).
    rewrite H2, H3. cbn [negb andb forallb]. rewrite H1. cbn. rewrite forallb_forall in *. intros x Hx. now apply Hd, Hr.
Qed.

Lemma bool_word_ok : forall w, (str_eqb w s_true || str_eqb w s_false) = true -> word_ok w = true.
Proof. intros w H. apply orb_true_iff in H as [H|H]; apply str_eqb_eq in H; subst; reflexivity. Qed.

Lemma lex_str_gen : forall lex X Y T,
  (forall r, ttl_quote_encode lex ++ X ++ Y = 34 :: r -> scan (34 :: r) = (T, Y)) ->
  lexs 0 (ttl_quote_encode lex ++ X ++ Y) = T ++ lexs 0 Y.
Proof.
  intros lex X Y T H. destruct (quote_head lex) as (r0 & Hr0).
  assert (E : ttl_quote_encode lex ++ X ++ Y = (34 :: (r0 ++ X)) ++ Y).
  { rewrite Hr0. cbn [app]. now rewrite <- app_assoc. }
  rewrite E. apply lexs_piece; [reflexivity|]. cbn [app]. apply H. rewrite E. reflexivity.
Qed.

Lemma scan_string_unfold : forall r,
  scan (34 :: r) =
  match (match strip_prefix [34; 34] r with Some body => strconst true body | None => strconst false r end) with
  | None => ([KBad], [])
  | Some (v, r1) =>
    match r1 with
    | d :: r2 =>
      if d =? 64 then let '(w, r3) := span word_char r2 in ([KStr v; KLang w], r3)
      else match strip_prefix [94; 94] r1 with
           | Some r3 => ([KStr v; KDt], r3)
           | None => ([KStr v], r1)
           end
    | [] => ([KStr v], [])
    end
  end.
Proof. reflexivity. Qed.

Lemma lex_quoted : forall ns q lex lang dt z, q_ok ns q = true -> term_ok (TLit lex lang dt) = true -> dl z = true ->
  lexs 0 ((ttl_quote_encode lex ++
           match truthy lang with
           | Some l => 64 :: l
           | None => match truthy dt with
                     | Some d => [94; 94] ++ match qlookup q false d with
                                             | Some (p, l) => p ++ [58] ++ l
                                             | None => [60] ++ d ++ [62]
                                             end
                     | None => []
                     end
           end) ++ z) = tok_quoted q lex lang dt ++ lexs 0 z.
Proof.
  intros ns q lex lang dt z Hq Hok Hz. unfold tok_quoted. rewrite <- app_assoc.
  destruct (dl_not_word z Hz) as (dz & rz & Ez & Hdz).
  destruct lang as [l|]; destruct dt as [d|]; simpl in Hok; try discriminate.
  - (* language *)
    apply andb_true_iff in Hok as [Hne Hl]. destruct l as [|c l']; [discriminate|]. cbn [truthy].
    change ((64 :: c :: l') ++ z) with ([64] ++ (c :: l') ++ z).
    replace (ttl_quote_encode lex ++ [64] ++ (c :: l') ++ z) with (ttl_quote_encode lex ++ (64 :: c :: l') ++ z) by reflexivity.
    rewrite (lex_str_gen lex (64 :: c :: l') z [KStr lex; KLang (c :: l')]); [reflexivity|].
    intros r Hr. destruct (quote_read lex ((64 :: c :: l') ++ z)) as (r' & Hr' & Hread); [reflexivity|].
    rewrite Hr in Hr'. inversion Hr'; subst r'. rewrite scan_string_unfold, Hread. cbn [app]. rewrite N.eqb_refl.
    rewrite Ez. change (c :: l' ++ dz :: rz) with ((c :: l') ++ dz :: rz). now rewrite (span_app_stop _ _ dz rz Hl Hdz).
  - (* datatype *)
    apply andb_true_iff in Hok as [Hne Hd]. destruct d as [|c d']; [discriminate|]. cbn [truthy].
    set (nm := match qlookup q false (c :: d') with Some (p, l) => p ++ [58] ++ l | None => [60] ++ (c :: d') ++ [62] end).
    rewrite <- app_assoc.
    rewrite (lex_str_gen lex [94; 94] (nm ++ z) [KStr lex; KDt]).
    + cbn [app]. f_equal. f_equal. unfold nm. now apply (lex_name ns).
    + intros r Hr. destruct (quote_read lex ([94; 94] ++ nm ++ z)) as (r' & Hr' & Hread); [reflexivity|].
      rewrite Hr in Hr'. inversion Hr'; subst r'. rewrite scan_string_unfold, Hread. reflexivity.
  - (* plain *)
    cbn [truthy app].
    replace (ttl_quote_encode lex ++ z) with (ttl_quote_encode lex ++ [] ++ z) by reflexivity.
    rewrite (lex_str_gen lex [] z [KStr lex]); [reflexivity|].
    intros r Hr. destruct (quote_read lex z) as (r' & Hr' & Hread); [now apply dl_no_quote|].
    cbn [app] in Hr. rewrite Hr in Hr'. inversion Hr'; subst r'. rewrite scan_string_unfold, Hread.
    rewrite Ez. destruct Hdz. (* dz is a blank or a comma *)
    assert (Hcase : dz = 32 \/ dz = 44).
    { rewrite Ez in Hz. simpl in Hz. apply orb_true_iff in Hz as [H|H]; apply N.eqb_eq in H; auto. }
    destruct Hcase as [-> | ->]; reflexivity.
Qed.

Lemma lex_label_term : forall ns q t z, q_ok ns q = true -> term_ok t = true -> dl z = true ->
  lexs 0 (label_term q t ++ z) = tok_term q t ++ lexs 0 z.
Proof.
  intros ns q [u|l|lex lang dt] z Hq Hok Hz.
  - cbn [label_term tok_term app]. now apply (lex_label_iri ns).
  - cbn [label_term tok_term app]. change (95 :: 58 :: l ++ z) with (([95; 58] ++ l) ++ z).
    apply lex_word; [|exact Hz]. unfold word_ok. cbn [app forallb]. simpl in Hok. now rewrite Hok.
  - cbn [label_term tok_term]. destruct dt as [d|]; [|now apply (lex_quoted ns)].
    destruct (str_eqb d xsd_integer_s && is_int_lex lex) eqn:E1.
    + apply andb_true_iff in E1 as [_ E1]. apply lex_word; [now apply is_int_word_ok|exact Hz].
    + destruct (str_eqb d xsd_boolean_s && (str_eqb lex s_true || str_eqb lex s_false)) eqn:E2.
      * apply andb_true_iff in E2 as [_ E2]. apply lex_word; [now apply bool_word_ok|exact Hz].
      * now apply (lex_quoted ns).
Qed.

Lemma lexs_blank : forall z, lexs 0 (32 :: z) = lexs 0 z.
Proof. intros. now apply lexs_ws. Qed.

Lemma lexs_rep : forall k z, lexs 0 (repeat 32 k ++ z) = lexs 0 z.
Proof. induction k as [|k IH]; intros z; [reflexivity|]. cbn [repeat app]. now rewrite lexs_blank. Qed.
Lemma lexs_ind : forall n z, lexs 0 (ind n ++ z) = lexs 0 z.
Proof. intros. unfold ind. apply lexs_rep. Qed.

Lemma lex_semi : forall z, lexs 0 (59 :: 10 :: z) = KWord s_semi :: lexs 0 z.
Proof.
  intros z. change (59 :: 10 :: z) with ((59 :: []) ++ 10 :: z).
  rewrite (lexs_piece 59 [] (10 :: z) [KWord s_semi]); [|reflexivity|reflexivity].
  cbn [app]. now rewrite lexs_ws by reflexivity.
Qed.
Lemma lex_dot : forall z, lexs 0 (46 :: 10 :: z) = KWord s_dot :: lexs 0 z.
Proof.
  intros z. change (46 :: 10 :: z) with ((46 :: []) ++ 10 :: z).
  rewrite (lexs_piece 46 [] (10 :: z) [KWord s_dot]); [|reflexivity|reflexivity].
  cbn [app]. now rewrite lexs_ws by reflexivity.
Qed.

(* one layer of object / predicate lists, for any way [wt] of writing an object whose lexing is known *)
Section LexLayer.
  Variables (ns : nstab) (q : qtab).
  Variable wt : nat -> tterm -> str.
  Variable tt : tterm -> list token.
  Variable okp : tterm -> bool.
  Hypothesis Hq : q_ok ns q = true.
  Hypothesis Hwt : forall d t z, okp t = true -> dl z = true -> lexs 0 (wt d t ++ z) = tt t ++ lexs 0 z.


  Lemma obj_more_dl : forall d r z, dl z = true -> dl (flat_map (obj_more wt d) r ++ z) = true.
  Proof. intros d [|o r] z H; [exact H|reflexivity]. Qed.
  Lemma pred_more_dl : forall d r z, dl z = true -> dl (flat_map (pred_more q wt d) r ++ z) = true.
  Proof. intros d [|o r] z H; [exact H|reflexivity]. Qed.

  Lemma lex_objs_tail : forall d os z, forallb okp os = true -> dl z = true ->
    lexs 0 (flat_map (obj_more wt d) os ++ z) = flat_map (tobj_more tt) os ++ lexs 0 z.
  Proof.
    intros d os z. induction os as [|o r IH]; intros Hok Hz; [reflexivity|].
    simpl in Hok. apply andb_true_iff in Hok as [Ho Hr].
    cbn [flat_map]. unfold obj_more at 1, tobj_more at 1. rewrite <- ?app_assoc. cbn [app].
    rewrite lex_comma. rewrite lexs_ws by reflexivity. rewrite lexs_ind.
    rewrite Hwt by (try assumption; now apply obj_more_dl). rewrite IH by assumption.
    rewrite <- ?app_assoc; reflexivity.
  Qed.

  Lemma lex_objs : forall d os z, forallb okp os = true -> dl z = true ->
    lexs 0 (write_objs wt d os ++ z) = toks_objs tt os ++ lexs 0 z.
  Proof.
    intros d [|o r] z Hok Hz; [reflexivity|].
    simpl in Hok. apply andb_true_iff in Hok as [Ho Hr].
    cbn [write_objs toks_objs]. rewrite <- ?app_assoc. cbn [app]. rewrite lexs_blank.
    rewrite Hwt by (try assumption; now apply obj_more_dl).
    rewrite lex_objs_tail by assumption. rewrite <- ?app_assoc; reflexivity.
  Qed.

  Lemma write_objs_dl : forall d os z, os <> [] -> dl (write_objs wt d os ++ z) = true.
  Proof. intros d [|o r] z H; [congruence|reflexivity]. Qed.

  Lemma lex_preds_tail : forall d ps z, forallb (po_okg okp) ps = true -> dl z = true ->
    lexs 0 (flat_map (pred_more q wt d) ps ++ z) = flat_map (tpred_more q tt) ps ++ lexs 0 z.
  Proof.
    intros d ps z. induction ps as [|[p os] r IH]; intros Hok Hz; [reflexivity|].
    simpl in Hok. apply andb_true_iff in Hok as [Hpo Hr].
    unfold po_okg in Hpo. cbn [fst snd] in Hpo. apply andb_true_iff in Hpo as [Hpo Hts]. apply andb_true_iff in Hpo as [Hp Hne].
    assert (Hos : os <> []) by (destruct os; [discriminate|congruence]).
    cbn [flat_map]. unfold pred_more at 1, tpred_more at 1. cbn [fst snd]. rewrite <- ?app_assoc. cbn [app].
    rewrite lexs_blank, lex_semi, lexs_ind.
    rewrite (lex_label_iri ns) by (try assumption; now apply write_objs_dl).
    rewrite lex_objs by (try assumption; now apply pred_more_dl). rewrite IH by assumption.
    rewrite <- ?app_assoc; reflexivity.
  Qed.

  Lemma lex_preds : forall d ps z, forallb (po_okg okp) ps = true -> dl z = true ->
    lexs 0 (write_preds q wt d ps ++ z) = toks_preds q tt ps ++ lexs 0 z.
  Proof.
    intros d [|[p os] r] z Hok Hz; [reflexivity|].
    simpl in Hok. apply andb_true_iff in Hok as [Hpo Hr].
    unfold po_okg in Hpo. cbn [fst snd] in Hpo. apply andb_true_iff in Hpo as [Hpo Hts]. apply andb_true_iff in Hpo as [Hp Hne'].
    assert (Hos : os <> []) by (destruct os; [discriminate|congruence]).
    cbn [write_preds toks_preds]. rewrite <- ?app_assoc. cbn [app]. rewrite lexs_blank.
    rewrite (lex_label_iri ns) by (try assumption; now apply write_objs_dl).
    rewrite lex_objs by (try assumption; now apply pred_more_dl). rewrite lex_preds_tail by assumption.
    rewrite <- ?app_assoc; reflexivity.
  Qed.

  Lemma write_preds_dl : forall d ps z, ps <> [] -> dl (write_preds q wt d ps ++ z) = true.
  Proof. intros d [|[p os] r] z H; [congruence|reflexivity]. Qed.
End LexLayer.

(* the two layers *)
Lemma lex_wt_inner : forall ns q, q_ok ns q = true -> forall d t z, term_ok t = true -> dl z = true ->
  lexs 0 (wt_inner q d t ++ z) = tok_term q t ++ lexs 0 z.
Proof. intros ns q Hq d t z Ht Hz. unfold wt_inner. now apply (lex_label_term ns). Qed.

Lemma lex_wt_outer : forall ns q n, q_ok ns q = true -> forall d t z, okp_outer n t = true -> dl z = true ->
  lexs 0 (wt_outer q n d t ++ z) = tt_outer q n t ++ lexs 0 z.
Proof.
  intros ns q n Hq d t z Ht Hz. unfold wt_outer, tt_outer, okp_outer in *.
  destruct t as [u|l|lex lang dt]; try (now apply (lex_label_term ns)).
  destruct (nlookup n l) as [ps|]; [|now apply (lex_label_term ns)].
  rewrite <- ?app_assoc.
  assert (Hd : dl (write_preds q (wt_inner q) (S d) ps ++ [32; 93] ++ z) = true).
  { destruct ps as [|[p os] r]; reflexivity. }
  rewrite lex_word by (try exact Hd; reflexivity).
  rewrite (lex_preds ns q (wt_inner q) (tok_term q) term_ok Hq (lex_wt_inner ns q Hq)) by (try exact Ht; reflexivity).
  cbn [app]. rewrite lexs_blank.
  change (93 :: z) with ([93] ++ z). rewrite lex_word by (try exact Hz; reflexivity).
  cbn [app]. rewrite <- ?app_assoc. reflexivity.
Qed.

Lemma lex_stmt : forall ns q n sp z, q_ok ns q = true -> sp_ok n sp = true ->
  lexs 0 (write_stmt q n sp ++ z) = toks_stmt q n sp ++ lexs 0 z.
Proof.
  intros ns q n [s ps] z Hq Hok. unfold sp_ok in Hok. cbn [fst snd] in Hok.
  apply andb_true_iff in Hok as [Hok Hps]. apply andb_true_iff in Hok as [Hs Hne].
  assert (Hps' : ps <> []) by (destruct ps; [discriminate|congruence]).
  assert (Hst : term_ok s = true) by (destruct s; [exact Hs|exact Hs|discriminate]).
  unfold write_stmt, toks_stmt. cbn [fst snd]. rewrite <- ?app_assoc. cbn [app].
  rewrite lexs_ws by reflexivity.
  rewrite (lex_label_term ns) by (try assumption; now apply write_preds_dl).
  rewrite (lex_preds ns q (wt_outer q n) (tt_outer q n) (okp_outer n) Hq (lex_wt_outer ns q n Hq)) by (try assumption; reflexivity).
  rewrite lexs_blank, lex_dot. cbn [app]. rewrite <- ?app_assoc; reflexivity.
Qed.

Lemma lex_stmts : forall ns q n pl z, q_ok ns q = true -> plan_ok n pl = true ->
  lexs 0 (flat_map (write_stmt q n) pl ++ z) = flat_map (toks_stmt q n) pl ++ lexs 0 z.
Proof.
  intros ns q n pl z Hq. induction pl as [|sp r IH]; intros Hok; [reflexivity|].
  simpl in Hok. apply andb_true_iff in Hok as [H1 H2].
  cbn [flat_map]. rewrite <- ?app_assoc. rewrite (lex_stmt ns) by assumption. now rewrite IH.
Qed.

Lemma prefix_line_shape : forall p n Y,
  prefix_line (p, n) ++ Y = s_prefix_word ++ 32 :: (p ++ [58]) ++ 32 :: [60] ++ n ++ [62] ++ 32 :: 46 :: 10 :: Y.
Proof.
  intros p n Y. unfold prefix_line, s_prefix_word. cbn [fst snd app].
  repeat (rewrite <- ?app_assoc; cbn [app]). reflexivity.
Qed.

Lemma lex_header : forall ns z, ns_ok ns = true ->
  lexs 0 (write_header ns ++ z) = toks_header ns ++ lexs 0 z.
Proof.
  induction ns as [|[p n] r IH]; intros z Hok; [reflexivity|].
  simpl in Hok. apply andb_true_iff in Hok as [Hpn Hr]. apply andb_true_iff in Hpn as [Hp Hn].
  unfold write_header, toks_header. cbn [flat_map]. fold (write_header r). fold (toks_header r).
  rewrite <- app_assoc, prefix_line_shape. unfold tprefix_line. cbn [fst snd].
  rewrite lex_word by reflexivity. rewrite lexs_blank.
  rewrite lex_word; [|replace (p ++ [58]) with (p ++ [58] ++ []) by reflexivity; now apply pname_word_ok|reflexivity].
  rewrite lexs_blank. rewrite lex_iri by exact Hn. rewrite lexs_blank, lex_dot. rewrite (IH z Hr). reflexivity.
Qed.

Theorem lex_doc : forall ns q n pl, ns_ok ns = true -> q_ok ns q = true -> plan_ok n pl = true ->
  lexs 0 (write_doc ns q n pl) = toks_doc ns q n pl.
Proof.
  intros ns q n pl H1 H2 H3. unfold write_doc, toks_doc.
  rewrite lex_header by exact H1. rewrite (lex_stmts ns) by assumption. cbn [lexs]. now rewrite app_nil_r.
Qed.

(* ------------------------------------------------------------ (B) the state machine on the token image *)
Lemma mem_app_N : forall c a b, mem c (a ++ b) = mem c a || mem c b.
Proof. intros. unfold mem. apply existsb_app. Qed.

Lemma colon_word_neq : forall p l X, mem 58 X = false -> str_eqb (p ++ [58] ++ l) X = false.
Proof.
  intros p l X H. destruct (str_eqb (p ++ [58] ++ l) X) eqn:E; [|reflexivity].
  apply str_eqb_eq in E. subst X. rewrite mem_app_N in H. cbn [app] in H.
  apply orb_false_iff in H as [_ H]. discriminate.
Qed.

Lemma colon_not_int : forall p l, pfx_ok p = true -> is_int_lex (p ++ [58] ++ l) = false.
Proof.
  intros p l Hp. unfold is_int_lex.
  assert (Hd : forall a b, forallb is_digit (a ++ [58] ++ b) = false).
  { intros a b. rewrite forallb_app. cbn [app forallb]. change (is_digit 58) with false. now rewrite andb_false_r. }
  destruct p as [|c p'].
  - reflexivity.
  - cbn [app]. destruct (c =? 45).
    + change (p' ++ 58 :: l) with (p' ++ [58] ++ l). rewrite Hd. now rewrite andb_false_r.
    + change (c :: p' ++ 58 :: l) with ((c :: p') ++ [58] ++ l). apply Hd.
Qed.

(* a token that stands for the IRI u wherever a name is expected *)
Definition names (env : nstab) (tok : token) (u : str) : Prop :=
  tok = KIri u \/
  exists w, tok = KWord w /\ word_iri env w = Some u /\ str_eqb w s_prefix_word = false /\ str_eqb w s_a = false /\
            is_int_lex w = false /\ (str_eqb w s_true || str_eqb w s_false) = false /\ bn_word w = None /\
            str_eqb w s_open = false /\ str_eqb w s_close = false.

Lemma pfx_no_colon : forall p, pfx_ok p = true -> forallb (fun c => negb (c =? 58)) p = true.
Proof.
  intros p H. unfold pfx_ok in H. rewrite forallb_forall in *. intros c Hc. specialize (H c Hc). unfold pfx_char in H.
  apply andb_true_iff in H as [H _]. apply andb_true_iff in H as [H _]. now apply andb_true_iff in H as [_ H].
Qed.

Lemma tok_name_names : forall ns q v u, q_ok ns q = true -> names (rev ns) (tok_name q v u) u.
Proof.
  intros ns q v u Hq. unfold tok_name. destruct (qlookup q v u) as [[p l]|] eqn:E; [|now left].
  destruct (q_ok_lookup _ _ _ _ _ _ Hq E) as (Hp & Hl & (n & Hn & Hu) & Hus).
  assert (Hbn : bn_word (p ++ [58] ++ l) = None).
  { destruct p as [|c [|d p']]; cbn [app bn_word].
    - destruct l; reflexivity.
    - unfold no_us in Hus. apply negb_true_iff in Hus. now rewrite Hus.
    - unfold no_us in Hus. apply negb_true_iff in Hus. now rewrite Hus. }
  right. exists (p ++ [58] ++ l). split; [reflexivity|]. split.
  - unfold word_iri. rewrite colon_word_neq by reflexivity. unfold resolve_word.
    change (p ++ [58] ++ l) with (p ++ 58 :: l).
    rewrite (span_app_stop _ p 58 l (pfx_no_colon p Hp)) by reflexivity. now rewrite Hn, Hu.
  - repeat split; try (apply colon_word_neq; reflexivity); [now apply colon_not_int| |exact Hbn].
    now rewrite !colon_word_neq by reflexivity.
Qed.

Lemma nil_names : forall env, names env (KWord s_nil_word) rdf_nil_s.
Proof. intros env. right. exists s_nil_word. repeat split. Qed.

Lemma tok_iri_names : forall ns q u, q_ok ns q = true -> names (rev ns) (tok_iri q false u) u.
Proof.
  intros ns q u Hq. unfold tok_iri. destruct (str_eqb u rdf_nil_s) eqn:E.
  - apply str_eqb_eq in E. subst u. apply nil_names.
  - cbn [andb]. now apply tok_name_names.
Qed.

Lemma run_subj : forall env sup tok u T acc, names env tok u ->
  run env sup RSubj (tok :: T) acc = run env sup (RPred None (TIri u)) T acc.
Proof.
  intros env sup tok u T acc [->|(w & -> & Hw & H1 & _ & _ & _ & Hb & _)]; [reflexivity|]. cbn [run]. now rewrite Hb, H1, Hw.
Qed.

Lemma run_pred : forall ns q sup f s p T acc, q_ok ns q = true ->
  run (rev ns) sup (RPred f s) (tok_iri q true p :: T) acc = run (rev ns) sup (RObj f s p) T acc.
Proof.
  intros ns q sup f s p T acc Hq. unfold tok_iri. destruct (str_eqb p rdf_nil_s) eqn:E.
  - apply str_eqb_eq in E. subst p. reflexivity.
  - cbn [andb]. destruct (str_eqb p rdf_type_s) eqn:E2.
    + apply str_eqb_eq in E2. subst p. reflexivity.
    + destruct (tok_name_names ns q true p Hq) as [->|(w & -> & Hw & _ & H2 & _ & _ & _ & _ & Hc)]; [reflexivity|].
      cbn [run]. unfold s_a in H2. now rewrite H2, Hc, Hw.
Qed.

Lemma run_obj_name : forall env sup tok u f s p T acc, names env tok u ->
  run env sup (RObj f s p) (tok :: T) acc = run env sup (RAfter f s p) T (acc ++ [(s, p, TIri u)]).
Proof.
  intros env sup tok u f s p T acc [->|(w & -> & Hw & _ & _ & H3 & H4 & Hb & Ho & _)]; [reflexivity|].
  cbn [run]. now rewrite Hb, Ho, H3, H4, Hw.
Qed.

Lemma run_dt_name : forall env sup tok d f s p v T acc, names env tok d ->
  run env sup (RDt f s p v) (tok :: T) acc = run env sup (RAfter f s p) T (acc ++ [(s, p, TLit v None (Some d))]).
Proof.
  intros env sup tok d f s p v T acc [->|(w & -> & Hw & _)]; [reflexivity|]. cbn [run]. now rewrite Hw.
Qed.

(* the token after a complete object: a comma, a semicolon, the final dot or the closing bracket *)
Definition term_start (T : list token) : bool :=
  match T with
  | KComma :: _ => true
  | KWord w :: _ => str_eqb w s_semi || str_eqb w s_dot || str_eqb w s_close
  | _ => false
  end.

Lemma run_plain_string : forall env sup f s p v T acc, term_start T = true ->
  run env sup (RStr f s p v) T acc = run env sup (RAfter f s p) T (acc ++ [(s, p, TLit v None None)]).
Proof.
  intros env sup f s p v [|tk T] acc H; [discriminate|]. destruct tk as [| w | | | | |]; try discriminate; reflexivity.
Qed.

Lemma int_not_bn : forall w, is_int_lex w = true -> bn_word w = None.
Proof.
  intros [|a [|b l]] H; try reflexivity. cbn [bn_word]. destruct (N.eqb_spec a 95) as [->|]; [|reflexivity].
  discriminate.
Qed.
Lemma int_not_open : forall w, is_int_lex w = true -> str_eqb w s_open = false.
Proof.
  intros w H. destruct (str_eqb w s_open) eqn:E; [|reflexivity]. apply str_eqb_eq in E. subst w. discriminate.
Qed.

Lemma run_term : forall ns q sup f s p t T acc, q_ok ns q = true -> term_ok t = true -> term_start T = true ->
  run (rev ns) sup (RObj f s p) (tok_term q t ++ T) acc = run (rev ns) sup (RAfter f s p) T (acc ++ [(s, p, t)]).
Proof.
  intros ns q sup f s p [u|l|lex lang dt] T acc Hq Hok HT.
  - cbn [tok_term app]. now apply run_obj_name, tok_iri_names.
  - reflexivity.
  - assert (Hquoted : run (rev ns) sup (RObj f s p) (tok_quoted q lex lang dt ++ T) acc
                      = run (rev ns) sup (RAfter f s p) T (acc ++ [(s, p, TLit lex lang dt)])).
    { unfold tok_quoted. destruct lang as [l|]; destruct dt as [d|]; simpl in Hok; try discriminate.
      - apply andb_true_iff in Hok as [Hne _]. destruct l as [|c l']; [discriminate|]. reflexivity.
      - apply andb_true_iff in Hok as [Hne _]. destruct d as [|c d']; [discriminate|]. cbn [truthy app run].
        now apply run_dt_name, tok_name_names.
      - cbn [truthy app run]. now apply run_plain_string. }
    cbn [tok_term]. destruct dt as [d|]; [|exact Hquoted].
    assert (Hlang : lang = None) by (destruct lang; [discriminate|reflexivity]). subst lang.
    destruct (str_eqb d xsd_integer_s && is_int_lex lex) eqn:E1.
    + apply andb_true_iff in E1 as [Ed Ei]. apply str_eqb_eq in Ed. subst d. cbn [app run].
      rewrite (int_not_bn lex Ei), (int_not_open lex Ei). now rewrite Ei.
    + destruct (str_eqb d xsd_boolean_s && (str_eqb lex s_true || str_eqb lex s_false)) eqn:E2; [|exact Hquoted].
      apply andb_true_iff in E2 as [Ed Eb]. apply str_eqb_eq in Ed. subst d. cbn [app run].
      assert (Hni : is_int_lex lex = false /\ bn_word lex = None /\ str_eqb lex s_open = false).
      { apply orb_true_iff in Eb as [Eb|Eb]; apply str_eqb_eq in Eb; subst lex; repeat split; reflexivity. }
      destruct Hni as (Hni & Hnb & Hno). now rewrite Hnb, Hno, Hni, Eb.
Qed.

Lemma run_after_comma : forall env sup f s p T acc,
  run env sup (RAfter f s p) (KComma :: T) acc = run env sup (RObj f s p) T acc.
Proof. reflexivity. Qed.
Lemma run_after_semi : forall env sup f s p T acc,
  run env sup (RAfter f s p) (KWord s_semi :: T) acc = run env sup (RPred f s) T acc.
Proof. reflexivity. Qed.
Lemma run_after_dot : forall env sup s p T acc,
  run env sup (RAfter None s p) (KWord s_dot :: T) acc = run env sup RSubj T acc.
Proof. reflexivity. Qed.
Lemma run_after_close : forall env sup os op s p T acc,
  run env sup (RAfter (Some (os, op)) s p) (KWord s_close :: T) acc = run env sup (RAfter None os op) T acc.
Proof. reflexivity. Qed.
Lemma run_pred_close : forall env sup os op s T acc,
  run env sup (RPred (Some (os, op)) s) (KWord s_close :: T) acc = run env sup (RAfter None os op) T acc.
Proof. reflexivity. Qed.

(* the token that ends a predicate list *)
Definition is_end (E : token) : Prop := E = KWord s_dot \/ E = KWord s_close.
Lemma run_after_end : forall env sup f s p p' E T acc, is_end E ->
  run env sup (RAfter f s p) (E :: T) acc = run env sup (RAfter f s p') (E :: T) acc.
Proof. intros env sup f s p p' E T acc [->| ->]; reflexivity. Qed.
Lemma end_start : forall E T, is_end E -> term_start (E :: T) = true.
Proof. intros E T [->| ->]; reflexivity. Qed.

Lemma flat_map_single : forall (A B : Type) (g : A -> B) l, flat_map (fun o => [g o]) l = map g l.
Proof. intros A B g l. induction l as [|x r IH]; [reflexivity|]. cbn [flat_map map app]. now rewrite IH. Qed.

(* one layer of object / predicate lists, for any kind of object whose reading is known:
   [spf t] are the labels the reader draws for the object t, [trp s p t] the triples it yields *)
Section RunLayer.
  Variables (ns : nstab) (q : qtab) (tt : tterm -> list token) (okp : tterm -> bool) (f : frame).
  Variable spf : tterm -> list str.
  Variable trp : tterm -> str -> tterm -> list ttriple.
  Hypothesis Hq : q_ok ns q = true.
  Hypothesis Hrun : forall s p t T acc sup, okp t = true -> term_start T = true ->
    run (rev ns) (spf t ++ sup) (RObj f s p) (tt t ++ T) acc = run (rev ns) sup (RAfter f s p) T (acc ++ trp s p t).

  Definition po_trs (s : tterm) (ps : list (str * list tterm)) : list ttriple :=
    flat_map (fun po => flat_map (trp s (fst po)) (snd po)) ps.
  Definition po_sup (ps : list (str * list tterm)) : list str :=
    flat_map (fun po => flat_map spf (snd po)) ps.

  Lemma tobj_more_start : forall r T, term_start T = true -> term_start (flat_map (tobj_more tt) r ++ T) = true.
  Proof. intros [|o r] T H; [exact H|reflexivity]. Qed.

  Lemma run_objs_tail : forall s p os T acc sup, forallb okp os = true -> term_start T = true ->
    run (rev ns) (flat_map spf os ++ sup) (RAfter f s p) (flat_map (tobj_more tt) os ++ T) acc
    = run (rev ns) sup (RAfter f s p) T (acc ++ flat_map (trp s p) os).
  Proof.
    intros s p os T acc sup. revert acc. induction os as [|o r IH]; intros acc Hok HT.
    - cbn [flat_map app]. now rewrite app_nil_r.
    - simpl in Hok. apply andb_true_iff in Hok as [Ho Hr].
      cbn [flat_map]. unfold tobj_more at 1. rewrite <- ?app_assoc. cbn [app]. rewrite run_after_comma.
      rewrite Hrun by (try assumption; now apply tobj_more_start). rewrite IH by assumption.
      rewrite <- ?app_assoc; reflexivity.
  Qed.

  Lemma run_objs : forall s p os T acc sup, forallb okp os = true -> os <> [] -> term_start T = true ->
    run (rev ns) (flat_map spf os ++ sup) (RObj f s p) (toks_objs tt os ++ T) acc
    = run (rev ns) sup (RAfter f s p) T (acc ++ flat_map (trp s p) os).
  Proof.
    intros s p [|o r] T acc sup Hok Hne HT; [congruence|].
    simpl in Hok. apply andb_true_iff in Hok as [Ho Hr].
    cbn [toks_objs flat_map]. rewrite <- ?app_assoc.
    rewrite Hrun by (try assumption; now apply tobj_more_start).
    rewrite run_objs_tail by assumption. rewrite <- ?app_assoc; reflexivity.
  Qed.

  Lemma tpred_more_start : forall r E T, is_end E -> term_start (flat_map (tpred_more q tt) r ++ E :: T) = true.
  Proof. intros [|o r] E T H; [now apply end_start|reflexivity]. Qed.

  Lemma run_preds_tail : forall s p0 ps E T acc sup, is_end E -> forallb (po_okg okp) ps = true ->
    run (rev ns) (po_sup ps ++ sup) (RAfter f s p0) (flat_map (tpred_more q tt) ps ++ E :: T) acc
    = run (rev ns) sup (RAfter f s p0) (E :: T) (acc ++ po_trs s ps).
  Proof.
    intros s p0 ps E T acc sup HE. revert p0 acc. induction ps as [|[p os] r IH]; intros p0 acc Hok.
    - cbn [flat_map app po_trs po_sup]. now rewrite app_nil_r.
    - simpl in Hok. apply andb_true_iff in Hok as [Hpo Hr].
      unfold po_okg in Hpo. cbn [fst snd] in Hpo. apply andb_true_iff in Hpo as [Hpo Hts]. apply andb_true_iff in Hpo as [Hp Hne].
      assert (Hos : os <> []) by (destruct os; [discriminate|congruence]).
      unfold po_sup, po_trs. cbn [flat_map]. fold (po_sup r). fold (po_trs s r).
      unfold tpred_more at 1. cbn [fst snd]. rewrite <- ?app_assoc. cbn [app]. rewrite run_after_semi.
      rewrite (run_pred ns) by exact Hq. rewrite <- ?app_assoc.
      rewrite run_objs by (try assumption; now apply tpred_more_start).
      rewrite IH by assumption. rewrite <- ?app_assoc. now apply run_after_end.
  Qed.

  Lemma run_preds : forall s ps E T acc sup, is_end E -> ps <> [] -> forallb (po_okg okp) ps = true ->
    exists p0, run (rev ns) (po_sup ps ++ sup) (RPred f s) (toks_preds q tt ps ++ E :: T) acc
    = run (rev ns) sup (RAfter f s p0) (E :: T) (acc ++ po_trs s ps).
  Proof.
    intros s [|[p os] r] E T acc sup HE Hne Hok; [congruence|]. exists p.
    simpl in Hok. apply andb_true_iff in Hok as [Hpo Hr].
    unfold po_okg in Hpo. cbn [fst snd] in Hpo. apply andb_true_iff in Hpo as [Hpo Hts]. apply andb_true_iff in Hpo as [Hp Hne'].
    assert (Hos : os <> []) by (destruct os; [discriminate|congruence]).
    unfold po_sup, po_trs. cbn [flat_map toks_preds]. fold (po_sup r). fold (po_trs s r). cbn [fst snd].
    rewrite <- ?app_assoc. cbn [app].
    rewrite (run_pred ns) by exact Hq. rewrite <- ?app_assoc.
    rewrite run_objs by (try assumption; now apply tpred_more_start).
    rewrite run_preds_tail by assumption. rewrite <- ?app_assoc. reflexivity.
  Qed.
End RunLayer.

(* the inner layer: plain terms, no label drawn *)
Definition sp_none (_ : tterm) : list str := [].
Definition trp_one (s : tterm) (p : str) (t : tterm) : list ttriple := [(s, p, t)].

Lemma run_term_inner : forall ns q f, q_ok ns q = true -> forall s p t T acc sup, term_ok t = true -> term_start T = true ->
  run (rev ns) (sp_none t ++ sup) (RObj f s p) (tok_term q t ++ T) acc
  = run (rev ns) sup (RAfter f s p) T (acc ++ trp_one s p t).
Proof. intros ns q f Hq s p t T acc sup Ht HT. unfold sp_none, trp_one. cbn [app]. now apply run_term. Qed.

Lemma po_sup_none : forall ps, po_sup sp_none ps = [].
Proof.
  induction ps as [|[p os] r IH]; [reflexivity|]. unfold po_sup. cbn [flat_map snd]. fold (po_sup sp_none r). rewrite IH, app_nil_r.
  induction os as [|o os' IHo]; [reflexivity|exact IHo].
Qed.
Lemma po_trs_one : forall s ps, po_trs trp_one s ps = po_triples s ps.
Proof.
  intros s ps. induction ps as [|[p os] r IH]; [reflexivity|]. unfold po_trs, po_triples. cbn [flat_map fst snd].
  fold (po_trs trp_one s r). fold (po_triples s r). rewrite IH.
  assert (H : flat_map (trp_one s p) os = map (fun o => (s, p, o)) os) by (unfold trp_one; apply flat_map_single).
  now rewrite H.
Qed.

Lemma run_open : forall env l sup s p T acc,
  run env (l :: sup) (RObj None s p) (KWord s_open :: T) acc
  = run env sup (RPred (Some (s, p)) (TBn l)) T (acc ++ [(s, p, TBn l)]).
Proof. reflexivity. Qed.

(* the outer layer: an object may be a bracketed node *)
Lemma run_term_outer : forall ns q n, q_ok ns q = true -> forall s p t T acc sup, okp_outer n t = true -> term_start T = true ->
  run (rev ns) (obj_sup n t ++ sup) (RObj None s p) (tt_outer q n t ++ T) acc
  = run (rev ns) sup (RAfter None s p) T (acc ++ obj_triples n s p t).
Proof.
  intros ns q n Hq s p t T acc sup Hok HT. unfold tt_outer, obj_sup, obj_triples, okp_outer in *.
  destruct t as [u|l|lex lang dt]; try (cbn [app]; now apply run_term).
  destruct (nlookup n l) as [ps|]; [|cbn [app]; now apply run_term].
  cbn [app]. rewrite run_open. rewrite <- ?app_assoc. cbn [app].
  destruct ps as [|po r].
  - cbn [toks_preds app]. rewrite run_pred_close. reflexivity.
  - destruct (run_preds ns q (tok_term q) term_ok (Some (s, p)) sp_none trp_one Hq (run_term_inner ns q (Some (s, p)) Hq)
               (TBn l) (po :: r) (KWord s_close) T (acc ++ [(s, p, TBn l)]) sup) as [p0 H];
      [now right|discriminate|exact Hok|].
    rewrite po_sup_none in H. cbn [app] in H. rewrite H. rewrite run_after_close. rewrite po_trs_one.
    rewrite <- ?app_assoc. reflexivity.
Qed.

Lemma run_stmt : forall ns q n sp T acc sup, q_ok ns q = true -> sp_ok n sp = true ->
  run (rev ns) (po_sup (obj_sup n) (snd sp) ++ sup) RSubj (toks_stmt q n sp ++ T) acc
  = run (rev ns) sup RSubj T (acc ++ po_trs (obj_triples n) (fst sp) (snd sp)).
Proof.
  intros ns q n [s ps] T acc sup Hq Hok. unfold sp_ok in Hok. cbn [fst snd] in *.
  apply andb_true_iff in Hok as [Hok Hps]. apply andb_true_iff in Hok as [Hs Hne].
  assert (Hps' : ps <> []) by (destruct ps; [discriminate|congruence]).
  unfold toks_stmt. cbn [fst snd].
  assert (Hsub : forall T' sup', run (rev ns) sup' RSubj (tok_term q s ++ T') acc = run (rev ns) sup' (RPred None s) T' acc).
  { intros T' sup'. destruct s as [u|l|lex lang dt]; [|reflexivity|discriminate].
    cbn [tok_term app]. now apply run_subj, tok_iri_names. }
  rewrite <- ?app_assoc. rewrite Hsub. cbn [app].
  destruct (run_preds ns q (tt_outer q n) (okp_outer n) None (obj_sup n) (obj_triples n) Hq (run_term_outer ns q n Hq)
             s ps (KWord s_dot) T acc sup) as [p0 H]; [now left|exact Hps'|exact Hps|].
  rewrite H. now rewrite run_after_dot.
Qed.

Lemma run_stmts : forall ns q n pl acc, q_ok ns q = true -> plan_ok n pl = true ->
  run (rev ns) (plan_sup n pl) RSubj (flat_map (toks_stmt q n) pl) acc = Some (acc ++ plan_triples n pl).
Proof.
  intros ns q n pl acc Hq. revert acc. induction pl as [|sp r IH]; intros acc Hok.
  - cbn. now rewrite app_nil_r.
  - simpl in Hok. apply andb_true_iff in Hok as [H1 H2].
    unfold plan_sup, plan_triples. cbn [flat_map]. fold (plan_sup n r). fold (plan_triples n r).
    change (flat_map (fun po => flat_map (obj_sup n) (snd po)) (snd sp)) with (po_sup (obj_sup n) (snd sp)).
    change (flat_map (fun po => flat_map (obj_triples n (fst sp) (fst po)) (snd po)) (snd sp))
      with (po_trs (obj_triples n) (fst sp) (snd sp)).
    rewrite (run_stmt ns) by assumption. rewrite IH by assumption. rewrite <- ?app_assoc; reflexivity.
Qed.

Lemma run_header : forall ns env sup T acc, ns_ok ns = true ->
  run env sup RSubj (toks_header ns ++ T) acc = run (rev ns ++ env) sup RSubj T acc.
Proof.
  induction ns as [|[p n] r IH]; intros env sup T acc Hok; [reflexivity|].
  simpl in Hok. apply andb_true_iff in Hok as [Hpn Hr]. apply andb_true_iff in Hpn as [Hp Hn].
  unfold toks_header. cbn [flat_map]. fold (toks_header r). unfold tprefix_line. cbn [fst snd app run].
  change (str_eqb s_prefix_word s_prefix_word) with true. cbv iota.
  rewrite (span_app_stop _ p 58 [] (pfx_no_colon p Hp)) by reflexivity.
  change (str_eqb s_dot [46]) with true. cbv iota.
  rewrite IH by exact Hr. cbn [rev]. rewrite <- ?app_assoc; reflexivity.
Qed.

(* the token image contains no error token *)
Definition not_bad (t : token) : bool := match t with KBad => false | _ => true end.

Lemma forallb_flat_map : forall (A : Type) (f : A -> list token) (l : list A),
  (forall x, forallb not_bad (f x) = true) -> forallb not_bad (flat_map f l) = true.
Proof.
  intros A f l H. induction l as [|x r IH]; [reflexivity|]. cbn [flat_map]. rewrite forallb_app. now rewrite H, IH.
Qed.

Lemma tok_name_nb : forall q v u, not_bad (tok_name q v u) = true.
Proof. intros. unfold tok_name. destruct (qlookup q v u) as [[p l]|]; reflexivity. Qed.
Lemma tok_iri_nb : forall q v u, not_bad (tok_iri q v u) = true.
Proof.
  intros. unfold tok_iri. destruct (str_eqb u rdf_nil_s); [reflexivity|].
  destruct (v && str_eqb u rdf_type_s); [reflexivity|apply tok_name_nb].
Qed.
Lemma tok_term_nb : forall q t, forallb not_bad (tok_term q t) = true.
Proof.
  intros q [u|l|lex lang dt]; cbn [tok_term forallb].
  - now rewrite tok_iri_nb.
  - reflexivity.
  - assert (Hq : forallb not_bad (tok_quoted q lex lang dt) = true).
    { unfold tok_quoted. cbn [forallb not_bad andb]. destruct (truthy lang); [reflexivity|].
      destruct (truthy dt); [|reflexivity]. cbn [forallb not_bad andb]. now rewrite tok_name_nb. }
    destruct dt as [d|]; [|exact Hq].
    destruct (str_eqb d xsd_integer_s && is_int_lex lex); [reflexivity|].
    destruct (str_eqb d xsd_boolean_s && (str_eqb lex s_true || str_eqb lex s_false)); [reflexivity|exact Hq].
Qed.
Section NbLayer.
  Variables (q : qtab) (tt : tterm -> list token).
  Hypothesis Htt : forall t, forallb not_bad (tt t) = true.
  Lemma toks_objs_nb : forall os, forallb not_bad (toks_objs tt os) = true.
  Proof.
    intros [|o r]; [reflexivity|]. cbn [toks_objs]. rewrite forallb_app, Htt. cbn [andb].
    apply forallb_flat_map. intros x. unfold tobj_more. cbn [forallb not_bad andb]. apply Htt.
  Qed.
  Lemma toks_preds_nb : forall ps, forallb not_bad (toks_preds q tt ps) = true.
  Proof.
    intros [|[p os] r]; [reflexivity|]. cbn [toks_preds forallb]. rewrite tok_iri_nb. cbn [andb].
    rewrite forallb_app, toks_objs_nb. cbn [andb]. apply forallb_flat_map. intros [p' os'].
    unfold tpred_more. cbn [fst snd forallb not_bad andb]. rewrite tok_iri_nb. apply toks_objs_nb.
  Qed.
End NbLayer.
Lemma tt_outer_nb : forall q n t, forallb not_bad (tt_outer q n t) = true.
Proof.
  intros q n t. unfold tt_outer. destruct t as [u|l|lex lang dt]; try apply tok_term_nb.
  destruct (nlookup n l) as [ps|]; [|apply tok_term_nb].
  cbn [forallb not_bad andb]. rewrite forallb_app. rewrite (toks_preds_nb q (tok_term q) (tok_term_nb q)). reflexivity.
Qed.
Lemma toks_stmt_nb : forall q n sp, forallb not_bad (toks_stmt q n sp) = true.
Proof.
  intros q n [s ps]. unfold toks_stmt. cbn [fst snd]. rewrite forallb_app, tok_term_nb. cbn [andb].
  rewrite forallb_app. rewrite (toks_preds_nb q (tt_outer q n) (tt_outer_nb q n)). reflexivity.
Qed.
Lemma toks_doc_nb : forall ns q n pl,
  existsb (fun t => match t with KBad => true | _ => false end) (toks_doc ns q n pl) = false.
Proof.
  intros ns q n pl.
  assert (H : forallb not_bad (toks_doc ns q n pl) = true).
  { unfold toks_doc. rewrite forallb_app. apply andb_true_iff. split.
    - unfold toks_header. apply forallb_flat_map. reflexivity.
    - apply forallb_flat_map. apply toks_stmt_nb. }
  induction (toks_doc ns q n pl) as [|t r IH]; [reflexivity|]. simpl in H. apply andb_true_iff in H as [H1 H2].
  cbn [existsb]. rewrite (IH H2). destruct t; try reflexivity. discriminate.
Qed.

(* the reader draws the labels of the bracketed nodes from its supply; with the supply that hands out the
   labels the plan records, in the order of the opening brackets, the text reads back as the plan's triples *)
Theorem read_write_doc : forall ns q n pl, ns_ok ns = true -> q_ok ns q = true -> plan_ok n pl = true ->
  read_doc (plan_sup n pl) (write_doc ns q n pl) = Some (plan_triples n pl).
Proof.
  intros ns q n pl H1 H2 H3. unfold read_doc. rewrite lex_doc by assumption. rewrite toks_doc_nb.
  unfold toks_doc. rewrite run_header by exact H1. rewrite app_nil_r.
  now rewrite (run_stmts ns q n pl []) by assumption.
Qed.

(* as sets: the text denotes exactly the graph, whenever the plan covers the graph *)
Lemma list_ttriple_eqb_refl : forall l, list_eqb ttriple_eqb l l = true.
Proof.
  assert (Ht : forall t, tterm_eqb t t = true).
  { intros [u|b|l g d]; simpl; [apply str_eqb_refl|apply str_eqb_refl|]. rewrite str_eqb_refl.
    destruct g, d; simpl; rewrite ?str_eqb_refl; reflexivity. }
  induction l as [|[[s p] o] l IH]; [reflexivity|]. simpl. now rewrite !Ht, str_eqb_refl, IH.
Qed.

Theorem ts_spec_model : forall c, ts_wf c = true ->
  tset_eqb (plan_triples (ts_nest c) (ts_plan c)) (ts_g c) = true ->
  ts_spec c (ts_model c) = true.
Proof.
  intros c Hwf Hset. unfold ts_wf in Hwf. apply andb_true_iff in Hwf as [Hwf H3]. apply andb_true_iff in Hwf as [H1 H2].
  unfold ts_spec, ts_model. cbn [snd]. rewrite read_write_doc by assumption. cbn [opt_eqb].
  now rewrite list_ttriple_eqb_refl, Hset.
Qed.
