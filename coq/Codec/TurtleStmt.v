(* C03, K4 statement layer: TurtleSerializer for graphs WITHOUT blank nodes, as text.
   Writer model (rdflib/plugins/serializers/turtle.py): serialize -> startDocument (the @prefix header, sorted),
   statement / s_default, predicateList, verb, objectList, path / p_default, label (rdf:nil as (), rdf:type as a in
   verb position, prefixed name or <iri>, literals through Literal._literal_n3(use_plain=True): bare xsd:integer and
   xsd:boolean, quoted text by Literal._quote_encode = ttl_quote_encode of Model.v, @lang, ^^datatype as prefixed name
   or <iri>), with the exact white space of the non-spacious layout.
   Taken as INPUT (oracles, observed from the serialiser under test by the harness, arbitrary in the theorems):
     - the plan: subjects in orderSubjects' order, for each its predicates in sortProperties' order, for each its
       objects in their sorted order (the theorems hold for any grouping);
     - the prefixed-name decision getQName(iri, position == VERB) for every IRI written, and the final prefix table
       (RecursiveSerializer.namespaces).  What NamespaceManager.compute_qname / split_uri decide is property C17's.
   Reader model: a lexer and a state machine for exactly this sub-language of Turtle (directives, ; , . a () <iri>
   prefixed names with backslash escapes, quoted strings via strconst of Model.v, @lang, ^^, integers, booleans); it
   is NOT a model of notation3.py, it is tied to it by comparing its triples with rdflib's parse of the same text.
   Definitions only; proofs in TurtleStmtProofs.v. *)
From Coq Require Import List NArith Bool.
From RV Require Import Codec.Model.
Import ListNotations.
Open Scope N_scope.

Definition rdf_ns_s : str :=
  [104;116;116;112;58;47;47;119;119;119;46;119;51;46;111;114;103;47;49;57;57;57;47;48;50;47;50;50;45;114;100;102;45;115;121;110;116;97;120;45;110;115;35].
Definition xsd_ns_s : str :=
  [104;116;116;112;58;47;47;119;119;119;46;119;51;46;111;114;103;47;50;48;48;49;47;88;77;76;83;99;104;101;109;97;35].
Definition rdf_type_s : str := rdf_ns_s ++ [116; 121; 112; 101].
Definition rdf_nil_s : str := rdf_ns_s ++ [110; 105; 108].
Definition xsd_integer_s : str := xsd_ns_s ++ [105; 110; 116; 101; 103; 101; 114].
Definition xsd_boolean_s : str := xsd_ns_s ++ [98; 111; 111; 108; 101; 97; 110].
Definition s_true : str := [116; 114; 117; 101].
Definition s_false : str := [102; 97; 108; 115; 101].

(* TBn: a blank node written as a label (_:id, what BNode.n3() gives); the subject of a triple is TIri or TBn *)
Inductive tterm := TIri (u : str) | TBn (l : str) | TLit (lex : str) (lang : option str) (dt : option str).
Definition ttriple := (tterm * str * tterm)%type.
Definition plan := list (tterm * list (str * list tterm)).

Definition tterm_eqb (a b : tterm) : bool :=
  match a, b with
  | TIri x, TIri y => str_eqb x y
  | TBn x, TBn y => str_eqb x y
  | TLit l g d, TLit l' g' d' => str_eqb l l' && opt_eqb str_eqb g g' && opt_eqb str_eqb d d'
  | _, _ => false
  end.
Definition ttriple_eqb (a b : ttriple) : bool :=
  let '(s, p, o) := a in let '(s', p', o') := b in tterm_eqb s s' && str_eqb p p' && tterm_eqb o o'.

(* the nested blank nodes of the plan: label -> its own predicate list (objects there are IRIs, literals or labelled
   blank nodes: ONE level).  A TBn l with l in this table is written as [ ... ] where it occurs as an object and has
   no statement of its own; which nodes are nested is part of the observed plan. *)
Definition nesttab := list (str * list (str * list tterm)).
Fixpoint nlookup (n : nesttab) (l : str) : option (list (str * list tterm)) :=
  match n with
  | [] => None
  | (k, v) :: r => if str_eqb k l then Some v else nlookup r l
  end.

Definition po_triples (s : tterm) (ps : list (str * list tterm)) : list ttriple :=
  flat_map (fun po => map (fun o => (s, fst po, o)) (snd po)) ps.
(* the triples an object stands for: the statement itself and, for a nested node, the node's own statements *)
Definition obj_triples (n : nesttab) (s : tterm) (p : str) (o : tterm) : list ttriple :=
  (s, p, o) :: match o with
               | TBn l => match nlookup n l with Some ps => po_triples (TBn l) ps | None => [] end
               | _ => []
               end.
Definition plan_triples (n : nesttab) (pl : plan) : list ttriple :=
  flat_map (fun sp => flat_map (fun po => flat_map (obj_triples n (fst sp) (fst po)) (snd po)) (snd sp)) pl.
(* the labels of the nested nodes in the order in which their brackets open in the text *)
Definition obj_sup (n : nesttab) (o : tterm) : list str :=
  match o with TBn l => match nlookup n l with Some _ => [l] | None => [] end | _ => [] end.
Definition plan_sup (n : nesttab) (pl : plan) : list str :=
  flat_map (fun sp => flat_map (fun po => flat_map (obj_sup n) (snd po)) (snd sp)) pl.

(* ---- oracles *)
Definition qtab := list ((bool * str) * (str * str)).     (* (verb position?, iri) -> (prefix, local as written) *)
Fixpoint qlookup (q : qtab) (verb : bool) (u : str) : option (str * str) :=
  match q with
  | [] => None
  | ((v, x), r) :: q' => if Bool.eqb v verb && str_eqb x u then Some r else qlookup q' verb u
  end.
Definition nstab := list (str * str).                       (* prefix -> namespace, in the order of the header *)

(* ---- writer *)
Definition is_int_lex (s : str) : bool :=                    (* -?[0-9]+ : the integer forms the generators use *)
  match s with
  | c :: r => if c =? 45 then negb (match r with [] => true | _ => false end) && forallb is_digit r
              else forallb is_digit s
  | [] => false
  end.

Definition label_iri (q : qtab) (verb : bool) (u : str) : str :=
  if str_eqb u rdf_nil_s then [40; 41]
  else if verb && str_eqb u rdf_type_s then [97]
  else match qlookup q verb u with
       | Some (p, l) => p ++ [58] ++ l
       | None => [60] ++ u ++ [62]
       end.

Definition label_term (q : qtab) (t : tterm) : str :=
  match t with
  | TIri u => label_iri q false u
  | TBn l => [95; 58] ++ l
  | TLit lex lang dt =>
    let quoted :=
      ttl_quote_encode lex ++
      match truthy lang with
      | Some l => 64 :: l
      | None => match truthy dt with
                | Some d => [94; 94] ++ match qlookup q false d with
                                        | Some (p, l) => p ++ [58] ++ l
                                        | None => [60] ++ d ++ [62]
                                        end
                | None => []
                end
      end in
    match dt with
    | Some d => if str_eqb d xsd_integer_s && is_int_lex lex then lex
                else if str_eqb d xsd_boolean_s && (str_eqb lex s_true || str_eqb lex s_false) then lex
                else quoted
    | None => quoted
    end
  end.

(* indentation: indentString * n *)
Definition ind (n : nat) : str := repeat 32 (4 * n).

Section Layer.
  Variable q : qtab.
  (* how an object is written inside an objectList of depth d *)
  Variable wt : nat -> tterm -> str.

  (* objectList at depth d (depth += 1 when there are several objects): first object after a blank, the others on
     their own lines *)
  Definition obj_more (d : nat) (x : tterm) : str := [44; 10] ++ ind (S d) ++ wt d x.
  (* depthmod = (count == 1) and 0 or 1  is 1 for every count ("0 or 1") *)
  Definition objs_depth (d : nat) (os : list tterm) : nat := S d.
  Definition write_objs (d : nat) (os : list tterm) : str :=
    match os with
    | [] => []
    | o :: r => [32] ++ wt (objs_depth d os) o ++ flat_map (obj_more (objs_depth d os)) r
    end.
  (* predicateList at depth d *)
  Definition pred_more (d : nat) (po : str * list tterm) : str :=
    [32; 59; 10] ++ ind (S d) ++ label_iri q true (fst po) ++ write_objs d (snd po).
  Definition write_preds (d : nat) (ps : list (str * list tterm)) : str :=
    match ps with
    | [] => []
    | (p, os) :: r => [32] ++ label_iri q true p ++ write_objs d os ++ flat_map (pred_more d) r
    end.
End Layer.

(* inside a bracket: plain labels *)
Definition wt_inner (q : qtab) (_ : nat) (t : tterm) : str := label_term q t.
(* p_squared: depth += 2; "["; depth -= 1; predicateList; " ]"; depth -= 1 *)
Definition wt_outer (q : qtab) (n : nesttab) (d : nat) (t : tterm) : str :=
  match t with
  | TBn l => match nlookup n l with
             | Some ps => [91] ++ write_preds q (wt_inner q) (S d) ps ++ [32; 93]
             | None => label_term q t
             end
  | _ => label_term q t
  end.

(* statement + the newline serialize writes after it *)
Definition write_stmt (q : qtab) (n : nesttab) (sp : tterm * list (str * list tterm)) : str :=
  [10] ++ label_term q (fst sp) ++ write_preds q (wt_outer q n) 0 (snd sp) ++ [32; 46] ++ [10].
Definition prefix_line (pn : str * str) : str :=
  [64; 112; 114; 101; 102; 105; 120; 32] ++ fst pn ++ [58; 32; 60] ++ snd pn ++ [62; 32; 46; 10].
Definition write_header (ns : nstab) : str := flat_map prefix_line ns.
Definition write_doc (ns : nstab) (q : qtab) (n : nesttab) (pl : plan) : str :=
  write_header ns ++ flat_map (write_stmt q n) pl ++ [10].

(* ---- reader: lexer *)
Inductive token :=
| KIri (u : str) | KWord (w : str) | KStr (s : str) | KLang (l : str) | KDt | KComma | KBad.

Definition is_ws (c : N) : bool := (c =? 32) || (c =? 10) || (c =? 9) || (c =? 13).
Definition word_char (c : N) : bool := negb (is_ws c || (c =? 44)).

(* one token (two for a string with @lang or ^^) at the head of s, which does not start with white space;
   -> the tokens and the rest of the text *)
Definition scan (s : str) : list token * str :=
  match s with
  | [] => ([], [])
  | c :: r =>
    if c =? 44 then ([KComma], r)
    else if c =? 60 then
      let '(u, r1) := span (fun x => negb (x =? 62)) r in
      match r1 with _ :: r2 => ([KIri u], r2) | [] => ([KBad], []) end
    else if c =? 34 then
      match (match strip_prefix [34; 34] r with
             | Some body => strconst true body
             | None => strconst false r
             end) with
      | None => ([KBad], [])
      | Some (v, r1) =>
        match r1 with
        | d :: r2 =>
          if d =? 64 then let '(w, r3) := span word_char r2 in ([KStr v; KLang w], r3)
          else match strip_prefix [94; 94] r1 with
               | Some r3 => ([KStr v; KDt], r3)
               | None => ([KStr v], r1)
               end
        | [] => ([KStr v], [])
        end
      end
    else let '(w, r1) := span word_char s in ([KWord w], r1)
  end.

(* the lexer: structural in the text; after a token has been scanned the characters it covers are skipped *)
Fixpoint lexs (skip : nat) (s : str) : list token :=
  match s with
  | [] => []
  | c :: r =>
    match skip with
    | S n => lexs n r
    | O => if is_ws c then lexs 0 r
           else let '(toks, rest) := scan s in toks ++ lexs (length r - length rest) r
    end
  end.

(* ---- reader: the statement machine *)
Fixpoint unescape_local (l : str) : str :=
  match l with
  | c :: r => if c =? 92 then match r with d :: r' => d :: unescape_local r' | [] => [c] end
              else c :: unescape_local r
  | [] => []
  end.
Fixpoint ns_lookup (env : nstab) (p : str) : option str :=
  match env with
  | [] => None
  | (k, v) :: r => if str_eqb k p then Some v else ns_lookup r p
  end.
(* a word in term position -> IRI *)
Definition resolve_word (env : nstab) (w : str) : option str :=
  let '(pre, r) := span (fun c => negb (c =? 58)) w in
  match r with
  | _ :: loc => match ns_lookup env pre with Some ns => Some (ns ++ unescape_local loc) | None => None end
  | [] => None
  end.
Definition s_nil_word : str := [40; 41].
Definition s_prefix_word : str := [64; 112; 114; 101; 102; 105; 120].

(* the frame: inside a bracket, the statement the bracket is the object of *)
Definition frame := option (tterm * str).

Inductive rstate :=
| RSubj                                   (* between statements *)
| RPfx1 | RPfx2 (p : str) | RPfx3 (p ns : str)       (* inside an @prefix directive *)
| RPred (f : frame) (s : tterm)
| RObj (f : frame) (s : tterm) (p : str)
| RStr (f : frame) (s : tterm) (p lex : str)   (* a quoted string has been read, its @lang / ^^ may follow *)
| RDt (f : frame) (s : tterm) (p lex : str)
| RAfter (f : frame) (s : tterm) (p : str).

(* BLANK_NODE_LABEL: a word that starts with _: *)
Definition bn_word (w : str) : option str :=
  match w with a :: b :: l => if (a =? 95) && (b =? 58) then Some l else None | _ => None end.

Definition word_iri (env : nstab) (w : str) : option str :=
  if str_eqb w s_nil_word then Some rdf_nil_s else resolve_word env w.
Definition s_open : str := [91].
Definition s_close : str := [93].

(* sup: the labels the reader gives to the nodes that brackets introduce, in the order of the opening brackets *)
Fixpoint run (env : nstab) (sup : list str) (st : rstate) (toks : list token) (acc : list ttriple)
  : option (list ttriple) :=
  match toks with
  | [] => match st with RSubj => Some acc | _ => None end
  | t :: r =>
    (* what may follow a complete object *)
    let after (acc' : list ttriple) f s p :=
      match t with
      | KComma => run env sup (RObj f s p) r acc'
      | KWord w => if str_eqb w [59] then run env sup (RPred f s) r acc'
                   else if str_eqb w s_close then
                          match f with Some (os, op) => run env sup (RAfter None os op) r acc' | None => None end
                   else if str_eqb w [46] then
                          match f with None => run env sup RSubj r acc' | Some _ => None end
                   else None
      | _ => None
      end in
    match st with
    | RSubj =>
      match t with
      | KIri u => run env sup (RPred None (TIri u)) r acc
      | KWord w => match bn_word w with
                   | Some l => run env sup (RPred None (TBn l)) r acc
                   | None =>
                     if str_eqb w s_prefix_word then run env sup RPfx1 r acc
                     else match word_iri env w with Some u => run env sup (RPred None (TIri u)) r acc | None => None end
                   end
      | _ => None
      end
    | RPfx1 => match t with
               | KWord w => let '(pre, rest) := span (fun c => negb (c =? 58)) w in
                            match rest with [_] => run env sup (RPfx2 pre) r acc | _ => None end
               | _ => None
               end
    | RPfx2 p => match t with KIri ns => run env sup (RPfx3 p ns) r acc | _ => None end
    | RPfx3 p ns => match t with
                    | KWord w => if str_eqb w [46] then run ((p, ns) :: env) sup RSubj r acc else None
                    | _ => None
                    end
    | RPred f s =>
      match t with
      | KIri u => run env sup (RObj f s u) r acc
      | KWord w => if str_eqb w [97] then run env sup (RObj f s rdf_type_s) r acc
                   else if str_eqb w s_close then          (* [ ] : a node without statements *)
                          match f with Some (os, op) => run env sup (RAfter None os op) r acc | None => None end
                   else match word_iri env w with Some u => run env sup (RObj f s u) r acc | None => None end
      | _ => None
      end
    | RObj f s p =>
      match t with
      | KIri u => run env sup (RAfter f s p) r (acc ++ [(s, p, TIri u)])
      | KStr v => run env sup (RStr f s p v) r acc
      | KWord w =>
        match bn_word w with
        | Some l => run env sup (RAfter f s p) r (acc ++ [(s, p, TBn l)])
        | None =>
        if str_eqb w s_open then
          match f, sup with
          | None, l :: sup' => run env sup' (RPred (Some (s, p)) (TBn l)) r (acc ++ [(s, p, TBn l)])
          | _, _ => None                                   (* one level only *)
          end
        else if is_int_lex w then run env sup (RAfter f s p) r (acc ++ [(s, p, TLit w None (Some xsd_integer_s))])
        else if str_eqb w s_true || str_eqb w s_false
             then run env sup (RAfter f s p) r (acc ++ [(s, p, TLit w None (Some xsd_boolean_s))])
        else match word_iri env w with
             | Some u => run env sup (RAfter f s p) r (acc ++ [(s, p, TIri u)])
             | None => None
             end
        end
      | _ => None
      end
    | RStr f s p v =>
      match t with
      | KLang l => run env sup (RAfter f s p) r (acc ++ [(s, p, TLit v (Some l) None)])
      | KDt => run env sup (RDt f s p v) r acc
      | _ => after (acc ++ [(s, p, TLit v None None)]) f s p
      end
    | RDt f s p v =>
      match t with
      | KIri d => run env sup (RAfter f s p) r (acc ++ [(s, p, TLit v None (Some d))])
      | KWord w => match word_iri env w with
                   | Some d => run env sup (RAfter f s p) r (acc ++ [(s, p, TLit v None (Some d))])
                   | None => None
                   end
      | _ => None
      end
    | RAfter f s p => after acc f s p
    end
  end.

Definition read_doc (sup : list str) (text : str) : option (list ttriple) :=
  let toks := lexs 0 text in
  if existsb (fun t => match t with KBad => true | _ => false end) toks then None
  else run [] sup RSubj toks [].

(* ---- suite *)
Record ts_case := { ts_g : list ttriple; ts_ns : nstab; ts_q : qtab; ts_nest : nesttab; ts_plan : plan }.
Definition ts_obs := (str * option (list ttriple))%type.    (* the text ; the triples read from it *)
Definition ts_model (c : ts_case) : ts_obs :=
  let text := write_doc (ts_ns c) (ts_q c) (ts_nest c) (ts_plan c) in
  (text, read_doc (plan_sup (ts_nest c) (ts_plan c)) text).
Definition ts_obs_eqb (a b : ts_obs) : bool :=
  str_eqb (fst a) (fst b) && opt_eqb (list_eqb ttriple_eqb) (snd a) (snd b).
(* the property on this layer: the text reads back as exactly the triples of the plan, in order *)
Definition tmem (t : ttriple) (l : list ttriple) : bool := existsb (ttriple_eqb t) l.
Definition tset_eqb (a b : list ttriple) : bool := forallb (fun t => tmem t b) a && forallb (fun t => tmem t a) b.
(* ... and the plan (orderSubjects / buildPredicateHash / sortProperties of the serialiser) covers the graph *)
Definition ts_spec (c : ts_case) (o : ts_obs) : bool :=
  opt_eqb (list_eqb ttriple_eqb) (snd o) (Some (plan_triples (ts_nest c) (ts_plan c))) &&
  tset_eqb (plan_triples (ts_nest c) (ts_plan c)) (ts_g c).
