(* C03, K2 at full strength: Literal._quote_encode (three-quote form, strings that may contain quote characters)
   read back by SinkParser.strconst.  Proof device: the pipeline
       replace backslash; replace triple quotes; patch a trailing quote; replace CR
   is shown equal to ONE structural pass [Fg] over the source string that looks two characters ahead and remembers
   the previous source character; the reader is then shown to invert that pass. *)
From Coq Require Import List NArith Bool Lia Wf_nat.
From RV Require Import Codec.Model Codec.Proofs.
Import ListNotations.
Open Scope N_scope.

Definition ESC3 : str := [92; 34; 92; 34; 92; 34].
Definition QQQ : str := [34; 34; 34].
Definition dd (x : N) : str := if x =? 92 then [92; 92] else [x].                 (* after the backslash replace *)
Definition ee (x : N) : str := if x =? 92 then [92; 92] else if x =? 13 then [92; 114] else [x].
Definition starts2 (s : str) : bool :=
  match s with x :: y :: _ => (x =? 34) && (y =? 34) | _ => false end.

(* replace-backslash followed by replace-triple-quotes, as one pass *)
Fixpoint G (s : str) : str :=
  match s with
  | [] => []
  | a :: t =>
    if a =? 34 then
      match t with
      | b :: c :: r => if (b =? 34) && (c =? 34) then ESC3 ++ G r else 34 :: G t
      | _ => 34 :: G t
      end
    else dd a ++ G t
  end.

(* the whole body, as one pass; prev = previous source character *)
Definition last_q (prev : option N) : str :=
  match prev with Some p => if p =? 92 then [34] else [92; 34] | None => [34] end.
Fixpoint Fg (enc : N -> str) (prev : option N) (s : str) : str :=
  match s with
  | [] => []
  | a :: t =>
    if a =? 34 then
      match t with
      | [] => last_q prev
      | b :: t' =>
        match t' with
        | c :: r => if (b =? 34) && (c =? 34) then ESC3 ++ Fg enc (Some 34) r else 34 :: Fg enc (Some 34) t
        | [] => 34 :: Fg enc (Some 34) t
        end
      end
    else enc a ++ Fg enc (Some a) t
  end.

(* ------------------------------------------------------------ equations *)
Lemma starts2_true : forall t, starts2 t = true -> exists r, t = 34 :: 34 :: r.
Proof.
  intros [|x [|y r]] H; try discriminate. simpl in H. apply andb_true_iff in H as [H1 H2].
  apply N.eqb_eq in H1, H2. subst. now exists r.
Qed.

Lemma starts2_head : forall c q, (c =? 34) = false -> starts2 (c :: q) = false.
Proof. intros c [|y q] H; cbn [starts2]; [reflexivity|]. now rewrite H. Qed.

Lemma G_unfold3 : forall a b c r,
  G (a :: b :: c :: r) = if a =? 34 then (if (b =? 34) && (c =? 34) then ESC3 ++ G r else 34 :: G (b :: c :: r))
                         else dd a ++ G (b :: c :: r).
Proof. reflexivity. Qed.
Lemma G_nq : forall a t, (a =? 34) = false -> G (a :: t) = dd a ++ G t.
Proof. intros a [|b [|c r]] H; try rewrite G_unfold3; cbn [G]; now rewrite H. Qed.
Lemma G_q3 : forall r, G (34 :: 34 :: 34 :: r) = ESC3 ++ G r.
Proof. reflexivity. Qed.
Lemma G_q : forall t, starts2 t = false -> G (34 :: t) = 34 :: G t.
Proof. intros [|b [|c r]] H; try reflexivity. rewrite G_unfold3. simpl in H. rewrite N.eqb_refl, H. reflexivity. Qed.

Lemma Fg_unfold3 : forall enc p a b c r,
  Fg enc p (a :: b :: c :: r) =
  if a =? 34 then (if (b =? 34) && (c =? 34) then ESC3 ++ Fg enc (Some 34) r else 34 :: Fg enc (Some 34) (b :: c :: r))
  else enc a ++ Fg enc (Some a) (b :: c :: r).
Proof. reflexivity. Qed.
Lemma Fg_unfold2 : forall enc p a b,
  Fg enc p [a; b] = if a =? 34 then 34 :: Fg enc (Some 34) [b] else enc a ++ Fg enc (Some a) [b].
Proof. reflexivity. Qed.
Lemma Fg_unfold1 : forall enc p a, Fg enc p [a] = if a =? 34 then last_q p else enc a ++ [].
Proof. reflexivity. Qed.
Lemma Fg_nq : forall enc p a t, (a =? 34) = false -> Fg enc p (a :: t) = enc a ++ Fg enc (Some a) t.
Proof.
  intros enc p a [|b [|c r]] H; [rewrite Fg_unfold1|rewrite Fg_unfold2|rewrite Fg_unfold3]; now rewrite H.
Qed.
Lemma Fg_q3 : forall enc p r, Fg enc p (34 :: 34 :: 34 :: r) = ESC3 ++ Fg enc (Some 34) r.
Proof. reflexivity. Qed.
Lemma Fg_qlast : forall enc p, Fg enc p [34] = last_q p.
Proof. reflexivity. Qed.
Lemma Fg_q : forall enc p t, t <> [] -> starts2 t = false -> Fg enc p (34 :: t) = 34 :: Fg enc (Some 34) t.
Proof.
  intros enc p [|b [|c r]] Hne H; [congruence|reflexivity|].
  rewrite Fg_unfold3. simpl in H. rewrite N.eqb_refl, H. reflexivity.
Qed.

Lemma rep3_unfold3 : forall a b c r,
  rep3 (a :: b :: c :: r) = if (a =? 34) && (b =? 34) && (c =? 34) then [92; 34; 92; 34; 92; 34] ++ rep3 r
                            else a :: rep3 (b :: c :: r).
Proof. reflexivity. Qed.
Lemma rep3_nq : forall a t, (a =? 34) = false -> rep3 (a :: t) = a :: rep3 t.
Proof. intros a [|b [|c r]] H; try reflexivity. rewrite rep3_unfold3. now rewrite H. Qed.
Lemma rep3_q3 : forall r, rep3 (34 :: 34 :: 34 :: r) = ESC3 ++ rep3 r.
Proof. reflexivity. Qed.
Lemma rep3_q : forall t, starts2 t = false -> rep3 (34 :: t) = 34 :: rep3 t.
Proof.
  intros [|b [|c r]] H; try reflexivity. rewrite rep3_unfold3. simpl in H. rewrite N.eqb_refl. cbn [andb].
  now rewrite H.
Qed.

Lemma contains3_unfold3 : forall a b c r,
  contains3 (a :: b :: c :: r) = ((a =? 34) && (b =? 34) && (c =? 34)) || contains3 (b :: c :: r).
Proof. reflexivity. Qed.
Lemma contains3_cons : forall a t, contains3 (a :: t) = ((a =? 34) && starts2 t) || contains3 t.
Proof.
  intros a [|b [|c r]]; [cbn; now rewrite andb_false_r|cbn; now rewrite andb_false_r|].
  rewrite contains3_unfold3. cbn [starts2]. now rewrite andb_assoc.
Qed.

(* strong induction on the length *)
Lemma str_ind3 : forall P : str -> Prop,
  (forall s, (forall u, (length u < length s)%nat -> P u) -> P s) -> forall s, P s.
Proof.
  intros P H s. remember (length s) as n eqn:E. revert s E.
  induction n as [n IH] using lt_wf_ind. intros s E. apply H. intros u Hu. apply (IH (length u)); [lia|reflexivity].
Qed.

(* ------------------------------------------------------------ claim 1a: the first two replaces are G *)
Definition DD (s : str) : str := replace1 92 [92; 92] s.

Lemma DD_cons : forall a t, DD (a :: t) = dd a ++ DD t.
Proof. intros. unfold DD. rewrite replace1_cons. reflexivity. Qed.

Lemma dd_head : forall a, (a =? 34) = false -> exists c q, dd a = c :: q /\ (c =? 34) = false.
Proof.
  intros a H. unfold dd. destruct (a =? 92); eauto.
Qed.

Lemma starts2_DD : forall t, starts2 (DD t) = starts2 t.
Proof.
  intros [|b t]; [reflexivity|]. rewrite DD_cons.
  destruct (b =? 34) eqn:Hb.
  - apply N.eqb_eq in Hb. subst b. cbn [dd N.eqb app]. change (dd 34) with [34]. cbn [app].
    destruct t as [|c r]; [reflexivity|]. rewrite DD_cons.
    destruct (c =? 34) eqn:Hc.
    + apply N.eqb_eq in Hc. subst c. reflexivity.
    + destruct (dd_head c Hc) as (x & q & -> & Hx). cbn [app starts2]. rewrite Hx, Hc. reflexivity.
  - destruct (dd_head b Hb) as (x & q & -> & Hx). cbn [app].
    rewrite (starts2_head x _ Hx). symmetry. now apply starts2_head.
Qed.

Lemma rep3_dd : forall a X, (a =? 34) = false -> rep3 (dd a ++ X) = dd a ++ rep3 X.
Proof.
  intros a X H. unfold dd. destruct (a =? 92) eqn:E.
  - cbn [app]. rewrite !rep3_nq by reflexivity. reflexivity.
  - cbn [app]. now rewrite rep3_nq.
Qed.

Lemma rep3_DD : forall s, rep3 (DD s) = G s.
Proof.
  induction s as [s IH] using str_ind3. destruct s as [|a t]; [reflexivity|].
  rewrite DD_cons. destruct (a =? 34) eqn:Ha.
  - apply N.eqb_eq in Ha. subst a. change (dd 34) with [34]. cbn [app].
    destruct (starts2 t) eqn:Hs.
    + destruct (starts2_true t Hs) as (r & ->). rewrite !DD_cons. change (dd 34) with [34]. cbn [app].
      rewrite rep3_q3, G_q3, IH by (cbn [length]; lia). reflexivity.
    + rewrite rep3_q by (now rewrite starts2_DD). rewrite G_q by exact Hs. rewrite IH by (cbn [length]; lia).
      reflexivity.
  - rewrite rep3_dd by exact Ha. rewrite G_nq by exact Ha. rewrite IH by (cbn [length]; lia). reflexivity.
Qed.

Lemma G_no_triple : forall s, contains3 s = false -> G s = DD s.
Proof.
  induction s as [s IH] using str_ind3. intros H. destruct s as [|a t]; [reflexivity|].
  rewrite contains3_cons in H. apply orb_false_iff in H as [H1 H2].
  rewrite DD_cons. destruct (a =? 34) eqn:Ha.
  - apply N.eqb_eq in Ha. subst a. simpl in H1. rewrite G_q by exact H1.
    rewrite IH by (cbn [length]; try lia; exact H2). reflexivity.
  - rewrite G_nq by exact Ha. rewrite IH by (cbn [length]; try lia; exact H2). reflexivity.
Qed.

Lemma stage2_is_G : forall s, (if contains3 s then rep3 (DD s) else DD s) = G s.
Proof.
  intros s. destruct (contains3 s) eqn:E; [apply rep3_DD|]. symmetry. now apply G_no_triple.
Qed.

(* ------------------------------------------------------------ claim 1b: the trailing-quote patch *)
Lemma patch_last_two : forall Y p, patch_last (Y ++ [p; 34]) = if p =? 92 then Y ++ [p; 34] else Y ++ [p; 92; 34].
Proof.
  intros Y p. unfold patch_last. rewrite rev_app_distr. cbn [rev app]. rewrite N.eqb_refl. cbn [andb].
  destruct (p =? 92); cbn [negb]; [reflexivity|].
  replace (Y ++ [p; 34]) with ((Y ++ [p]) ++ [34]) by (rewrite <- app_assoc; reflexivity).
  rewrite removelast_last, <- app_assoc. reflexivity.
Qed.

Lemma patch_last_other : forall Y l, (l =? 34) = false -> patch_last (Y ++ [l]) = Y ++ [l].
Proof.
  intros Y l H. unfold patch_last. rewrite rev_app_distr. cbn [rev app].
  destruct (rev Y); [reflexivity|]. now rewrite H.
Qed.

Lemma patch_last_single : forall x, patch_last [x] = [x].
Proof. reflexivity. Qed.

(* P is what has been emitted so far, prev its last character (= the previous source character) *)
Definition last_is (P : str) (prev : option N) : Prop :=
  match prev with None => P = [] | Some p => exists P', P = P' ++ [p] end.

Lemma dd_last : forall a, exists Q, dd a = Q ++ [a].
Proof. intros a. unfold dd. destruct (N.eqb_spec a 92) as [->|]; [now exists [92]|now exists []]. Qed.

Lemma patch_G : forall s P prev, s <> [] -> last_is P prev ->
  patch_last (P ++ G s) = P ++ Fg dd prev s.
Proof.
  intros s. pattern s. apply str_ind3. clear s. intros s IH P prev Hne HP. destruct s as [|a t]; [congruence|].
  destruct (a =? 34) eqn:Ha.
  - apply N.eqb_eq in Ha. subst a. destruct t as [|b t'].
    + (* the last character is a raw quote *)
      cbn [G]. rewrite Fg_qlast. destruct prev as [p|]; simpl in HP.
      * destruct HP as (P' & ->). rewrite <- app_assoc. cbn [app]. rewrite patch_last_two. unfold last_q.
        destruct (p =? 92); rewrite <- app_assoc; reflexivity.
      * subst P. reflexivity.
    + destruct (starts2 (b :: t')) eqn:Hs.
      * destruct (starts2_true _ Hs) as (r & Hr). rewrite Hr. rewrite G_q3, Fg_q3.
        destruct r as [|x r'].
        -- cbn [G Fg]. rewrite !app_nil_r. unfold ESC3.
           replace (P ++ [92; 34; 92; 34; 92; 34]) with ((P ++ [92; 34; 92; 34]) ++ [92; 34])
             by (rewrite <- app_assoc; reflexivity).
           rewrite patch_last_two. reflexivity.
        -- rewrite app_assoc. rewrite (IH (x :: r')) with (prev := Some 34).
           ++ now rewrite <- app_assoc.
           ++ rewrite Hr. cbn [length]. lia.
           ++ discriminate.
           ++ exists (P ++ [92; 34; 92; 34; 92]). rewrite <- app_assoc. reflexivity.
      * rewrite G_q by exact Hs. rewrite Fg_q by (try exact Hs; discriminate).
        change (P ++ 34 :: G (b :: t')) with (P ++ [34] ++ G (b :: t')). rewrite app_assoc.
        rewrite (IH (b :: t')) with (prev := Some 34).
        -- now rewrite <- app_assoc.
        -- cbn [length]. lia.
        -- discriminate.
        -- now exists P.
  - rewrite G_nq, Fg_nq by exact Ha. destruct t as [|b t'].
    + cbn [G Fg]. rewrite !app_nil_r. destruct (dd_last a) as (Q & ->). rewrite app_assoc.
      now rewrite patch_last_other.
    + rewrite app_assoc. rewrite (IH (b :: t')) with (prev := Some a).
      * now rewrite <- app_assoc.
      * cbn [length]. lia.
      * discriminate.
      * destruct (dd_last a) as (Q & ->). exists (P ++ Q). now rewrite <- app_assoc.
Qed.

(* ------------------------------------------------------------ claim 1c: the CR replacement *)
Definition R13 (s : str) : str := replace1 13 [92; 114] s.

Lemma R13_app : forall a b, R13 (a ++ b) = R13 a ++ R13 b.
Proof. intros. apply replace1_app. Qed.

Lemma R13_dd : forall a, (a =? 34) = false -> R13 (dd a) = ee a.
Proof.
  intros a H. unfold dd, ee. destruct (N.eqb_spec a 92) as [->|N92]; [reflexivity|].
  unfold R13, replace1. cbn [flat_map app]. destruct (a =? 13); reflexivity.
Qed.

Lemma R13_Fg : forall s prev, R13 (Fg dd prev s) = Fg ee prev s.
Proof.
  intros s. pattern s. apply str_ind3. clear s. intros s IH prev. destruct s as [|a t]; [reflexivity|].
  destruct (a =? 34) eqn:Ha.
  - apply N.eqb_eq in Ha. subst a. destruct t as [|b t'].
    + rewrite !Fg_qlast. unfold last_q. destruct prev as [p|]; [destruct (p =? 92)|]; reflexivity.
    + destruct (starts2 (b :: t')) eqn:Hs.
      * destruct (starts2_true _ Hs) as (r & Hr). rewrite Hr, !Fg_q3, R13_app.
        rewrite IH by (rewrite Hr; cbn [length]; lia). reflexivity.
      * rewrite !Fg_q by (try exact Hs; discriminate).
        change (34 :: Fg dd (Some 34) (b :: t')) with ([34] ++ Fg dd (Some 34) (b :: t')).
        rewrite R13_app, IH by (cbn [length]; lia). reflexivity.
  - rewrite !Fg_nq by exact Ha. rewrite R13_app, R13_dd by exact Ha. rewrite IH by (cbn [length]; lia). reflexivity.
Qed.

(* the body that Literal._quote_encode writes between the triple quotes is the one-pass function *)
Theorem ttl_long_body_is_Fg : forall s, s <> [] ->
  replace1 13 [92; 114]
    (patch_last (if contains3 s then rep3 (replace1 92 [92; 92] s) else replace1 92 [92; 92] s)) = Fg ee None s.
Proof.
  intros s Hne. change (replace1 92 [92; 92] s) with (DD s). rewrite stage2_is_G.
  change (patch_last (G s)) with (patch_last ([] ++ G s)).
  rewrite (patch_G s [] None Hne eq_refl). cbn [app]. apply R13_Fg.
Qed.

(* ------------------------------------------------------------ claim 2: the reader inverts the one-pass function *)
Definition no_quote_head (z : str) : bool := match z with c :: _ => negb (c =? 34) | [] => true end.

Lemma strconst_end : forall z, no_quote_head z = true -> strconst true (QQQ ++ z) = Some ([], z).
Proof.
  intros [|c z] H.
  - reflexivity.
  - simpl in H. apply negb_true_iff in H. unfold QQQ. cbn [app strconst strip_prefix].
    rewrite !N.eqb_refl. cbn [negb]. rewrite (N.eqb_sym 34 c), H. reflexivity.
Qed.

Lemma strconst_end4 : forall z, no_quote_head z = true -> strconst true (34 :: QQQ ++ z) = Some ([34], z).
Proof.
  intros [|c z] H.
  - reflexivity.
  - simpl in H. apply negb_true_iff in H. unfold QQQ. cbn [app strconst strip_prefix].
    rewrite !N.eqb_refl. cbn [negb]. rewrite (N.eqb_sym 34 c), H. reflexivity.
Qed.

Lemma strconst_raw_quote : forall R, starts2 R = false ->
  strconst true (34 :: R) = match strconst true R with Some (v, t) => Some (34 :: v, t) | None => None end.
Proof.
  intros R H. cbn [strconst]. rewrite N.eqb_refl. cbn [negb].
  destruct R as [|x [|y R']].
  - reflexivity.
  - cbn [strip_prefix]. destruct (34 =? x); reflexivity.
  - simpl in H. cbn [strip_prefix]. rewrite (N.eqb_sym 34 x), (N.eqb_sym 34 y).
    destruct (x =? 34); [|reflexivity]. simpl in H. rewrite H. reflexivity.
Qed.

Lemma ee_head : forall a, (a =? 34) = false -> exists c q, ee a = c :: q /\ (c =? 34) = false.
Proof. intros a H. unfold ee. destruct (a =? 92); [eauto|]. destruct (a =? 13); eauto. Qed.


(* after a raw quote the reader never sees two more quotes *)
Lemma Fg_after_raw : forall t K, t <> [] -> starts2 t = false -> starts2 (Fg ee (Some 34) t ++ K) = false.
Proof.
  intros [|b t'] K Hne Hs; [congruence|].
  destruct (b =? 34) eqn:Hb.
  - apply N.eqb_eq in Hb. subst b. destruct t' as [|c r].
    + reflexivity.
    + assert (Hc : (c =? 34) = false) by (simpl in Hs; exact Hs).
      rewrite Fg_q by (try discriminate; now apply starts2_head).
      rewrite Fg_nq by exact Hc. destruct (ee_head c Hc) as (x & q & -> & Hx).
      cbn [app starts2]. now rewrite Hx.
  - rewrite Fg_nq by exact Hb. destruct (ee_head b Hb) as (x & q & -> & Hx). cbn [app].
    now apply starts2_head.
Qed.

Lemma strconst_ee : forall a R, (a =? 34) = false ->
  strconst true (ee a ++ R) = match strconst true R with Some (v, t) => Some (a :: v, t) | None => None end.
Proof.
  intros a R Ha. unfold ee.
  destruct (N.eqb_spec a 92) as [->|N92]; [cbn [app]; now rewrite (strconst_esc true 92 92) by reflexivity|].
  destruct (N.eqb_spec a 13) as [->|N13]; [cbn [app]; now rewrite (strconst_esc true 114 13) by reflexivity|].
  destruct (N.eqb_spec a 10) as [->|N10]; [cbn [app]; now rewrite strconst_nl_triple|].
  apply N.eqb_neq in N92, N13, N10. cbn [app]. now rewrite strconst_plain.
Qed.

Theorem strconst_Fg : forall s prev z, no_quote_head z = true ->
  strconst true (Fg ee prev s ++ QQQ ++ z) = Some (s, z).
Proof.
  intros s. pattern s. apply str_ind3. clear s. intros s IH prev z Hz. destruct s as [|a t].
  - cbn [Fg app]. now apply strconst_end.
  - destruct (a =? 34) eqn:Ha.
    + apply N.eqb_eq in Ha. subst a. destruct t as [|b t'].
      * rewrite Fg_qlast. unfold last_q.
        assert (H4 : strconst true ([34] ++ QQQ ++ z) = Some ([34], z)) by (cbn [app]; now apply strconst_end4).
        assert (HE : strconst true ([92; 34] ++ QQQ ++ z) = Some ([34], z)).
        { cbn [app]. rewrite (strconst_esc true 34 34) by reflexivity. now rewrite strconst_end. }
        destruct prev as [p|]; [destruct (p =? 92)|]; assumption.
      * destruct (starts2 (b :: t')) eqn:Hs.
        -- destruct (starts2_true _ Hs) as (r & Hr). rewrite Hr, Fg_q3. unfold ESC3. rewrite <- app_assoc. cbn [app].
           rewrite !(strconst_esc true 34 34) by reflexivity.
           rewrite IH by (try exact Hz; rewrite Hr; cbn [length]; lia). reflexivity.
        -- rewrite Fg_q by (try exact Hs; discriminate). cbn [app].
           rewrite strconst_raw_quote by (apply Fg_after_raw; [discriminate|exact Hs]).
           rewrite IH by (try exact Hz; cbn [length]; lia). reflexivity.
    + rewrite Fg_nq by exact Ha. rewrite <- app_assoc. rewrite strconst_ee by exact Ha.
      rewrite IH by (try exact Hz; cbn [length]; lia). reflexivity.
Qed.

(* ------------------------------------------------------------ the round trip, every string *)
Theorem ttl_long_roundtrip : forall s, mem 10 s = true -> ttl_read (ttl_quote_encode s) = Some s.
Proof.
  intros s Hnl. unfold ttl_quote_encode. rewrite Hnl.
  assert (Hne : s <> []) by (intros ->; discriminate).
  cbv zeta. rewrite (ttl_long_body_is_Fg s Hne).
  unfold ttl_read. cbn [app strip_prefix]. rewrite !N.eqb_refl.
  change [34; 34; 34] with (QQQ ++ []). rewrite strconst_Fg by reflexivity. reflexivity.
Qed.

Theorem ttl_roundtrip : forall s, ttl_read (ttl_quote_encode s) = Some s.
Proof.
  intros s. destruct (mem 10 s) eqn:E; [now apply ttl_long_roundtrip|now apply ttl_short_roundtrip].
Qed.

(* inside a Turtle document the literal is followed by something that is not a quote: the reader stops exactly
   after the closing delimiter *)
Theorem ttl_long_roundtrip_in_context : forall s z, mem 10 s = true -> no_quote_head z = true ->
  strip_prefix [34; 34; 34] (ttl_quote_encode s ++ z) <> None /\
  forall body, strip_prefix [34; 34; 34] (ttl_quote_encode s ++ z) = Some body -> strconst true body = Some (s, z).
Proof.
  intros s z Hnl Hz. unfold ttl_quote_encode. rewrite Hnl.
  assert (Hne : s <> []) by (intros ->; discriminate).
  cbv zeta. rewrite (ttl_long_body_is_Fg s Hne). cbn [app strip_prefix]. rewrite !N.eqb_refl.
  split; [discriminate|]. intros body H. inversion H; subst. rewrite <- !app_assoc.
  change ([34; 34; 34] ++ z) with (QQQ ++ z). now apply strconst_Fg.
Qed.

Theorem ttl_spec_model : forall c, ttl_spec c (ttl_model c) = true.
Proof.
  intros [s|tr s]; [|reflexivity]. unfold ttl_spec, ttl_model. rewrite ttl_roundtrip. apply str_eqb_refl.
Qed.
