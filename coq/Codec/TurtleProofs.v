(* C03, K2 at full strength: Literal._quote_encode (three-quote form, strings that may contain quote characters)
   read back by SinkParser.strconst.  Proof device: the pipeline
       replace backslash; replace triple quotes; patch a trailing quote; replace CR
   (in the order of the repaired code: backslash, trailing quote, triple quotes, CR) is shown equal to ONE structural
   pass [Fq] over the source string that looks three characters ahead; the reader is then shown to invert that pass. *)
From Coq Require Import List NArith Bool Lia Wf_nat.
From RV Require Import Codec.Model Codec.Proofs.
Import ListNotations.
Open Scope N_scope.

Definition ESC3 : str := [92; 34; 92; 34; 92; 34].
Definition QQQ : str := [34; 34; 34].
Definition dd (x : N) : str := if x =? 92 then [92; 92] else [x].                 (* after the backslash replace *)
Definition ee (x : N) : str := if x =? 92 then [92; 92] else if x =? 13 then [92; 114] else [x].
Definition starts2 (s : str) : bool :=
  match s with x :: y :: _ => (x =? 34) && (y =? 34) | _ => false end.


(* the whole body as one pass: a quote is written raw unless it is the last character (always escaped) or the first
   of three quotes none of which is the last character (the three are escaped together) *)
Definition triple3 (t : str) : bool :=
  match t with b :: c :: _ :: _ => (b =? 34) && (c =? 34) | _ => false end.
Fixpoint Fq (enc : N -> str) (s : str) : str :=
  match s with
  | [] => []
  | a :: t =>
    if a =? 34 then
      match t with
      | [] => [92; 34]
      | b :: t' =>
        match t' with
        | c :: r =>
          match r with
          | _ :: _ => if (b =? 34) && (c =? 34) then ESC3 ++ Fq enc r else 34 :: Fq enc t
          | [] => 34 :: Fq enc t
          end
        | [] => 34 :: Fq enc t
        end
      end
    else enc a ++ Fq enc t
  end.

(* the string after the backslash replace and the trailing-quote patch *)
Fixpoint H (s : str) : str :=
  match s with
  | [] => []
  | a :: t => match t with [] => if a =? 34 then [92; 34] else dd a | _ :: _ => dd a ++ H t end
  end.

(* ------------------------------------------------------------ equations *)
Lemma starts2_true : forall t, starts2 t = true -> exists r, t = 34 :: 34 :: r.
Proof.
  intros [|x [|y r]] H; try discriminate. simpl in H. apply andb_true_iff in H as [H1 H2].
  apply N.eqb_eq in H1, H2. subst. now exists r.
Qed.

Lemma starts2_head : forall c q, (c =? 34) = false -> starts2 (c :: q) = false.
Proof. intros c [|y q] H; cbn [starts2]; [reflexivity|]. now rewrite H. Qed.

Lemma rep3_unfold3 : forall a b c r,
  rep3 (a :: b :: c :: r) = if (a =? 34) && (b =? 34) && (c =? 34) then [92; 34; 92; 34; 92; 34] ++ rep3 r
                            else a :: rep3 (b :: c :: r).
Proof. reflexivity. Qed.

Lemma rep3_nq : forall a t, (a =? 34) = false -> rep3 (a :: t) = a :: rep3 t.
Proof. intros a [|b [|c r]] H; try reflexivity. rewrite rep3_unfold3. now rewrite H. Qed.

Lemma rep3_q3 : forall r, rep3 (34 :: 34 :: 34 :: r) = ESC3 ++ rep3 r.
Proof. reflexivity. Qed.

Lemma rep3_q : forall t, starts2 t = false -> rep3 (34 :: t) = 34 :: rep3 t.
Proof.
  intros [|b [|c r]] H; try reflexivity. rewrite rep3_unfold3. simpl in H. rewrite N.eqb_refl. cbn [andb].
  now rewrite H.
Qed.

Lemma contains3_unfold3 : forall a b c r,
  contains3 (a :: b :: c :: r) = ((a =? 34) && (b =? 34) && (c =? 34)) || contains3 (b :: c :: r).
Proof. reflexivity. Qed.

Lemma contains3_cons : forall a t, contains3 (a :: t) = ((a =? 34) && starts2 t) || contains3 t.
Proof.
  intros a [|b [|c r]]; [cbn; now rewrite andb_false_r|cbn; now rewrite andb_false_r|].
  rewrite contains3_unfold3. cbn [starts2]. now rewrite andb_assoc.
Qed.

Lemma str_ind3 : forall P : str -> Prop,
  (forall s, (forall u, (length u < length s)%nat -> P u) -> P s) -> forall s, P s.
Proof.
  intros P H s. remember (length s) as n eqn:E. revert s E.
  induction n as [n IH] using lt_wf_ind. intros s E. apply H. intros u Hu. apply (IH (length u)); [lia|reflexivity].
Qed.


Lemma Fq_nq : forall enc a t, (a =? 34) = false -> Fq enc (a :: t) = enc a ++ Fq enc t.
Proof. intros enc a t H. cbn [Fq]. now rewrite H. Qed.
Lemma Fq_qlast : forall enc, Fq enc [34] = [92; 34].
Proof. reflexivity. Qed.
Lemma Fq_q3 : forall enc x r, Fq enc (34 :: 34 :: 34 :: x :: r) = ESC3 ++ Fq enc (x :: r).
Proof. reflexivity. Qed.
Lemma Fq_unfold4 : forall enc b c x r,
  Fq enc (34 :: b :: c :: x :: r) =
  if (b =? 34) && (c =? 34) then ESC3 ++ Fq enc (x :: r) else 34 :: Fq enc (b :: c :: x :: r).
Proof. reflexivity. Qed.
Lemma Fq_q : forall enc t, t <> [] -> triple3 t = false -> Fq enc (34 :: t) = 34 :: Fq enc t.
Proof.
  intros enc [|b [|c [|x r]]] Hne H; [congruence|reflexivity|reflexivity|].
  rewrite Fq_unfold4. simpl in H. now rewrite H.
Qed.
Lemma triple3_true : forall t, triple3 t = true -> exists x r, t = 34 :: 34 :: x :: r.
Proof.
  intros [|b [|c [|x r]]] H; try discriminate. simpl in H. apply andb_true_iff in H as [H1 H2].
  apply N.eqb_eq in H1, H2. subst. now exists x, r.
Qed.

Lemma H_cons : forall a b t, H (a :: b :: t) = dd a ++ H (b :: t).
Proof. reflexivity. Qed.
Lemma H_single : forall a, H [a] = if a =? 34 then [92; 34] else dd a.
Proof. reflexivity. Qed.

(* ------------------------------------------------------------ stage 1+2: backslash replace, trailing quote *)
Definition DD (s : str) : str := replace1 92 [92; 92] s.

Lemma DD_cons : forall a t, DD (a :: t) = dd a ++ DD t.
Proof. intros. unfold DD. rewrite replace1_cons. reflexivity. Qed.

Lemma dd_head : forall a, (a =? 34) = false -> exists c q, dd a = c :: q /\ (c =? 34) = false.
Proof. intros a H. unfold dd. destruct (a =? 92); eauto. Qed.

Lemma dd_nonempty : forall a, dd a <> [].
Proof. intros a. unfold dd. destruct (a =? 92); discriminate. Qed.

Lemma patch_last_app : forall P X, X <> [] -> patch_last (P ++ X) = P ++ patch_last X.
Proof.
  intros P X HX. unfold patch_last. rewrite rev_app_distr.
  destruct (rev X) as [|l q] eqn:E.
  - exfalso. apply HX. rewrite <- (rev_involutive X), E. reflexivity.
  - cbn [app]. destruct (l =? 34); [|reflexivity]. rewrite removelast_app by exact HX. now rewrite <- app_assoc.
Qed.

Lemma DD_nonempty : forall b t, DD (b :: t) <> [].
Proof. intros b t. rewrite DD_cons. intros E. apply app_eq_nil in E as [E _]. now apply dd_nonempty in E. Qed.

Lemma patch_DD : forall s, patch_last (DD s) = H s.
Proof.
  induction s as [|a t IH]; [reflexivity|]. destruct t as [|b t'].
  - rewrite H_single. cbn. unfold dd. destruct (N.eqb_spec a 34) as [->|N34]; [reflexivity|].
    apply N.eqb_neq in N34. destruct (a =? 92) eqn:E92; cbn; [reflexivity|]. now rewrite N34.
  - rewrite DD_cons, H_cons, patch_last_app by (apply DD_nonempty). now rewrite IH.
Qed.

(* ------------------------------------------------------------ stage 3: the triple quotes *)
Lemma rep3_id : forall X, contains3 X = false -> rep3 X = X.
Proof.
  intros X. pattern X. apply str_ind3. clear X. intros X IH Hc. destruct X as [|a t]; [reflexivity|].
  rewrite contains3_cons in Hc. apply orb_false_iff in Hc as [H1 H2].
  destruct (a =? 34) eqn:Ha.
  - apply N.eqb_eq in Ha. subst a. simpl in H1. rewrite rep3_q by exact H1.
    rewrite IH by (try exact H2; cbn [length]; lia). reflexivity.
  - rewrite rep3_nq by exact Ha. rewrite IH by (try exact H2; cbn [length]; lia). reflexivity.
Qed.

Lemma stage3_is_rep3 : forall X, (if contains3 X then rep3 X else X) = rep3 X.
Proof. intros X. destruct (contains3 X) eqn:E; [reflexivity|]. symmetry. now apply rep3_id. Qed.

Lemma rep3_dd : forall a X, (a =? 34) = false -> rep3 (dd a ++ X) = dd a ++ rep3 X.
Proof.
  intros a X H. unfold dd. destruct (a =? 92) eqn:E.
  - cbn [app]. rewrite !rep3_nq by reflexivity. reflexivity.
  - cbn [app]. now rewrite rep3_nq.
Qed.

Lemma H_head_nq : forall b t, (b =? 34) = false -> exists c q, H (b :: t) = c :: q /\ (c =? 34) = false.
Proof.
  intros b t Hb. destruct (dd_head b Hb) as (c & q & Hd & Hc). destruct t as [|x t'].
  - rewrite H_single, Hb, Hd. eauto.
  - rewrite H_cons, Hd. cbn [app]. eauto.
Qed.

(* after a quote that is written raw, the patched string never continues with two quotes *)
Lemma H_after_raw : forall t, t <> [] -> triple3 t = false -> starts2 (H t) = false.
Proof.
  intros [|b t'] Hne Ht; [congruence|].
  destruct (b =? 34) eqn:Hb.
  - apply N.eqb_eq in Hb. subst b. destruct t' as [|c r]; [reflexivity|].
    rewrite H_cons. change (dd 34) with [34]. cbn [app].
    destruct (c =? 34) eqn:Hc.
    + apply N.eqb_eq in Hc. subst c. destruct r as [|x r']; [reflexivity|]. simpl in Ht. discriminate.
    + destruct (H_head_nq c r Hc) as (x & q & -> & Hx). cbn [starts2]. now rewrite Hx, andb_false_r.
  - destruct (H_head_nq b t' Hb) as (x & q & -> & Hx). now apply starts2_head.
Qed.

Lemma rep3_H : forall s, rep3 (H s) = Fq dd s.
Proof.
  intros s. pattern s. apply str_ind3. clear s. intros s IH. destruct s as [|a t]; [reflexivity|].
  destruct (a =? 34) eqn:Ha.
  - apply N.eqb_eq in Ha. subst a. destruct t as [|b t']; [reflexivity|].
    destruct (triple3 (b :: t')) eqn:Ht.
    + destruct (triple3_true _ Ht) as (x & r & Hr). rewrite Hr, Fq_q3.
      rewrite !H_cons. change (dd 34) with [34]. cbn [app]. rewrite rep3_q3.
      rewrite IH by (rewrite Hr; cbn [length]; lia). reflexivity.
    + rewrite Fq_q by (try exact Ht; discriminate). rewrite H_cons. change (dd 34) with [34]. cbn [app].
      rewrite rep3_q by (apply H_after_raw; [discriminate|exact Ht]).
      rewrite IH by (cbn [length]; lia). reflexivity.
  - rewrite Fq_nq by exact Ha. destruct t as [|b t'].
    + rewrite H_single, Ha. cbn [Fq]. rewrite <- (app_nil_r (dd a)) at 1. rewrite rep3_dd by exact Ha. reflexivity.
    + rewrite H_cons, rep3_dd by exact Ha. rewrite IH by (cbn [length]; lia). reflexivity.
Qed.

(* ------------------------------------------------------------ stage 4: the CR replacement *)
Definition R13 (s : str) : str := replace1 13 [92; 114] s.

Lemma R13_app : forall a b, R13 (a ++ b) = R13 a ++ R13 b.
Proof. intros. apply replace1_app. Qed.

Lemma R13_dd : forall a, (a =? 34) = false -> R13 (dd a) = ee a.
Proof.
  intros a H. unfold dd, ee. destruct (N.eqb_spec a 92) as [->|N92]; [reflexivity|].
  unfold R13, replace1. cbn [flat_map app]. destruct (a =? 13); reflexivity.
Qed.

Lemma R13_Fq : forall s, R13 (Fq dd s) = Fq ee s.
Proof.
  intros s. pattern s. apply str_ind3. clear s. intros s IH. destruct s as [|a t]; [reflexivity|].
  destruct (a =? 34) eqn:Ha.
  - apply N.eqb_eq in Ha. subst a. destruct t as [|b t']; [reflexivity|].
    destruct (triple3 (b :: t')) eqn:Ht.
    + destruct (triple3_true _ Ht) as (x & r & Hr). rewrite Hr, !Fq_q3, R13_app.
      rewrite IH by (rewrite Hr; cbn [length]; lia). reflexivity.
    + rewrite !Fq_q by (try exact Ht; discriminate).
      change (34 :: Fq dd (b :: t')) with ([34] ++ Fq dd (b :: t')).
      rewrite R13_app, IH by (cbn [length]; lia). reflexivity.
  - rewrite !Fq_nq by exact Ha. rewrite R13_app, R13_dd by exact Ha. rewrite IH by (cbn [length]; lia). reflexivity.
Qed.

(* the body that Literal._quote_encode writes between the triple quotes is the one-pass function *)
Theorem ttl_long_body_is_Fq : forall s,
  let e1 := patch_last (replace1 92 [92; 92] s) in
  replace1 13 [92; 114] (if contains3 e1 then rep3 e1 else e1) = Fq ee s.
Proof.
  intros s e1. subst e1. change (replace1 92 [92; 92] s) with (DD s).
  rewrite stage3_is_rep3, patch_DD, rep3_H. apply R13_Fq.
Qed.

(* ------------------------------------------------------------ the reader inverts the one-pass function *)
Definition no_quote_head (z : str) : bool := match z with c :: _ => negb (c =? 34) | [] => true end.

Lemma strconst_end : forall z, no_quote_head z = true -> strconst true (QQQ ++ z) = Some ([], z).
Proof.
  intros [|c z] H.
  - reflexivity.
  - simpl in H. apply negb_true_iff in H. unfold QQQ. cbn [app strconst strip_prefix].
    rewrite !N.eqb_refl. cbn [negb]. rewrite (N.eqb_sym 34 c), H. reflexivity.
Qed.

Lemma strconst_raw_quote : forall R, starts2 R = false ->
  strconst true (34 :: R) = match strconst true R with Some (v, t) => Some (34 :: v, t) | None => None end.
Proof.
  intros R H. cbn [strconst]. rewrite N.eqb_refl. cbn [negb].
  destruct R as [|x [|y R']].
  - reflexivity.
  - cbn [strip_prefix]. destruct (34 =? x); reflexivity.
  - simpl in H. cbn [strip_prefix]. rewrite (N.eqb_sym 34 x), (N.eqb_sym 34 y).
    destruct (x =? 34); [|reflexivity]. simpl in H. rewrite H. reflexivity.
Qed.

Lemma ee_head : forall a, (a =? 34) = false -> exists c q, ee a = c :: q /\ (c =? 34) = false.
Proof. intros a H. unfold ee. destruct (a =? 92); [eauto|]. destruct (a =? 13); eauto. Qed.

Lemma Fq_head_nq : forall b t K, (b =? 34) = false -> exists c q, Fq ee (b :: t) ++ K = c :: q /\ (c =? 34) = false.
Proof.
  intros b t K Hb. rewrite Fq_nq by exact Hb. destruct (ee_head b Hb) as (c & q & -> & Hc). cbn [app]. eauto.
Qed.

(* after a raw quote the reader never sees two more quotes *)
Lemma Fq_after_raw : forall t K, t <> [] -> triple3 t = false -> starts2 (Fq ee t ++ K) = false.
Proof.
  intros [|b t'] K Hne Ht; [congruence|].
  destruct (b =? 34) eqn:Hb.
  - apply N.eqb_eq in Hb. subst b. destruct t' as [|c r]; [reflexivity|].
    destruct (c =? 34) eqn:Hc.
    + apply N.eqb_eq in Hc. subst c. destruct r as [|x r']; [reflexivity|]. simpl in Ht. discriminate.
    + assert (H3 : triple3 (c :: r) = false) by (destruct r as [|y [|w r2]]; cbn [triple3]; rewrite ?Hc; reflexivity).
      rewrite Fq_q by (try discriminate; exact H3).
      destruct (Fq_head_nq c r K Hc) as (x & q & Hq & Hx). cbn [app]. rewrite Hq. cbn [starts2].
      now rewrite Hx, andb_false_r.
  - destruct (Fq_head_nq b t' K Hb) as (x & q & -> & Hx). now apply starts2_head.
Qed.

Lemma strconst_ee : forall a R, (a =? 34) = false ->
  strconst true (ee a ++ R) = match strconst true R with Some (v, t) => Some (a :: v, t) | None => None end.
Proof.
  intros a R Ha. unfold ee.
  destruct (N.eqb_spec a 92) as [->|N92]; [cbn [app]; now rewrite (strconst_esc true 92 92) by reflexivity|].
  destruct (N.eqb_spec a 13) as [->|N13]; [cbn [app]; now rewrite (strconst_esc true 114 13) by reflexivity|].
  destruct (N.eqb_spec a 10) as [->|N10]; [cbn [app]; now rewrite strconst_nl_triple|].
  apply N.eqb_neq in N92, N13, N10. cbn [app]. now rewrite strconst_plain.
Qed.

Theorem strconst_Fq : forall s z, no_quote_head z = true ->
  strconst true (Fq ee s ++ QQQ ++ z) = Some (s, z).
Proof.
  intros s. pattern s. apply str_ind3. clear s. intros s IH z Hz. destruct s as [|a t].
  - cbn [Fq app]. now apply strconst_end.
  - destruct (a =? 34) eqn:Ha.
    + apply N.eqb_eq in Ha. subst a. destruct t as [|b t'].
      * rewrite Fq_qlast. cbn [app]. rewrite (strconst_esc true 34 34) by reflexivity. now rewrite strconst_end.
      * destruct (triple3 (b :: t')) eqn:Ht.
        -- destruct (triple3_true _ Ht) as (x & r & Hr). rewrite Hr, Fq_q3. unfold ESC3. rewrite <- app_assoc. cbn [app].
           rewrite !(strconst_esc true 34 34) by reflexivity.
           rewrite IH by (try exact Hz; rewrite Hr; cbn [length]; lia). reflexivity.
        -- rewrite Fq_q by (try exact Ht; discriminate). cbn [app].
           rewrite strconst_raw_quote by (apply Fq_after_raw; [discriminate|exact Ht]).
           rewrite IH by (try exact Hz; cbn [length]; lia). reflexivity.
    + rewrite Fq_nq by exact Ha. rewrite <- app_assoc. rewrite strconst_ee by exact Ha.
      rewrite IH by (try exact Hz; cbn [length]; lia). reflexivity.
Qed.

(* ------------------------------------------------------------ the round trip, every string *)
Theorem ttl_long_roundtrip : forall s, mem 10 s = true -> ttl_read (ttl_quote_encode s) = Some s.
Proof.
  intros s Hnl. unfold ttl_quote_encode. rewrite Hnl.
  rewrite (ttl_long_body_is_Fq s).
  unfold ttl_read. cbn [app strip_prefix]. rewrite !N.eqb_refl.
  change [34; 34; 34] with (QQQ ++ []). rewrite strconst_Fq by reflexivity. reflexivity.
Qed.

Theorem ttl_roundtrip : forall s, ttl_read (ttl_quote_encode s) = Some s.
Proof.
  intros s. destruct (mem 10 s) eqn:E; [now apply ttl_long_roundtrip|now apply ttl_short_roundtrip].
Qed.

(* inside a Turtle document the literal is followed by something that is not a quote: the reader stops exactly
   after the closing delimiter *)
Theorem ttl_long_roundtrip_in_context : forall s z, mem 10 s = true -> no_quote_head z = true ->
  strip_prefix [34; 34; 34] (ttl_quote_encode s ++ z) <> None /\
  forall body, strip_prefix [34; 34; 34] (ttl_quote_encode s ++ z) = Some body -> strconst true body = Some (s, z).
Proof.
  intros s z Hnl Hz. unfold ttl_quote_encode. rewrite Hnl.
  rewrite (ttl_long_body_is_Fq s). cbn [app strip_prefix]. rewrite !N.eqb_refl.
  split; [discriminate|]. intros body Hb. inversion Hb; subst. rewrite <- !app_assoc.
  change ([34; 34; 34] ++ z) with (QQQ ++ z). now apply strconst_Fq.
Qed.

Theorem ttl_spec_model : forall c, ttl_spec c (ttl_model c) = true.
Proof.
  intros [s|tr s]; [|reflexivity]. unfold ttl_spec, ttl_model. rewrite ttl_roundtrip. apply str_eqb_refl.
Qed.
