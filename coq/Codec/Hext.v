(* C03, K3: one HexTuples row <-> one triple.  Model of
     rdflib/plugins/serializers/hext.py  HextuplesSerializer._hex_line, _iri_or_bn   (row = the six strings handed to json.dumps)
     rdflib/plugins/parsers/hext.py      the per-line post-processing of HextuplesParser.parse and _parse_hextuple
                                         (row = the six strings json.loads returned)
   The JSON text itself (json.dumps / json.loads of a list of six str) is CPython's and is not modelled.
   Definitions first, then the proofs (the file is small). *)
From Coq Require Import List NArith Bool Lia.
From RV Require Import Codec.Model Codec.Proofs.
Import ListNotations.
Open Scope N_scope.

Definition s_globalId : str := [103; 108; 111; 98; 97; 108; 73; 100].
Definition s_localId : str := [108; 111; 99; 97; 108; 73; 100].
Definition rdf_ns : str :=
  [104;116;116;112;58;47;47;119;119;119;46;119;51;46;111;114;103;47;49;57;57;57;47;48;50;47;50;50;45;114;100;102;45;115;121;110;116;97;120;45;110;115;35].
Definition xsd_ns : str :=
  [104;116;116;112;58;47;47;119;119;119;46;119;51;46;111;114;103;47;50;48;48;49;47;88;77;76;83;99;104;101;109;97;35].
Definition s_langString : str := rdf_ns ++ [108; 97; 110; 103; 83; 116; 114; 105; 110; 103].
Definition s_xsd_string : str := xsd_ns ++ [115; 116; 114; 105; 110; 103].

(* ---- writer: _hex_line for a plain Graph (context column empty) *)
Definition iri_or_bn (n : node) : str := match n with Iri u => u | Bnode l => [95; 58] ++ l end.
Definition hext_row (t : triple) : list str :=
  let '(s, p, o) := t in
  [ iri_or_bn s; p;
    match o with ONode n => iri_or_bn n | OLit lex _ _ => lex end;
    match o with
    | ONode (Iri _) => s_globalId
    | ONode (Bnode _) => s_localId
    | OLit _ lang dt => match dt with
                        | Some d => d
                        | None => match lang with Some _ => s_langString | None => s_xsd_string end
                        end
    end;
    match o with OLit _ (Some l) _ => l | _ => [] end;
    [] ].

(* ---- reader *)
(* str.replace("_:", "") : every non-overlapping occurrence, left to right *)
Fixpoint strip_bn (s : str) : str :=
  match s with
  | a :: t => match t with
              | b :: r => if (a =? 95) && (b =? 58) then strip_bn r else a :: strip_bn t
              | [] => [a]
              end
  | [] => []
  end.
Definition starts_us (s : str) : bool := match s with c :: _ => c =? 95 | [] => false end.   (* startswith("_") *)
Definition starts_bn (s : str) : bool := match s with a :: b :: _ => (a =? 95) && (b =? 58) | _ => false end.
Definition nonempty (s : str) : option str := match s with [] => None | _ => Some s end.   (* "" -> None *)

(* -> (triple, context); None = an exception (ValueError for a missing column, Literal() refusing the language tag) *)
Definition hext_parse (row : list str) : option (triple * option node) :=
  match row with
  | [f0; f1; f2; f3; f4; f5] =>
    match nonempty f0, nonempty f1, nonempty f3 with
    | Some s, Some p, Some d =>
      let subj := if starts_us s then Bnode (strip_bn s) else Iri s in
      let ctx := match nonempty f5 with
                 | None => None
                 | Some c => Some (if starts_bn c then Bnode (strip_bn c) else Iri c)
                 end in
      if str_eqb d s_globalId then Some ((subj, p, ONode (Iri f2)), ctx)
      else if str_eqb d s_localId then Some ((subj, p, ONode (Bnode (strip_bn f2))), ctx)
      else match nonempty f4 with
           | None => Some ((subj, p, OLit f2 None (Some d)), ctx)
           | Some l => if valid_langtag l then Some ((subj, p, OLit f2 (Some l) None), ctx) else None
           end
    | _, _, _ => None
    end
  | _ => None
  end.

(* ---- the property on one row.  The only identification allowed: a simple literal comes back as xsd:string *)
Definition hext_norm (t : triple) : triple :=
  let '(s, p, o) := t in
  (s, p, match o with OLit lex None None => OLit lex None (Some s_xsd_string) | _ => o end).

(* hypotheses the proof forces beyond wf_triple: an IRI must not begin with '_' (no legal IRI does: a scheme begins
   with a letter) and a blank-node label must not contain the two characters "_:" (str.replace removes them
   everywhere, so labels a_:b and ab fall together) *)
Fixpoint has_bn_marker (s : str) : bool :=
  match s with
  | a :: t => match t with b :: _ => ((a =? 95) && (b =? 58)) || has_bn_marker t | [] => false end
  | [] => false
  end.
Definition hext_node_ok (n : node) : bool :=
  match n with Iri u => negb (starts_us u) | Bnode l => negb (has_bn_marker l) end.
Definition hext_ok (t : triple) : bool :=
  let '(s, p, o) := t in hext_node_ok s && match o with ONode n => hext_node_ok n | OLit _ _ _ => true end.

(* suite *)
Inductive hx_case := HxRow (t : triple) | HxParse (row : list str).
Inductive hx_obs := HxObsRow (row : list str) (back : option (triple * option node)) | HxObsParse (r : option (triple * option node)).
Definition hx_model (c : hx_case) : hx_obs :=
  match c with
  | HxRow t => HxObsRow (hext_row t) (hext_parse (hext_row t))
  | HxParse row => HxObsParse (hext_parse row)
  end.
Definition res_eqb (a b : option (triple * option node)) : bool :=
  opt_eqb (fun x y => triple_eqb (fst x) (fst y) && opt_eqb node_eqb (snd x) (snd y)) a b.
Definition hx_obs_eqb (a b : hx_obs) : bool :=
  match a, b with
  | HxObsRow r x, HxObsRow r' x' => list_eqb str_eqb r r' && res_eqb x x'
  | HxObsParse x, HxObsParse x' => res_eqb x x'
  | _, _ => false
  end.
Definition hx_spec (c : hx_case) (o : hx_obs) : bool :=
  match c, o with
  | HxRow t, HxObsRow _ back => if wf_triple t then res_eqb back (Some (hext_norm t, None)) else true
  | HxParse _, HxObsParse _ => true
  | _, _ => false
  end.
Definition hx_kf (c : hx_case) : N :=
  match c with HxRow t => if wf_triple t && negb (hext_ok t) then 1 else 0 | _ => 0 end.

(* ------------------------------------------------------------ proofs *)
Lemma strip_bn_id : forall s, has_bn_marker s = false -> strip_bn s = s.
Proof.
  induction s as [|a t IH]; intros H; [reflexivity|].
  destruct t as [|b r]; [reflexivity|].
  cbn [has_bn_marker] in H. apply orb_false_iff in H as [H1 H2].
  cbn [strip_bn]. rewrite H1. f_equal. apply IH. exact H2.
Qed.

Lemma strip_bn_label : forall l, has_bn_marker l = false -> strip_bn ([95; 58] ++ l) = l.
Proof. intros l H. cbn [app strip_bn]. cbn. now apply strip_bn_id. Qed.

Lemma wf_iri_nonempty : forall u, wf_iri u = true -> exists c r, u = c :: r.
Proof.
  intros [|c r] H; [|now exists c, r]. discriminate.
Qed.

Lemma wf_iri_not_marker : forall d, wf_iri d = true ->
  str_eqb d s_globalId = false /\ str_eqb d s_localId = false.
Proof.
  intros d H. split.
  - destruct (str_eqb d s_globalId) eqn:E; [|reflexivity]. apply str_eqb_eq in E. subst d. discriminate.
  - destruct (str_eqb d s_localId) eqn:E; [|reflexivity]. apply str_eqb_eq in E. subst d. discriminate.
Qed.

Lemma subj_back : forall n, wf_node n = true -> hext_node_ok n = true ->
  exists c r, iri_or_bn n = c :: r /\
  (if starts_us (iri_or_bn n) then Bnode (strip_bn (iri_or_bn n)) else Iri (iri_or_bn n)) = n.
Proof.
  intros [u|l] Hwf Hok; simpl in Hwf, Hok.
  - destruct (wf_iri_nonempty u Hwf) as (c & r & ->). exists c, r. split; [reflexivity|].
    cbn [iri_or_bn]. apply negb_true_iff in Hok. now rewrite Hok.
  - exists 95, (58 :: l). split; [reflexivity|]. cbn [iri_or_bn]. apply negb_true_iff in Hok.
    change (starts_us ([95; 58] ++ l)) with true. cbv iota. now rewrite strip_bn_label.
Qed.

Theorem hext_row_roundtrip : forall t, wf_triple t = true -> hext_ok t = true ->
  hext_parse (hext_row t) = Some (hext_norm t, None).
Proof.
  intros [[s p] o] Hwf Hok. unfold wf_triple in Hwf.
  apply andb_true_iff in Hwf as [Hwf Hwo]. apply andb_true_iff in Hwf as [Hws Hwp].
  unfold hext_ok in Hok. apply andb_true_iff in Hok as [Hos Hoo].
  destruct (subj_back s Hws Hos) as (c & r & Hs & Hback).
  destruct (wf_iri_nonempty p Hwp) as (pc & pr & Hp).
  unfold hext_row, hext_parse. rewrite Hs. cbn [nonempty]. rewrite <- Hs, Hback. rewrite Hp. cbn [nonempty]. rewrite <- Hp.
  destruct o as [[u|l]|lex lang dt].
  - reflexivity.
  - simpl in Hoo. apply negb_true_iff in Hoo. cbn [iri_or_bn]. change (nonempty s_localId) with (Some s_localId).
    cbv iota. change (str_eqb s_localId s_globalId) with false. change (str_eqb s_localId s_localId) with true.
    cbv iota. now rewrite strip_bn_label.
  - destruct lang as [g|]; destruct dt as [d|]; simpl in Hwo; try discriminate.
    + change (nonempty s_langString) with (Some s_langString). cbv iota.
      change (str_eqb s_langString s_globalId) with false. change (str_eqb s_langString s_localId) with false. cbv iota.
      destruct (valid_langtag_nonempty g Hwo) as (gc & gr & ->). cbn [nonempty]. now rewrite Hwo.
    + destruct (wf_iri_nonempty d Hwo) as (dc & dr & Hd). destruct (wf_iri_not_marker d Hwo) as [E1 E2].
      rewrite Hd. cbn [nonempty]. rewrite <- Hd, E1, E2. reflexivity.
    + reflexivity.
Qed.

(* the label hypothesis is needed: labels a_:b and ab are read as the same blank node *)
Lemma hext_label_merge_witness :
  let t1 : triple := (Bnode [97; 95; 58; 98], [104; 58; 112], ONode (Iri [104; 58; 111])) in
  let t2 : triple := (Bnode [97; 98], [104; 58; 112], ONode (Iri [104; 58; 111])) in
  wf_triple t1 = true /\ wf_triple t2 = true /\ t1 <> t2 /\ hx_kf (HxRow t1) = 1 /\
  hext_parse (hext_row t1) = hext_parse (hext_row t2).
Proof. repeat split; try reflexivity. discriminate. Qed.

Lemma res_eqb_refl : forall x, res_eqb (Some x) (Some x) = true.
Proof.
  intros [t c]. unfold res_eqb. simpl. rewrite (proj2 (triple_eqb_eq t t) eq_refl).
  destruct c as [n|]; simpl; [apply node_eqb_eq; reflexivity|reflexivity].
Qed.

Theorem hx_spec_model : forall c, hx_kf c = 0 -> hx_spec c (hx_model c) = true.
Proof.
  intros [t|row] Hk; [|reflexivity]. unfold hx_kf in Hk. unfold hx_spec, hx_model.
  destruct (wf_triple t) eqn:Hwf; [|reflexivity].
  destruct (hext_ok t) eqn:Hok; [|discriminate].
  rewrite hext_row_roundtrip by assumption. apply res_eqb_refl.
Qed.
