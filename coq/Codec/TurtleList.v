(* C03, K4 (first part): the list decisions of the Turtle-family serialisers, as repaired by the fix commits
   ec2790c6 / fdf8d16b / c1984258:  TurtleSerializer.isValidList, doList (rdflib/plugins/serializers/turtle.py; the
   copies in longturtle.py are the same code) over a graph given as the list of its triples in store order.
   Terms are numbers; 1 = rdf:first, 2 = rdf:rest, 3 = rdf:nil.
   Proved here: isValidList terminates on every graph (the fuel |G|+1 of the definition is never used up), a list it
   accepts is a proper collection whose cells carry exactly their rdf:first / rdf:rest triples, doList writes exactly the
   members of that collection and stops (the loop "while l_ != rdf:nil" of fix commit 0dee69e9).  The loop before
   that commit ("while l_:", kept as do_list_old) could run forever when rdf:nil itself has an rdf:rest triple (finding
   F15r, historical witness below). *)
From Coq Require Import List NArith Bool Lia PeanoNat.
Import ListNotations.
Open Scope N_scope.

Definition FIRST : N := 1.
Definition REST : N := 2.
Definition NIL : N := 3.
Definition trip := (N * N * N)%type.
Definition graph := list trip.
Definition memN (x : N) (l : list N) : bool := existsb (N.eqb x) l.

Definition po_of (g : graph) (s : N) : list (N * N) :=        (* store.predicate_objects(s) *)
  flat_map (fun t => let '(s', p, o) := t in if s' =? s then [(p, o)] else []) g.
Definition value (g : graph) (s p : N) : option N :=           (* Graph.value(s, p): the first object, or None *)
  match filter (fun po => fst po =? p) (po_of g s) with (_, o) :: _ => Some o | [] => None end.
Definition refs (g : graph) (x : N) : N :=                      (* RecursiveSerializer._references[x] *)
  N.of_nat (length (filter (fun t => let '(_, _, o) := t in o =? x) g)).
(* sorted(p for p, o in predicate_objects(l)) == [rdf:first, rdf:rest] *)
Definition cell_ok (g : graph) (l : N) : bool :=
  match map fst (po_of g l) with
  | [p1; p2] => ((p1 =? FIRST) && (p2 =? REST)) || ((p1 =? REST) && (p2 =? FIRST))
  | _ => false
  end.

(* the while loop of isValidList; None = out of fuel *)
Fixpoint walk (g : graph) (ser : list N) (head : N) (fuel : nat) (l : N) (chain : list N) : option bool :=
  if l =? NIL then Some true else
  match fuel with
  | O => None
  | S k =>
    if memN l chain then Some false
    else if negb (l =? head) && (negb (refs g l =? 1) || memN l ser) then Some false
    else if negb (cell_ok g l) then Some false
    else match value g l REST with
         | Some r => walk g ser head k r (l :: chain)
         | None => Some false                      (* unreachable: cell_ok gives an rdf:rest *)
         end
  end.

Definition is_valid_list (g : graph) (ser : list N) (head : N) : option bool :=
  match value g head FIRST with
  | None => Some false
  | Some _ => walk g ser head (S (length g)) head []
  end.

(* doList BEFORE fix commit 0dee69e9: while l_ (truthiness; falsy = the terms whose Python truth value is false):
   -> the (cell, item) pairs written, in order; None = out of fuel *)
Fixpoint do_list_old (g : graph) (falsy : list N) (fuel : nat) (l : N) : option (list (N * N)) :=
  if memN l falsy then Some [] else
  match fuel with
  | O => None
  | S k =>
    let rest := match value g l REST with
                | Some r => do_list_old g falsy k r
                | None => Some []                    (* l_ = None ends the loop *)
                end in
    match value g l FIRST, rest with
    | Some item, Some tl => Some ((l, item) :: tl)
    | None, Some tl => Some tl
    | _, None => None
    end
  end.

(* doList as it is in the tree (fix commit 0dee69e9): while l_ != rdf:nil *)
Fixpoint do_list (g : graph) (fuel : nat) (l : N) : option (list (N * N)) :=
  if l =? NIL then Some [] else
  match fuel with
  | O => None
  | S k =>
    let rest := match value g l REST with
                | Some r => do_list g k r
                | None => Some []
                end in
    match value g l FIRST, rest with
    | Some item, Some tl => Some ((l, item) :: tl)
    | None, Some tl => Some tl
    | _, None => None
    end
  end.

(* suite: the graph, the set already serialised, the falsy terms, the head *)
Record tl_case := { tg : graph; tser : list N; tfalsy : list N; thead : N }.
Definition tl_obs := (option bool * option (list (N * N)))%type.   (* isValidList ; doList when it said True *)
Definition tl_model (c : tl_case) : tl_obs :=
  let v := is_valid_list (tg c) (tser c) (thead c) in
  (v, match v with
      | Some true => do_list (tg c) (S (length (tg c))) (thead c)
      | _ => Some []
      end).
Definition pair_list_eqb (a b : list (N * N)) : bool :=
  Nat.eqb (length a) (length b) && forallb (fun xy => (fst (fst xy) =? fst (snd xy)) && (snd (fst xy) =? snd (snd xy))) (combine a b).
Definition tl_obs_eqb (a b : tl_obs) : bool :=
  match fst a, fst b with Some x, Some y => Bool.eqb x y | None, None => true | _, _ => false end &&
  match snd a, snd b with Some x, Some y => pair_list_eqb x y | None, None => true | _, _ => false end.
(* historical trigger of F15r (rdf:nil has an rdf:rest or rdf:first triple); the finding is repaired, the suite has
   no trigger any more *)
Definition tl_kf_old (c : tl_case) : N :=
  match value (tg c) NIL REST, value (tg c) NIL FIRST with None, None => 0 | _, _ => 1 end.
Definition tl_kf (c : tl_case) : N := 0.
(* the property on this level: both loops end *)
Definition tl_spec (c : tl_case) (o : tl_obs) : bool :=
  match fst o, snd o with Some _, Some _ => true | _, _ => false end.

(* ------------------------------------------------------------ termination of isValidList *)
Definition subjects (g : graph) : list N := map (fun t => fst (fst t)) g.

Lemma po_of_nonempty_subject : forall g l, po_of g l <> [] -> In l (subjects g).
Proof.
  induction g as [|[[s p] o] g IH]; intros l H; [contradiction|].
  cbn [po_of flat_map] in H. cbn [subjects map fst]. destruct (N.eqb_spec s l) as [->|Hne].
  - now left.
  - right. apply IH. exact H.
Qed.

Lemma cell_ok_subject : forall g l, cell_ok g l = true -> In l (subjects g).
Proof.
  intros g l H. apply po_of_nonempty_subject. unfold cell_ok in H. intros E. rewrite E in H. discriminate.
Qed.

Lemma memN_false_notin : forall x l, memN x l = false -> ~ In x l.
Proof.
  intros x l H Hin. unfold memN in H. assert (existsb (N.eqb x) l = true); [|congruence].
  apply existsb_exists. exists x. split; [exact Hin|apply N.eqb_refl].
Qed.

Lemma walk_total : forall g ser head fuel l chain,
  NoDup chain -> incl chain (subjects g) -> (length (subjects g) < fuel + length chain)%nat ->
  walk g ser head fuel l chain <> None.
Proof.
  intros g ser head. induction fuel as [|k IH]; intros l chain Hnd Hinc Hlen.
  - exfalso. pose proof (NoDup_incl_length Hnd Hinc). lia.
  - cbn [walk]. destruct (l =? NIL); [discriminate|].
    destruct (memN l chain) eqn:Hm; [discriminate|].
    destruct (negb (l =? head) && (negb (refs g l =? 1) || memN l ser)); [discriminate|].
    destruct (cell_ok g l) eqn:Hc; [|discriminate]. cbn [negb].
    destruct (value g l REST) as [r|]; [|discriminate].
    apply IH.
    + constructor; [now apply memN_false_notin|exact Hnd].
    + intros x [<-|Hx]; [now apply cell_ok_subject|now apply Hinc].
    + cbn [length]. lia.
Qed.

Theorem is_valid_list_terminates : forall g ser head, is_valid_list g ser head <> None.
Proof.
  intros g ser head. unfold is_valid_list. destruct (value g head FIRST); [|discriminate].
  apply walk_total; [constructor|intros x []|].
  unfold subjects. rewrite map_length. change (length (@nil N)) with 0%nat. rewrite Nat.add_0_r. apply Nat.lt_succ_diag_r.
Qed.

(* ------------------------------------------------------------ what an accepted list looks like *)
(* cells in walking order, l first *)
Inductive chain_to_nil (g : graph) : N -> list N -> Prop :=
| ctn_nil : chain_to_nil g NIL []
| ctn_cons : forall l r cells, l <> NIL -> cell_ok g l = true -> value g l REST = Some r ->
             chain_to_nil g r cells -> chain_to_nil g l (l :: cells).

Lemma memN_true_in : forall x l, memN x l = true -> In x l.
Proof.
  intros x l H. unfold memN in H. apply existsb_exists in H as (y & Hy & E). apply N.eqb_eq in E. now subst.
Qed.

Lemma walk_true_chain : forall g ser head fuel l chain,
  walk g ser head fuel l chain = Some true ->
  exists cells, chain_to_nil g l cells /\ NoDup cells /\ (forall c, In c cells -> ~ In c chain) /\
    forall c, In c cells -> c <> head -> refs g c = 1 /\ memN c ser = false.
Proof.
  intros g ser head. induction fuel as [|k IH]; intros l chain H.
  - cbn [walk] in H. destruct (N.eqb_spec l NIL) as [->|]; [|discriminate].
    exists []. split; [apply ctn_nil|]. split; [constructor|]. split; intros c [].
  - cbn [walk] in H. destruct (N.eqb_spec l NIL) as [->|Hnil].
    + exists []. split; [apply ctn_nil|]. split; [constructor|]. split; intros c [].
    + destruct (memN l chain) eqn:Hm; [discriminate|].
      destruct (negb (l =? head) && (negb (refs g l =? 1) || memN l ser)) eqn:Hc; [discriminate|].
      destruct (cell_ok g l) eqn:Hok; [|discriminate]. cbn [negb] in H.
      destruct (value g l REST) as [r|] eqn:Hr; [|discriminate].
      destruct (IH r (l :: chain) H) as (cells & Hch & Hnd & Hfresh & Hprop).
      exists (l :: cells). split; [|split; [|split]].
      * econstructor; eauto.
      * constructor; [|exact Hnd]. intros Hin. apply (Hfresh l Hin). now left.
      * intros c [<-|Hc'] Hin.
        -- now apply (memN_false_notin _ _ Hm).
        -- apply (Hfresh c Hc'). now right.
      * intros c [<-|Hc'] Hne; [|now apply Hprop].
        apply andb_false_iff in Hc as [Hc|Hc].
        -- apply negb_false_iff, N.eqb_eq in Hc. contradiction.
        -- apply orb_false_iff in Hc as [H1 H2]. apply negb_false_iff, N.eqb_eq in H1. now split.
Qed.

(* an accepted head starts a proper collection: distinct cells, each with exactly its rdf:first and rdf:rest, ending
   in rdf:nil, the inner cells referenced once and not yet written *)
Theorem is_valid_list_sound : forall g ser head, is_valid_list g ser head = Some true ->
  exists cells, chain_to_nil g head cells /\ NoDup cells /\
    forall c, In c cells -> c <> head -> refs g c = 1 /\ memN c ser = false.
Proof.
  intros g ser head H. unfold is_valid_list in H. destruct (value g head FIRST); [|discriminate].
  destruct (walk_true_chain _ _ _ _ _ _ H) as (cells & H1 & H2 & _ & H4). now exists cells.
Qed.

(* a cell that passed the test carries exactly two triples, one rdf:first and one rdf:rest *)
Lemma cell_ok_shape : forall g l, cell_ok g l = true ->
  exists f r, (po_of g l = [(FIRST, f); (REST, r)] \/ po_of g l = [(REST, r); (FIRST, f)]) /\
              value g l FIRST = Some f /\ value g l REST = Some r.
Proof.
  intros g l H. unfold cell_ok in H. unfold value.
  destruct (po_of g l) as [|[p1 o1] [|[p2 o2] [|x q]]]; try discriminate. cbn [map fst] in H.
  apply orb_true_iff in H as [H|H]; apply andb_true_iff in H as [H1 H2]; apply N.eqb_eq in H1, H2; subst.
  - exists o1, o2. split; [now left|]. split; reflexivity.
  - exists o2, o1. split; [now right|]. split; reflexivity.
Qed.

(* ------------------------------------------------------------ doList *)
Lemma do_list_ok : forall g cells l fuel, chain_to_nil g l cells -> (length cells <= fuel)%nat ->
  exists items, do_list g fuel l = Some (combine cells items) /\ length items = length cells /\
    Forall2 (fun c i => value g c FIRST = Some i) cells items.
Proof.
  intros g cells l fuel H. revert fuel. induction H as [|l r cells Hne Hok Hr Hch IH]; intros fuel Hf.
  - exists []. split; [destruct fuel; reflexivity|]. split; [reflexivity|constructor].
  - destruct fuel as [|k]; [cbn [length] in Hf; lia|].
    destruct (IH k) as (items & Hd & Hl & Hall); [cbn [length] in Hf; lia|].
    destruct (cell_ok_shape g l Hok) as (f & r' & _ & Hf1 & Hr'). 
    exists (f :: items). cbn [do_list]. apply N.eqb_neq in Hne. rewrite Hne, Hr, Hd, Hf1.
    split; [reflexivity|]. split; [cbn [length]; now rewrite Hl|]. now constructor.
Qed.

(* the loop in the tree ("while l_:") does the same provided rdf:nil has neither rdf:first nor rdf:rest and no
   cell is a term whose truth value is false *)
Lemma do_list_old_ok : forall g falsy cells l fuel, chain_to_nil g l cells ->
  value g NIL REST = None -> value g NIL FIRST = None -> memN NIL falsy = false ->
  (forall c, In c cells -> memN c falsy = false) -> (length cells < fuel)%nat ->
  exists items, do_list_old g falsy fuel l = Some (combine cells items) /\ length items = length cells /\
    Forall2 (fun c i => value g c FIRST = Some i) cells items.
Proof.
  intros g falsy cells l fuel H Hnr Hnf Hnt. revert fuel.
  induction H as [|l r cells Hne Hok Hr Hch IH]; intros fuel Hfalsy Hf.
  - exists []. split; [|split; [reflexivity|constructor]].
    destruct fuel as [|k]; [cbn [length] in Hf; lia|]. cbn [do_list_old]. now rewrite Hnt, Hnr, Hnf.
  - destruct fuel as [|k]; [cbn [length] in Hf; lia|].
    destruct (IH k) as (items & Hd & Hl & Hall);
      [intros c Hc; apply Hfalsy; now right|cbn [length] in Hf; lia|].
    destruct (cell_ok_shape g l Hok) as (f & r' & _ & Hf1 & Hr').
    exists (f :: items). cbn [do_list_old]. rewrite (Hfalsy l (or_introl eq_refl)), Hr, Hd, Hf1.
    split; [reflexivity|]. split; [cbn [length]; now rewrite Hl|]. now constructor.
Qed.

Lemma chain_length : forall g l cells, chain_to_nil g l cells -> NoDup cells -> (length cells <= length g)%nat.
Proof.
  intros g l cells H Hnd. assert (E : length g = length (subjects g)) by (unfold subjects; now rewrite map_length).
  rewrite E. apply NoDup_incl_length; [exact Hnd|]. clear Hnd. induction H as [|l r cells Hne Hok Hr Hch IH].
  - intros x [].
  - intros x [<-|Hx]; [now apply cell_ok_subject|now apply IH].
Qed.

(* the suite's statement: both loops end, on every graph *)
Theorem tl_spec_model : forall c, tl_spec c (tl_model c) = true.
Proof.
  intros c. unfold tl_spec, tl_model.
  pose proof (is_valid_list_terminates (tg c) (tser c) (thead c)) as Ht.
  destruct (is_valid_list (tg c) (tser c) (thead c)) as [[|]|] eqn:Hv; try reflexivity; [|contradiction].
  cbn [fst snd].
  destruct (is_valid_list_sound _ _ _ Hv) as (cells & Hch & Hnd & _).
  destruct (do_list_ok (tg c) cells (thead c) (S (length (tg c))) Hch) as (items & Hd & _).
  - pose proof (chain_length _ _ _ Hch Hnd). lia.
  - now rewrite Hd.
Qed.

(* ------------------------------------------------------------ F15r (historical): the old doList could run forever *)
Definition w_f15r : graph := [(3, 1, 10); (3, 2, 20); (20, 1, 11); (20, 2, 3)].

Lemma do_list_old_S : forall g falsy k l,
  do_list_old g falsy (S k) l =
  if memN l falsy then Some [] else
    match value g l FIRST, match value g l REST with Some r => do_list_old g falsy k r | None => Some [] end with
    | Some item, Some tl => Some ((l, item) :: tl)
    | None, Some tl => Some tl
    | _, None => None
    end.
Proof. reflexivity. Qed.

Lemma f15r_do_list_old_never_ends : forall fuel, do_list_old w_f15r [] fuel 20 = None /\ do_list_old w_f15r [] fuel 3 = None.
Proof.
  induction fuel as [|k [IH1 IH2]]; [split; reflexivity|].
  split.
  - rewrite do_list_old_S. change (value w_f15r 20 REST) with (Some 3). cbv iota beta. rewrite IH2. reflexivity.
  - rewrite do_list_old_S. change (value w_f15r 3 REST) with (Some 20). cbv iota beta. rewrite IH1. reflexivity.
Qed.

Theorem f15r_refuted :
  is_valid_list w_f15r [] 20 = Some true /\ (forall fuel, do_list_old w_f15r [] fuel 20 = None) /\
  tl_kf_old {| tg := w_f15r; tser := []; tfalsy := []; thead := 20 |} = 1 /\
  exists r, do_list w_f15r 5 20 = Some r.
Proof.
  split; [reflexivity|]. split; [intros fuel; apply f15r_do_list_old_never_ends|]. split; [reflexivity|]. eexists. reflexivity.
Qed.
